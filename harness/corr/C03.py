"""C03 — graph-library round trips are faithful and the backends agree.

Implementation under test: geff.write / geff.read / geff.construct, NxBackend, RxBackend, SgBackend,
their graph adapters, and write_dicts / dict_props_to_arr / _determine_default_value.

Three independent parties are compared on every generated case:

* the **implementation** (real stores, real graph libraries), observed as an *abstract attribute
  graph*: node ids, edges, directedness and per element the dict of present attributes, every
  value canonicalised to one of the five kinds bool | int | float | str | array (floats as bit
  patterns, numpy scalars and Python scalars identified);
* the **specification oracle** `diff_graphs` (pure Python, below): the observed graph must be the
  graph that was written — it knows nothing about how geff works;
* the **Lean model** (`lean/GeffModel/Dicts.lean`, through `Drivers/C03.lean`): write_dicts,
  dict_props_to_arr, the three `construct`s and the rustworkx / spatial-graph `write` front ends,
  compared function by function with the implementation's intermediate values.

A spec failure is `ck.fail` (VIOLATION or KNOWN-FINDING); a model/implementation disagreement is
`ck.corr_broken`.
"""
from __future__ import annotations

import itertools
import json
import struct
import warnings

import numpy as np

from harness import common

PROP = "C03"
TWO63 = 2 ** 63
TWO64 = 2 ** 64


# ============================================================================ value codec
def f2h(x) -> str:
    return struct.pack("<d", float(x)).hex()


def h2f(h: str) -> float:
    return struct.unpack("<d", bytes.fromhex(h))[0]


def _rect(x):
    """(shape, leaves) of a rectangular nested list/tuple; None when it is not rectangular"""
    if isinstance(x, np.ndarray):
        return list(x.shape), list(x.ravel().tolist())
    if not isinstance(x, (list, tuple)):
        return [], [x]
    subs = [_rect(e) for e in x]
    if any(s is None for s in subs):
        return None
    if not subs:
        return [0], []
    sh0 = subs[0][0]
    if any(s[0] != sh0 for s in subs):
        return None
    leaves = []
    for s in subs:
        leaves.extend(s[1])
    return [len(x), *sh0], leaves


LAYOUTS = ["C", "F", "T", "strided", "neg", "swapped", "readonly"]


def lay(a, how):
    """the same logical array in another MEMORY LAYOUT: Fortran order, transposed view, strided slice
    of a larger buffer, negative strides, non-native byte order, read-only"""
    a = np.asarray(a)
    if how == "F":
        return np.asfortranarray(a)
    if how == "T":
        return np.ascontiguousarray(a.T).T
    if how == "strided":
        big = np.zeros(tuple(2 * d for d in a.shape), dtype=a.dtype)
        v = big[tuple(slice(None, None, 2) for _ in a.shape)]
        v[...] = a
        return v
    if how == "neg":
        rev = tuple(slice(None, None, -1) for _ in a.shape)
        return np.ascontiguousarray(a[rev])[rev]
    if how == "swapped":
        return a.astype(a.dtype.newbyteorder())
    if how == "readonly":
        b = np.array(a, copy=True)
        b.setflags(write=False)
        return b
    return np.ascontiguousarray(a)


def enc(x):
    """canonical tagged form of a Python / numpy attribute value"""
    if x is None:
        return ["z"]
    if isinstance(x, (bool, np.bool_)):
        return ["b", bool(x)]
    if isinstance(x, (int, np.integer)):
        return ["i", str(int(x))]
    if isinstance(x, (float, np.floating)):
        return ["f", f2h(x)]
    if isinstance(x, (str, np.str_)):
        return ["s", str(x)]
    if isinstance(x, (list, tuple, np.ndarray)):
        r = _rect(x)
        if r is None:
            return ["?", "non-rectangular"]
        return ["a", [int(d) for d in r[0]], [enc(v) for v in r[1]]]
    return ["?", type(x).__name__]


def _unflatten(shape, leaves):
    if not shape:
        return leaves[0]
    if len(shape) == 1:
        return list(leaves)
    step = 1
    for d in shape[1:]:
        step *= d
    return [_unflatten(shape[1:], leaves[i * step:(i + 1) * step]) for i in range(shape[0])]


def dec(t):
    """Python value (plain scalars and nested lists) of a tagged value"""
    k = t[0]
    if k == "z":
        return None
    if k == "b":
        return bool(t[1])
    if k == "i":
        return int(t[1])
    if k == "f":
        return h2f(t[1])
    if k == "s":
        return t[1]
    if k == "a":
        return _unflatten(t[1], [dec(v) for v in t[2]])
    if k == "n":  # numpy scalar: ["n", dtype, tagged]
        return np.dtype(t[1]).type(dec(t[2]))
    if k == "A":  # numpy array in a given memory layout: ["A", layout, dtype, shape, leaves]
        return lay(np.array([dec(v) for v in t[4]], dtype=t[2]).reshape(t[3]), t[1])
    raise ValueError(t)


def kind_of(t):
    return {"b": "bool", "i": "int", "f": "float", "s": "str", "a": "array"}.get(t[0], "?")


# ============================================================================ abstract graphs
# G = {"directed": bool, "nodes": [[id_str, {name: tagged}], ...], "edges": [[[u_str, v_str], {name: tagged}], ...]}
def canon(G):
    """order-insensitive canonical form (undirected edges as sorted pairs)"""
    d = bool(G["directed"])
    nodes = sorted(([str(int(i)), dict(sorted(a.items()))] for i, a in G["nodes"]), key=lambda p: int(p[0]))
    edges = []
    for (u, v), a in G["edges"]:
        u, v = int(u), int(v)
        if not d and u > v:
            u, v = v, u
        edges.append([[str(u), str(v)], dict(sorted(a.items()))])
    edges.sort(key=lambda p: (int(p[0][0]), int(p[0][1]), json.dumps(p[1], sort_keys=True)))
    return {"directed": d, "nodes": nodes, "edges": edges}


def _diff_attrs(where, exp, obs, out):
    for name in sorted(set(exp) | set(obs)):
        if name not in obs:
            out.append(("present-lost", f"{where}: attribute {name!r} was present and is gone"))
        elif name not in exp:
            out.append(("absent-shown", f"{where}: attribute {name!r} was absent and now shows {obs[name]}"))
        else:
            e, o = exp[name], obs[name]
            if e == o:
                continue
            if e[0] != o[0]:
                out.append(("kind", f"{where}: attribute {name!r} kind {kind_of(e)} -> {kind_of(o)} ({e} -> {o})"))
            elif e[0] == "a" and e[1] != o[1]:
                out.append(("shape", f"{where}: attribute {name!r} shape {e[1]} -> {o[1]}"))
            elif e[0] == "a" and [x[0] for x in e[2]] != [x[0] for x in o[2]]:
                out.append(("leaf-kind", f"{where}: attribute {name!r} element kinds changed ({e[2][:3]} -> {o[2][:3]})"))
            else:
                out.append(("value", f"{where}: attribute {name!r} value {e} -> {o}"))


def norm_value(t):
    """numpy-scalar inputs (["n", dtype, v]) denote the Python value of the same kind"""
    return enc(dec(t)) if t[0] in ("n", "A") else t  # enc of an ndarray is logical: C-order tolist()


def model_view(G):
    """the graph as the (layout-free) Lean model sees it: arrays by shape and C-order leaves"""
    def attrs(a):
        return {k: (norm_value(v) if v[0] == "A" else v) for k, v in a.items()}
    return {"directed": G["directed"], "nodes": [[i, attrs(a)] for i, a in G["nodes"]],
            "edges": [[list(e), attrs(a)] for e, a in G["edges"]]}


def norm_graph(G):
    """the attribute graph a written graph denotes: numpy scalars are their Python values; an
    attribute holding None (admitted next to list values only) is a missing value — the documented
    convention of construct_var_len_props, honoured by dict_props_to_arr since repair C03-06"""
    def attrs(a):
        return {k: norm_value(v) for k, v in a.items() if v[0] != "z"}
    return {"directed": G["directed"],
            "nodes": [[i, attrs(a)] for i, a in G["nodes"]],
            "edges": [[list(e), attrs(a)] for e, a in G["edges"]]}


def diff_graphs(exp, obs):
    """SPECIFICATION (property C03): `obs` must be the attribute graph `exp` — same ids, same edges
    (unordered when undirected), same directedness, per element the same set of present attributes
    with equal value and kind.  Returns the list of (class, text) differences; [] = conforms."""
    e, o = canon(norm_graph(exp)), canon(obs)
    out = []
    if e["directed"] != o["directed"]:
        out.append(("directedness", f"directed {e['directed']} -> {o['directed']}"))
    en, on = [n[0] for n in e["nodes"]], [n[0] for n in o["nodes"]]
    if en != on:
        out.append(("node-ids", f"node ids {en} -> {on}"))
    ee, oe = [x[0] for x in e["edges"]], [x[0] for x in o["edges"]]
    if ee != oe:
        out.append(("edges", f"edges {ee} -> {oe}"))
    if not out:
        for (i, a), (_, b) in zip(e["nodes"], o["nodes"]):
            _diff_attrs(f"node {i}", a, b, out)
        for (k, a), (_, b) in zip(e["edges"], o["edges"]):
            _diff_attrs(f"edge {k}", a, b, out)
    return out


# ============================================================================ backends: build / observe
def build_nx(G):
    import networkx as nx

    g = nx.DiGraph() if G["directed"] else nx.Graph()
    for i, a in G["nodes"]:
        g.add_node(int(i))
        g.nodes[int(i)].update({k: dec(v) for k, v in a.items()})
    for (u, v), a in G["edges"]:
        g.add_edge(int(u), int(v))
        g.edges[int(u), int(v)].update({k: dec(w) for k, w in a.items()})
    return g


def obs_nx(g):
    return {"directed": bool(g.is_directed()),
            "nodes": [[str(int(i)), {k: enc(v) for k, v in a.items()}] for i, a in g.nodes(data=True)],
            "edges": [[[str(int(u)), str(int(v))], {k: enc(w) for k, w in a.items()}] for u, v, a in g.edges(data=True)]}


def rx_layout(G, layout):
    """rustworkx index of every node of G: explicit id map => increasing slots with holes,
    otherwise index == id (holes wherever an id is unused)"""
    ids = [int(i) for i, _ in G["nodes"]]
    if layout.get("id_map"):
        holes = set(layout.get("holes", []))
        idx, cur = [], 0
        for _ in ids:
            while cur in holes:
                cur += 1
            idx.append(cur)
            cur += 1
        return dict(zip(ids, idx))
    return {i: i for i in ids}


def build_rx(G, layout):
    """-> (graph, node_id_dict | None).  Slots that carry no node are created and removed (holes)."""
    import rustworkx as rx

    g = rx.PyDiGraph() if G["directed"] else rx.PyGraph()
    pos = rx_layout(G, layout)
    attrs = {int(i): a for i, a in G["nodes"]}
    inv = {p: i for i, p in pos.items()}
    nslots = (max(inv) + 1) if inv else 0
    nslots += int(layout.get("trailing_holes", 0))
    for s in range(nslots):
        g.add_node({k: dec(v) for k, v in attrs[inv[s]].items()} if s in inv else {"__hole__": 1})
    for s in range(nslots):
        if s not in inv:
            g.remove_node(s)
    for (u, v), a in G["edges"]:
        g.add_edge(pos[int(u)], pos[int(v)], {k: dec(w) for k, w in a.items()})
    nid = None
    if layout.get("id_map"):
        nid = {p: i for i, p in pos.items()}
        for extra in layout.get("extra_map", []):  # entries for indices that hold no node: harmless
            nid.setdefault(int(extra), 999)
    return g, nid


def obs_rx(g, index_to_id):
    """observe a rustworkx graph; `index_to_id` maps rx indices to geff ids (None = identity)"""
    import rustworkx as rx

    f = (lambda i: i) if index_to_id is None else (lambda i: index_to_id[i])
    return {"directed": isinstance(g, rx.PyDiGraph),
            "nodes": [[str(int(f(i))), {k: enc(v) for k, v in g[i].items()}] for i in g.node_indices()],
            "edges": [[[str(int(f(u))), str(int(f(v)))], {k: enc(w) for k, w in a.items()}]
                      for u, v, a in g.weighted_edge_list()]}


def obs_adapter(adapter, md, node_names, edge_names):
    """observe any backend graph only through its GraphAdapter"""
    nodes, edges = [], []
    for i in adapter.get_node_ids():
        a = {}
        for n in node_names:
            if adapter.has_node_prop(n, i, md):
                a[n] = enc(adapter.get_node_prop(n, i, md))
        nodes.append([str(int(i)), a])
    for e in adapter.get_edge_ids():
        e = (int(e[0]), int(e[1]))
        a = {}
        for n in edge_names:
            if adapter.has_edge_prop(n, e, md):
                a[n] = enc(adapter.get_edge_prop(n, e, md))
        edges.append([[str(e[0]), str(e[1])], a])
    return {"directed": bool(md.directed), "nodes": nodes, "edges": edges}


SG_DT = {"f64": "float64", "f32": "float32", "i64": "int64", "i16": "int16", "u8": "uint8", "u64": "uint64", "i32": "int32"}


def build_sg(S):
    """S = {"directed", "ndims", "node_dtype", "pos_dtype", "axes":[names], "nodes":[[id, [pos…], {name: tagged}]],
            "node_attrs": {name: dtype}, "edge_attrs": {name: dtype}, "edges": [[[u,v], {name: tagged}]]}"""
    import spatial_graph as sg

    nad = {k: v for k, v in S["node_attrs"].items()}
    nad["position"] = f"{S['pos_dtype']}[{S['ndims']}]"
    g = sg.create_graph(ndims=S["ndims"], node_dtype=S["node_dtype"], node_attr_dtypes=nad,
                        edge_attr_dtypes=dict(S["edge_attrs"]), position_attr="position", directed=S["directed"])
    if S["nodes"]:
        ids = np.array([int(n[0]) for n in S["nodes"]], dtype=S["node_dtype"])
        kw = {"position": np.array([[dec(c) for c in n[1]] for n in S["nodes"]], dtype=S["pos_dtype"]).reshape(len(ids), S["ndims"])}
        for k, dt in S["node_attrs"].items():
            kw[k] = np.array([dec(n[2][k]) for n in S["nodes"]], dtype=dt)
        g.add_nodes(ids, **kw)
        if S["edges"]:
            ekw = {k: np.array([dec(e[1][k]) for e in S["edges"]], dtype=dt) for k, dt in S["edge_attrs"].items()}
            g.add_edges(np.array([[int(e[0][0]), int(e[0][1])] for e in S["edges"]], dtype=S["node_dtype"]), **ekw)
    return g


def sg_as_graph(S):
    """the abstract attribute graph an sg case denotes (axes unsquished)"""
    nodes = []
    for n in S["nodes"]:
        a = {ax: n[1][k] for k, ax in enumerate(S["axes"])}
        a.update(n[2])
        nodes.append([n[0], a])
    return {"directed": S["directed"], "nodes": nodes, "edges": [[e[0], dict(e[1])] for e in S["edges"]]}


def obs_sg(g, axes):
    nodes, edges = [], []
    ids = g.nodes
    if len(ids):
        view = g.node_attrs[ids]
        cols = {}
        for name in g.node_attr_dtypes:
            arr = getattr(view, name)
            if name == g.position_attr:
                for k, ax in enumerate(axes):
                    cols[ax] = arr[:, k]
            else:
                cols[name] = arr
        for r, i in enumerate(ids.tolist()):
            nodes.append([str(int(i)), {k: enc(c[r]) for k, c in cols.items()}])
    es = g.edges
    if len(es):
        view = g.edge_attrs[es]
        cols = {name: getattr(view, name) for name in g.edge_attr_dtypes}
        for r, e in enumerate(es.tolist()):
            edges.append([[str(int(e[0])), str(int(e[1]))], {k: enc(c[r]) for k, c in cols.items()}])
    return {"directed": bool(g.directed), "nodes": nodes, "edges": edges}


# ============================================================================ in-memory geff <-> JSON
# M = {"directed", "id_dtype", "node_ids":[str], "edge_ids":[[u,v]], "axes": [names]|None,
#      "node_props": {name: P}, "edge_props": {name: P}}
# P = {"dtype": numpy name ("str" for unicode), "varlen": bool, "rows": [[shape, [tagged leaves]], …], "missing": None|[bool]}
def _dtype_name(dt):
    return "str" if dt.kind == "U" else dt.name


def enc_prop(p):
    v, m = p["values"], p["missing"]
    if v.dtype == object:
        rows, dts = [], set()
        for el in v:
            el = np.asarray(el)
            dts.add(_dtype_name(el.dtype))
            rows.append([list(el.shape), [enc(x) for x in el.ravel().tolist()]])
        dt = dts.pop() if len(dts) == 1 else ("none" if not dts else "mixed:" + ",".join(sorted(dts)))
        return {"dtype": dt, "varlen": True, "rows": rows, "missing": None if m is None else [bool(x) for x in m]}
    rows = [[list(v.shape[1:]), [enc(x) for x in np.asarray(v[i]).ravel().tolist()]] for i in range(v.shape[0])]
    return {"dtype": _dtype_name(v.dtype), "varlen": False, "rows": rows, "missing": None if m is None else [bool(x) for x in m]}


def enc_mem(m):
    md = m["metadata"]
    return {"directed": bool(md.directed), "id_dtype": m["node_ids"].dtype.name,
            "node_ids": [str(int(x)) for x in m["node_ids"].tolist()],
            "edge_ids": [[str(int(a)), str(int(b))] for a, b in m["edge_ids"].tolist()],
            "axes": None if md.axes is None else [a.name for a in md.axes],
            "node_props": {k: enc_prop(p) for k, p in sorted(m["node_props"].items())},
            "edge_props": {k: enc_prop(p) for k, p in sorted(m["edge_props"].items())}}


def dec_prop(P, n):
    if P["dtype"] == "str":
        w = max([len(x[1]) for r in P["rows"] for x in r[1]] + [1])
        dt = np.dtype(f"U{w}")
    else:
        dt = np.dtype(P["dtype"])
    how = P.get("layout", "C")
    if P["varlen"]:
        v = np.empty((n,), dtype=object)
        for i, (sh, lv) in enumerate(P["rows"]):
            v[i] = lay(np.array([dec(x) for x in lv], dtype=dt).reshape(sh), how)
    else:
        sh = P["rows"][0][0] if P["rows"] else P.get("elem_shape", [])
        flat = [dec(x) for r in P["rows"] for x in r[1]]
        v = lay(np.array(flat, dtype=dt).reshape([n, *sh]), how)
    return {"values": v, "missing": None if P["missing"] is None else np.array(P["missing"], dtype=bool)}


def dec_mem(M):
    import geff_spec

    n, e = len(M["node_ids"]), len(M["edge_ids"])
    axes = None if M.get("axes") is None else [geff_spec.Axis(name=a) for a in M["axes"]]
    md = geff_spec.GeffMetadata(geff_version="1.0.0", directed=M["directed"], axes=axes,
                                node_props_metadata={}, edge_props_metadata={})
    return {"metadata": md,
            "node_ids": np.array([int(x) for x in M["node_ids"]], dtype=M["id_dtype"]),
            "edge_ids": np.array([[int(a), int(b)] for a, b in M["edge_ids"]], dtype=M["id_dtype"]).reshape(e, 2),
            "node_props": {k: dec_prop(P, n) for k, P in M["node_props"].items()},
            "edge_props": {k: dec_prop(P, e) for k, P in M["edge_props"].items()}}


def row_value(P, i):
    """the attribute value element i of property P denotes (what every backend must show)"""
    sh, lv = P["rows"][i]
    if not sh and not P["varlen"]:
        return lv[0]
    return ["a", sh, lv]


def mem_as_graph(M, ignore_missing=False):
    """SPECIFICATION of an in-memory geff: element i has property p iff it is not marked missing"""
    def attrs(props, i):
        return {k: row_value(P, i) for k, P in props.items()
                if ignore_missing or P["missing"] is None or not P["missing"][i]}
    return {"directed": M["directed"],
            "nodes": [[x, attrs(M["node_props"], i)] for i, x in enumerate(M["node_ids"])],
            "edges": [[list(e), attrs(M["edge_props"], i)] for i, e in enumerate(M["edge_ids"])]}


# ============================================================================ running the implementation
def _exc(e):
    return {"exc": type(e).__name__, "msg": str(e)[:160]}


def _prop_names(G):
    return (sorted({k for _, a in G["nodes"] for k in a}), sorted({k for _, a in G["edges"] for k in a}))


def impl_roundtrip(case):
    """write G with backend `writer`, read it back with every backend; everything observed abstractly"""
    import zarr

    import geff
    from geff._graph_libs._api_wrapper import get_backend
    from geff.core_io import read_to_memory

    warnings.simplefilter("ignore")
    G, writer, fmt = case["G"], case["writer"], case["fmt"]
    out = {"reads": {}, "adapters": {}}
    store = zarr.storage.MemoryStore()

    def write_graph(G, writer, layout, store, axes, md):
        kw = {"axis_names": list(axes)} if axes else {}
        if md is not None:
            kw["metadata"] = md
        if writer == "nx":
            geff.write(build_nx(G), store, zarr_format=fmt, **kw)
        elif writer == "rx":
            g, nid = build_rx(G, layout)
            for k in layout.get("drop_map", []):  # malformed: an index without an id
                nid.pop(sorted(nid)[k % len(nid)], None) if nid else None
            if nid is None:
                geff.write(g, store, zarr_format=fmt, **kw)
            else:
                geff.write(g, store, zarr_format=fmt, node_id_dict=nid, **kw)
        else:
            raise AssertionError(writer)

    try:
        # the HISTORY of the metadata object handed to the final write: earlier graphs (of the other
        # class) written and read back, each write receiving the metadata returned by the read before
        md = None
        for h in case.get("history", []):
            st = zarr.storage.MemoryStore()
            write_graph(h["G"], h["writer"], h.get("layout", {}), st, h.get("axes"), md)
            _, md = geff.read(st, backend={"nx": "networkx", "rx": "rustworkx"}[h["reader"]])
        spec = case.get("md")
        if spec and spec.get("kind") == "fresh":  # a fresh metadata object that may disagree with the graph class
            import geff_spec

            md = geff_spec.GeffMetadata(directed=bool(spec["directed"]), node_props_metadata={}, edge_props_metadata={})
        write_graph(G, writer, case.get("layout", {}), store, case.get("axes"), md)
    except Exception as e:  # noqa: BLE001
        out["write"] = _exc(e)
        return out
    out["write"] = "ok"
    try:
        out["mem"] = enc_mem(read_to_memory(store))
    except Exception as e:  # noqa: BLE001
        out["mem"] = _exc(e)
    nn, en = _prop_names(G)
    for reader in case.get("readers", ["nx", "rx"]):
        name = {"nx": "networkx", "rx": "rustworkx", "sg": "spatial-graph"}[reader]
        try:
            g2, md = geff.read(store, backend=name)
            if reader == "nx":
                out["reads"][reader] = obs_nx(g2)
            elif reader == "rx":
                inv = {v: k for k, v in g2.attrs["to_rx_id_map"].items()}
                out["reads"][reader] = obs_rx(g2, inv)
            else:
                out["reads"][reader] = obs_sg(g2, [a.name for a in (md.axes or [])])
            try:
                ad = get_backend(name).graph_adapter(g2)
                out["adapters"][reader] = obs_adapter(ad, md, nn, en)
            except Exception as e:  # noqa: BLE001
                out["adapters"][reader] = _exc(e)
        except Exception as e:  # noqa: BLE001
            out["reads"][reader] = _exc(e)
    return out


def impl_construct(case):
    """construct one in-memory geff through every backend"""
    import geff
    from geff._graph_libs._api_wrapper import get_backend

    warnings.simplefilter("ignore")
    M = case["M"]
    out = {"graphs": {}, "adapters": {}}
    nn, en = sorted(M["node_props"]), sorted(M["edge_props"])
    for b in case["backends"]:
        name = {"nx": "networkx", "rx": "rustworkx", "sg": "spatial-graph"}[b]
        try:
            m = dec_mem(M)
            g = geff.construct(**m, backend=name)
            if b == "nx":
                out["graphs"][b] = obs_nx(g)
            elif b == "rx":
                mp = g.attrs["to_rx_id_map"]
                out["rx_raw"] = {"map": sorted([str(int(k)), int(v)] for k, v in mp.items()),
                                 "raw": obs_rx(g, None)}
                inv = {v: k for k, v in mp.items()}
                if set(inv) >= set(g.node_indices()):
                    out["graphs"][b] = obs_rx(g, inv)
                else:  # duplicate geff ids (invalid geff): some index has no id; only the raw view exists
                    out["graphs"][b] = {"unobservable": "to_rx_id_map is not onto the node indices"}
            else:
                out["graphs"][b] = obs_sg(g, M["axes"] or [])
            try:
                out["adapters"][b] = obs_adapter(get_backend(name).graph_adapter(g), m["metadata"], nn, en)
            except Exception as e:  # noqa: BLE001
                out["adapters"][b] = _exc(e)
        except Exception as e:  # noqa: BLE001
            out["graphs"][b] = _exc(e)
    return out


def impl_sg_roundtrip(case):
    """spatial-graph graph -> geff -> every backend"""
    import zarr

    import geff
    from geff.core_io import read_to_memory

    warnings.simplefilter("ignore")
    S, fmt = case["S"], case["fmt"]
    out = {"reads": {}}
    store = zarr.storage.MemoryStore()
    try:
        g = build_sg(S)
        out["built"] = obs_sg(g, S["axes"])
        kw = {}
        if case.get("md_fresh"):
            import geff_spec

            kw["metadata"] = geff_spec.GeffMetadata(directed=not S["directed"], node_props_metadata={}, edge_props_metadata={})
        geff.write(g, store, axis_names=list(S["axes"]), zarr_format=fmt, **kw)
    except Exception as e:  # noqa: BLE001
        out["write"] = _exc(e)
        return out
    out["write"] = "ok"
    try:
        out["mem"] = enc_mem(read_to_memory(store))
    except Exception as e:  # noqa: BLE001
        out["mem"] = _exc(e)
    for reader in case.get("readers", ["sg", "nx", "rx"]):
        try:
            g2, md = geff.read(store, backend={"nx": "networkx", "rx": "rustworkx", "sg": "spatial-graph"}[reader])
            if reader == "nx":
                out["reads"][reader] = obs_nx(g2)
            elif reader == "rx":
                out["reads"][reader] = obs_rx(g2, {v: k for k, v in g2.attrs["to_rx_id_map"].items()})
            else:
                out["reads"][reader] = obs_sg(g2, [a.name for a in md.axes])
        except Exception as e:  # noqa: BLE001
            out["reads"][reader] = _exc(e)
    return out


def impl_dict_props(case):
    """dict_props_to_arr / write_dicts' id handling called directly (function-level tie)"""
    from geff.core_io import _base_write as bw

    warnings.simplefilter("ignore")
    data = [(int(i), {k: dec(v) for k, v in a.items()}) for i, a in case["data"]]
    try:
        r = bw.dict_props_to_arr(data, case["names"])
        return {"props": {k: enc_prop(p) for k, p in r.items()}}
    except Exception as e:  # noqa: BLE001
        return _exc(e)


# ============================================================================ generators
FLOATS = [0.0, -0.0, 1.5, -2.25, 1e300, 5e-324, float("inf"), float("-inf"), float("nan"), 3.0, 0.1]
STRS = ["", "a", "bc", "é☃", "long string value", " x ", "0", "True"]
SMALL_INTS = [0, 1, -1, 7, -2 ** 63, 2 ** 63 - 1, 2 ** 31, 255, -300]
BIG_INTS = [2 ** 63, 2 ** 63 + 1, 2 ** 64 - 1, 2 ** 63 + 2 ** 40 + 1]
SCALAR_KINDS = ["bool", "int", "bigint", "float", "str"]
KINDS = [*SCALAR_KINDS, "mixint", "list", "list2d", "ragged", "ragged2d"]


def leaf(rng, lk, narrow_str=False):
    if lk == "bool":
        return ["b", rng.random() < 0.5]
    if lk == "int":
        return ["i", str(rng.choice(SMALL_INTS))]
    if lk == "bigint":
        return ["i", str(rng.choice(BIG_INTS))]
    if lk == "float":
        return ["f", f2h(rng.choice(FLOATS))]
    if lk == "str":
        return ["s", rng.choice(["a", "b", "é", "z"]) if narrow_str else rng.choice(STRS)]
    raise ValueError(lk)


def gen_values(rng, kind, k):
    """k tagged values of one property of kind `kind` (all of one kind: the documented domain)"""
    if kind in ("bool", "int", "bigint", "float", "str"):
        return [leaf(rng, kind) for _ in range(k)]
    if kind == "npscalar":  # numpy scalars: same five kinds, other dtypes (oracle only: the model has Python scalars)
        dt = rng.choice(["int16", "uint8", "int64", "uint64", "float32", "float64", "bool"])
        out = []
        for _ in range(k):
            if dt == "bool":
                out.append(["n", dt, ["b", rng.random() < 0.5]])
            elif dt.startswith("float"):
                out.append(["n", dt, ["f", f2h(np.dtype(dt).type(rng.choice(FINITE + [float("nan"), float("inf")])))]])
            else:
                info = np.iinfo(np.dtype(dt))
                out.append(["n", dt, ["i", str(rng.choice([info.min, info.max, 0, 1, 7]))]])
        return out
    if kind == "mixint":  # non-negative ints on both sides of 2^63 (D21)
        vals = [["i", str(rng.choice(BIG_INTS))], ["i", str(rng.choice([0, 5, 2 ** 62]))]]
        vals += [["i", str(rng.choice(BIG_INTS + [3, 0]))] for _ in range(k)]
        rng.shuffle(vals)
        return vals[:k]
    lk = rng.choice(["bool", "int", "float", "str", "int", "float"])
    if kind == "list":
        n = rng.choice([0, 1, 2, 3])
        return [["a", [n], [leaf(rng, lk) for _ in range(n)]] for _ in range(k)]
    if kind == "list2d":
        sh = rng.choice([[1, 2], [2, 2], [2, 1], [2, 0]])
        return [["a", sh, [leaf(rng, lk) for _ in range(sh[0] * sh[1])]] for _ in range(k)]
    if kind == "ragged":
        lo = 0 if lk == "float" else 1  # an empty Python list has no element type of its own (numpy: float64)
        lens = [rng.choice(range(lo, 4)) for _ in range(k)]
        if k >= 2 and len(set(lens)) == 1:
            lens[-1] = lens[0] + 1
        return [["a", [n], [leaf(rng, lk, narrow_str=True) for _ in range(n)]] for n in lens]
    if kind == "ragged2d":
        lens = [rng.choice([1, 2, 3]) for _ in range(k)]
        if k >= 2 and len(set(lens)) == 1:
            lens[-1] = lens[0] + 1
        return [["a", [n, 2], [leaf(rng, lk, narrow_str=True) for _ in range(2 * n)]] for n in lens]
    raise ValueError(kind)


ID_SETS = {
    "small": [0, 1, 2, 3, 4],
    "sparse": [7, 3, 40, 12, 5],
    "around63": [5, 2 ** 63, 7, 2 ** 64 - 1, 2 ** 63 + 1],       # D18
    "large": [2 ** 63 + 1, 2 ** 64 - 1, 2 ** 63, 2 ** 64 - 2, 2 ** 63 + 5],
    "below63": [2 ** 63 - 1, 0, 2 ** 62, 2 ** 53 + 1, 9],
}
EDGE_PATTERNS = [[], [(0, 1)], [(1, 0)], [(0, 0)], [(0, 1), (1, 2)], [(2, 1), (0, 2)], [(0, 1), (1, 2), (2, 0)],
                 [(0, 1), (0, 2), (1, 1)], [(2, 0), (1, 0), (2, 1)]]


def gen_exhaustive(rng, idsets=("small", "sparse", "around63", "large"), quick=False):
    """<=3 nodes / <=3 edges x presence subsets x kinds (node sweep and edge sweep)"""
    out = []
    for idset in idsets:
        for n in range(0, 4):
            ids = [str(x) for x in ID_SETS[idset][:n]]
            for kind in KINDS:
                for mask in range(2 ** n):
                    k = bin(mask).count("1")
                    if idset != "small" and kind not in ("bool", "int", "ragged") and n == 3 and mask not in (0, 5, 7):
                        continue
                    vals = iter(gen_values(rng, kind, k))
                    nodes = [[x, ({"p": next(vals)} if mask >> i & 1 else {})] for i, x in enumerate(ids)]
                    for directed in (True, False):
                        pat = EDGE_PATTERNS[(mask + n) % len(EDGE_PATTERNS)]
                        edges = [[[ids[a], ids[b]], {}] for a, b in pat if a < n and b < n]
                        out.append({"G": {"directed": directed, "nodes": nodes, "edges": edges},
                                    "tag": f"exh-node:{kind}", "ids": idset, "kinds": {"p": kind}})
    ids = [str(x) for x in ID_SETS["sparse"][:3]]
    for pat in EDGE_PATTERNS:
        for kind in KINDS:
            for mask in range(2 ** len(pat)):
                k = bin(mask).count("1")
                vals = iter(gen_values(rng, kind, k))
                edges = [[[ids[a], ids[b]], ({"q": next(vals)} if mask >> i & 1 else {})] for i, (a, b) in enumerate(pat)]
                for directed in ((bool((mask + len(pat)) % 2),) if quick else (True, False)):
                    out.append({"G": {"directed": directed, "nodes": [[x, {}] for x in ids], "edges": edges},
                                "tag": f"exh-edge:{kind}", "ids": "sparse", "kinds": {"q": kind}})
    return out


def gen_random_graph(rng, nmax=30, kinds=KINDS, idsets=("small", "sparse", "around63", "large", "below63", "pool")):
    n = rng.choice([0, 1, 2, 3, 5, 8, 13, nmax]) if rng.random() < 0.7 else rng.randint(0, nmax)
    idset = rng.choice(idsets)
    if idset == "small":
        ids = list(range(n))
        rng.shuffle(ids)
    elif idset == "pool":
        ids = rng.sample(range(0, 200), n)
    else:
        base = ID_SETS[idset]
        ids = list(dict.fromkeys(base + [b - j if b > 100 else b + 10 * j + 50 for j in range(1, 8) for b in base]))[:max(n, 0)]
        ids = [x for x in ids if 0 <= x < TWO64]
        rng.shuffle(ids)
        n = len(ids)
    directed = rng.random() < 0.5
    m = rng.randint(0, min(2 * n, n * n)) if n else 0
    seen, edges_k = set(), []
    for _ in range(m):
        u, v = rng.choice(ids), rng.choice(ids)
        key = (u, v) if directed else (min(u, v), max(u, v))
        if key in seen:
            continue
        seen.add(key)
        edges_k.append((u, v))
    kinds_used = {}
    nodes = [[str(i), {}] for i in ids]
    edges = [[[str(u), str(v)], {}] for u, v in edges_k]
    for target, prefix in ((nodes, "n"), (edges, "e")):
        for j in range(rng.randint(0, 3)):
            kind = rng.choice(kinds)
            name = rng.choice([f"{prefix}{j}", f"{prefix} {j}", f"{prefix}_é{j}", f"{prefix}{j}.x"])
            pr = rng.choice([1.0, 1.0, 0.7, 0.3, 0.0])
            present = [i for i in range(len(target)) if rng.random() < pr]
            vals = gen_values(rng, kind, len(present))
            for i, v in zip(present, vals):
                target[i][1][name] = v
            kinds_used[name] = kind
    return {"G": {"directed": directed, "nodes": nodes, "edges": edges}, "tag": "rand", "ids": idset, "kinds": kinds_used}


def rx_variants(rng, item, exhaustive):
    """the rustworkx layouts a graph is written from"""
    ids = [int(i) for i, _ in item["G"]["nodes"]]
    outs = []
    if all(i < 64 for i in ids):
        outs.append({"id_map": False})
    n = len(ids)
    holes = sorted(rng.sample(range(0, n + 3), rng.randint(0, min(3, n + 2)))) if n else []
    outs.append({"id_map": True, "holes": holes, "trailing_holes": rng.choice([0, 0, 2]), "extra_map": [n + 7] if rng.random() < 0.3 else []})
    if not exhaustive and len(outs) > 1:
        outs = [rng.choice(outs)]
    return outs


SG_SCHEMAS = [
    # (ndims, node_dtype, pos_dtype, node_attrs, edge_attrs) — few signatures: every new one costs a C++ build
    (2, "uint64", "float64", {}, {}),
    (2, "uint64", "float64", {"score": "float32"}, {"w": "int16"}),
    (3, "uint64", "float64", {"lab": "int64"}, {"w": "float64"}),
    (1, "uint8", "float32", {"lab": "uint8"}, {}),
    (2, "int32", "int64", {"score": "float64"}, {"w": "uint64"}),
]


FINITE = [0.0, -0.0, 1.5, -2.25, 3.0, 0.1, 1e6, -7.0, 2.0 ** -20]


def typed_leaf(rng, dt, finite=False):
    d = np.dtype(dt)
    if d.kind == "f":
        x = rng.choice((FINITE if finite else FLOATS) + [rng.uniform(-100, 100)])
        return ["f", f2h(d.type(x))]
    info = np.iinfo(d)
    return ["i", str(rng.choice([info.min, info.max, 0, 1, rng.randint(info.min, info.max)]))]


def gen_sg(rng, schema=None, nmax=12):
    ndims, nd, pd, na, ea = schema or rng.choice(SG_SCHEMAS)
    info = np.iinfo(np.dtype(nd))
    n = rng.choice([0, 1, 2, 3, nmax])
    pool = [0, 1, 2, info.max, info.max - 1, info.max // 2 + 1, 5, 9, 17, 33, 64, 100, 101][: max(n + 3, 3)]
    ids = rng.sample([p for p in dict.fromkeys(pool) if p >= 0], min(n, len(set(pool))))
    axes = ["t", "y", "x"][-ndims:] if rng.random() < 0.7 else ["a0", "b.1", "c 2"][:ndims]
    nodes = [[str(i), [typed_leaf(rng, pd, finite=True) for _ in range(ndims)], {k: typed_leaf(rng, dt) for k, dt in na.items()}] for i in ids]
    directed = rng.random() < 0.5
    seen, edges = set(), []
    for _ in range(rng.randint(0, 2 * len(ids)) if ids else 0):
        u, v = rng.choice(ids), rng.choice(ids)
        if u == v:
            continue
        key = (u, v) if directed else (min(u, v), max(u, v))
        if key in seen:
            continue
        seen.add(key)
        edges.append([[str(u), str(v)], {k: typed_leaf(rng, dt) for k, dt in ea.items()}])
    return {"directed": directed, "ndims": ndims, "node_dtype": nd, "pos_dtype": pd, "axes": axes,
            "node_attrs": dict(na), "edge_attrs": dict(ea), "nodes": nodes, "edges": edges}


MEM_DTYPES = ["bool", "int8", "int16", "int64", "uint8", "uint64", "float32", "float64", "str"]


def gen_prop(rng, n, dt=None, allow_missing=True, allow_varlen=True):
    dt = dt or rng.choice(MEM_DTYPES)

    def lf():
        if dt == "bool":
            return ["b", rng.random() < 0.5]
        if dt == "str":
            return ["s", rng.choice(STRS)]
        return typed_leaf(rng, dt)
    form = rng.choice(["scalar", "scalar", "scalar", "vec", "mat", "varlen"] if allow_varlen else ["scalar", "scalar", "vec"])
    if form == "varlen":
        rows = []
        for _ in range(n):
            k = rng.choice([0, 1, 2, 3])
            rows.append([[k], [lf() for _ in range(k)]])
        P = {"dtype": dt, "varlen": True, "rows": rows}
    else:
        sh = {"scalar": [], "vec": [rng.choice([0, 1, 2, 3])], "mat": [2, 2]}[form]
        cnt = int(np.prod(sh)) if sh else 1
        P = {"dtype": dt, "varlen": False, "rows": [[sh, [lf() for _ in range(cnt)]] for _ in range(n)], "elem_shape": sh}
    P["missing"] = None
    if rng.random() < 0.5:
        P["layout"] = rng.choice(LAYOUTS)
    if allow_missing and rng.random() < 0.5:
        P["missing"] = [rng.random() < 0.4 for _ in range(n)]
    return P


def gen_mem(rng, nmax=12, sg_domain=False, valid=True):
    n = rng.choice([0, 1, 2, 3, nmax])
    sg_schema = rng.choice(SG_SCHEMAS)
    id_dtype = sg_schema[1] if sg_domain else rng.choice(["uint64", "uint8", "int64", "uint16", "int8"])
    info = np.iinfo(np.dtype(id_dtype))
    pool = list(dict.fromkeys([0, 1, 2, info.max, info.max - 1, 5, 9, 17, 33, 64, 100, 101, 120, 77, 3]))
    pool = [p for p in pool if p <= info.max]
    ids = rng.sample(pool, min(n, len(pool)))
    directed = rng.random() < 0.5
    seen, edges = set(), []
    for _ in range(rng.randint(0, 2 * len(ids)) if ids else 0):
        u, v = rng.choice(ids), rng.choice(ids)
        if sg_domain and u == v:
            continue
        key = (u, v) if directed else (min(u, v), max(u, v))
        if key in seen:
            continue
        seen.add(key)
        edges.append([str(u), str(v)])
    M = {"directed": directed, "id_dtype": id_dtype, "node_ids": [str(i) for i in ids], "edge_ids": edges,
         "axes": None, "node_props": {}, "edge_props": {}}
    n, e = len(ids), len(edges)
    if sg_domain:
        ndims, _nd, pd, na, ea = sg_schema
        M["axes"] = ["t", "y", "x"][-ndims:]
        for ax in M["axes"]:
            M["node_props"][ax] = {"dtype": pd, "varlen": False, "missing": None, "elem_shape": [],
                                   "layout": rng.choice(["C", "strided", "neg", "readonly"]),
                                   "rows": [[[], [typed_leaf(rng, pd, finite=True)]] for _ in range(n)]}
        for k, dt in na.items():
            M["node_props"][k] = {"dtype": dt, "varlen": False, "missing": None, "elem_shape": [],
                                  "rows": [[[], [typed_leaf(rng, dt)]] for _ in range(n)]}
        for k, dt in ea.items():
            M["edge_props"][k] = {"dtype": dt, "varlen": False, "missing": None, "elem_shape": [],
                                  "rows": [[[], [typed_leaf(rng, dt)]] for _ in range(e)]}
    else:
        for j in range(rng.randint(0, 3)):
            M["node_props"][f"n{j}"] = gen_prop(rng, n)
        for j in range(rng.randint(0, 2)):
            M["edge_props"][f"e{j}"] = gen_prop(rng, e)
    if not valid and ids:
        mode = rng.choice(["dup-id", "dangling", "dup-edge"])
        if mode == "dup-id" and n >= 2:
            M["node_ids"][-1] = M["node_ids"][0]
        elif mode == "dangling":
            extra = [p for p in pool if str(p) not in M["node_ids"]]
            if extra:
                M["edge_ids"].append([M["node_ids"][0], str(extra[0])])
                M["edge_props"] = {k: P for k, P in M["edge_props"].items() if P["rows"]}
                for P in M["edge_props"].values():
                    P["rows"].append(P["rows"][0])
                    if P["missing"] is not None:
                        P["missing"].append(False)
        elif mode == "dup-edge" and M["edge_ids"]:
            M["edge_ids"].append(list(M["edge_ids"][0]))
            for P in M["edge_props"].values():
                P["rows"].append(P["rows"][0])
                if P["missing"] is not None:
                    P["missing"].append(False)
        M["invalid"] = mode
    return M


def _warm_one(schema):
    """compile (or load from witty's cache) the spatial-graph classes of one schema"""
    import os

    import spatial_graph as sg

    devnull = os.open(os.devnull, os.O_WRONLY)  # the C++ compiler's warnings
    os.dup2(devnull, 2)
    ndims, nd, pd, na, ea = schema
    nad = dict(na)
    nad["position"] = f"{pd}[{ndims}]"
    for directed in (True, False):
        sg.create_graph(ndims=ndims, node_dtype=nd, node_attr_dtypes=nad, edge_attr_dtypes=dict(ea),
                        position_attr="position", directed=directed)
    return True


def sg_warm():
    """spatial-graph generates and compiles C++ per dtype signature (≈12 s each, cached under
    ~/.cache/witty); build every signature the check uses once, one process per signature, before
    the parallel map (concurrent builds of the same module race)."""
    import multiprocessing as mp

    # the empty-graph signature SgBackend.construct uses when there are no nodes
    extra = [(1, s[1], "float64", s[3], s[4]) for s in SG_SCHEMAS]
    # written from networkx / rustworkx, a graph without edges has no edge property at all
    extra += [(s[0], s[1], s[2], s[3], {}) for s in SG_SCHEMAS if s[4]]
    todo = list(dict.fromkeys(
        (a, b, c, tuple(sorted(d.items())), tuple(sorted(e.items()))) for a, b, c, d, e in list(SG_SCHEMAS) + extra))
    todo = [(a, b, c, dict(d), dict(e)) for a, b, c, d, e in todo]
    with mp.get_context("fork").Pool(min(12, len(todo))) as pool:
        ok = all(pool.map(_warm_one, todo, chunksize=1))
    import spatial_graph as sg

    for ndims, nd, pd, na, ea in todo:  # load the cached modules here so that forked workers inherit them
        nad = dict(na)
        nad["position"] = f"{pd}[{ndims}]"
        for directed in (True, False):
            sg.create_graph(ndims=ndims, node_dtype=nd, node_attr_dtypes=nad, edge_attr_dtypes=dict(ea),
                            position_attr="position", directed=directed)
    return ok


# ============================================================================ model requests / comparison
def _strip_mem(M):
    return {"directed": M["directed"], "node_ids": list(M["node_ids"]), "edge_ids": [list(e) for e in M["edge_ids"]],
            "node_props": {k: {"dtype": P["dtype"], "varlen": P["varlen"], "rows": P["rows"], "missing": P["missing"]}
                           for k, P in sorted(M["node_props"].items())},
            "edge_props": {k: {"dtype": P["dtype"], "varlen": P["varlen"], "rows": P["rows"], "missing": P["missing"]}
                           for k, P in sorted(M["edge_props"].items())}}


def rx_json(G, layout):
    """the rustworkx graph `build_rx` makes, as the model sees it"""
    pos = rx_layout(G, layout)
    attrs = {int(i): a for i, a in G["nodes"]}
    inv = {p: i for i, p in pos.items()}
    nslots = (max(inv) + 1) if inv else 0
    slots = [attrs[inv[s]] if s in inv else None for s in range(nslots)]
    edges = [[[pos[int(u)], pos[int(v)]], a] for (u, v), a in G["edges"]]
    nid = None
    if layout.get("id_map"):
        nid = {p: i for i, p in pos.items()}
        for extra in layout.get("extra_map", []):
            nid.setdefault(int(extra), 999)
        for k in layout.get("drop_map", []):
            if nid:
                nid.pop(sorted(nid)[k % len(nid)], None)
        nid = [[k, str(v)] for k, v in sorted(nid.items())]
    return {"directed": G["directed"], "slots": slots, "edges": edges}, nid


def rx_model_as_graph(R):
    """abstract graph of the model's RxGraph JSON, ids through its id_map"""
    inv = {k: i for i, k in (R["id_map"] or [])} if R["id_map"] is not None else None
    f = (lambda k: str(k)) if inv is None else (lambda k: inv[k])
    nodes = [[f(k), a] for k, a in enumerate(R["slots"]) if a is not None]
    edges = [[[f(e[0][0]), f(e[0][1])], e[1]] for e in R["edges"]]
    return {"directed": R["directed"], "nodes": nodes, "edges": edges}


def sg_json(S):
    def col(dt, vals):
        return {"dtype": dt, "varlen": False, "rows": [[[], [v]] for v in vals], "missing": None}
    return {"directed": S["directed"], "ndims": S["ndims"], "pos_dtype": S["pos_dtype"],
            "nodes": [n[0] for n in S["nodes"]], "position": [n[1] for n in S["nodes"]],
            "node_attrs": {k: col(dt, [n[2][k] for n in S["nodes"]]) for k, dt in S["node_attrs"].items()},
            "edges": [e[0] for e in S["edges"]],
            "edge_attrs": {k: col(dt, [e[1][k] for e in S["edges"]]) for k, dt in S["edge_attrs"].items()}}


def reorder_sg(S, built):
    """S with nodes / edges in the order (and edge orientation) the built spatial-graph reports"""
    if not built or "exc" in built:
        return S
    nodes = {n[0]: n for n in S["nodes"]}
    edges = {}
    for e in S["edges"]:
        edges[(e[0][0], e[0][1])] = e
        if not S["directed"]:
            edges[(e[0][1], e[0][0])] = [[e[0][1], e[0][0]], e[1]]
    try:
        return {**S, "nodes": [nodes[i] for i, _ in built["nodes"]],
                "edges": [edges[(u, v)] for (u, v), _ in built["edges"]]}
    except KeyError:
        return S


def sg_model_as_graph(R, axes):
    nodes = []
    for k, i in enumerate(R["nodes"]):
        a = {ax: R["position"][k][j] for j, ax in enumerate(axes)}
        for name, P in R["node_attrs"].items():
            a[name] = row_value(P, k)
        nodes.append([i, a])
    edges = [[list(e), {name: row_value(P, k) for name, P in R["edge_attrs"].items()}] for k, e in enumerate(R["edges"])]
    return {"directed": R["directed"], "nodes": nodes, "edges": edges}


def _same(a, b):
    return json.dumps(a, sort_keys=True) == json.dumps(b, sort_keys=True)


def cmp_outcome(ck, name, case, impl, model, conv=lambda x: x, canonical=True):
    """compare an implementation observation (value or {"exc":…}) with a model outcome
    ({"ok":…} | {"exc":…} | {"unmodelled":…}); returns 'unmodelled' / 'agree' / 'disagree'"""
    if model is None:
        return "nomodel"
    if "err" in model:
        ck.corr_broken(name + ":driver", case, impl, model)
        return "disagree"
    if "unmodelled" in model:
        return "unmodelled"
    if isinstance(impl, dict) and "exc" in impl:
        if model.get("exc") == impl["exc"]:
            return "agree"
        ck.corr_broken(name, case, impl, model)
        return "disagree"
    if "exc" in model:
        ck.corr_broken(name, case, "returned normally", model)
        return "disagree"
    mv = conv(model["ok"])
    a, b = (canon(impl), canon(mv)) if canonical else (impl, mv)
    if not _same(a, b):
        ck.corr_broken(name, case, a, b)
        return "disagree"
    return "agree"


# ============================================================================ classification of spec failures
def _ids_mixed(G):
    ids = [int(i) for i, _ in G["nodes"]]
    return any(i >= TWO63 for i in ids) and any(i < TWO63 for i in ids)


def _big_int_props(G):
    """names of properties holding an int >= 2^63, with (ragged?, all values large?)"""
    out = {}
    for _, a in list(G["nodes"]) + list(G["edges"]):
        for k, v in a.items():
            leaves = [v] if v[0] != "a" else v[2]
            ints = [int(x[1]) for x in leaves if x[0] == "i"]
            if ints:
                e = out.setdefault(k, {"big": False, "small": False, "shapes": set()})
                e["big"] |= any(i >= TWO63 for i in ints)
                e["small"] |= any(i < TWO63 for i in ints)
                e["shapes"].add(json.dumps(v[1]) if v[0] == "a" else "")
    return {k: e for k, e in out.items() if e["big"]}


def classify(stage, G, diffs=None, exc=None):
    """stable key of the class a specification failure belongs to"""
    big = _big_int_props(G)
    ragged_big = any(len(e["shapes"]) > 1 for e in big.values())
    if exc is not None:
        msg = exc.get("msg", "")
        if "No Zarr data type" in msg and big:
            return "C03:ragged-int-values-ge-2^63" if ragged_big else "C03:int-values-ge-2^63-all"
        if ragged_big and exc["exc"] == "ValueError":
            return "C03:ragged-int-values-ge-2^63"
        if exc["exc"] in ("KeyError", "IndexError") and _ids_mixed(G) and "adapter" not in stage:
            return "C03:ids-mixed-around-2^63"
        if "adapter:rx" in stage:
            return "C03:rx-adapter-ignores-id-map"
        if exc["exc"] == "IndexError" and stage.endswith("sg") and not G["edges"] and G["nodes"]:
            return "C03:sg-nodes-without-edges"
        return f"C03:{stage}:raises-{exc['exc']}"
    cls, text = diffs[0]
    if cls == "absent-shown" and any(v[0] == "z" for _, a in list(G["nodes"]) + list(G["edges"]) for v in a.values()):
        return "C03:none-entry-of-ragged-property-not-flagged-missing"
    if cls == "kind" and "kind bool -> int" in text:
        return "C03:bool-with-missing-becomes-int"
    if cls in ("kind", "leaf-kind", "value") and ragged_big:
        return "C03:ragged-int-values-ge-2^63"
    if cls == "kind" and "kind int -> float" in text and big:
        return "C03:int-values-ge-2^63-mixed"
    if cls == "leaf-kind" and big:
        return "C03:int-values-ge-2^63-mixed"
    if "adapter:rx" in stage:
        return "C03:rx-adapter-ignores-id-map"
    if cls in ("node-ids", "edges", "value", "present-lost", "absent-shown") and _ids_mixed(G) and not stage.startswith(("construct", "dict")):
        return "C03:ids-mixed-around-2^63"  # rounded ids collide / dangle: attributes move between nodes
    if cls == "kind" and stage.endswith("sg") and "kind int -> float" in text:
        return "C03:sg-mixed-axis-dtypes"
    return f"C03:{stage}:{cls}"


def check_obs(ck, stage, case, G, obs):
    """specification verdict on one observed graph"""
    if isinstance(obs, dict) and "exc" in obs:
        ck.fail(classify(stage, G, exc=obs), f"{stage}: {obs['exc']}: {obs.get('msg', '')}", case, obs, "the graph that was written")
        return False
    d = diff_graphs(G, obs)
    if d:
        ck.fail(classify(stage, G, diffs=d), f"{stage}: {d[0][1]}", case, {"diffs": [x[1] for x in d[:4]]}, "the graph that was written")
        return False
    return True


def check_dict_props(ck, case, res):
    """SPECIFICATION of the dict -> array layer: element i is marked missing iff it lacks the
    property, and a present entry denotes exactly the value (and kind) that was given"""
    if "exc" in res:
        G = {"nodes": case["data"], "edges": []}
        ck.fail(classify("dict_props_to_arr", G, exc=res), f"dict_props_to_arr raised {res['exc']}: {res.get('msg', '')}",
                case, res, "arrays denoting the given values")
        return
    for name in case["names"]:
        P = res["props"][name]
        for i, (_, a) in enumerate(case["data"]):
            miss = P["missing"] is not None and P["missing"][i]
            has = name in a and a[name][0] != "z"  # absent or None = missing
            if has == miss:
                key = ("C03:none-entry-of-ragged-property-not-flagged-missing" if name in a and not has
                       else "C03:dict_props_to_arr:missing-mask")
                ck.fail(key, f"element {i} of {name!r}: value={a.get(name, 'absent')} but missing={miss}", case, P, None)
                return
            if has:
                got = row_value(P, i)
                if got != norm_value(a[name]):
                    G = {"nodes": case["data"], "edges": []}
                    d = []
                    _diff_attrs(f"element {i}", {name: norm_value(a[name])}, {name: got}, d)
                    ck.fail(classify("dict_props_to_arr", G, diffs=d), f"dict_props_to_arr: {d[0][1]}", case, P, a[name])
                    return


def gen_dict_case(rng, kinds=KINDS, mixed=False):
    n = rng.choice([0, 1, 2, 3, 4, 6])
    names = [f"p{j}" for j in range(rng.randint(1, 3))]
    data = [[str(i), {}] for i in range(n)]
    for nm in names:
        if mixed:
            pool = ["bool", "int", "float", "bigint", "str", "list", "ragged"]
            ks = [rng.choice(pool) for _ in range(2)]
            present = [i for i in range(n) if rng.random() < 0.8]
            for i in present:
                data[i][1][nm] = gen_values(rng, rng.choice(ks), 1)[0]
        else:
            kind = rng.choice(kinds)
            present = [i for i in range(n) if rng.random() < rng.choice([1.0, 0.6, 0.2])]
            for i, v in zip(present, gen_values(rng, kind, len(present))):
                data[i][1][nm] = v
    if rng.random() < 0.15:
        names.append("never_present")
    return {"data": data, "names": names, "mixed": mixed}


NONE_STATES = ["absent", "none", "reg", "ragged", "empty"]


def none_combo_values(states, variant=0):
    """tagged values (None entry = element lacks the attribute) of one property whose elements are in
    the given states; None is admitted next to list values only, so at least one state must be a
    list (else: returns None).  Leaves are floats whenever an empty list occurs (an empty Python
    list is a float64 array), otherwise the class cycles with `variant`."""
    if not any(st in ("reg", "ragged", "empty") for st in states):
        return None
    lk = "float" if "empty" in states else ["int", "float", "bool", "str"][variant % 4]
    two_d = (variant // 4) % 3 == 2 and "empty" not in states
    mk = {"int": lambda j: ["i", str(j - 3)], "float": lambda j: ["f", f2h(j + 0.5)],
          "bool": lambda j: ["b", j % 2 == 0], "str": lambda j: ["s", "abcdef"[j % 6]]}[lk]
    out, r = [], 0
    for pos, st in enumerate(states):
        if st == "absent":
            out.append(None)
        elif st == "none":
            out.append(["z"])
        elif st == "empty":
            out.append(["a", [0], []])
        else:
            n = 2 if st == "reg" else (1, 3)[r % 2]
            r += st == "ragged"
            leaves = [mk(pos * 5 + j) for j in range(n * (2 if two_d else 1))]
            out.append(["a", [n, 2] if two_d else [n], leaves])
    return out


def gen_none_items(rng, nsample):
    """per property every combination of {absent, None, regular list, ragged list, empty list} over
    <= 3 elements (node property and edge property), sampled for 4..8 elements"""
    items = []
    combos = [c for n in (1, 2, 3) for c in itertools.product(NONE_STATES, repeat=n)]
    for _ in range(nsample):
        n = rng.randint(4, 8)
        combos.append(tuple(rng.choice(NONE_STATES) for _ in range(n)))
    ids_pool = [7, 3, 40, 12, 5, 9, 21, 2]
    for ci, states in enumerate(combos):
        vals = none_combo_values(states, ci)
        if vals is None:
            continue
        n = len(states)
        directed = ci % 2 == 0
        # node property
        ids = [str(x) for x in ids_pool[:n]]
        nodes = [[i, ({} if v is None else {"p": v})] for i, v in zip(ids, vals)]
        edges = [[[ids[0], ids[-1]], {}]] if n > 1 else []
        items.append({"G": {"directed": directed, "nodes": nodes, "edges": edges}, "tag": "none-combo:node", "states": list(states)})
        # edge property: n distinct edges over enough nodes
        m = 2
        while m * (m - 1) // 2 < n:
            m += 1
        eids = [str(x) for x in ids_pool[:m]]
        pairs = [(a, b) for a in range(m) for b in range(a + 1, m)][:n]
        es = [[[eids[a], eids[b]], ({} if v is None else {"q": v})] for (a, b), v in zip(pairs, vals)]
        items.append({"G": {"directed": not directed, "nodes": [[i, {}] for i in eids], "edges": es},
                      "tag": "none-combo:edge", "states": list(states)})
    return items


def gen_none_dict_cases(rng, nsample):
    out = []
    combos = [c for n in (1, 2, 3) for c in itertools.product(NONE_STATES, repeat=n)]
    for _ in range(nsample):
        combos.append(tuple(rng.choice(NONE_STATES) for _ in range(rng.randint(4, 8))))
    for ci, states in enumerate(combos):
        for variant in (ci, ci + 1, ci + 10):
            vals = none_combo_values(states, variant)
            if vals is None:
                continue
            out.append({"stream": "dict", "data": [[str(i), ({} if v is None else {"p": v})] for i, v in enumerate(vals)],
                        "names": ["p"], "mixed": False, "states": list(states)})
    return out


def gen_malformed(rng):
    it = gen_random_graph(rng, nmax=6, kinds=["bool", "int", "float", "str"], idsets=("small", "sparse"))
    G = it["G"]
    mode = rng.choice(["neg-id", "huge-id", "neg-and-big-values", "mixed-kinds", "huge-value"])
    if not G["nodes"]:
        G["nodes"] = [["0", {}], ["1", {}]]
    if mode == "neg-id":
        old = G["nodes"][0][0]
        G["nodes"][0][0] = "-3"
        G["edges"] = [[["-3" if x == old else x for x in e[0]], e[1]] for e in G["edges"]]
    elif mode == "huge-id":
        old = G["nodes"][-1][0]
        G["nodes"][-1][0] = str(TWO64 + 5)
        G["edges"] = [[[str(TWO64 + 5) if x == old else x for x in e[0]], e[1]] for e in G["edges"]]
    elif mode == "neg-and-big-values":
        for k, (_, a) in enumerate(G["nodes"]):
            a["nb"] = ["i", str(-1 if k % 2 else TWO63 + k)]
        if len(G["nodes"]) < 2:
            G["nodes"].append(["77", {"nb": ["i", "-1"]}])
    elif mode == "huge-value":
        for k, (_, a) in enumerate(G["nodes"]):
            a["hv"] = ["i", str(TWO64 + k)]
    else:
        for k, (_, a) in enumerate(G["nodes"]):
            a["mk"] = [["b", True], ["i", "2"], ["f", f2h(1.5)]][k % 3] if rng.random() < 0.5 else [["b", False], ["i", "7"]][k % 2]
    it["tag"] = "malformed:" + mode
    it["malformed"] = mode
    return it


SPECIAL = [
    # (tag, expected known-finding key or None, item)
    ("D2-bool-missing", None, {"G": {"directed": True, "nodes": [["0", {"f": ["b", True]}], ["1", {}], ["2", {"f": ["b", False]}]],
                                     "edges": [[["0", "1"], {"e": ["b", False]}], [["1", "2"], {}]]}}),
    ("D18-ids-around-2^63", None, {"G": {"directed": True, "nodes": [["5", {"x": ["f", f2h(1.5)]}], [str(TWO64 - 1), {"x": ["f", f2h(2.5)]}], ["7", {}],
                                                             [str(TWO63 + 1), {}]],
                                         "edges": [[["5", "7"], {"w": ["i", "1"]}], [["7", str(TWO64 - 1)], {}], [[str(TWO63 + 1), "5"], {}]]}}),
    ("D21-int-values-mixed", None, {"G": {"directed": False, "nodes": [["1", {"p": ["i", str(TWO63 + 1)]}], ["2", {"p": ["i", "5"]}], ["3", {}]], "edges": []}}),
    ("D21-int-values-fill", None, {"G": {"directed": False, "nodes": [["1", {"p": ["i", str(TWO64 - 1)]}], ["2", {}]], "edges": []}}),
    ("D21-int-values-all-large", None, {"G": {"directed": False, "nodes": [["1", {"p": ["i", str(TWO63)]}], ["2", {"p": ["i", str(TWO64 - 1)]}]], "edges": []}}),
    ("D21-list-values-mixed", None, {"G": {"directed": False, "nodes": [["1", {"p": ["a", [2], [["i", str(TWO63 + 1)], ["i", "2"]]]}], ["2", {"p": ["a", [2], [["i", "3"], ["i", "4"]]]}]], "edges": []}}),
    ("ragged-big-mixed", "C03:ragged-int-values-ge-2^63",
     {"G": {"directed": False, "nodes": [["1", {"p": ["a", [2], [["i", "1"], ["i", "2"]]]}], ["2", {"p": ["a", [3], [["i", str(TWO63 + 1)], ["i", "3"], ["i", "4"]]]}]], "edges": []}}),
    ("ragged-big-all", "C03:ragged-int-values-ge-2^63",
     {"G": {"directed": False, "nodes": [["1", {"p": ["a", [1], [["i", str(TWO63)]]]}], ["2", {"p": ["a", [2], [["i", str(TWO64 - 1)], ["i", str(TWO63)]]]}]], "edges": []}}),
    ("ragged-big-elements-differ", "C03:ragged-int-values-ge-2^63",
     {"G": {"directed": False, "nodes": [["1", {"p": ["a", [2], [["i", "1"], ["i", "2"]]]}], ["2", {"p": ["a", [3], [["i", str(TWO63 + 1)], ["i", str(TWO63)], ["i", str(TWO64 - 1)]]]}]], "edges": []}}),
]


def corpus():
    d = common.VERIF / "harness" / "corpus" / PROP
    for f in sorted(d.glob("*.json")):
        yield json.loads(f.read_text())


# ============================================================================ streams
def _nontrivial_graph(G):
    return bool(G["edges"]) or any(a for _, a in G["nodes"])


def roundtrip_cases(rng, items, both_formats, exhaustive_rx=False):
    cases = []
    for k, it in enumerate(items):
        fmts = (2, 3) if both_formats else (2 + k % 2,)
        for fmt in fmts:
            base = {"stream": "roundtrip", "G": it["G"], "fmt": fmt, "tag": it["tag"]}
            for extra in ("axes", "readers", "malformed", "expect", "md", "history", "model_axes"):
                if extra in it:
                    base[extra] = it[extra]
            cases.append({**base, "writer": "nx"})
            if it.get("malformed") in ("neg-id",):
                lays = [{"id_map": True, "holes": []}]
            else:
                lays = rx_variants(rng, it, exhaustive_rx or it["tag"].startswith(("exh", "special", "corpus") + (("none-combo",) if both_formats else ())))
            for lay in lays:
                cases.append({**base, "writer": "rx", "layout": lay})
    return cases


def _has_np(G):
    return any(v[0] == "n" for _, a in list(G["nodes"]) + list(G["edges"]) for v in a.values())


def roundtrip_request(c):
    G = c["G"]
    if _has_np(G):
        return {"op": "nomodel"}
    G = model_view(G)
    ax = c.get("axes") or c.get("model_axes")
    req = {"axes": ax} if ax else {}
    if c["writer"] == "nx":
        try:
            g = obs_nx(build_nx(G))  # the edge order / orientation networkx reports is library behaviour
        except Exception:  # noqa: BLE001
            g = G
        return {"op": "nxWrite", "g": g, **req}
    g, nid = rx_json(G, c.get("layout", {}))
    return {"op": "rxWrite", "g": g, "node_id_dict": nid, **req}


def do_roundtrips(ck, drv, cases, stats):
    res = common.pmap(impl_roundtrip, cases, chunksize=16)
    model = drv.ask([roundtrip_request(c) for c in cases]) if drv else None
    if drv and model is None:
        ck.broken.append({"what": "driver Drivers/C03.lean (roundtrip)", "detail": drv.broken})
    for k, (c, r) in enumerate(zip(cases, res)):
        G = c["G"]
        ck.case({"G": G, "writer": c["writer"], "layout": c.get("layout"), "fmt": c["fmt"]},
                f"rt:{c['writer']}:{c['tag']}", nontrivial=_nontrivial_graph(G))
        mo = model[k] if model else None
        malformed = c.get("malformed")
        # ---- specification
        if not malformed:
            if r["write"] != "ok":
                ck.fail(classify(f"write:{c['writer']}", G, exc=r["write"]),
                        f"geff.write({c['writer']}) raised {r['write']['exc']}: {r['write']['msg']}", c, r["write"], "written")
            else:
                for rd, o in r["reads"].items():
                    if check_obs(ck, f"{c['writer']}->{rd}", c, G, o):
                        a = r["adapters"].get(rd)
                        if a is not None:
                            check_obs(ck, f"adapter:{rd}", c, G, a)
                # any two backends agree (implied by the above; counted separately)
                obs = [canon(o) for o in r["reads"].values() if "exc" not in o]
                stats["pairs_agree"] += sum(1 for a, b in itertools.combinations(obs, 2) if _same(a, b))
        # ---- model
        if mo is None:
            continue
        if _has_np(G):
            stats["model_skipped_numpy_scalars"] += 1
            continue
        if "err" in mo:
            ck.corr_broken("C03:driver", c, None, mo)
            continue
        st = cmp_outcome(ck, "C03:writeDicts", c, r["write"] if r["write"] != "ok" else _strip_mem(r["mem"]) if "exc" not in r.get("mem", {}) else r["mem"],
                         mo["mem"], canonical=False)
        stats["model_" + st] += 1
        if st != "agree" or r["write"] != "ok":
            continue
        for rd, o in r["reads"].items():
            conv = {"nx": (lambda x: x), "rx": rx_model_as_graph, "sg": (lambda x: sg_model_as_graph(x, c.get("axes") or c.get("model_axes") or []))}[rd]
            st2 = cmp_outcome(ck, f"C03:{rd}Construct", c, o, mo.get(rd), conv=conv)
            stats[f"model_{rd}_" + st2] += 1


def do_constructs(ck, drv, cases, stats):
    res = common.pmap(impl_construct, cases, chunksize=8)
    model = drv.ask([{"op": "construct", "m": _strip_mem(c["M"]), "axes": c["M"].get("axes")} for c in cases]) if drv else None
    if drv and model is None:
        ck.broken.append({"what": "driver Drivers/C03.lean (construct)", "detail": drv.broken})
    for k, (c, r) in enumerate(zip(cases, res)):
        M = c["M"]
        invalid = M.get("invalid")
        ck.case(c, f"construct:{'sg-domain' if M.get('axes') else 'general'}{':' + invalid if invalid else ''}",
                nontrivial=bool(M["node_props"] or M["edge_props"] or M["edge_ids"]))
        G = mem_as_graph(M)
        if not invalid:
            for b, o in r["graphs"].items():
                if check_obs(ck, f"construct:{b}", c, G, o):
                    check_obs(ck, f"adapter:{b}", c, G, r["adapters"][b])
            obs = [canon(o) for o in r["graphs"].values() if "exc" not in o]
            stats["pairs_agree"] += sum(1 for a, b in itertools.combinations(obs, 2) if _same(a, b))
        mo = model[k] if model else None
        if mo is None:
            continue
        if "err" in mo:
            ck.corr_broken("C03:driver", c, None, mo)
            continue
        for b, o in r["graphs"].items():
            conv = {"nx": (lambda x: x), "rx": rx_model_as_graph, "sg": (lambda x: sg_model_as_graph(x, M.get("axes") or []))}[b]
            if "unobservable" in o:
                st = "agree" if "ok" in mo.get(b, {}) else "disagree"
                if st == "disagree":
                    ck.corr_broken(f"C03:{b}Construct", c, o, mo.get(b))
            else:
                st = cmp_outcome(ck, f"C03:{b}Construct", c, o, mo.get(b), conv=conv)
            stats[f"model_{b}_" + st] += 1
            if b == "rx" and st == "agree" and "rx_raw" in r:
                R = mo["rx"]["ok"]
                raw = {"directed": R["directed"], "nodes": [[str(i), a] for i, a in enumerate(R["slots"]) if a is not None],
                       "edges": [[[str(e[0][0]), str(e[0][1])], e[1]] for e in R["edges"]]}
                mp = sorted([str(i), int(x)] for i, x in R["id_map"])
                if not _same(canon(raw), canon(r["rx_raw"]["raw"])) or mp != sorted(r["rx_raw"]["map"]):
                    ck.corr_broken("C03:rxConstruct(raw indices, to_rx_id_map)", c, r["rx_raw"], {"raw": raw, "map": mp})


def do_sg(ck, drv, cases, stats):
    res = common.pmap(impl_sg_roundtrip, cases, chunksize=4)
    # the order in which spatial-graph reports nodes and edges is library behaviour: the model is
    # given the graph as built (same content as S — checked below — in the library's order)
    model = drv.ask([{"op": "sgWrite", "g": sg_json(reorder_sg(c["S"], r.get("built"))), "axis_names": c["S"]["axes"]}
                     for c, r in zip(cases, res)]) if drv else None
    if drv and model is None:
        ck.broken.append({"what": "driver Drivers/C03.lean (sg)", "detail": drv.broken})
    for k, (c, r) in enumerate(zip(cases, res)):
        S = c["S"]
        G = sg_as_graph(S)
        ck.case(c, f"rt:sg:ndims{S['ndims']}:{S['node_dtype']}", nontrivial=bool(S["nodes"]))
        if r["write"] != "ok":
            ck.fail(classify("write:sg", G, exc=r["write"]), f"geff.write(spatial-graph) raised {r['write']['exc']}: {r['write']['msg']}", c, r["write"], "written")
        else:
            check_obs(ck, "built:sg", c, G, r["built"])
            for rd, o in r["reads"].items():
                check_obs(ck, f"sg->{rd}", c, G, o)
            obs = [canon(o) for o in r["reads"].values() if "exc" not in o]
            stats["pairs_agree"] += sum(1 for a, b in itertools.combinations(obs, 2) if _same(a, b))
        mo = model[k] if model else None
        if mo is None:
            continue
        if "err" in mo:
            ck.corr_broken("C03:driver", c, None, mo)
            continue
        st = cmp_outcome(ck, "C03:sgWrite", c, r["write"] if r["write"] != "ok" else _strip_mem(r["mem"]) if "exc" not in r.get("mem", {}) else r["mem"],
                         mo["mem"], canonical=False)
        stats["model_sgwrite_" + st] += 1
        if st != "agree" or r["write"] != "ok":
            continue
        for rd, o in r["reads"].items():
            conv = {"nx": (lambda x: x), "rx": rx_model_as_graph, "sg": (lambda x: sg_model_as_graph(x, S["axes"]))}[rd]
            st2 = cmp_outcome(ck, f"C03:{rd}Construct", c, o, mo.get(rd), conv=conv)
            stats[f"model_{rd}_" + st2] += 1


def do_dicts(ck, drv, cases, stats):
    res = common.pmap(impl_dict_props, cases, chunksize=64)
    model = drv.ask([{"op": "dictProps", "data": model_view({"directed": True, "nodes": c["data"], "edges": []})["nodes"],
                      "names": c["names"]} for c in cases]) if drv else None
    if drv and model is None:
        ck.broken.append({"what": "driver Drivers/C03.lean (dictProps)", "detail": drv.broken})
    for k, (c, r) in enumerate(zip(cases, res)):
        ck.case(c, "dict_props_to_arr:" + ("none-combo" if "states" in c else "layout" if "layout" in c else "mixed-kinds" if c["mixed"] else "uniform"),
                nontrivial=any(a for _, a in c["data"]))
        if not c["mixed"]:
            check_dict_props(ck, c, r)
        mo = model[k] if model else None
        if mo is None:
            continue
        impl = r if "exc" in r else r["props"]
        st = cmp_outcome(ck, "C03:dictPropsToArr", c, impl, mo, canonical=False)
        stats["model_dict_" + st] += 1


def gen_layout_items(rng, nrand):
    """array-valued attributes given as numpy arrays in every MEMORY LAYOUT (same logical contents):
    fixed-shape and ragged, 1-d / 2-d / 3-d, int64 / float64 / bool / str, on nodes and on edges, on a
    subset of the elements; exhaustive over layout x form x dtype, then per-element random layouts"""
    forms = {"fixed2d": [[2, 3]] * 3, "ragged2d": [[2, 3], [3, 3], [1, 3]], "ragged2d-b": [[3, 2], [3, 4], [3, 1]],
             "fixed1d": [[4]] * 3, "ragged1d": [[4], [2], [5]], "ragged3d": [[2, 2, 2], [1, 2, 2], [2, 2, 2]]}
    dts = ["int64", "float64", "bool", "U2"]

    def arr(dt, sh, how, seed):
        cnt = int(np.prod(sh))
        if dt == "int64":
            lv = [["i", str(seed * 100 + j - 7)] for j in range(cnt)]
        elif dt == "float64":
            lv = [["f", f2h(seed * 10 + j + 0.25)] for j in range(cnt)]
        elif dt == "bool":
            lv = [["b", (seed + j * j) % 3 == 0] for j in range(cnt)]
        else:
            lv = [["s", "abcdefgh"[(seed + j) % 8] + "xy"[(j // 3) % 2]] for j in range(cnt)]
        return ["A", how, dt, list(sh), lv]

    def item(form, dt, hows, tag, directed):
        shapes = forms[form]
        ids = ["7", "3", "40", "12"]
        nodes = [[i, {}] for i in ids]
        for k in range(3):  # node 12 lacks the property
            nodes[k][1]["p"] = arr(dt, shapes[k], hows[k], k + 1)
        pairs = [("7", "3"), ("3", "40"), ("40", "12"), ("12", "7")]
        edges = [[list(e), {}] for e in pairs]
        for k in range(3):  # the last edge lacks it
            edges[k][1]["q"] = arr(dt, shapes[(k + 1) % 3], hows[(k + 1) % 3], k + 5)
        return {"G": {"directed": directed, "nodes": nodes, "edges": edges}, "tag": tag}

    out = []
    k = 0
    for how in LAYOUTS:
        for form in forms:
            for dt in dts:
                out.append(item(form, dt, [how] * 3, f"layout:{how}", k % 2 == 0))
                k += 1
    for _ in range(nrand):
        out.append(item(rng.choice(list(forms)), rng.choice(dts), [rng.choice(LAYOUTS) for _ in range(3)], "layout:mixed", rng.random() < 0.5))
    return out


def flip_graph(G):
    """the graph object of the OTHER class holding the same nodes and attributes — what
    to_directed() / to_undirected() or a PyGraph <-> PyDiGraph conversion produce: an undirected edge
    becomes both orientations (a self loop one edge); antiparallel / repeated directed edges merge
    (attributes: union, the first edge wins)"""
    nodes = [[i, dict(a)] for i, a in G["nodes"]]
    if G["directed"]:
        seen = {}
        for (u, v), a in G["edges"]:
            key = (min(int(u), int(v)), max(int(u), int(v)))
            if key in seen:
                for k, val in a.items():
                    seen[key][1].setdefault(k, val)
            else:
                seen[key] = [[u, v], dict(a)]
        edges = list(seen.values())
    else:
        edges = []
        for (u, v), a in G["edges"]:
            edges.append([[u, v], dict(a)])
            if u != v:
                edges.append([[v, u], dict(a)])
    return {"directed": not G["directed"], "nodes": nodes, "edges": edges}


def metadata_items(rng, base, n_fresh, n_hist):
    """the `metadata=` argument of geff.write: (b) a fresh GeffMetadata whose `directed` disagrees with
    the graph class, (c) the object returned by geff.read of an earlier geff of the other directedness
    (read -> convert -> write -> read histories of 2 and 3 steps; the written graph keeps the
    properties / axes the metadata declares — a graph lacking a declared property is refused by
    write_arrays, which is property C10's subject — and may add one).  Spec: directedness and edge
    orientation read back are those of the WRITTEN graph object, whatever the metadata said."""
    base = [it for it in base if not it.get("malformed") and "special" not in it["tag"] and it["G"]["nodes"]]
    out = []
    for k in range(n_fresh):
        it = base[rng.randrange(len(base))]
        out.append({**it, "tag": "md-fresh-disagrees", "md": {"kind": "fresh", "directed": not it["G"]["directed"]}})
    pairs = [(w, r) for w in ("nx", "rx") for r in ("nx", "rx")]
    for k in range(n_hist):
        it = base[rng.randrange(len(base))]
        G0 = it["G"]
        w0, r0 = pairs[k % 4]
        h0 = {"G": G0, "writer": w0, "layout": {"id_map": True, "holes": []}, "reader": r0}
        if it.get("axes"):
            h0["axes"] = it["axes"]
        G1 = flip_graph(G0)
        if k % 3 == 0 and not it.get("axes"):  # the converted graph carries one more property than the metadata knows
            # (not for the spatial-graph readers: no missing values there, and a new dtype signature)
            for j, (_, a) in enumerate(G1["nodes"]):
                if j % 2 == 0:
                    a["added"] = ["i", str(j)]
        extra = {key: it[key] for key in ("readers",) if key in it}
        if it.get("axes"):
            extra["model_axes"] = it["axes"]
        if k % 3 != 2:
            out.append({"G": G1, "tag": "md-history-2", "history": [h0], **extra})
        else:
            w1, r1 = pairs[(k // 4) % 4]
            h1 = {"G": G1, "writer": w1, "layout": {"id_map": True, "holes": []}, "reader": r1}
            out.append({"G": flip_graph(G1), "tag": "md-history-3", "history": [h0, h1], **extra})
    return out


def sg_cross_items(rng, n):
    """sg-domain graphs written from networkx / rustworkx with axis names and read by all three"""
    out = []
    for k in range(n):
        S = gen_sg(rng, SG_SCHEMAS[0] if k % 2 else SG_SCHEMAS[2], nmax=8)
        if not S["nodes"]:
            continue
        out.append({"G": sg_as_graph(S), "tag": "cross-sg", "axes": S["axes"], "readers": ["nx", "rx", "sg"]})
    # axes of different dtypes (int time, float space): spatial-graph has one position array
    for k in range(2):
        S = gen_sg(rng, SG_SCHEMAS[0], nmax=4)
        if len(S["nodes"]) < 1:
            continue
        G = sg_as_graph(S)
        for j, (_, a) in enumerate(G["nodes"]):
            a[S["axes"][0]] = ["i", str(j + k)]
        out.append({"G": G, "tag": "special:sg-mixed-axis-dtypes", "axes": S["axes"], "readers": ["nx", "rx", "sg"]})
    return out


# ============================================================================ the adapter layer (GeffModel/Adapters.lean)
ADAPTER_EXC = {"KeyError", "IndexError", "ValueError", "AttributeError", "OverflowError", "NoEdgeBetweenNodes"}


def _adapter_call(f, sg_edge_unknown=False, has=False):
    """one adapter call as an outcome {"ok": canonical value} | {"exc": class name}"""
    try:
        r = f()
    except Exception as e:  # noqa: BLE001
        n = type(e).__name__
        if sg_edge_unknown and n in ("IndexError", "RuntimeError"):
            n = "MissingEndpoint"  # spatial-graph: which of the two depends on the end point (library detail)
        return {"exc": n}
    if has:
        return {"ok": bool(r)} if isinstance(r, (bool, np.bool_)) else {"ok": ["not-a-bool", repr(r)]}
    return {"ok": enc(r)}


def adapter_answers(ad, md, probe, backend, node_set):
    """every function of the GraphAdapter protocol on every probe"""
    out = {}
    try:
        out["node_ids"] = {"ok": [str(int(i)) for i in ad.get_node_ids()]}
    except Exception as e:  # noqa: BLE001
        out["node_ids"] = {"exc": type(e).__name__}
    try:
        out["edge_ids"] = {"ok": [[str(int(e[0])), str(int(e[1]))] for e in ad.get_edge_ids()]}
    except Exception as e:  # noqa: BLE001
        out["edge_ids"] = {"exc": type(e).__name__}
    ni = [int(i) for i in probe["ni"]]
    ee = [(int(u), int(v)) for u, v in probe["ee"]]
    out["hn"] = [[_adapter_call(lambda: ad.has_node_prop(n, i, md), has=True) for i in ni] for n in probe["nn"]]
    out["gn"] = [[_adapter_call(lambda: ad.get_node_prop(n, i, md)) for i in ni] for n in probe["nn"]]
    unk = [backend == "sg" and not (e[0] in node_set and e[1] in node_set) for e in ee]
    out["he"] = [[_adapter_call(lambda: ad.has_edge_prop(n, e, md), has=True) for e in ee] for n in probe["en"]]
    out["ge"] = [[_adapter_call(lambda: ad.get_edge_prop(n, e, md), u) for e, u in zip(ee, unk)] for n in probe["en"]]
    return out


def impl_adapter(case):
    """construct one in-memory geff through every backend and put every probe to the backend's adapter"""
    import geff
    import geff_spec
    from geff._graph_libs._api_wrapper import get_backend

    warnings.simplefilter("ignore")
    M = case["M"]
    out = {}
    node_set = {int(i) for i in M["node_ids"]}
    for b in case["backends"]:
        name = {"nx": "networkx", "rx": "rustworkx", "sg": "spatial-graph"}[b]
        try:
            m = dec_mem(M)
            g = geff.construct(**m, backend=name)
        except Exception as e:  # noqa: BLE001
            out[b] = _exc(e)
            continue
        axes = None if case.get("md_axes") is None else [geff_spec.Axis(name=a) for a in case["md_axes"]]
        md = geff_spec.GeffMetadata(geff_version="1.0.0", directed=M["directed"], axes=axes,
                                    node_props_metadata={}, edge_props_metadata={})
        if case.get("md_axes") == []:
            md.axes = []
        try:
            out[b] = {"ok": adapter_answers(get_backend(name).graph_adapter(g), md, case["probe"], b, node_set)}
        except Exception as e:  # noqa: BLE001
            out[b] = {"adapter_exc": type(e).__name__}
    return out


def impl_rx_adapter(case):
    """RxGraphAdapter of a rustworkx graph that was NOT built by construct (index holes, no to_rx_id_map)"""
    from geff._graph_libs._rustworkx import RxBackend

    g, _ = build_rx(case["G"], {"id_map": False, "trailing_holes": case.get("trailing_holes", 0)})
    node_set = {int(i) for i, _ in case["G"]["nodes"]}
    return adapter_answers(RxBackend.graph_adapter(g), None, case["probe"], "rx", node_set)


def adapter_probe(rng, node_ids, edge_ids, node_names, edge_names, extra_names=()):
    ids = [int(i) for i in node_ids]
    pool = [x for x in (4, 0, 11, 250, 6) if x not in ids]
    ni = [str(i) for i in ids] + [str(pool[0])] if pool else [str(i) for i in ids]
    ee = [list(e) for e in edge_ids] + [[e[1], e[0]] for e in edge_ids[:6]]
    if len(ids) >= 2:
        for _ in range(3):
            u, v = rng.choice(ids), rng.choice(ids)
            ee.append([str(u), str(v)])
    if pool and ids:
        ee.append([str(ids[0]), str(pool[0])])
        ee.append([str(pool[0]), str(ids[-1])])
    ee = [list(x) for x in dict.fromkeys(tuple(e) for e in ee)]
    return {"nn": [*sorted(node_names), "zz_absent", *extra_names], "ni": ni,
            "en": [*sorted(edge_names), "zz_absent"], "ee": ee}


def gen_adapter_case(rng, k):
    mode = ["general", "general", "general", "sg", "invalid"][k % 5]
    if mode == "sg":
        M = gen_mem(rng, sg_domain=True)
        ax = M["axes"] or []
        md_axes = rng.choice([ax, ax, ax, None, list(reversed(ax)), ax[:-1], ["t0", *ax], [*ax, "lab"], []])
        if not M["node_ids"]:
            md_axes = rng.choice([ax, None])
        return {"stream": "adapter", "M": M, "backends": ["nx", "rx", "sg"], "md_axes": md_axes,
                "probe": adapter_probe(rng, M["node_ids"], M["edge_ids"], M["node_props"], M["edge_props"], ("position",))}
    if mode == "invalid":
        while True:
            M = gen_mem(rng, valid=False)
            if M.get("invalid") != "dup-edge":  # parallel rustworkx edges: get_edge_data is library behaviour
                break
    else:
        M = gen_mem(rng)
    return {"stream": "adapter", "M": M, "backends": ["nx", "rx"], "md_axes": rng.choice([None, ["x"]]),
            "probe": adapter_probe(rng, M["node_ids"], M["edge_ids"], M["node_props"], M["edge_props"])}


def adapter_exhaustive():
    """every valid graph shape on <= 3 nodes (ids 9, 3, 7 — out of order, with gaps) x <= 2 edges from all ordered pairs
    (self loops included) x directed/undirected, one bool node property and one int edge property under every missing mask"""
    ids = ["9", "3", "7"]
    out = []
    for n in range(0, 4):
        pairs = [(a, b) for a in range(n) for b in range(n)]
        edge_sets = [()] + [(p,) for p in pairs] + [(p, q) for p in pairs for q in pairs if p != q]
        for directed in (True, False):
            for k, es in enumerate(edge_sets):
                if not directed and len({frozenset(e) for e in es}) < len(es):
                    continue
                nmask = (k * 5 + n) % (2 ** n)
                emask = (k * 3 + 1) % (2 ** len(es))
                M = {"directed": directed, "id_dtype": "uint64", "node_ids": ids[:n],
                     "edge_ids": [[ids[a], ids[b]] for a, b in es], "axes": None,
                     "node_props": {"f": {"dtype": "bool", "varlen": False, "elem_shape": [],
                                          "rows": [[[], [["b", (i + k) % 2 == 0]]] for i in range(n)],
                                          "missing": [bool(nmask >> i & 1) for i in range(n)] if k % 3 else None}},
                     "edge_props": {"w": {"dtype": "int64", "varlen": False, "elem_shape": [],
                                          "rows": [[[], [["i", str(10 + i)]]] for i in range(len(es))],
                                          "missing": [bool(emask >> i & 1) for i in range(len(es))] if k % 2 else None}}}
                probe = {"nn": ["f", "zz_absent"], "ni": [*ids[:n], "4"], "en": ["w", "zz_absent"],
                         "ee": [[ids[a], ids[b]] for a in range(n) for b in range(n)] + ([[ids[0], "4"], ["4", ids[0]]] if n else [["4", "5"]])}
                out.append({"stream": "adapter", "M": M, "backends": ["nx", "rx"], "md_axes": None, "probe": probe, "exh": True})
    return out


def _spec_adapter(M, b, probe, md_axes):
    """SPECIFICATION (model-independent) of the answers on elements and properties of the geff: has = the element is not
    marked missing, get = values[k]; `None` where the specification leaves the answer open"""
    G = mem_as_graph(M)
    nattr = {i: a for i, a in G["nodes"]}
    eattr = {}
    for (u, v), a in G["edges"]:
        eattr[(u, v)] = a
        if not M["directed"]:
            eattr.setdefault((v, u), a)
    sg_ok = b != "sg" or (md_axes == M.get("axes"))
    spec = {"hn": [], "gn": [], "he": [], "ge": []}
    for n in probe["nn"]:
        hrow, grow = [], []
        for i in probe["ni"]:
            if i in nattr and n in M["node_props"] and sg_ok and not (b == "sg" and n == "position"):
                hrow.append(n in nattr[i] if b != "sg" else True)
                grow.append({"ok": nattr[i][n]} if n in nattr[i] else None)
            else:
                hrow.append(None)
                grow.append(None)
        spec["hn"].append(hrow)
        spec["gn"].append(grow)
    for n in probe["en"]:
        hrow, grow = [], []
        for e in probe["ee"]:
            e = tuple(e)
            if e in eattr and n in M["edge_props"]:
                hrow.append(n in eattr[e] if b != "sg" else True)
                grow.append({"ok": eattr[e][n]} if n in eattr[e] else None)
            else:
                hrow.append(None)
                grow.append(None)
        spec["he"].append(hrow)
        spec["ge"].append(grow)
    return spec


def _norm_answer(o):
    if isinstance(o, dict) and "ok" in o and isinstance(o["ok"], list):
        return {"ok": norm_value(o["ok"])}
    return o


def check_adapter_spec(ck, case, b, ans):
    """model-free verdict on one backend's adapter answers for a valid geff"""
    M, probe = case["M"], case["probe"]
    want_nodes = sorted(M["node_ids"], key=int)
    if "ok" in ans["node_ids"] and sorted(ans["node_ids"]["ok"], key=int) != want_nodes or "exc" in ans["node_ids"]:
        ck.fail(f"C03:adapter-{b}-node-ids", f"{b} adapter get_node_ids() does not list the nodes of the geff", case,
                ans["node_ids"], want_nodes)
        return False
    def ekey(e):
        e = (int(e[0]), int(e[1]))
        return e if M["directed"] else (min(e), max(e))
    want_edges = sorted(ekey(e) for e in M["edge_ids"])
    if "exc" in ans["edge_ids"] or sorted(ekey(e) for e in ans["edge_ids"]["ok"]) != want_edges:
        ck.fail(f"C03:adapter-{b}-edge-ids", f"{b} adapter get_edge_ids() does not list the edges of the geff", case,
                ans["edge_ids"], want_edges)
        return False
    spec = _spec_adapter(M, b, probe, case.get("md_axes"))
    for key, what in (("hn", "has_node_prop"), ("gn", "get_node_prop"), ("he", "has_edge_prop"), ("ge", "get_edge_prop")):
        for r, (srow, arow) in enumerate(zip(spec[key], ans[key])):
            for c, (sv, av) in enumerate(zip(srow, arow)):
                if sv is None:
                    continue
                exp = {"ok": sv} if key in ("hn", "he") else sv
                if not _same(_norm_answer(av), _norm_answer(exp)):
                    name = (probe["nn"] if key in ("hn", "gn") else probe["en"])[r]
                    el = (probe["ni"] if key in ("hn", "gn") else probe["ee"])[c]
                    ck.fail(f"C03:adapter-{b}-{what}", f"{b} adapter {what}({name!r}, {el}) = {av}, the geff says {exp}", case, av, exp)
                    return False
    return True


def _cmp_answers(ck, name, case, impl, model, multiset_ids=False):
    """implementation answers vs model answers, field by field"""
    for key in ("node_ids", "edge_ids"):
        a, b = impl[key], model[key]
        if multiset_ids and "ok" in a and "ok" in b:
            a, b = {"ok": sorted(a["ok"])}, {"ok": sorted(b["ok"])}
        if not _same(a, b):
            ck.corr_broken(f"{name}.{key}", case, a, b)
            return False
    for key in ("hn", "gn", "he", "ge"):
        a = [[_norm_answer(x) for x in row] for row in impl[key]]
        b = [[_norm_answer(x) for x in row] for row in model[key]]
        if not _same(a, b):
            for r, (ra, rb) in enumerate(zip(a, b)):
                for c, (xa, xb) in enumerate(zip(ra, rb)):
                    if not _same(xa, xb):
                        ck.corr_broken(f"{name}.{key}", {**case, "at": [key, r, c]}, xa, xb)
                        return False
    return True


def do_adapters(ck, drv, cases, stats):
    res = common.pmap(impl_adapter, cases, chunksize=8)
    model = drv.ask([{"op": "adapter", "m": _strip_mem(c["M"]), "axes": c["M"].get("axes"), "md_axes": c.get("md_axes"),
                      "nn": c["probe"]["nn"], "ni": c["probe"]["ni"], "en": c["probe"]["en"], "ee": c["probe"]["ee"]}
                     for c in cases]) if drv else None
    if drv and model is None:
        ck.broken.append({"what": "driver Drivers/C03.lean (adapter)", "detail": drv.broken})
    for k, (c, r) in enumerate(zip(cases, res)):
        M = c["M"]
        invalid = M.get("invalid")
        ck.case(c, f"adapter:{'exh' if c.get('exh') else 'sg-domain' if M.get('axes') else 'general'}{':' + invalid if invalid else ''}",
                nontrivial=bool(M["node_ids"]))
        for b, o in r.items():
            if "ok" in o and not invalid:
                stats[f"adapter_spec_{b}_" + ("ok" if check_adapter_spec(ck, c, b, o["ok"]) else "FAIL")] += 1
        mo = model[k] if model else None
        if mo is None:
            continue
        if "err" in mo:
            ck.corr_broken("C03:driver(adapter)", c, None, mo)
            continue
        for b, o in r.items():
            mb = mo.get(b, {})
            if "unmodelled" in mb:
                stats[f"adapter_{b}_unmodelled"] += 1
                continue
            if "exc" in o or "exc" in mb:
                if o.get("exc") != mb.get("exc"):
                    ck.corr_broken(f"C03:{b}Adapter(construct)", c, o, mb)
                    stats[f"adapter_{b}_disagree"] += 1
                else:
                    stats[f"adapter_{b}_construct_exc"] += 1
                continue
            if "adapter_exc" in o:
                ck.corr_broken(f"C03:{b}Adapter", c, o, mb)
                continue
            ok = _cmp_answers(ck, f"C03:{b}Adapter", c, o["ok"], mb["ok"], multiset_ids=(b == "sg"))
            stats[f"adapter_{b}_" + ("agree" if ok else "disagree")] += 1
            stats["adapter_answers"] += sum(len(row) for key in ("hn", "gn", "he", "ge") for row in o["ok"][key])


def gen_rx_adapter_case(rng):
    it = gen_random_graph(rng, nmax=7, kinds=["bool", "int", "float", "str", "list"], idsets=("pool",))
    G = it["G"]
    # rustworkx indices are the ids: keep them small (every unused index below the maximum is a hole)
    ren = {i: str(k) for k, (i, _) in zip(rng.sample(range(0, 14), len(G["nodes"])), G["nodes"])}
    G = {"directed": G["directed"], "nodes": [[ren[i], a] for i, a in G["nodes"]],
         "edges": [[[ren[u], ren[v]], a] for (u, v), a in G["edges"]]}
    nn = sorted({k for _, a in G["nodes"] for k in a})
    en = sorted({k for _, a in G["edges"] for k in a})
    ids = [i for i, _ in G["nodes"]]
    holes = [str(x) for x in range(0, 16) if str(x) not in ids][:2]
    probe = {"nn": [*nn, "zz_absent"], "ni": [*ids, *holes, "-1", "40"], "en": [*en, "zz_absent"],
             "ee": [e for e, _ in G["edges"]] + [[e[1], e[0]] for e, _ in G["edges"][:4]]
                   + ([[ids[0], holes[0]]] if ids and holes else []) + ([[ids[0], ids[-1]]] if ids else [])}
    probe["ee"] = [list(x) for x in dict.fromkeys(tuple(e) for e in probe["ee"])]
    return {"stream": "rxadapter", "G": G, "probe": probe, "trailing_holes": rng.choice([0, 0, 2])}


def do_rx_adapters(ck, drv, cases, stats):
    res = common.pmap(impl_rx_adapter, cases, chunksize=8)
    model = drv.ask([{"op": "rxAdapter", "g": rx_json(c["G"], {"id_map": False})[0], **c["probe"]} for c in cases]) if drv else None
    if drv and model is None:
        ck.broken.append({"what": "driver Drivers/C03.lean (rxAdapter)", "detail": drv.broken})
    for k, (c, r) in enumerate(zip(cases, res)):
        ck.case(c, "rxadapter:holes", nontrivial=bool(c["G"]["nodes"]))
        want = sorted((i for i, _ in c["G"]["nodes"]), key=int)
        if r["node_ids"].get("ok") is None or sorted(r["node_ids"]["ok"], key=int) != want:
            ck.fail("C03:adapter-rx-node-ids", "rustworkx adapter (no id map) does not list the indices in use", c, r["node_ids"], want)
        mo = model[k] if model else None
        if mo is None:
            continue
        if "err" in mo:
            ck.corr_broken("C03:driver(rxAdapter)", c, None, mo)
            continue
        ok = _cmp_answers(ck, "C03:rxAdapter(no id map)", c, r, mo)
        stats["rxadapter_" + ("agree" if ok else "disagree")] += 1


# ============================================================================ the dispatch / forwarding layer, dynamically
def do_wrappers(ck, stats):
    """geff.read / geff.construct / geff.write called with a distinct value for EVERY keyword, the core functions replaced
    by recorders: what they receive (bound to their own signatures) must be what the wrapper was given.  Model-free; the
    static counterpart is translator T11 + GeffProps/C03Dispatch.lean."""
    import inspect

    import networkx as nx
    import rustworkx as rx
    import zarr

    import geff
    import geff_spec
    from geff._graph_libs import _backend_protocol, _networkx, _rustworkx, _spatial_graph
    from geff.validate.data import ValidationConfig

    warnings.simplefilter("ignore")
    rec = {}

    def spy(name, orig, ret=None):
        sig = inspect.signature(orig)

        def f(*a, **k):
            b = sig.bind(*a, **k)
            rec[name] = dict(b.arguments)
            return ret() if callable(ret) else ret
        return f

    def expect(case, what, got, want):
        ck.case(case, "wrapper:" + case["call"], nontrivial=True)
        stats["wrapper_calls"] += 1
        if got != want:
            ck.fail("C03:wrapper-forwarding", f"{case['call']}: {what} arrives as {got!r}, the caller passed {want!r}", case, repr(got), repr(want))
            return False
        return True

    M = {"directed": True, "id_dtype": "uint64", "node_ids": ["3", "9"], "edge_ids": [["9", "3"]], "axes": ["y", "x"],
         "node_props": {a: {"dtype": "float64", "varlen": False, "missing": None, "elem_shape": [],
                            "rows": [[[], [["f", f2h(v)]]] for v in (1.0, 2.0)]} for a in ("y", "x")},
         "edge_props": {}}
    saved = (_backend_protocol.read_to_memory, _networkx.write_dicts, _rustworkx.write_dicts, _spatial_graph.write_arrays)
    try:
        # ---- read: every keyword, every backend
        _backend_protocol.read_to_memory = spy("read_to_memory", saved[0], lambda: dec_mem(M))
        for b in ("networkx", "rustworkx", "spatial-graph"):
            for variant in ("keywords", "positional"):
                store, cfg = zarr.storage.MemoryStore(), ValidationConfig(graph=True)
                vals = {"structure_validation": False, "node_props": ["y", "x"], "edge_props": [], "data_validation": cfg}
                case = {"stream": "wrapper", "call": f"geff.read[{b},{variant}]"}
                rec.clear()
                try:
                    if variant == "keywords":
                        g, md = geff.read(store, backend=b, **vals)
                    else:
                        g, md = geff.read(store, False, ["y", "x"], [], cfg, backend=b)
                except Exception as e:  # noqa: BLE001
                    ck.case(case, "wrapper:" + case["call"], nontrivial=True)
                    ck.fail("C03:wrapper-forwarding", f"{case['call']} with valid arguments for every keyword raises "
                            f"{type(e).__name__}: {str(e)[:200]}", case, type(e).__name__, "returns")
                    continue
                got = rec.get("read_to_memory", {})
                ok = expect(case, "store", got.get("source") is store, True)
                for k2, v in vals.items():
                    ok = ok and expect(case, k2, got.get(k2), v)
                expect(case, "graph type", type(g).__module__.split(".")[0], {"networkx": "networkx", "rustworkx": "rustworkx", "spatial-graph": "spatial_graph"}[b])
            # defaults: nothing but the store
            rec.clear()
            case = {"stream": "wrapper", "call": f"geff.read[{b},defaults]"}
            try:
                geff.read(zarr.storage.MemoryStore(), backend=b)
            except Exception as e:  # noqa: BLE001
                ck.fail("C03:wrapper-forwarding", f"{case['call']} raises {type(e).__name__}: {str(e)[:200]}", case, type(e).__name__, "returns")
                continue
            got = rec.get("read_to_memory", {})
            for k2, v in {"structure_validation": True, "node_props": None, "edge_props": None, "data_validation": None}.items():
                expect(case, k2 + " (default)", got.get(k2, inspect.signature(saved[0]).parameters[k2].default), v)
        _backend_protocol.read_to_memory = saved[0]
        # ---- write: every keyword, the backend chosen from the graph's type
        _networkx.write_dicts = spy("nx", saved[1])
        _rustworkx.write_dicts = spy("rx", saved[2])
        _spatial_graph.write_arrays = spy("sg", saved[3])
        gs = {}
        for b in ("networkx", "rustworkx", "spatial-graph"):
            gs[b] = geff.construct(**dec_mem(M), backend=b)
        gs["networkx-undirected"] = nx.Graph(gs["networkx"])
        g2 = rx.PyGraph()
        g2.add_nodes_from([{"y": 1.0, "x": 2.0}, {"y": 3.0, "x": 4.0}])
        gs["rustworkx-undirected"] = g2
        lists = {"axis_names": ["y", "x"], "axis_units": ["micrometer", "nanometer"], "axis_types": ["space", "space"],
                 "axis_scales": [2.0, 0.5], "scaled_units": ["meter", "millimeter"], "axis_offset": [1.0, -3.0]}
        for gname, g in gs.items():
            b = gname.split("-")[0] if gname.count("-") == 1 and not gname.startswith("spatial") else ("spatial-graph" if gname.startswith("spatial") else gname)
            key = {"networkx": "nx", "rustworkx": "rx", "spatial-graph": "sg"}[b]
            for fmt, sv in ((3, False), (2, True)):
                store = zarr.storage.MemoryStore()
                md = geff_spec.GeffMetadata(geff_version="1.0.0", directed=not gname.endswith("undirected"),
                                            node_props_metadata={}, edge_props_metadata={}, extra={"tag": gname})
                case = {"stream": "wrapper", "call": f"geff.write[{gname},zarr_format={fmt},structure_validation={sv}]"}
                rec.clear()
                extra = {"node_id_dict": {0: 30, 1: 90}} if b == "rustworkx" else {}
                try:
                    geff.write(g, store, md, zarr_format=fmt, structure_validation=sv, **lists, **extra)
                except Exception as e:  # noqa: BLE001
                    ck.case(case, "wrapper:" + case["call"], nontrivial=True)
                    ck.fail("C03:wrapper-forwarding", f"{case['call']} with valid arguments for every keyword raises "
                            f"{type(e).__name__}: {str(e)[:200]}", case, type(e).__name__, "returns")
                    continue
                if set(rec) != {key}:
                    ck.fail("C03:wrapper-dispatch", f"{case['call']}: reached {sorted(rec)}, expected the {b} writer", case, sorted(rec), [key])
                    continue
                got = rec[key]
                ok = expect(case, "store", got.get("geff_store") is store, True)
                ok = ok and expect(case, "zarr_format", got.get("zarr_format"), fmt)
                ok = ok and expect(case, "structure_validation", got.get("structure_validation"), sv)
                m2 = got.get("metadata")
                ok = ok and expect(case, "metadata.extra", getattr(m2, "extra", None), {"tag": gname})
                ok = ok and expect(case, "metadata.directed", getattr(m2, "directed", None), not gname.endswith("undirected"))
                axes = getattr(m2, "axes", None) or []
                for field, attr in (("axis_names", "name"), ("axis_units", "unit"), ("axis_types", "type"), ("axis_scales", "scale"),
                                    ("scaled_units", "scaled_unit"), ("axis_offset", "offset")):
                    ok = ok and expect(case, field, [getattr(a, attr) for a in axes], lists[field])
                if b == "rustworkx":
                    expect(case, "node_id_dict", sorted(int(i) for i, _ in got.get("node_data", [])), [30, 90])
                if b == "spatial-graph":
                    expect(case, "node_props_unsquish", got.get("node_props_unsquish"), {"position": ["y", "x"]})
    finally:
        (_backend_protocol.read_to_memory, _networkx.write_dicts, _rustworkx.write_dicts, _spatial_graph.write_arrays) = saved
    # ---- dispatch errors
    for call, f, want in (("get_backend('igraph')", lambda: geff._graph_libs._api_wrapper.get_backend("igraph"), "ValueError"),
                          ("geff.write(dict())", lambda: geff.write({}, zarr.storage.MemoryStore()), "TypeError"),
                          ("geff.read(backend='igraph')", lambda: geff.read(zarr.storage.MemoryStore(), backend="igraph"), "ValueError")):
        try:
            f()
            got = "returned"
        except Exception as e:  # noqa: BLE001
            got = type(e).__name__
        expect({"stream": "wrapper", "call": call}, "outcome", got, want)


# ============================================================================ the check
def run(ck: common.Check):
    import collections

    ck.prove(["GeffProps.C03", "GeffProps.C03Links", "GeffProps.C03Adapters", "GeffProps.C03Dispatch", "GeffProps.C10C03Links", "GeffProps.C03Gen"])
    ck.rule = ("cases = corpus + pinned defect witnesses + bounded-exhaustive attribute graphs (<=3 nodes, <=3 edges, every "
               "presence subset of one property x kind in {bool,int,int>=2^63,mixed ints,float,str,list,2-d list,ragged,ragged 2-d} "
               "x id sets {small,sparse,around 2^63,all >= 2^63} x directed/undirected) and seeded random graphs up to 30 nodes, each "
               "written from networkx and from rustworkx (indices as ids with holes / explicit node_id_dict with holes) and read "
               "back by every backend, zarr formats 2 and 3, MemoryStore; spatial-graph graphs of a fixed set of dtype signatures "
               "written and read by all three; per node / edge property every combination of {absent, None, regular list, ragged "
               "list, empty list} over <=3 elements (sampled to 8) — None next to lists = missing; the metadata= argument as None, "
               "as a fresh object whose `directed` disagrees with the graph class, and as the object returned by reading an "
               "earlier geff of the other directedness (read -> convert -> write -> read histories of 2 and 3 steps, all "
               "writer/reader pairs); array-valued attributes as numpy arrays in 7 memory layouts (C, Fortran, transposed view, "
               "strided, negative strides, non-native byte order, read-only) x fixed/ragged 1-3-d x 4 dtypes, compared "
               "logically; in-memory geffs (9 dtypes, scalar/vector/matrix/var-length, missing masks, 5 id "
               "dtypes) constructed through every backend and its adapter; every GraphAdapter function (get_node_ids / get_edge_ids in "
               "reported order, has_/get_ node and edge prop) on every (name, element) probe incl. absent names, non-nodes, "
               "reversed / absent edges, edges with an unknown end point, with metadata axes = the geff's / None / permuted / "
               "shortened / extended, over all graph shapes on <=3 nodes x <=2 edges x directedness (enumerated) and seeded random "
               "valid, spatial-graph-domain and invalid (duplicate id, dangling edge) geffs, plus rustworkx graphs with index holes "
               "and no id map; dict_props_to_arr called directly. non-trivial = at "
               "least one attribute or edge; distinct = distinct canonical JSON of the case")
    rng = ck.rng
    drv = ck.driver()
    if drv.exe is None:
        ck.extra["driver"] = "interpreted (executable could not be built)"
    stats = collections.Counter()
    t0 = __import__("time").time()
    sg_ok = sg_warm()
    ck.extra["sg_warmup_s"] = round(__import__("time").time() - t0, 1)

    # ---- A: networkx / rustworkx writers
    items = [{"G": c["G"], "tag": "corpus:" + c.get("name", "?"), **{k: c[k] for k in ("axes", "readers", "md", "history", "model_axes") if k in c}} for c in corpus() if "G" in c]
    items += [{"G": it["G"], "tag": "special:" + tag} for tag, _, it in SPECIAL]
    items += gen_exhaustive(rng, ("small", "around63") if ck.quick else ("small", "sparse", "around63", "large"), quick=ck.quick)
    nrand = 300 if ck.quick else 3500
    items += [gen_random_graph(rng) for _ in range(nrand)]
    items += [gen_random_graph(rng, nmax=8, kinds=[*KINDS, "npscalar", "npscalar", "npscalar"]) for _ in range(nrand // 4)]
    items += gen_none_items(rng, 40 if ck.quick else 600)
    lay_items = gen_layout_items(rng, 30 if ck.quick else 600)
    items += lay_items
    items += sg_cross_items(rng, 24 if ck.quick else 200)
    pool = [gen_random_graph(rng, nmax=10) for _ in range(60 if ck.quick else 400)] + \
        [it for it in sg_cross_items(rng, 16 if ck.quick else 80) if it["tag"] == "cross-sg"]
    items += metadata_items(rng, pool, 40 if ck.quick else 600, 90 if ck.quick else 1500)
    items += [gen_malformed(rng) for _ in range(60 if ck.quick else 600)]
    cases = roundtrip_cases(rng, items, both_formats=not ck.quick)
    phase = {}
    t1 = __import__("time").time()
    do_roundtrips(ck, drv, cases, stats)
    phase["roundtrips"] = round(__import__("time").time() - t1, 1)
    ck.extra["exhaustive"] = ("<=3 nodes / <=3 edges x presence subsets x 10 kinds x id sets "
                              + ("{small, around 2^63}" if ck.quick else "{small, sparse, around 2^63, all >= 2^63}")
                              + " (the enumerated sub-space only)")

    # ---- B: construct from one in-memory geff through every backend
    nmem = 800 if ck.quick else 12000
    cm = [{"stream": "construct", "M": gen_mem(rng), "backends": ["nx", "rx"]} for _ in range(nmem)]
    cm += [{"stream": "construct", "M": gen_mem(rng, sg_domain=True), "backends": ["nx", "rx", "sg"]} for _ in range(nmem // 8)]
    cm += [{"stream": "construct", "M": gen_mem(rng, valid=False), "backends": ["nx", "rx"]} for _ in range(nmem // 8)]
    cm += [{"stream": "construct", "M": c["M"], "backends": c.get("backends", ["nx", "rx"])} for c in corpus() if "M" in c]
    t1 = __import__("time").time()
    do_constructs(ck, drv, cm, stats)
    phase["constructs"] = round(__import__("time").time() - t1, 1)

    # ---- C: spatial-graph writer
    nsg = 100 if ck.quick else 1000
    cs = [{"stream": "sg", "S": gen_sg(rng, SG_SCHEMAS[k % len(SG_SCHEMAS)]), "fmt": 2 + (k // len(SG_SCHEMAS)) % 2,
           "md_fresh": k % 3 == 0} for k in range(nsg)]
    cs += [{"stream": "sg", "S": c["S"], "fmt": c.get("fmt", 2)} for c in corpus() if "S" in c]
    t1 = __import__("time").time()
    do_sg(ck, drv, cs, stats)
    phase["sg"] = round(__import__("time").time() - t1, 1)

    # ---- D: the dict -> array layer directly
    nd = 2000 if ck.quick else 40000
    cd = [{"stream": "dict", **gen_dict_case(rng)} for _ in range(nd)]
    cd += [{"stream": "dict", **gen_dict_case(rng, mixed=True)} for _ in range(nd // 4)]
    cd += gen_none_dict_cases(rng, 60 if ck.quick else 1500)
    cd += [{"stream": "dict", "data": it["G"]["nodes"], "names": ["p"], "mixed": False, "layout": it["tag"]} for it in lay_items]
    t1 = __import__("time").time()
    do_dicts(ck, drv, cd, stats)
    phase["dicts"] = round(__import__("time").time() - t1, 1)
    # ---- E: the adapter layer (every GraphAdapter function, every probe) against GeffModel/Adapters.lean
    nad = 400 if ck.quick else 6000
    ca = adapter_exhaustive() + [gen_adapter_case(rng, k) for k in range(nad)]
    t1 = __import__("time").time()
    do_adapters(ck, drv, ca, stats)
    do_rx_adapters(ck, drv, [gen_rx_adapter_case(rng) for _ in range(nad // 4)], stats)
    phase["adapters"] = round(__import__("time").time() - t1, 1)
    t1 = __import__("time").time()
    do_wrappers(ck, stats)
    phase["wrappers"] = round(__import__("time").time() - t1, 1)
    ck.extra["phase_s"] = phase

    ck.extra["correspondence"] = dict(sorted(stats.items()))
    ck.extra["sg_signatures"] = len(SG_SCHEMAS)
    if not sg_ok:
        ck.broken.append({"what": "spatial-graph warm-up", "detail": "could not build the graph classes"})
    ck.assumptions += [
        "StoreRoundTrip: read_to_memory(write_arrays(m)) returns m up to the order of the properties (property C01's theorem); "
        "exercised here on every round-trip case (the model's in-memory geff is compared with the one read back)",
        "networkx / rustworkx / spatial-graph containers are modelled by the dict / list operations geff uses, not verified",
        "numpy's dtype inference is the chain bool < {int64,uint64} < float64 < str < object; casts between kinds "
        "(int -> float rounding, anything -> str) are outside the model and outside the property's domain (one kind per property)",
        "memory layout (C / Fortran order, strides, byte order, writability) is BELOW the Lean model: an array value is its "
        "shape and its C-order leaves; that every layout of the same logical array is written and read back identically is "
        "checked only by the harness (layout streams of the round trips, of dict_props_to_arr and of construct). "
        "spatial-graph itself accepts only C-contiguous native writable buffers (library domain): for that backend the "
        "layouts are varied on the axis columns of in-memory geffs only (they pass through np.stack)",
        "domain: str values without trailing NUL characters (numpy's fixed-width unicode drops them); ragged lists of one "
        "rank whose elements have the same numpy dtype individually (an empty Python list is float64); finite spatial-graph positions",
    ]


class _Collector:
    """stand-in for common.Check in replay: records spec failures only"""
    def __init__(self):
        self.failures, self.broken = [], []

    def fail(self, key, what, case, observed=None, expected=None):
        self.failures.append({"key": key, "what": what, "observed": observed})

    def corr_broken(self, *a):
        pass

    def case(self, *a, **k):
        pass


def replay(rp):
    c = rp["case"]
    ck = _Collector()
    import collections

    stats = collections.Counter()
    stream = c.get("stream", "roundtrip")
    if stream == "roundtrip":
        if c.get("readers") and "sg" in c["readers"]:
            sg_warm()
        r = impl_roundtrip(c)
        print(json.dumps({"write": r["write"], "reads": r.get("reads"), "adapters": r.get("adapters")})[:3000])
        orig = common.pmap
        common.pmap = lambda f, items, **k: [r]
        try:
            do_roundtrips(ck, None, [c], stats)
        finally:
            common.pmap = orig
    elif stream == "construct":
        if "sg" in c["backends"]:
            sg_warm()
        do_constructs(ck, None, [c], stats)
    elif stream == "sg":
        sg_warm()
        do_sg(ck, None, [c], stats)
    elif stream == "adapter":
        if "sg" in c["backends"]:
            sg_warm()
        print(json.dumps(impl_adapter(c))[:3000])
        do_adapters(ck, None, [c], stats)
    elif stream == "rxadapter":
        print(json.dumps(impl_rx_adapter(c))[:3000])
        do_rx_adapters(ck, None, [c], stats)
    elif stream == "wrapper":
        sg_warm()
        do_wrappers(ck, stats)
    else:
        do_dicts(ck, None, [c], stats)
    for f in ck.failures:
        print(f"  [{f['key']}] {f['what']}")
    ok = not ck.failures
    print("REPLAY: property holds on this input" if ok else "REPLAY: property FAILS on this input")
    return 0 if ok else 1
