"""C06 — existing geffs are never clobbered implicitly; overwrite replaces completely.

A case is a *history*  write(A); write(B, overwrite=o1); write(C, overwrite=o2) …  on one store
(Path / str / MemoryStore / LocalStore, with or without foreign sibling groups and root
attributes, zarr format 2 or 3) through one entry point per step: write_arrays, write_dicts,
geff.write (networkx, rustworkx, spatial-graph), from_ctc_to_geff, from_trackmate_xml_to_geff
(tiny synthetic inputs).  The key -> bytes map of the store is snapshotted before and after every
call.

Independent oracle (no Lean involved), per step:
  * the location holds a geff (its root attributes carry `geff`) and overwrite is not requested
    => FileExistsError and **every stored byte unchanged** (same keys, same bytes);
  * overwrite requested on a location holding a geff => the call succeeds and the store is
    byte-identical to a *fresh* write of the same graph onto the same foreign content (no key,
    document or metadata field of the previous graph survives), and reads back the same;
  * no geff there => the write succeeds (or refuses without touching anything) and equals the
    fresh write;
  * foreign members and foreign root attributes are byte-identical after every call.
Correspondence with the Lean model (GeffModel/KV.lean, `history` request of Drivers/C06.lean): after
every step the outcome class and the complete store (every key and document; for MemoryStore also
the key order) predicted by the model equal the real ones.
"""
from __future__ import annotations

import json
import os

from harness import common
from harness.corr import _kv as K
from harness.corr.C05 import exc_class

PROP = "C06"


def holds_geff(snap) -> bool:
    """independent detection: some root attribute document (either zarr format) has a `geff` entry"""
    if not snap:
        return False
    for k in (".zattrs", "zarr.json"):
        if k in snap:
            b = K.abstract_blob(k, snap[k])
            if b[0] == "root" and b[1] is not None:
                return True
    return False


def diff_snap(a, b, limit=8):
    a, b = a or {}, b or {}
    return {"only_in_store": sorted(set(a) - set(b))[:limit], "missing_in_store": sorted(set(b) - set(a))[:limit],
            "different_bytes": sorted(k for k in a if k in b and a[k] != b[k])[:limit]}


def fresh_on_foreign(case, step, tmp):
    """the same graph written (without overwrite) onto a fresh location that holds only the same foreign
    content: (snapshot, reading)"""
    saved = K.REC
    t = K.Target(case["kind"], tmp, name=f"fresh{step['i']}.geff")
    try:
        with K.quiet(t):
            if case.get("sib"):
                K.add_siblings(t, case.get("sib_fmt", step["fmt"]), case["sib"])
            K.do_any(step["entry"], t.handle(), step["graph"], step["fmt"], False, True, tmp)
            K.drain()
            snap = t.snapshot()
            return snap, K.canon_read(t.reader())
    finally:
        K.REC = saved


def run_case(case):
    # a str/Path root that holds nothing but the geff (no other member) is removed as a whole by delete_geff,
    # together with foreign root attributes (documented behaviour, the property speaks of members): the
    # attributes-only variant is used on store objects only
    if case.get("sib") == "attrs" and case["kind"] not in ("mem", "local"):
        case = {**case, "sib": "group"}
    try:
        return _run_case(case)
    except BaseException as e:  # noqa: BLE001
        import traceback

        return {"case": case, "harness_error": f"{type(e).__name__}: {e}", "tb": traceback.format_exc()[-1500:]}


def _run_case(case):
    with K.tmpdir() as tmp:
        if case["kind"] in K.TILDE_KINDS:
            with K.home_env(tmp):
                res = _run_in(case, tmp)
                # a "~" handed to zarr unexpanded shows up as a literal directory
                res["literal_tilde"] = os.path.exists(os.path.join(os.path.realpath(tmp), "~"))
                return res
        return _run_in(case, tmp)


def _run_in(case, tmp):
    kind = case["kind"]
    res = {"case": case, "steps": []}
    if True:
        t = K.Target(kind, tmp)
        with K.quiet(t):
            if case.get("sib"):
                K.add_siblings(t, case.get("sib_fmt", case["steps"][0]["fmt"]), case["sib"])
        res["pre"] = K.model_state(t.snapshot(), t.keys_in_order() if kind == "mem" else None)
        for i, st in enumerate(case["steps"]):
            st = {**st, "i": i}
            s0 = t.snapshot()
            had = holds_geff(s0)
            t.rec.log, t.rec.n = [], 0
            try:
                K.do_any(st["entry"], t.handle(), st["graph"], st["fmt"], st.get("overwrite", False), True, tmp)
                out = "ok"
            except BaseException as e:  # noqa: BLE001
                out = exc_class(e)
                msg = str(e)[:160]
            K.drain()
            s1 = t.snapshot()
            with K.quiet(t):
                read = K.canon_read(t.reader()) if s1 is not None else {"reject": "absent"}
            o = {"i": i, "out": out, "had_geff": had, "nops": len(t.rec.log), "unchanged": s0 == s1,
                 "state": K.abstract_state(s1, t.keys_in_order() if kind == "mem" else None),
                 "foreign_same": K.foreign_part(s0) == K.foreign_part(s1),
                 "msg": None if out == "ok" else msg}
            if not o["unchanged"] and out != "ok":
                o["diff"] = diff_snap(s1, s0)
            if out == "ok":
                try:
                    fs, fr = fresh_on_foreign(case, st, tmp)
                    o["eq_fresh"] = (fs == s1)
                    o["reads_as_fresh"] = (fr == read)
                    if fs != s1:
                        o["diff"] = diff_snap(s1, fs)
                except BaseException as e:  # noqa: BLE001
                    o["fresh_error"] = f"{type(e).__name__}: {str(e)[:120]}"
            # model input of this step
            o["g"] = K.model_graph(st["graph"], st["fmt"], st["entry"], workdir=tmp)
            res["steps"].append(o)
    return res


# ----------------------------------------------------------------- converter output names
# The converters (and the CLI commands wrapping them) normalise the output name to <name>.geff.  The
# whole PARENT directory is snapshotted: an existing output must be refused with every byte under
# the parent unchanged; with overwrite only the actual output location may change and must equal a
# fresh conversion; a bystander geff at the unsuffixed / differently suffixed neighbour is untouched.
OUTPUT_NAMES = ["x.geff", "x.zarr", "run1", "x.v1.geff", "a.b.c", "x.zarr/", "data.2024.tracks"]


def walk(d):
    out = {}
    for dp, _dn, fn in os.walk(d):
        for f in fn:
            q = os.path.join(dp, f)
            with open(q, "rb") as fh:
                out[os.path.relpath(q, d).replace(os.sep, "/")] = fh.read()
    return out


def convert_call(entry, src_variant, out_arg, fmt, overwrite, work):
    """one conversion through the Python function or the CLI command; returns the outcome class"""
    conv = "ctc" if "ctc" in entry else "trackmate"
    src = K.make_ctc(work, src_variant) if conv == "ctc" else K.make_trackmate(work, src_variant)
    try:
        if entry.startswith("cli_"):
            from typer.testing import CliRunner

            from geff._cli import app

            cmd = "convert-ctc" if conv == "ctc" else "convert-trackmate-xml"
            res = CliRunner().invoke(app, [cmd, src, str(out_arg), "--zarr-format", str(fmt)] + (["--overwrite"] if overwrite else []))
            if res.exception is not None and not isinstance(res.exception, SystemExit):
                raise res.exception
            if res.exit_code != 0:
                return f"exit{res.exit_code}"
            return "ok"
        from pathlib import Path

        from geff.convert import from_ctc_to_geff, from_trackmate_xml_to_geff

        f = from_ctc_to_geff if conv == "ctc" else from_trackmate_xml_to_geff
        f(Path(src), out_arg, overwrite=overwrite, zarr_format=fmt)
        return "ok"
    except BaseException as e:  # noqa: BLE001
        return exc_class(e)


def run_names_case(case):
    try:
        return _run_names_case(case)
    except BaseException as e:  # noqa: BLE001
        import traceback

        return {"case": case, "harness_error": f"{type(e).__name__}: {e}", "tb": traceback.format_exc()[-1500:]}


def _run_names_case(case):
    from pathlib import Path

    res = {"case": case, "steps": []}
    with K.tmpdir() as tmp:
        tmp = os.path.realpath(tmp)
        parent, work = os.path.join(tmp, "out"), os.path.join(tmp, "work")
        os.makedirs(parent)
        os.makedirs(work)
        mk = (lambda base: os.path.join(base, case["name"])) if case["as"] == "str" else (
            lambda base: Path(base) / case["name"])
        # bystander geffs at neighbour paths (never the normalised output location itself)
        for b in case.get("bystanders", []):
            K.do_write("write_arrays", os.path.join(parent, b), {"id_dtype": "uint8", "ids": [7, 8], "edges": [[7, 8]],
                       "nprops": [], "eprops": [], "directed": True, "salt": 3}, case["fmt"], False)
        K.drain()
        for i, st in enumerate(case["steps"]):
            pre = walk(parent)
            out = convert_call(case["entry"], st["variant"], mk(parent), case["fmt"], st["overwrite"], work)
            K.drain()
            post = walk(parent)
            # the same conversion into an empty parent: tells where the output goes and what it must be
            # (not repeated for a call that was refused: the output location depends on the name only)
            if out == "ok" or i == 0:
                fparent = os.path.join(tmp, f"fresh{i}")
                os.makedirs(fparent)
                fout = convert_call(case["entry"], st["variant"], mk(fparent), case["fmt"], False, work)
                K.drain()
                fresh = walk(fparent)
                tops = sorted({k.split("/")[0] for k in fresh})
            in_out = lambda k: k.split("/")[0] in tops  # noqa: E731
            had = any(in_out(k) for k in pre)
            o = {"i": i, "out": out, "fresh_out": fout, "output_tops": tops, "had_output": had,
                 "unchanged": pre == post,
                 "bystanders_same": {k: v for k, v in pre.items() if not in_out(k)} == {k: v for k, v in post.items() if not in_out(k)},
                 "output_eq_fresh": {k: v for k, v in post.items() if in_out(k)} == fresh,
                 "changed": sorted({k.split("/")[0] for k in set(pre) | set(post) if pre.get(k) != post.get(k)})[:6]}
            res["steps"].append(o)
    return res


def judge_names(ck, r):
    c = r["case"]
    for st, o in zip(c["steps"], r["steps"]):
        cc = {**c, "steps": c["steps"][: o["i"] + 1]}
        where = (f"step {o['i']} ({c['entry']} to output name {c['name']!r} as {c['as']}, overwrite={st['overwrite']}, "
                 f"zarr_format={c['fmt']}, bystanders {c.get('bystanders', [])})")
        if o["fresh_out"] != "ok":
            ck.fail("C06:fresh-reference-fails", f"{where}: the same conversion into an empty directory fails: {o['fresh_out']}", cc,
                    o, "fresh conversion succeeds")
            continue
        if not o["bystanders_same"]:
            ck.fail("C06:converter-clobbers-bystander", f"{where}: a geff that is NOT the output location ({o['output_tops']}) was "
                    f"changed or deleted: {o['changed']}", cc, o, "everything outside the output location byte-identical")
        if o["had_output"] and not st["overwrite"]:
            if o["out"] != "FileExistsError" or not o["unchanged"]:
                ck.fail("C06:existing-output-not-refused", f"{where}: the output location {o['output_tops']} exists, overwrite was not "
                        f"requested, but the call ended with {o['out']}" + ("" if o["unchanged"] else " and the parent directory changed"),
                        cc, o, "FileExistsError, every byte under the parent directory unchanged")
        elif o["out"] != "ok":
            ck.fail("C06:overwrite-fails" if o["had_output"] else "C06:conversion-fails",
                    f"{where}: ended with {o['out']}" + (" although overwrite was requested" if o["had_output"] else ""), cc, o,
                    "the new graph at the output location")
        elif not o["output_eq_fresh"]:
            ck.fail("C06:overwrite-differs-from-fresh" if o["had_output"] else "C06:write-differs-from-fresh",
                    f"{where}: the output location differs from a fresh conversion", cc, o, "byte-identical to a fresh conversion")


def gen_names_cases(ck):
    rng = ck.rng
    cases = []
    entries = ["ctc", "trackmate", "cli_ctc", "cli_trackmate"]
    neighbours = {"x.geff": ["x", "x.zarr"], "x.zarr": ["x.zarr"], "run1": ["run1"], "x.v1.geff": ["x.v1", "x.geff"],
                  "a.b.c": ["a.b.c", "a.b"], "x.zarr/": ["x.zarr"], "data.2024.tracks": ["data.2024.tracks"]}
    n = 0
    for name in OUTPUT_NAMES:
        for entry in entries:
            for as_ in ("str", "path"):
                for fmt in (2, 3):
                    n += 1
                    if ck.quick and n % 5 != (OUTPUT_NAMES.index(name) % 5):
                        continue   # quick: every name x entry once, alternating str/Path and format
                    if entry.startswith("cli_") and as_ == "path":
                        continue
                    steps = [{"variant": 0, "overwrite": False}, {"variant": 1, "overwrite": False},
                             {"variant": 2 if "ctc" in entry else 1, "overwrite": True}]
                    cases.append({"stream": "names", "entry": entry, "name": name, "as": as_, "fmt": fmt,
                                  "bystanders": neighbours[name] if rng.random() < 0.8 else [], "steps": steps})
    return cases


# ----------------------------------------------------------------- generators
def small_graph(rng, i, entry):
    if entry in K.CONVERTERS:
        return {"variant": rng.randrange(3)}
    if entry == "api_sg":
        g = K.spatial_spec(rng, salt=i)
        while not g["edges"]:
            g = K.spatial_spec(rng, salt=i)
        return g
    if entry in ("api_nx", "api_rx", "write_dicts"):
        return K.random_spec(rng, backend_ok=True, salt=i, small=True) if rng.random() < 0.5 else K.spatial_spec(rng, salt=i)
    return K.random_spec(rng, salt=i, small=rng.random() < 0.5)


ENTRY_KINDS = {"ctc": ("path", "str"), "trackmate": ("path", "str")}


def gen_history(rng, entries, kind, fmt, sib, length, cross=False):
    steps = []
    for i in range(length):
        entry = rng.choice(entries)
        ow = False if i == 0 else (rng.random() < 0.6)
        if entry == "write_dicts":
            ow = False
        f = fmt if not (cross and i == length - 1) else 5 - fmt
        steps.append({"entry": entry, "graph": small_graph(rng, i * 7 + 1, entry), "fmt": f, "overwrite": ow})
    return {"kind": kind, "sib": sib, "steps": steps, "cross": cross}


def gen_cases(ck):
    rng = ck.rng
    cases = []
    graph_entries = ["write_arrays", "write_dicts", "api_nx", "api_rx", "api_sg"]
    # bounded-exhaustive: the three-step history  write(A); write(B); write(C, overwrite)  for every
    # store kind x siblings x format x entry point (converters on path/str only)
    pathlike = ("path", "str") + K.TILDE_KINDS
    # foreign content next to the geff: neutral names, names that look like geff's own members / metadata key
    # (nodes_raw, edges.old, Nodes, props, geff_backup, … and root attributes geff_old, Geff, …), groups only, …
    SIBS = ("array+group", "lookalike-prefix", "lookalike-mixed", "nested", "group", "lookalike-prefix", "array",
            "lookalike-mixed", "attrs")
    nsib = 0
    for fmt in (2, 3):
        for kind in K.KINDS + K.TILDE_KINDS:
            for sib in (False, True):
                for entry in graph_entries + list(K.CONVERTERS):
                    if entry in K.CONVERTERS and kind not in pathlike:
                        continue
                    if ck.quick and ((kind == "str") or (entry in ("api_rx",) and sib)):
                        continue
                    if ck.quick and kind != "mem" and entry in ("write_dicts", "api_rx", "api_sg") and (sib or fmt == 3):
                        continue   # quick: the dict/rx/sg writers share write_arrays' guard; full matrix on MemoryStore
                    if ck.quick and kind in K.TILDE_KINDS and (
                            sib or (kind, fmt) not in (("tilde-str", 2), ("tilde-path", 3)) or entry in ("api_rx", "api_sg")):
                        continue   # quick: ~/… as str in format 2 and as Path in format 3, without siblings
                    first = "write_arrays" if entry == "write_dicts" else entry
                    steps = [{"entry": first, "graph": small_graph(rng, 1, first), "fmt": fmt, "overwrite": False},
                             {"entry": entry, "graph": small_graph(rng, 2, entry), "fmt": fmt, "overwrite": False}]
                    if entry != "write_dicts":
                        steps.append({"entry": entry, "graph": small_graph(rng, 3, entry), "fmt": fmt, "overwrite": True})
                    nsib += 1
                    cases.append({"kind": kind, "sib": SIBS[nsib % len(SIBS)] if sib else False, "steps": steps,
                                  "stream": "matrix"})
    # seeded random histories of length 2-4, mixed entry points
    nrand = 12 if ck.quick else 500
    for _ in range(nrand):
        kind = rng.choice(K.KINDS + K.TILDE_KINDS)
        entries = graph_entries + (list(K.CONVERTERS) if kind in pathlike else [])
        c = gen_history(rng, entries, kind, rng.choice((2, 3)),
                        rng.choice(K.SIB_VARIANTS) if rng.random() < 0.5 else False, rng.randint(2, 4))
        c["stream"] = "random"
        cases.append(c)
    # histories whose last step writes in the other zarr format (known finding D16)
    for fmt in (2, 3):
        for kind in ("mem", "path", "local"):
            for sib in (False, True):
                for ow in (False, True):
                    steps = [{"entry": "write_arrays", "graph": small_graph(rng, 1, "write_arrays"), "fmt": fmt, "overwrite": False},
                             {"entry": "write_arrays", "graph": small_graph(rng, 2, "write_arrays"), "fmt": 5 - fmt, "overwrite": ow}]
                    cases.append({"kind": kind, "sib": sib, "sib_fmt": fmt, "steps": steps, "stream": "cross-format", "cross": True})
                if kind != "path":
                    # the no-overwrite half through geff.write, and twice in a row (still refused, nothing changed)
                    steps = [{"entry": "api_nx", "graph": small_graph(rng, 1, "api_nx"), "fmt": fmt, "overwrite": False},
                             {"entry": "api_nx", "graph": small_graph(rng, 2, "api_nx"), "fmt": 5 - fmt, "overwrite": False},
                             {"entry": "write_arrays", "graph": small_graph(rng, 3, "write_arrays"), "fmt": 5 - fmt, "overwrite": False}]
                    cases.append({"kind": kind, "sib": sib, "sib_fmt": fmt, "steps": steps, "stream": "cross-format", "cross": True})
    # cross-format overwrite=True on str / Path / ~ targets without siblings, through every kind of entry point:
    # must be indistinguishable from a fresh write (not part of the known finding)
    nx = 0
    for fmt in (2, 3):
        for kind in ("path", "str") + K.TILDE_KINDS:
            for entry in ("write_arrays", "api_nx", "ctc", "trackmate"):
                nx += 1
                if ck.quick and nx % 2 == (fmt % 2):
                    continue
                steps = [{"entry": entry, "graph": small_graph(rng, 1, entry), "fmt": fmt, "overwrite": False},
                         {"entry": entry, "graph": small_graph(rng, 2, entry), "fmt": 5 - fmt, "overwrite": True},
                         {"entry": entry, "graph": small_graph(rng, 3, entry), "fmt": fmt, "overwrite": True}]
                cases.append({"kind": kind, "sib": False, "steps": steps, "stream": "cross-format-path", "cross": True})
    d = common.VERIF / "harness" / "corpus" / PROP
    corpus = [json.loads(f.read_text()) for f in sorted(d.glob("*.json"))] if d.is_dir() else []
    return corpus + cases


# ----------------------------------------------------------------- the check
def judge(ck, r):
    """specification verdicts on one history (model-free)"""
    c = r["case"]
    cross = bool(c.get("cross"))
    if r.get("literal_tilde"):
        ck.fail("C06:tilde-not-expanded", f"a home-relative location ({c['kind']}) was handed to zarr unexpanded: a literal "
                f"'~' directory was created in the working directory", c, None, "everything under the expanded path")
    for st, o in zip(c["steps"], r["steps"]):
        cc = {**c, "steps": c["steps"][: o["i"] + 1]}
        where = f"step {o['i']} ({st['entry']}, overwrite={st.get('overwrite', False)}, zarr_format={st['fmt']}, {c['kind']} store" + (
            ", with siblings)" if c.get("sib") else ")")
        # the known finding D16 concerns overwrite=True across formats only; without overwrite a geff in the
        # other format must still be refused with every byte unchanged
        # … and it concerns store objects and shared containers only: on a str/Path/~ target WITHOUT sibling
        # members the whole root is removed, so a cross-format overwrite must equal a fresh write there
        xf = (cross and st["fmt"] != c["steps"][0]["fmt"] and bool(st.get("overwrite", False))
              and (c["kind"] in ("mem", "local") or bool(c.get("sib"))))
        if not o["foreign_same"]:
            ck.fail("C06:overwrite-across-zarr-formats" if xf else "C06:foreign-content-changed",
                    f"{where}: foreign members / root attributes changed", cc, o.get("diff"), "foreign content byte-identical")
        if o["had_geff"] and not st.get("overwrite", False):
            if o["out"] != "FileExistsError":
                ck.fail("C06:overwrite-across-zarr-formats" if xf else "C06:existing-geff-not-refused",
                        f"{where}: the location holds a geff, overwrite was not requested, but the call ended with {o['out']}"
                        + ("" if o["unchanged"] else " and the store changed"), cc,
                        {"out": o["out"], "unchanged": o["unchanged"], "msg": o.get("msg")}, "FileExistsError, store unchanged")
            elif not o["unchanged"]:
                ck.fail("C06:overwrite-across-zarr-formats" if xf else "C06:refused-write-changes-bytes", f"{where}: FileExistsError was raised but stored bytes changed", cc,
                        o.get("diff"), "every stored byte unchanged")
        else:
            if o["out"] != "ok":
                if o["had_geff"]:
                    ck.fail("C06:overwrite-across-zarr-formats" if xf else "C06:overwrite-fails",
                            f"{where}: overwrite=True on a location holding a geff ended with {o['out']}: {o.get('msg')}", cc,
                            {"out": o["out"], "unchanged": o["unchanged"]}, "the new graph, as if written to an empty location")
                elif not o["unchanged"]:
                    ck.fail("C06:overwrite-across-zarr-formats" if xf else "C06:failed-fresh-write-changes-store", f"{where}: write to a location without geff ended with {o['out']} "
                            f"and changed the store", cc, o.get("diff"), "success, or refusal with the store unchanged")
            else:
                if "fresh_error" in o:
                    ck.fail("C06:overwrite-across-zarr-formats" if xf else "C06:fresh-reference-fails", f"{where}: the same write onto a fresh location fails: {o['fresh_error']}", cc,
                            o["fresh_error"], "fresh write succeeds")
                elif not o["eq_fresh"] or not o["reads_as_fresh"]:
                    key = "C06:overwrite-across-zarr-formats" if xf else (
                        "C06:overwrite-differs-from-fresh" if o["had_geff"] else "C06:write-differs-from-fresh")
                    ck.fail(key, f"{where}: the resulting store differs from a fresh write of the same graph "
                            f"(reads the same: {o['reads_as_fresh']})", cc, o.get("diff"), "byte-identical to a fresh write")


def model_request(r):
    c = r["case"]
    f0 = c["steps"][0]["fmt"]
    steps = []
    for st, o in zip(c["steps"], r["steps"]):
        if o["g"] is None:
            return None
        steps.append({"g": o["g"], "entry": K.model_entry(st["entry"]) if st["entry"] not in K.CONVERTERS else "api",
                      "overwrite": st.get("overwrite", False), "validate": True})
    return {"op": "history", "fmt": f0, "kind": K.model_kind(c["kind"]), "docs": K.docs_for(f0), "pre": r["pre"], "steps": steps}


def _dispatch(case):
    return run_names_case(case) if "name" in case else run_case(case)


def run(ck: common.Check):
    ck.prove(["GeffProps.C06", "GeffProps.C06Links", "GeffProps.C06Gen"])
    ck.rule = ("case = history of 2-4 writes on one store: store kind (Path, str, MemoryStore, LocalStore) x foreign siblings "
               "x zarr format x entry point per step (write_arrays, write_dicts, geff.write with 3 backends, both converters) x "
               "overwrite flags x graphs differing in size, id dtype and property sets; streams: corpus, bounded matrix "
               "(write; write; write(overwrite) for every kind x siblings x format x entry), seeded random histories, "
               "home-relative locations (~/… as str and Path with $HOME pointed at a temporary directory), converter output names ({x.geff, x.zarr, no suffix, "
               "x.v1.geff, dotted names, trailing slash} x str/Path x both converters x their CLI commands, with bystander geffs "
               "at the neighbour paths, the whole parent directory snapshotted), cross-format histories "
               "(overwrite=True across formats is the known finding; without overwrite the other-format geff must be refused "
               "unchanged); non-trivial = at least one step meets an existing geff")
    cases = gen_cases(ck)
    name_cases = [c for c in cases if c.get("stream") == "names" or "name" in c] + gen_names_cases(ck)
    cases = [c for c in cases if "name" not in c]
    both = common.pmap(_dispatch, cases + name_cases, chunksize=1)
    results, name_results = both[: len(cases)], both[len(cases):]
    for r in name_results:
        c = r["case"]
        if "harness_error" in r:
            ck.broken.append({"what": "corr C06:harness", "detail": {"case": c, "error": r["harness_error"], "tb": r.get("tb")}})
            continue
        ck.case(c, tag=f"names/{c['entry']}/{c['name']}", nontrivial=True)
        judge_names(ck, r)
    drv = ck.driver()
    good = [r for r in results if "harness_error" not in r and not r["case"].get("cross")]
    reqs = [(r, model_request(r)) for r in good]
    reqs = [(r, q) for r, q in reqs if q is not None]
    answers = drv.ask([q for _, q in reqs]) if reqs else []
    if answers is None:
        ck.broken.append({"what": "driver Drivers/C06.lean", "detail": drv.broken})
        answers = [None] * len(reqs)
    n_steps = n_refused = n_over = n_model_steps = 0
    for r in results:
        c = r["case"]
        if "harness_error" in r:
            ck.broken.append({"what": "corr C06:harness", "detail": {"case": c, "error": r["harness_error"], "tb": r.get("tb")}})
            continue
        entries = sorted({s["entry"] for s in c["steps"]})
        ck.case(c, tag=f"{c.get('stream', 'corpus')}/{c['kind']}/{'sib' if c.get('sib') else 'nosib'}/" + "+".join(entries),
                nontrivial=any(o["had_geff"] for o in r["steps"]))
        for o in r["steps"]:
            n_steps += 1
            n_refused += o["out"] == "FileExistsError"
            n_over += o["had_geff"] and o["out"] == "ok"
        judge(ck, r)
    for (r, _q), a in zip(reqs, answers):
        c = r["case"]
        if a is None:
            continue
        if "err" in a:
            ck.corr_broken("C06:driver", c, None, a)
            continue
        for o, m in zip(r["steps"], a["steps"]):
            if m["outcome"] != o["out"]:
                ck.corr_broken("C06:outcome", {**c, "at_step": o["i"]}, o["out"], m["outcome"])
                break
            ms = [[k, b] for k, b in m["state"]]
            n_model_steps += 1
            if sorted(ms) != sorted(o["state"]) or (c["kind"] == "mem" and ms != o["state"]):
                ck.corr_broken("C06:store-after-step", {**c, "at_step": o["i"]},
                               [x for x in o["state"] if x not in ms][:4], [x for x in ms if x not in o["state"]][:4])
                break
    ck.extra["explanation"] = (
        "proof about the key-view model (refusal is a no-op, overwrite = fresh by simulation on the geff-owned part, induction "
        "over histories); tied to the implementation by byte snapshots before/after every call of generated histories and by "
        "comparison of the complete store after every step with the model's prediction; writes across zarr formats are a known finding")
    ck.extra.update(traces_validated_against_impl=n_model_steps, steps_total=n_steps, refused=n_refused, overwrites=n_over, histories=len(cases))
    ck.assumptions += [
        "foreign root attributes of a str/Path container without any other member are not protected (delete_geff removes such "
        "a root as a whole); everywhere else foreign members AND foreign root attributes must be byte-identical",
        "stores are compared as key -> bytes maps (MemoryStore dict / directory walk); empty directories are not content",
        "the model treats stored documents as opaque ids; equality of documents across writes is the equality of their bytes",
        "writes across zarr formats are outside the theorems (hypothesis SameFmt / PreOK) and recorded as known finding "
        "C06:overwrite-across-zarr-formats",
    ]


def replay(rp):
    c = rp["case"]
    r = _dispatch(c)
    if "harness_error" in r:
        print(r["harness_error"], r.get("tb"))
        return 2

    class _Ck:
        def __init__(self):
            self.f = []

        def fail(self, key, what, case, observed=None, expected=None):
            self.f.append((key, what))

    k = _Ck()
    if "name" in c:
        judge_names(k, r)
        for o in r["steps"]:
            print(json.dumps(o))
        for key, what in k.f:
            print(f"  [{key}] {what}")
        print("REPLAY: property FAILS on this input" if k.f else "REPLAY: property holds on this input")
        return 1 if k.f else 0
    judge(k, r)
    for o in r["steps"]:
        print(json.dumps({x: o[x] for x in ("i", "out", "had_geff", "unchanged", "foreign_same") if x in o}
                         | {"eq_fresh": o.get("eq_fresh"), "diff": o.get("diff"), "msg": o.get("msg")}))
    for key, what in k.f:
        print(f"  [{key}] {what}")
    print("REPLAY: property FAILS on this input" if k.f else "REPLAY: property holds on this input")
    return 1 if k.f else 0
