"""C07 — metadata objects always satisfy the format's invariants.

Implementation: real pydantic objects of the working tree (`GeffMetadata`, `Axis`, `PropMetadata`,
`RelatedObject`, `DisplayHint`) and the helpers of `geff_spec/utils.py`, driven through histories:
an object is obtained (constructor / `model_validate` / `model_validate_json` / `GeffMetadata.read`
on zarr v2 and v3 attributes / `create_or_update_metadata(None, …)`) and then operated on
(top-level assignment with valid and invalid values, `model_copy`, `deepcopy`,
`update_metadata_axes`, `create_or_update_metadata`, `add_or_update_props_metadata`).
After every step the outcome class, `model_dump()` and `model_fields_set` are observed.

Three verdicts per step:
* the independent Python oracle `meta_common.spec_violation` (the invariants as the property text
  lists them) on the real dump, plus "a failed operation left the object as it was" on the real
  object — these alone decide `ck.fail`;
* the Lean specification `Geff.Meta.Valid` evaluated on the same dump through the driver
  (cross-checks the oracle);
* the Lean model (`Geff.Meta.trace`) — outcome, dump and fields-set must coincide with the
  implementation's (correspondence); the theorems of `GeffProps.C07` are about this model.
"""
from __future__ import annotations

import copy
import json
import time

from harness import common
from harness.corr import meta_common as mc

PROP = "C07"
HELPER_KINDS = ("updateAxes", "createOrUpdate", "addProps")


# ----------------------------------------------------------------- implementation side
def _inst(field, v):
    """nested dicts -> model instances where they construct (pydantic does not re-validate instances)"""
    from geff_spec import Axis, DisplayHint, PropMetadata, RelatedObject

    try:
        if field == "axes" and isinstance(v, list):
            return [Axis(**a) if isinstance(a, dict) else a for a in v]
        if field in ("node_props_metadata", "edge_props_metadata") and isinstance(v, dict):
            return {k: PropMetadata(**p) if isinstance(p, dict) else p for k, p in v.items()}
        if field == "props" and isinstance(v, list):
            return [PropMetadata(**p) if isinstance(p, dict) else p for p in v]
        if field == "display_hints" and isinstance(v, dict):
            return DisplayHint(**v)
        if field == "related_objects" and isinstance(v, list):
            return [RelatedObject(**r) if isinstance(r, dict) else r for r in v]
    except Exception:  # noqa: BLE001
        return v
    return v


def _do_init(init):
    import zarr
    from geff_spec import GeffMetadata
    from geff_spec.utils import create_or_update_metadata
    from zarr.storage import MemoryStore

    k = init["k"]
    if k == "create":
        ax = init.get("axes")
        if init.get("inst") and ax is not None:
            ax = _inst("axes", ax)
        return create_or_update_metadata(None, init["directed"], ax)
    if k == "attrs":
        store = MemoryStore()
        g = zarr.open_group(store, mode="w", zarr_format=init.get("fmt", 2))
        g.attrs.update(init["attrs"])
        return GeffMetadata.read(store)
    doc, via = init["doc"], init.get("via", "validate")
    if via == "kwargs":
        if not isinstance(doc, dict):
            return GeffMetadata.model_validate(doc)
        if init.get("inst"):
            doc = {f: _inst(f, v) for f, v in doc.items()}
        return GeffMetadata(**doc)
    if via == "json":
        return GeffMetadata.model_validate_json(json.dumps(doc))
    return GeffMetadata.model_validate(doc)


def _do_op(obj, op):
    from geff_spec.utils import add_or_update_props_metadata, create_or_update_metadata, update_metadata_axes

    k = op["k"]
    if k == "assign":
        v = _inst(op["f"], op["v"]) if op.get("inst") else op["v"]
        setattr(obj, op["f"], v)
        return obj
    if k == "copy":
        how = op.get("how")
        if how == "deepcopy":
            new = copy.deepcopy(obj)
        elif how == "model_copy_deep":
            new = obj.model_copy(deep=True)
        elif how == "copy_copy":
            new = copy.copy(obj)
        elif how == "pickle":
            import pickle

            new = pickle.loads(pickle.dumps(obj))
        else:
            new = obj.model_copy()
        if new is obj:
            raise AssertionError("copy returned the same object")
        return new
    if k == "updateAxes":
        return update_metadata_axes(obj, op["names"], axis_units=op.get("units"), axis_types=op.get("types"),
                                    axis_scales=op.get("scales"), scaled_units=op.get("scaled_units"),
                                    axis_offset=op.get("offset"))
    if k == "createOrUpdate":
        ax = op.get("axes")
        if op.get("inst") and ax is not None:
            ax = _inst("axes", ax)
        return create_or_update_metadata(obj, op["directed"], ax)
    if k == "addProps":
        props = _inst("props", op["props"]) if op.get("inst") else op["props"]
        return add_or_update_props_metadata(obj, props, op["ctype"])
    if k == "minmax":
        import numpy as np
        from geff_spec.utils import compute_and_add_axis_min_max

        node_props = {}
        for name, p in op["props"].items():
            vals = np.asarray(p["values"], dtype=p.get("dtype", "float64"))
            miss = None if p.get("missing") is None else np.asarray(p["missing"], dtype=bool)
            node_props[name] = {"values": vals, "missing": miss}
        return compute_and_add_axis_min_max(obj, node_props)
    raise ValueError(f"unknown op {k}")


def _observe(obj):
    """dump, fields-set and the oracle's verdict; an object whose dump is not even of the declared shape
    (possible only if validation was bypassed) is reported as such instead of crashing the harness"""
    try:
        d = obj.model_dump()
    except Exception as e:  # noqa: BLE001
        return {"dump": f"model_dump raised {type(e).__name__}", "fs": [], "viol": "malformed-dump"}
    try:
        # a Python int sitting in a float field of an axis (compute_and_add_axis_min_max stores `.item()` of an
        # integer column without validation) equals the float of the same value for Python and for JSON readers
        # of a number|null field: observe it as that float
        dn = d
        if isinstance(d.get("axes"), list):
            dn = {**d, "axes": [{k: (float(v) if k in ("min", "max", "scale", "offset") and isinstance(v, int)
                                     and not isinstance(v, bool) and abs(v) <= 2 ** 53 else v) for k, v in a.items()}
                                if isinstance(a, dict) else a for a in d["axes"]]}
        dump = mc.canon(mc.enc(dn))
    except Exception as e:  # noqa: BLE001
        dump = f"not JSON-native: {type(e).__name__}: {e}"
    try:
        viol = mc.spec_violation(d)
    except Exception:  # noqa: BLE001
        viol = "malformed-dump"
    return {"dump": dump, "fs": [f for f in mc.FIELD_NAMES if f in obj.model_fields_set], "viol": viol}


def impl_obs(case):
    if case.get("kind") == "axes":
        from geff_spec.utils import axes_from_lists

        a = case["args"]
        try:
            axes = axes_from_lists(axis_names=a.get("names"), axis_units=a.get("units"), axis_types=a.get("types"),
                                   axis_scales=a.get("scales"), scaled_units=a.get("scaled_units"),
                                   axis_offset=a.get("offset"), roi_min=a.get("roi_min"), roi_max=a.get("roi_max"))
        except Exception as e:  # noqa: BLE001
            return {"out": type(e).__name__}
        dumps = [x.model_dump() for x in axes]
        v = "valid"
        for d in dumps:  # each axis on its own (unique names are the business of GeffMetadata, not of this helper)
            w = mc.spec_violation({"geff_version": mc.default_version(), "axes": [d], "node_props_metadata": {},
                                   "edge_props_metadata": {}})
            if w != "valid":
                v = w
                break
        return {"out": "ok", "axes": [mc.canon(mc.enc(d)) for d in dumps], "viol": v}
    obs: dict = {"steps": []}
    try:
        obj = _do_init(case["init"])
    except Exception as e:  # noqa: BLE001
        obs["init"] = type(e).__name__
        return obs
    obs["init"] = "ok"
    obs["obj"] = _observe(obj)
    left_behind = []  # objects a copy / helper result was taken from: later steps must not reach them
    for op in case["ops"]:
        before = _observe(obj)
        try:
            new = _do_op(obj, op)
            out = "ok"
        except Exception as e:  # noqa: BLE001
            out, new = type(e).__name__, obj
        after = _observe(obj) if (new is not obj or out != "ok") else before
        st = {"out": out, **_observe(new), "arg_changed": after != before}
        if out != "ok":
            st["arg_after"] = after["dump"]
            st["arg_before"] = before["dump"]
        obs["steps"].append(st)
        if new is not obj:
            left_behind.append((obj, after))
        obj = new
    obs["alias_changed"] = [i for i, (o, was) in enumerate(left_behind) if _observe(o) != was]
    return obs


# ----------------------------------------------------------------- model side
def _enc_list(l):
    return None if l is None else [mc.enc(x) for x in l]


def model_request(case):
    if case.get("kind") == "axes":
        a = case["args"]
        req = {"op": "axes", "env": mc.make_env(a)}
        if a.get("names") is not None:
            req["names"] = a["names"]
        for k in ("units", "types", "scaled_units"):
            if a.get(k) is not None:
                req[k] = a[k]
        for k in ("scales", "offset", "roi_min", "roi_max"):
            if a.get(k) is not None:
                req[k] = _enc_list(a[k])
        return req
    init = case["init"]
    if init["k"] == "create":
        mi = {"k": "create", "directed": init["directed"]}
        if init.get("axes") is not None:
            mi["axes"] = mc.enc(init["axes"])
    elif init["k"] == "attrs":
        mi = {"k": "attrs", "attrs": mc.enc(init["attrs"])}
    else:
        mi = {"k": "parse", "doc": mc.enc(init["doc"])}
    ops = []
    for op in case["ops"]:
        k = op["k"]
        if k == "assign":
            ops.append({"k": "assign", "f": op["f"], "v": mc.enc(op["v"])})
        elif k == "copy":
            ops.append({"k": "copy"})
        elif k == "updateAxes":
            o = {"k": k, "names": op["names"]}
            for f in ("units", "types", "scaled_units"):
                if op.get(f) is not None:
                    o[f] = op[f]
            for f in ("scales", "offset"):
                if op.get(f) is not None:
                    o[f] = _enc_list(op[f])
            ops.append(o)
        elif k == "createOrUpdate":
            o = {"k": k, "directed": op["directed"]}
            if op.get("axes") is not None:
                o["axes"] = mc.enc(op["axes"])
            ops.append(o)
        elif k == "addProps":
            ops.append({"k": k, "props": [mc.enc(p) for p in op["props"]], "ctype": op["ctype"]})
        elif k == "minmax":
            ops.append({"k": "minMax", "cols": [[name, col] for name, col in minmax_cols(op["props"])]})
    return {"op": "run", "env": mc.make_env(case), "init": mi, "ops": ops}


# ----------------------------------------------------------------- generators
def single_op_cases():
    """every catalogue value assigned to its field on every base object, through both value forms"""
    cat = mc.catalogue()
    bases = mc.base_docs()
    out = []
    for bi, base in enumerate(bases):
        for f, vals in cat.items():
            for vi, (v, tag) in enumerate(vals):
                out.append({"init": {"k": "parse", "doc": base, "via": ("kwargs", "validate", "json")[(bi + vi) % 3]},
                            "ops": [{"k": "assign", "f": f, "v": v, "inst": (bi + vi) % 2 == 0}],
                            "tag": tag, "gray": tag == "gray"})
        for f in ("foo", "version", "Axes", "node_props", "model_config_", "geff"):
            out.append({"init": {"k": "parse", "doc": base}, "ops": [{"k": "assign", "f": f, "v": 1}], "tag": "unknown-field"})
    # every catalogue value at construction time (all other fields minimal), all routes
    for f, vals in cat.items():
        for vi, (v, tag) in enumerate(vals):
            doc = {"directed": True, "node_props_metadata": {}, "edge_props_metadata": {}, f: v}
            for via in ("kwargs", "validate", "json"):
                if via == "json" and not _json_safe(v):
                    continue
                out.append({"init": {"k": "parse", "doc": doc, "via": via, "inst": vi % 2 == 0}, "ops": [],
                            "tag": tag, "gray": tag == "gray"})
            for fmt in (2, 3):
                out.append({"init": {"k": "attrs", "attrs": {"geff": doc, "other": {"k": [1, "two"]}}, "fmt": fmt},
                            "ops": [], "tag": tag, "gray": tag == "gray"})
    # missing required keys, non-dict documents, unknown keys
    req = {"directed": True, "node_props_metadata": {}, "edge_props_metadata": {}}
    for k in req:
        d = {x: y for x, y in req.items() if x != k}
        out.append({"init": {"k": "parse", "doc": d, "via": "kwargs"}, "ops": [], "tag": "bad"})
        out.append({"init": {"k": "parse", "doc": d, "via": "json"}, "ops": [], "tag": "bad"})
    for d in ([], "abc", 5, None, [req]):
        out.append({"init": {"k": "parse", "doc": d, "via": "validate"}, "ops": [], "tag": "bad"})
    out.append({"init": {"k": "parse", "doc": {**req, "foo": 1, "polygon": "p"}, "via": "kwargs"}, "ops": [], "tag": "ok"})
    for fmt in (2, 3):
        out.append({"init": {"k": "attrs", "attrs": {"other": 1}, "fmt": fmt}, "ops": [], "tag": "bad"})
        out.append({"init": {"k": "attrs", "attrs": {"geff": [1, 2]}, "fmt": fmt}, "ops": [], "tag": "bad"})
        out.append({"init": {"k": "attrs", "attrs": {"geff": "x"}, "fmt": fmt}, "ops": [], "tag": "bad"})
    # helper catalogue on every base
    ax = lambda n, **kw: {"name": n, **kw}  # noqa: E731
    pm = lambda i, dt="int64", **kw: {"identifier": i, "dtype": dt, **kw}  # noqa: E731
    helper_ops = [
        {"k": "copy", "how": "model_copy"}, {"k": "copy", "how": "deepcopy"}, {"k": "copy", "how": "model_copy_deep"},
        {"k": "copy", "how": "copy_copy"}, {"k": "copy", "how": "pickle"},
        {"k": "updateAxes", "names": ["x", "y"]},
        {"k": "updateAxes", "names": []},
        {"k": "updateAxes", "names": ["x", "y", "z", "t"], "units": ["micrometer", "micrometer", None, "second"],
         "types": ["space", "space", "space", "time"], "scales": [0.5, 0.5, 2, None],
         "scaled_units": ["nanometer", None, "", None], "offset": [0, -1.5, None, 3]},
        {"k": "updateAxes", "names": ["x", "x"]},
        {"k": "updateAxes", "names": ["q"]},
        {"k": "updateAxes", "names": ["x", "y"], "units": ["meter"]},
        {"k": "updateAxes", "names": ["x", "y"], "types": ["space"]},
        {"k": "updateAxes", "names": ["x", "y"], "scales": [1, 2, 3]},
        {"k": "updateAxes", "names": ["x", "y"], "scaled_units": []},
        {"k": "updateAxes", "names": ["x", "y"], "types": ["space", "foo"]},
        {"k": "updateAxes", "names": ["x", "y"], "scaled_units": ["meter", None]},
        {"k": "updateAxes", "names": ["x", "y"], "scaled_units": ["meter", None], "scales": [None, 2]},
        {"k": "updateAxes", "names": ["x", "y"], "offset": [1]},
        {"k": "updateAxes", "names": ["x"], "offset": [1, 2]},
        {"k": "createOrUpdate", "directed": False},
        {"k": "createOrUpdate", "directed": True, "axes": [ax("x"), ax("y"), ax("z"), ax("t")]},
        {"k": "createOrUpdate", "directed": True, "axes": [ax("x"), ax("x")]},
        {"k": "createOrUpdate", "directed": True, "axes": [ax("q", min=1)]},
        {"k": "createOrUpdate", "directed": True, "axes": []},
        {"k": "createOrUpdate", "directed": False, "axes": "abc"},
        {"k": "addProps", "props": [], "ctype": "node"},
        {"k": "addProps", "props": [pm("a", "float32", varlength=True), pm("new", "str")], "ctype": "node"},
        {"k": "addProps", "props": [pm("score", "uint8"), pm("n1"), pm("n1", "bool", name="second")], "ctype": "edge"},
        {"k": "addProps", "props": [pm("a", "float16")], "ctype": "node"},
        {"k": "addProps", "props": [pm("", "int8")], "ctype": "node"},
        {"k": "addProps", "props": [pm("a", "<f8"), pm("seg", "int")], "ctype": "node"},
        {"k": "addProps", "props": [pm("a")], "ctype": "foo"},
        {"k": "addProps", "props": [5], "ctype": "node"},
    ]
    for bi, base in enumerate(bases):
        for hi, h in enumerate(helper_ops):
            out.append({"init": {"k": "parse", "doc": base, "via": "validate"},
                        "ops": [{**h, "inst": (bi + hi) % 2 == 0}], "tag": "helper"})
    for directed in (True, False):
        for axv in (None, [], [ax("x"), ax("y")], [ax("x"), ax("x")], [ax("x", max=1)], "abc", [ax("x", type="time", min=0, max=5)]):
            out.append({"init": {"k": "create", "directed": directed, "axes": axv, "inst": directed}, "ops": [], "tag": "create"})
    # axes_from_lists on its own (roi_min / roi_max are not reachable through update_metadata_axes)
    for args in [
        {}, {"names": []}, {"names": ["x", "y"]},
        {"names": ["x", "y"], "roi_min": [0, 1], "roi_max": [5, 1]},
        {"names": ["x", "y"], "roi_min": [0, 2], "roi_max": [5, 1]},
        {"names": ["x", "y"], "roi_min": [0, None], "roi_max": [5, None]},
        {"names": ["x", "y"], "roi_min": [0, 1]},
        {"names": ["x", "y"], "roi_min": [0], "roi_max": [5]},
        {"names": ["x", "y"], "roi_min": [0, 1, 2], "roi_max": [5, 6, 7]},
        {"names": ["x", "x"], "types": ["space", "time"]},
        {"names": ["x"], "types": ["foo"]},
        {"names": ["x"], "units": ["a", "b"]},
        {"names": ["x", "y"], "scaled_units": ["meter", "meter"], "scales": [1, None]},
        {"names": ["x", "y"], "scaled_units": ["", None]},
        {"names": ["x", "y"], "offset": [1]}, {"names": ["x"], "offset": [1, 2]},
        {"names": None, "units": ["a"]},
        {"names": ["x"], "roi_min": [mc.NAN], "roi_max": [1.0]},
    ]:
        out.append({"kind": "axes", "args": args, "tag": "axes_from_lists"})
    return out


def minmax_cols(props):
    """what compute_and_add_axis_min_max sees of each column, reduced independently of the implementation: the
    present entries are selected in plain Python, numpy is used only for the reduction itself (NaN propagation, +-0)"""
    import numpy as np

    cols = []
    for name, p in props.items():
        vals, miss = p["values"], p.get("missing")
        if len(vals) == 0:
            cols.append((name, {"t": "none"}))
            continue
        present = [v for i, v in enumerate(vals) if miss is None or not miss[i]]
        if not present:
            cols.append((name, {"t": "all"}))
            continue
        arr = np.asarray(present, dtype=p.get("dtype", "float64"))
        lo, hi = float(np.min(arr).item()), float(np.max(arr).item())
        cols.append((name, {"t": "b", "lo": mc.enc(lo), "hi": mc.enc(hi), "wf": not lo > hi}))
    return cols


def minmax_props(rng, names, n=None, mask=None, junk=None, dtype=None):
    """node property columns for compute_and_add_axis_min_max: per axis a value column and a missing mask
    (none / some / all entries missing) whose masked entries hold junk placeholders (extreme, NaN, inf)"""
    props = {}
    n = rng.choice([0, 1, 3, 5]) if n is None else n
    for name in names:
        dt = dtype or rng.choice(["float64", "float64", "int64"])
        mk = mask or rng.choice(["none", "none", "some", "some", "all"])
        jk = junk or rng.choice(["extreme", "extreme", "nan", "inf", "same"])
        if dt == "int64":
            vals = [rng.randint(-20, 20) for _ in range(n)]
        else:
            vals = [rng.choice([0.0, 0.5, -1.5, 3.0, 7.25, -4.0, 10.0, 2.0 ** 40, -0.0, 1e-3]) for _ in range(n)]
        if mk == "none" or n == 0:
            miss = None if (mk == "none" or rng.random() < 0.5) else [False] * n
            if mk == "none" and dt != "int64" and n and jk in ("nan", "inf") and rng.random() < 0.3:
                vals[rng.randrange(n)] = mc.NAN if jk == "nan" else rng.choice([mc.INF, -mc.INF])  # a *present* non-finite value
        else:
            miss = [True] * n if mk == "all" else [rng.random() < 0.5 for _ in range(n)]
            if mk == "some" and n and all(miss):
                miss[0] = False
            for i in range(n):
                if miss[i]:
                    if dt == "int64":
                        vals[i] = rng.choice([10 ** 6 + i, -(10 ** 6) - i, 99 - 7 * i]) if jk != "same" else 0
                    else:
                        vals[i] = {"extreme": rng.choice([1e300 - i, -1e300 + i, 1e6 * (i + 1), -1e6 * (i + 2)]), "nan": mc.NAN,
                                   "inf": rng.choice([mc.INF, -mc.INF]), "same": 0.0}[jk]
        props[name] = {"values": vals, "dtype": dt, "missing": miss}
    return props


def minmax_cases(rng):
    """compute_and_add_axis_min_max on the bases that declare axes: masks none / some / all x placeholder
    kinds x dtypes x empty and non-empty graphs; also a missing column and descending placeholders"""
    out = []
    for base in mc.base_docs():
        names = [a["name"] for a in (base.get("axes") or [])]
        for mask in ("none", "some", "all"):
            for junk in ("extreme", "nan", "inf", "same"):
                for dtype in ("float64", "int64"):
                    for n in (0, 1, 3):
                        if not names and (mask, junk, dtype, n) != ("none", "extreme", "float64", 3):
                            continue
                        out.append({"init": {"k": "parse", "doc": base, "via": "validate"},
                                    "ops": [{"k": "minmax", "props": minmax_props(rng, names, n, mask, junk, dtype)}],
                                    "tag": "helper"})
        if names:
            # the all-missing column with *descending* placeholders, and a column that is absent
            out.append({"init": {"k": "parse", "doc": base, "via": "validate"},
                        "ops": [{"k": "minmax", "props": {nm: {"values": [5.0, 1.0, 3.0], "dtype": "float64", "missing": [True, True, True]}
                                                          for nm in names}}], "tag": "helper"})
            out.append({"init": {"k": "parse", "doc": base, "via": "validate"},
                        "ops": [{"k": "minmax", "props": {nm: {"values": [5, 1, 3], "dtype": "int64", "missing": [True, False, True]}
                                                          for nm in names}}], "tag": "helper"})
            out.append({"init": {"k": "parse", "doc": base, "via": "validate"},
                        "ops": [{"k": "minmax", "props": minmax_props(rng, names[1:], 3)}], "tag": "helper"})
    return out


def after_rejection_cases():
    """every base x a rejected operation x 1-2 follow-up operations (valid and invalid): a rejected operation must
    leave no trace - not in the dump and not in anything later validation consults"""
    ax = lambda n, **kw: {"name": n, **kw}  # noqa: E731
    pm = lambda i, dt="int64", **kw: {"identifier": i, "dtype": dt, **kw}  # noqa: E731
    hint = lambda h, v, **kw: {"display_horizontal": h, "display_vertical": v, **kw}  # noqa: E731
    A = lambda f, v: {"k": "assign", "f": f, "v": v}  # noqa: E731
    out = []
    for bi, base in enumerate(mc.base_docs()):
        names = [a["name"] for a in (base.get("axes") or [])]
        cur = names[:2] if len(names) >= 2 else (names * 2 if names else ["x", "y"])
        rejected = [
            A("axes", [ax("a"), ax("b")]),                      # rejected when hints name other axes (else accepted)
            A("axes", [ax("a"), ax("a")]), A("axes", [ax("a"), ax("b"), ax("a")]),
            A("axes", [ax("a", min=1), ax("b")]), A("axes", [ax("a", type="foo"), ax("b")]), A("axes", "abc"),
            A("display_hints", hint("a", "b")), A("display_hints", hint(cur[0], "nope")),
            A("node_props_metadata", {"a": pm("b")}), A("edge_props_metadata", {"a": pm("b"), "b": pm("a")}),
            A("node_props_metadata", {"a": pm("a", "float16")}),
            A("geff_version", "abc"), A("directed", None), A("nope", 1),
            {"k": "updateAxes", "names": ["a", "a"]}, {"k": "updateAxes", "names": ["a", "b"], "types": ["foo", None]},
            {"k": "createOrUpdate", "directed": True, "axes": [ax("a"), ax("a")]},
            {"k": "addProps", "props": [pm("p", "float16")], "ctype": "node"},
        ]
        follow = [
            [A("display_hints", hint("a", "b"))], [A("display_hints", hint("a", "b", display_time="a"))],
            [A("display_hints", hint(cur[0], cur[1]))], [A("display_hints", None)],
            [A("sphere", "r")], [A("directed", False)], [A("geff_version", "0.3.1.dev6+g61d5f18")], [A("extra", {"k": 1})],
            [A("node_props_metadata", {"a": pm("a")})], [A("edge_props_metadata", {"b": pm("b", "str")})],
            [A("related_objects", [{"type": "labels", "path": "p", "label_prop": "l"}])],
            [A("axes", [ax(n) for n in cur])], [A("axes", [ax("a"), ax("b")])], [A("axes", None)],
            [{"k": "copy", "how": "deepcopy"}, A("display_hints", hint("a", "b"))],
            [{"k": "copy", "how": "model_copy"}, A("sphere", "q"), A("display_hints", hint(cur[0], cur[1]))],
            [A("sphere", "r"), A("display_hints", hint("a", "b")), A("ellipsoid", "e")],
            [{"k": "addProps", "props": [pm("n1")], "ctype": "node"}], [{"k": "updateAxes", "names": ["a", "b"]}],
            [{"k": "createOrUpdate", "directed": False}],
        ]
        for ri, r in enumerate(rejected):
            for fi, fl in enumerate(follow):
                out.append({"init": {"k": "parse", "doc": base, "via": ("validate", "kwargs", "json")[(bi + ri + fi) % 3]},
                            "ops": [{**r, "inst": (ri + fi) % 2 == 0}] + [{**o, "inst": (bi + fi) % 2 == 0} for o in fl],
                            "tag": "after-rejection"})
    return out


def _json_safe(v):
    try:
        json.dumps(v)
        return True
    except Exception:  # noqa: BLE001
        return False


def _follow_ups(rng, f, v, names, hinted):
    """1-3 operations appended after an (intended) rejected assignment: assignments that would only be valid had the
    rejected value been stored, assignments that are valid for the object as it still is, and unrelated ones"""
    out = []
    rej_names = []
    if f == "axes" and isinstance(v, list):
        rej_names = [a.get("name") for a in v if isinstance(a, dict) and isinstance(a.get("name"), str)]
    pool_now = names if names else mc.NAMES
    for _ in range(rng.randint(1, 3)):
        r = rng.random()
        if r < 0.3 and rej_names:
            h = {"display_horizontal": rng.choice(rej_names), "display_vertical": rng.choice(rej_names)}
            if rng.random() < 0.4:
                h["display_time"] = rng.choice(rej_names)
            out.append({"k": "assign", "f": "display_hints", "v": h, "inst": rng.random() < 0.5})
        elif r < 0.5 and pool_now:
            out.append({"k": "assign", "f": "display_hints", "inst": rng.random() < 0.5,
                        "v": {"display_horizontal": rng.choice(pool_now), "display_vertical": rng.choice(pool_now)}})
        elif r < 0.6 and f in ("node_props_metadata", "edge_props_metadata") and isinstance(v, dict):
            out.append({"k": "addProps", "props": [mc.gen_prop(rng, i) for i in list(v)[:2] if i], "ctype": f.split("_")[0],
                        "inst": rng.random() < 0.5})
        else:
            g = rng.choice(["sphere", "ellipsoid", "directed", "geff_version", "extra", "track_node_props", "related_objects",
                            "node_props_metadata", "edge_props_metadata"])
            val = {"sphere": "r", "ellipsoid": "cov", "directed": rng.random() < 0.5, "geff_version": "1.3", "extra": {"k": [1]},
                   "track_node_props": {"lineage": "l"}, "related_objects": [{"type": "image", "path": "p"}],
                   "node_props_metadata": mc.gen_props(rng), "edge_props_metadata": mc.gen_props(rng)}[g]
            out.append({"k": "assign", "f": g, "v": val, "inst": rng.random() < 0.5})
    return out


def random_history(rng, cat, nops):
    """type-directed, mostly valid: a shadow of the declared axis names / hinted names steers the choices"""
    doc = mc.gen_doc(rng)
    r = rng.random()
    if r < 0.6:
        init = {"k": "parse", "doc": doc, "via": rng.choice(["kwargs", "validate", "json"]), "inst": rng.random() < 0.5}
    elif r < 0.85:
        init = {"k": "attrs", "attrs": {"geff": doc, **({"foreign": mc.gen_extra(rng)} if rng.random() < 0.5 else {})},
                "fmt": rng.choice([2, 3])}
    else:
        doc = {"directed": rng.random() < 0.5, "axes": mc.gen_axes(rng) if rng.random() < 0.7 else None,
               "node_props_metadata": {}, "edge_props_metadata": {}}
        init = {"k": "create", "directed": doc["directed"], "axes": doc["axes"], "inst": rng.random() < 0.5}
    if init["k"] != "create" and rng.random() < 0.04:
        doc[rng.choice(["node_props_metadata", "edge_props_metadata"])] = mc.gen_props_permuted(rng)
    names = [a["name"] for a in doc["axes"]] if doc.get("axes") is not None else None
    h = doc.get("display_hints")
    hinted = {v for v in h.values() if v is not None} if h else set()
    ops, gray = [], False
    for _ in range(nops):
        r = rng.random()
        invalid = rng.random() < 0.25
        if r < 0.53:
            f = rng.choice(mc.FIELD_NAMES)
            if f == "axes" and not invalid:
                if rng.random() < 0.2:
                    v = None
                else:
                    pool = list(hinted) + rng.sample(mc.NAMES, rng.randint(0, 3))
                    ns = list(dict.fromkeys(pool))
                    rng.shuffle(ns)
                    v = [mc.gen_axis(rng, n) for n in ns]
                names = None if v is None else [a["name"] for a in v]
            elif f == "display_hints" and not invalid:
                pool = names if names else mc.NAMES
                if rng.random() < 0.2 or not pool:
                    v = None
                else:
                    v = {"display_horizontal": rng.choice(pool), "display_vertical": rng.choice(pool)}
                    if rng.random() < 0.5:
                        v["display_depth"] = rng.choice(pool + [None])
                    if rng.random() < 0.5:
                        v["display_time"] = rng.choice(pool + [None])
                hinted = {x for x in v.values() if x is not None} if v else set()
            elif f in ("node_props_metadata", "edge_props_metadata") and not invalid:
                v = mc.gen_props(rng)
            elif f in ("node_props_metadata", "edge_props_metadata") and rng.random() < 0.5:
                v = mc.gen_props_permuted(rng)
            elif f == "extra" and not invalid:
                v = mc.gen_extra(rng)
            else:
                want = ("bad", "nan") if invalid else ("ok", "ctx")
                cands = [(v, t) for v, t in cat[f] if t in want or (t == "gray" and rng.random() < 0.02)]
                v, t = rng.choice(cands or cat[f])
                gray = gray or t == "gray"
                if t != "bad" and f == "axes" and isinstance(v, list):
                    try:
                        nn = [a["name"] for a in v]
                        if len(set(nn)) == len(nn) and hinted <= set(nn):
                            names = nn
                    except Exception:  # noqa: BLE001
                        pass
            ops.append({"k": "assign", "f": f, "v": v, "inst": rng.random() < 0.5})
            if invalid:
                ops.extend(_follow_ups(rng, f, v, names, hinted))
        elif r < 0.59:
            # compute_and_add_axis_min_max over the (shadowed) declared axes, sometimes with a column missing
            cols_for = list(names) if names is not None else rng.sample(mc.NAMES, 2)
            if cols_for and rng.random() < 0.12:
                cols_for = cols_for[1:]
            ops.append({"k": "minmax", "props": minmax_props(rng, cols_for + (rng.sample(mc.NAMES, 1) if rng.random() < 0.3 else []))})
        elif r < 0.65:
            ops.append({"k": "copy", "how": rng.choice(["model_copy", "deepcopy", "model_copy_deep", "copy_copy", "pickle"])})
        elif r < 0.78:
            pool = list(hinted) + rng.sample(mc.NAMES, rng.randint(0, 3))
            ns = list(dict.fromkeys(pool)) if not invalid else rng.choices(mc.NAMES, k=rng.randint(1, 3))
            k = len(ns)

            def lst(gen, p=0.5, k=k):
                if rng.random() > p:
                    return None
                n = k if rng.random() < 0.9 else max(0, k + rng.choice([-1, 1]))
                return [gen() for _ in range(n)]
            op = {"k": "updateAxes", "names": ns,
                  "units": lst(lambda: rng.choice(mc.UNITS)),
                  "types": lst(lambda: rng.choice(mc.AXIS_TYPES + [None] + (["foo"] if invalid else []))),
                  "scales": lst(lambda: rng.choice([0.5, 2, 1, None, mc.INF])),
                  "scaled_units": lst(lambda: rng.choice([None, None, "", "meter"]), 0.3),
                  "offset": lst(lambda: rng.choice(mc.NUMS + [None]), 0.3)}
            if len(set(ns)) == len(ns) and hinted <= set(ns):
                names = ns
            ops.append(op)
        elif r < 0.88:
            axv = None
            if rng.random() < 0.6:
                pool = list(hinted) + rng.sample(mc.NAMES, rng.randint(0, 3))
                ns = list(dict.fromkeys(pool)) if not invalid else rng.choices(mc.NAMES, k=2) + ["x", "x"]
                axv = [mc.gen_axis(rng, n) for n in ns]
                if len(set(ns)) == len(ns):
                    names = ns
            ops.append({"k": "createOrUpdate", "directed": rng.random() < 0.5, "axes": axv, "inst": rng.random() < 0.5})
        else:
            ids = rng.choices([n for n in mc.NAMES if n] + ["seg_id", "score", "track"], k=rng.randint(0, 3))
            props = [mc.gen_prop(rng, i) for i in ids]
            if invalid and props:
                props[0]["dtype"] = rng.choice(mc.DTYPES_BAD)
            ops.append({"k": "addProps", "props": props, "ctype": rng.choice(["node", "edge"] + (["tracklet"] if invalid else [])),
                        "inst": rng.random() < 0.5})
    return {"init": init, "ops": ops, "tag": "random", "gray": gray}


def corpus():
    d = common.VERIF / "harness" / "corpus" / PROP
    for f in sorted(d.glob("*.json")):
        c = json.loads(f.read_text())
        c["corpus"] = f.name
        yield c


# ----------------------------------------------------------------- decision
def judge(case, im):
    """model-independent verdicts on the implementation's observations: a list of failures
    {key, what, case, observed, expected} (at most one per history — the first one)"""
    def f(key, what, observed, expected):
        return [{"key": key, "what": what, "case": case, "observed": observed, "expected": expected}]

    if case.get("kind") == "axes":
        if im.get("out") == "ok" and im["viol"] != "valid":
            return f(f"C07:invalid-object:{im['viol']}", f"axes_from_lists returned an axis violating '{im['viol']}'",
                     im, "valid axes or an exception")
        return []
    if im.get("init") != "ok":
        return []
    if im["obj"]["viol"] != "valid":
        return f(f"C07:invalid-object:{im['obj']['viol']}",
                 f"an object obtained by {case['init']['k']} violates '{im['obj']['viol']}'", im["obj"], "valid")
    for i, st in enumerate(im["steps"]):
        op = case["ops"][i]
        if st["out"] != "ok" and st["arg_changed"]:
            what = "assignment" if op["k"] == "assign" else op["k"]
            return f(f"C07:failed-{what}-mutates-object",
                     f"step {i} ({op['k']} {op.get('f', '')}) raised {st['out']} but the object is no longer what it was",
                     {"step": i, "out": st["out"], "before": st.get("arg_before"), "after": st.get("arg_after")},
                     "object unchanged after a failed operation")
        if st["viol"] != "valid":
            return f(f"C07:invalid-object:{st['viol']}",
                     f"after step {i} ({op['k']} {op.get('f', '')}, outcome {st['out']}) the object violates '{st['viol']}'",
                     {"step": i, **st}, "valid")
    return []


def shrink(fail):
    """delta-debug the history: drop operations while the same class of failure persists"""
    case, key = fail["case"], fail["key"]
    if case.get("kind") == "axes" or not case.get("ops"):
        return fail
    cur, best = case, fail
    changed = True
    while changed and len(cur["ops"]) > 0:
        changed = False
        for i in range(len(cur["ops"]) - 1, -1, -1):
            cand = {**cur, "ops": cur["ops"][:i] + cur["ops"][i + 1:]}
            got = [x for x in judge(cand, impl_obs(cand)) if x["key"] == key]
            if got:
                cur, best, changed = cand, got[0], True
                break
    return best


def compare(ck, case, im, mo):
    """correspondence implementation <-> Lean model, and Python oracle <-> Lean specification"""
    if "err" in mo:
        ck.corr_broken("C07:driver", case, im, mo)
        return
    if case.get("kind") == "axes":
        m = {"out": mo["out"], **({"axes": [mc.canon(a) for a in mo["axes"]]} if "axes" in mo else {})}
        i2 = {k: v for k, v in im.items() if k != "viol"}
        if m != i2:
            ck.corr_broken("C07:axesFromLists", case, i2, m)
        return
    if mo["init"] != im["init"]:
        ck.corr_broken("C07:init-outcome", case, im["init"], mo["init"])
        return
    if im["init"] != "ok":
        return

    def same(tag, i, io, m):
        md = mc.canon(m["dump"])
        if md != io["dump"] or m["fs"] != io["fs"]:
            ck.corr_broken(f"C07:{tag}", case, {"step": i, "dump": io["dump"], "fs": io["fs"]}, {"dump": md, "fs": m["fs"]})
            return False
        if m["viol"] != io["viol"]:
            ck.corr_broken("C07:lean-spec-vs-python-oracle", case, {"step": i, "viol": io["viol"]}, {"viol": m["viol"]})
            return False
        return True

    if not same("init-object", -1, im["obj"], mo["obj"]):
        return
    if im.get("alias_changed"):
        ck.corr_broken("C07:copy-is-independent", case, {"objects left behind that changed later": im["alias_changed"]}, [])
    for i, (ist, mst) in enumerate(zip(im["steps"], mo["steps"])):
        if ist["out"] != mst["out"]:
            ck.corr_broken(f"C07:outcome:{case['ops'][i]['k']}", case, {"step": i, "out": ist["out"]}, {"out": mst["out"]})
            return
        if not same(f"object-after:{case['ops'][i]['k']}", i, ist, mst):
            return
        if ist["arg_changed"]:
            ck.corr_broken(f"C07:argument-modified:{case['ops'][i]['k']}", case, {"step": i, "arg_changed": True}, {"arg_changed": False})
            return


def tag_of(case, im):
    if case.get("kind") == "axes":
        return f"axes_from_lists:{im.get('out')}"
    if im.get("init") != "ok":
        return f"init:{case['init']['k']}:{im.get('init')}"
    if not case["ops"]:
        return f"init:{case['init']['k']}:ok"
    last = case["ops"][-1]
    return f"{last['k']}:{im['steps'][-1]['out']}" + (f":{case.get('tag')}" if case.get("tag") in ("gray", "nan") else "")


def run(ck: common.Check):
    _t = [time.time()]
    ck.prove(["GeffProps.C07", "GeffProps.C07Gen"])
    _ph = {"prove": round(time.time() - _t[0], 1)}
    _t[0] = time.time()
    mc.init_env()
    lim = mc.CorrLimiter(ck)
    ck.rule = ("cases = corpus + every catalogue value (valid / invalid / context-dependent) assigned to its field on 12 "
               "base objects and given at construction through kwargs, model_validate, model_validate_json and zarr v2/v3 "
               "attributes + a helper catalogue on every base (incl. compute_and_add_axis_min_max with masks none/some/all and junk "
               "placeholders) + every base x 18 rejected operations x 20 follow-up sequences + seeded random histories of <= 8 operations (mostly valid, "
               "25% invalid values); non-trivial = at least one operation or a rejected construction; distinct = distinct "
               "canonical JSON of the history")
    cases = list(corpus())
    cases += single_op_cases()
    cases += minmax_cases(ck.rng)
    arc = after_rejection_cases()
    cases += arc if not ck.quick else [c for i, c in enumerate(arc) if i % 2 == ck.seed % 2 or c["ops"][0].get("f") in ("axes", "display_hints")]
    cat = mc.catalogue()
    nrand = 2000 if ck.quick else 30000
    for _ in range(nrand):
        cases.append(random_history(ck.rng, cat, ck.rng.randint(1, 8)))
    ck.extra["exhaustive_single_ops"] = len(cases) - nrand
    ck.extra["random_histories"] = nrand

    impl = common.pmap(impl_obs, cases, chunksize=64)
    _ph["implementation"] = round(time.time() - _t[0], 1)
    _t[0] = time.time()
    drv = ck.driver()
    reqs = [model_request(c) for c in cases]
    # the Lean specification evaluated directly on the implementation's observed dump after EVERY step of every
    # history (identical consecutive dumps - a rejected operation, a copy - are evaluated once)
    last = []
    for idx, (c, im) in enumerate(zip(cases, impl)):
        if c.get("kind") == "axes" or im.get("init") != "ok":
            continue
        prev = None
        for o in [im["obj"]] + im["steps"]:
            if isinstance(o["dump"], dict) and o["dump"] != prev:
                last.append((idx, o))
                prev = o["dump"]
    sreqs = [{"op": "valid", "env": reqs[idx]["env"], "dump": o["dump"]} for idx, o in last]
    _ph["requests"] = round(time.time() - _t[0], 1)
    _t[0] = time.time()
    answers = drv.ask(reqs + sreqs)
    _ph["lean_driver"] = round(time.time() - _t[0], 1)
    ck.extra["phase_seconds"] = _ph
    model = svals = None
    if answers is None:
        ck.broken.append({"what": "driver Drivers/C07.lean", "detail": drv.broken})
    else:
        model, svals = answers[: len(reqs)], answers[len(reqs):]
        n_s = 0
        for (idx, o), sv in zip(last, svals):
            if "err" in sv or not sv.get("decoded"):
                if o["viol"] != "malformed-dump":
                    lim.corr_broken("C07:lean-spec-on-observed-dump(decode)", cases[idx], o["viol"], sv)
                continue
            n_s += 1
            if sv["viol"] != o["viol"] or (not cases[idx].get("gray") and mc.canon(sv["redump"]) != o["dump"]):
                lim.corr_broken("C07:lean-spec-on-observed-dump", cases[idx], {"viol": o["viol"]}, {"viol": sv["viol"]})
        ck.extra["lean_spec_evaluations_on_observed_dumps"] = n_s
    nsteps = 0
    shrunk: set = set()
    for idx, (c, im) in enumerate(zip(cases, impl)):
        ck.case({k: v for k, v in c.items() if k in ("init", "ops", "kind", "args")}, tag_of(c, im),
                nontrivial=bool(c.get("ops")) or c.get("kind") == "axes" or im.get("init") != "ok")
        nsteps += len(im.get("steps", []))
        for fl in judge(c, im):
            if fl["key"] not in shrunk:
                shrunk.add(fl["key"])
                fl = shrink(fl)
            ck.fail(fl["key"], fl["what"], fl["case"], fl["observed"], fl["expected"])
        if model is not None and not c.get("gray"):
            compare(lim, c, im, model[idx])
    ck.extra["steps_observed"] = nsteps
    # the source-translated validator bodies (T17) against the real functions called directly
    from harness.corr import _c07_genval
    _c07_genval.run_stream(ck, drv)
    # the precondition of the minMax operation (numpy: min of a non-empty selection is not greater than its max)
    n_cols = n_bad = 0
    for r in reqs:
        for o in r.get("ops", []):
            if o.get("k") == "minMax":
                for _name, col in o["cols"]:
                    if col["t"] == "b":
                        n_cols += 1
                        if not col["wf"]:
                            n_bad += 1
    ck.extra["minmax_bounds_columns_checked_wellformed"] = n_cols
    if n_bad:
        ck.broken.append({"what": "assumption numpy min <= max of one selection", "detail": f"{n_bad} of {n_cols} reduced columns have lo > hi"})
    ck.extra["env"] = {"default_version": mc.default_version(), "default_version_matches_pattern": mc.pattern_ok(mc.default_version()),
                       "offset_length_checked": mc._OFFCHK[0], "version_pattern": mc.version_pattern()}
    if not mc.pattern_ok(mc.default_version()):
        ck.fail("C07:default-version-violates-pattern", "GEFF_VERSION (the unvalidated default of geff_version) does not match VERSION_PATTERN",
                {"default": mc.default_version()}, mc.default_version(), "a version matching the pattern")
    bad_np = [d for d in mc.DTYPES_OK if mc.np_name(d) != d]
    if bad_np:
        ck.corr_broken("C07:npName-identity-on-valid-dtypes", bad_np, [mc.np_name(d) for d in bad_np], bad_np)
    ck.assumptions += [
        "pydantic's lax scalar coercions ('yes' -> True, '1.5' -> 1.5, True -> 1.0) are outside the model: inputs carry the "
        "declared JSON types; coerced inputs ('gray' cases) are only checked against the specification",
        "Env: regular-expression search (pydantic-core's regex engine vs Python re), numpy dtype-name normalisation and the "
        "installed geff_spec version are parameters of the model, supplied per request by Python",
        "model_copy(update=...), mutation of nested Axis/PropMetadata objects or of nested lists/dicts, and `del obj.field` "
        "are outside the claim (DESIGN.md §5 C07)",
        "floats are carried as exact dyadic rationals; integers given for float fields are exactly representable (|n| <= 2^53)",
    ]


def replay(rp):
    mc.init_env()
    c = rp["case"]
    im = impl_obs(c)
    print(json.dumps({"case": c, "impl": im}, default=str)[:6000])
    fails = judge(c, im)
    for fl in fails:
        print(f"  [{fl['key']}] {fl['what']}")
    print("REPLAY: property FAILS on this input" if fails else "REPLAY: property holds on this input")
    return 1 if fails else 0
