"""C12, correspondence of the numpy primitive library lean/GeffModel/NpPrim.lean with numpy, and of the GENERATED
definitions Gen.ValidateGraph.* (translator T11) with the implementation.  Used by harness/corr/C12.py:

    cases(rng, quick)          -> list of {"kind": "np_prim", "prim": <primitive>, ...}
    impl(case)                 -> observation of the real numpy call (exceptions as {"exc": <class name>})
    reqs(case)                 -> driver requests (ops of Geff.NpPrim.handle, lean/GeffModel/NpPrimProto.lean)
    judge(ck, case, im, mo)    -> ck.case(tag per primitive and outcome); ck.corr_broken("C12:NpPrim.<name>", …)

    gen_reqs(case)             -> for the kinds "graph" / "sphere" of C12.py: the request that runs the generated functions
    judge_gen(ck, case, im, mo)-> compares them with the implementation observation of C12.py (impl_graph / impl_sphere)

Generation: bounded-exhaustive small arrays over the alphabets {0, 1, max(dtype)} and {min(dtype), -1 | 1, max(dtype)}
(dtypes round-robin over the 8 integer dtypes in quick, every dtype in thorough), all boolean masks of length <= 3
(including the wrong lengths, so numpy's IndexError / broadcast ValueError branches are exercised), index arrays with
out-of-range entries, every comparison operator, float radii given by bit pattern (+-0, +-inf, NaN, denormals);
plus seeded random longer arrays with values at the dtype limits.
"""
from __future__ import annotations

import itertools
import operator
import struct

import numpy as np

INT_DTYPES = ["int8", "int16", "int32", "int64", "uint8", "uint16", "uint32", "uint64"]
OPS = {"lt": operator.lt, "le": operator.le, "gt": operator.gt, "ge": operator.ge, "eq": operator.eq, "ne": operator.ne}
OPN = list(OPS)
F_SPECIALS = [0.0, -0.0, 1.0, -1.0, 1.5, -1.5, 2.0, float("inf"), float("-inf"), float("nan"), 5e-324, -5e-324, 1e300,
              -1e300, 0.5, 4503599627370497.0, -9007199254740992.0]


def lim(dt):
    ii = np.iinfo(dt)
    return int(ii.min), int(ii.max)


def f2bits(x: float) -> int:
    return struct.unpack("<Q", struct.pack("<d", x))[0]


def alphabets(dt):
    lo, hi = lim(dt)
    return [[0, 1, hi], [lo, -1 if lo < 0 else 1, hi]]


def _tuples(alpha, nmax):
    for n in range(nmax + 1):
        yield from (list(t) for t in itertools.product(alpha, repeat=n))


MASKS3 = list(_tuples([False, True], 3))
MASKS2 = list(_tuples([False, True], 2))


class _RR:
    """round-robin over dtypes / operators so that the quick tier sees each of them in every stream"""

    def __init__(self, dtypes):
        self.k, self.dtypes = 0, dtypes

    def dt(self):
        self.k += 1
        return self.dtypes[self.k % len(self.dtypes)]

    def op(self):
        return OPN[(self.k // 3) % 6]


# ======================================================================= generation
def _exhaustive(quick):
    out = []
    dtype_sets = [INT_DTYPES] if quick else [[d] for d in INT_DTYPES]
    for dts in dtype_sets:
        rr = _RR(dts)
        for ai in (0, 1):
            # one integer array
            for ix in _tuples(range(3), 3):
                dt = rr.dt()
                a = [alphabets(dt)[ai][i] for i in ix]
                out.append({"prim": "unique", "dtype": dt, "a": a})
                out.append({"prim": "unique_counts", "dtype": dt, "a": a})
                out.append({"prim": "len", "dtype": dt, "a": a})
                al = alphabets(dt)[ai]
                for k in sorted({al[0], al[2], 0, 1, 2, -1}):
                    if len(ix) <= 2:
                        out.append({"prim": "cmp_scalar", "dtype": dt, "cmp": rr.op(), "a": a, "k": k})
            # rows (quick: one column / mask / index array per edge list, round-robin; thorough: all of them)
            idxs_of = {n: list(_tuples(range(n + 2), 2)) for n in range(4)}
            for j, ix in enumerate(_tuples(range(9), 2 if quick else 3)):
                dt = rr.dt()
                al = alphabets(dt)[ai]
                rows = [[al[q // 3], al[q % 3]] for q in ix]
                out.append({"prim": "unique_rows_index_counts", "dtype": dt, "rows": rows})
                masks = MASKS3 if len(ix) <= 2 else MASKS2
                idxs = idxs_of[len(ix)]
                if quick:
                    masks, idxs, ks = [masks[j % len(masks)]], [idxs[j % len(idxs)]], [j % 3]
                else:
                    ks = [0, 1, 2]
                for k in ks:
                    out.append({"prim": "col", "dtype": dt, "rows": rows, "k": k})
                for m in masks:
                    out.append({"prim": "mask_index_rows", "dtype": dt, "rows": rows, "m": m})
                    out.append({"prim": "mask_col", "dtype": dt, "rows": rows, "m": m, "k": (len(m) + j) % 3})
                for idx in idxs:
                    out.append({"prim": "take_rows", "dtype": dt, "rows": rows, "idx": idx})
            # two integer arrays
            for ia in _tuples(range(3), 2):
                for ib in _tuples(range(3), 2):
                    dt = rr.dt()
                    al = alphabets(dt)[ai]
                    a, b = [al[i] for i in ia], [al[i] for i in ib]
                    out.append({"prim": "isin", "dtype": dt, "a": a, "b": b})
                    out.append({"prim": "cmp_arr", "dtype": dt, "cmp": rr.op(), "a": a, "b": b})
            # array x mask, array x index array (quick: first alphabet only)
            for ia in _tuples(range(2), 3):
                if quick and ai == 1:
                    break
                dt = rr.dt()
                al = alphabets(dt)[ai if not quick else len(ia) % 2]
                a = [al[2 * i] for i in ia]
                for m in MASKS3:
                    out.append({"prim": "mask_index", "dtype": dt, "a": a, "m": m})
                for idx in _tuples(range(len(ia) + 2), 2):
                    out.append({"prim": "take", "dtype": dt, "a": a, "idx": idx})
        if quick:
            break
    # boolean arrays
    for m in MASKS3:
        for p in ("not", "any", "all"):
            out.append({"prim": p, "m": m})
    for a in MASKS3:
        for b in MASKS3:
            if (len(a) <= 2 and len(b) <= 2) or not quick:
                for p in ("and", "or", "xor"):
                    out.append({"prim": p, "a": a, "b": b})
    # count arrays (intp) against a Python integer
    for j, ix in enumerate(_tuples([0, 1, 2, 3], 2)):
        for k in (-1, 0, 1, 2, 3):
            for cmp in ([OPN[(j + k) % 6], "gt"] if quick else OPN):
                out.append({"prim": "cmp_scalar_nat", "cmp": cmp, "a": ix, "k": k})
    # radius entries against a Python integer: every special float alone x every operator x small k, and integers
    for x in F_SPECIALS:
        for k in ((-1, 0, 1, 2) if quick else (-2, -1, 0, 1, 2, 3)):
            for cmp in OPN:
                out.append({"prim": "cmp_scalar_num", "dtype": "float64", "cmp": cmp, "values": [str(f2bits(x))], "k": k})
    for dt in ("int8", "uint8", "int64", "uint64"):
        lo, hi = lim(dt)
        for k in (-1, 0, 1):
            for cmp in OPN:
                out.append({"prim": "cmp_scalar_num", "dtype": dt, "cmp": cmp, "values": [lo, 0, 1, hi], "k": k})
    for a, b in itertools.product((-1, 0, 1, 2), repeat=2):
        for cmp in OPN:
            out.append({"prim": "cmp", "cmp": cmp, "a": a, "b": b})
    return out


def _pool(rng, dt):
    lo, hi = lim(dt)
    pool = sorted({lo, lo + 1, hi, hi - 1, 0, 1, 2, 3, hi // 2, hi // 2 + 1} | ({-1, -2} if lo < 0 else set()))
    return rng.sample(pool, rng.randint(2, len(pool)))


def _random(rng, n):
    out = []
    for _ in range(n):
        dt = rng.choice(INT_DTYPES)
        pool = _pool(rng, dt)
        ln = rng.randint(0, 12)
        a = [rng.choice(pool) for _ in range(ln)]
        rows = [[rng.choice(pool), rng.choice(pool)] for _ in range(ln)]

        def mask(k):
            r = rng.random()
            k2 = k if r < 0.8 else (0 if r < 0.86 else 1 if r < 0.9 else max(0, k + rng.choice([-1, 1, 2])))
            return [rng.random() < 0.5 for _ in range(k2)]
        p = rng.choice(["unique", "unique_counts", "unique_rows_index_counts", "isin", "cmp_arr", "cmp_scalar", "mask_index",
                        "mask_index_rows", "mask_col", "col", "take", "take_rows", "and", "or", "xor", "cmp_scalar_num",
                        "cmp_scalar_nat", "not", "any", "all", "len"])
        c = {"prim": p, "dtype": dt}
        if p in ("unique", "unique_counts", "len"):
            c["a"] = a
        elif p == "unique_rows_index_counts":
            c["rows"] = rows
        elif p in ("isin", "cmp_arr"):
            r = rng.random()
            lb = ln if (p == "cmp_arr" and r < 0.7) else (1 if r < 0.8 else rng.randint(0, 12))
            c.update(a=a, b=[rng.choice(pool) for _ in range(lb)])
            if p == "cmp_arr":
                c["cmp"] = rng.choice(OPN)
        elif p == "cmp_scalar":
            c.update(a=a, cmp=rng.choice(OPN), k=rng.choice(pool + [0, 1]))
        elif p == "cmp_scalar_nat":
            del c["dtype"]
            c.update(a=[rng.randint(0, 5) for _ in range(ln)], cmp=rng.choice(OPN), k=rng.randint(-1, 5))
        elif p == "mask_index":
            c.update(a=a, m=mask(ln))
        elif p == "mask_index_rows":
            c.update(rows=rows, m=mask(ln))
        elif p == "mask_col":
            c.update(rows=rows, m=mask(ln), k=rng.choice([0, 0, 1, 1, 2]))
        elif p == "col":
            c.update(rows=rows, k=rng.choice([0, 1, 2, 3]))
        elif p in ("take", "take_rows"):
            hi = ln + (1 if rng.random() < 0.15 else 0)
            idx = [rng.randrange(hi) for _ in range(rng.randint(0, 8))] if hi else []
            c.update(idx=idx, **({"a": a} if p == "take" else {"rows": rows}))
        elif p in ("and", "or", "xor"):
            del c["dtype"]
            m1 = mask(ln)
            c.update(a=m1, b=mask(len(m1)))
        elif p in ("not", "any", "all"):
            del c["dtype"]
            c["m"] = mask(ln)
        elif p == "cmp_scalar_num":
            if rng.random() < 0.7:
                c["dtype"] = rng.choice(["float64", "float64", "float32"])
                vals = []
                for _ in range(ln):
                    x = rng.choice(F_SPECIALS) if rng.random() < 0.4 else rng.gauss(0, 3) if rng.random() < 0.7 \
                        else float(rng.randint(-4, 4))
                    if c["dtype"] == "float32":
                        with np.errstate(over="ignore"):
                            x = float(np.float32(x))
                    vals.append(str(f2bits(x)))
                # numpy converts the Python integer to the array's float dtype first: k is kept exactly representable there
                # (|k| <= 2^24 for float32, <= 2^53 for float64), which is where NpPrim.numCmp (exact) applies
                big = [4503599627370497, 2 ** 40] if c["dtype"] == "float64" else [2 ** 24, -(2 ** 23) - 1]
                c.update(values=vals, cmp=rng.choice(OPN), k=rng.choice([0, 0, 0, 1, -1, 2, -3] + big))
            else:
                c.update(values=a, cmp=rng.choice(OPN), k=rng.choice([0, 0, 1, -1] + pool))
        out.append(c)
    return out


def cases(rng, quick):
    cs = _exhaustive(quick) + _random(rng, 700 if quick else 40000)
    for c in cs:
        c["kind"] = "np_prim"
    return cs


# ======================================================================= implementation side: the real numpy calls
def _ints(x):
    return [int(v) for v in x]


def _bools(x):
    return [bool(v) for v in x]


def _rows(x):
    return [[int(r[0]), int(r[1])] for r in x]


def _num_array(c):
    dt = np.dtype(c["dtype"])
    if dt.kind == "f":
        return np.array([int(b) for b in c["values"]], dtype=np.uint64).view(np.float64).astype(dt)
    return np.asarray(c["values"], dtype=dt)


def _impl(c):
    p = c["prim"]
    dt = np.dtype(c["dtype"]) if "dtype" in c else None
    arr = (lambda k: np.asarray(c[k], dtype=dt))
    rows = (lambda: np.asarray(c["rows"], dtype=dt).reshape(-1, 2))
    mask = (lambda k: np.asarray(c[k], dtype=bool))
    if p == "unique":
        return _ints(np.unique(arr("a")))
    if p == "unique_counts":
        u, n = np.unique(arr("a"), return_counts=True)
        return {"u": _ints(u), "c": _ints(n)}
    if p == "unique_rows_index_counts":
        e = rows()
        view = np.ascontiguousarray(e).view([("", e.dtype)] * e.shape[1])
        u, i, n = np.unique(view, return_index=True, return_counts=True)
        return {"u": _rows(u), "i": _ints(i), "c": _ints(n)}
    if p == "isin":
        return _bools(np.isin(arr("a"), arr("b")))
    if p == "cmp_arr":
        return {"ok": _bools(OPS[c["cmp"]](arr("a"), arr("b")))}
    if p == "cmp_scalar":
        return _bools(OPS[c["cmp"]](arr("a"), c["k"]))
    if p == "cmp_scalar_nat":
        return _bools(OPS[c["cmp"]](np.asarray(c["a"], dtype=np.intp), c["k"]))
    if p == "cmp_scalar_num":
        return _bools(OPS[c["cmp"]](_num_array(c), c["k"]))
    if p == "cmp":
        return bool(OPS[c["cmp"]](c["a"], c["b"]))
    if p == "not":
        return _bools(~mask("m"))
    if p in ("and", "or", "xor"):
        f = {"and": operator.and_, "or": operator.or_, "xor": operator.xor}[p]
        return {"ok": _bools(f(mask("a"), mask("b")))}
    if p == "any":
        r = [bool(any(mask("m"))), bool(np.any(mask("m")))]
        return r[0] if r[0] == r[1] else {"builtin_any": r[0], "np_any": r[1]}
    if p == "all":
        return bool(np.all(mask("m")))
    if p == "len":
        return len(arr("a"))
    if p == "mask_index":
        return {"ok": _ints(arr("a")[mask("m")])}
    if p == "mask_index_rows":
        return {"ok": _rows(rows()[mask("m")])}
    if p == "mask_col":
        return {"ok": _ints(rows()[mask("m"), c["k"]])}
    if p == "col":
        return {"ok": _ints(rows()[:, c["k"]])}
    if p == "take":
        return {"ok": _ints(arr("a")[np.asarray(c["idx"], dtype=np.intp)])}
    if p == "take_rows":
        return {"ok": _rows(rows()[np.asarray(c["idx"], dtype=np.intp)])}
    raise ValueError(p)


def impl(c):
    try:
        return _impl(c)
    except (IndexError, ValueError) as ex:
        return {"exc": type(ex).__name__}
    except Exception as ex:  # noqa: BLE001
        return {"exc": type(ex).__name__, "unexpected": str(ex)[:200]}


# ======================================================================= model side
_OPNAME = {"unique": "np_unique", "unique_counts": "np_unique_counts", "unique_rows_index_counts": "np_unique_rows_index_counts",
           "isin": "np_isin", "cmp_arr": "np_cmp_arr", "cmp_scalar": "np_cmp_scalar", "cmp_scalar_nat": "np_cmp_scalar_nat",
           "cmp_scalar_num": "np_cmp_scalar_num", "cmp": "np_cmp", "not": "np_not", "and": "np_and", "or": "np_or",
           "xor": "np_xor", "any": "np_any", "all": "np_all", "len": "np_len", "mask_index": "np_mask_index",
           "mask_index_rows": "np_mask_index_rows", "mask_col": "np_mask_col", "col": "np_col", "take": "np_take",
           "take_rows": "np_take_rows"}


def _s(x):
    return [str(v) for v in x]


def reqs(c):
    p = c["prim"]
    r = {"op": _OPNAME[p]}
    for k in ("a", "b"):
        if k in c:
            r[k] = c[k] if p in ("and", "or", "xor") else (str(c[k]) if p == "cmp" else _s(c[k]))
    if "rows" in c:
        r["rows"] = [[str(a), str(b)] for a, b in c["rows"]]
    if "m" in c:
        r["m"] = c["m"]
    if "idx" in c:
        r["idx"] = c["idx"]
    if "cmp" in c:
        r["cmp"] = c["cmp"]
    if "k" in c:
        r["k"] = c["k"] if p in ("col", "mask_col") else str(c["k"])
    if p == "cmp_scalar_num":
        a = _num_array(c)
        if a.dtype.kind == "f":
            r["flat"] = [{"f": str(f2bits(float(x)))} for x in a.astype(np.float64)]
        else:
            r["flat"] = [{"i": str(int(x))} for x in a]
    return [r]


def _norm(x):
    """model answer -> the implementation's canonical form (big integers travel as strings)"""
    if isinstance(x, str):
        return int(x)
    if isinstance(x, list):
        return [_norm(v) for v in x]
    if isinstance(x, dict):
        return {k: (v if k == "exc" else _norm(v)) for k, v in x.items()}
    return x


def judge(ck, c, im, mo):
    p = c["prim"]
    outcome = im["exc"] if isinstance(im, dict) and "exc" in im else "ok"
    ck.case(c, f"np_prim:{p}:{outcome}", nontrivial=any(bool(c.get(k)) for k in ("a", "rows", "m", "values")))
    if isinstance(im, dict) and "unexpected" in im:
        ck.corr_broken(f"C12:NpPrim.{p}", c, im, mo)
        return
    if mo is None:
        return
    m = mo[0] if isinstance(mo, list) else mo
    if isinstance(m, dict) and "err" in m:
        ck.corr_broken("C12:driver", c, im, m)
        return
    if _norm(m) != im:
        ck.corr_broken(f"C12:NpPrim.{p}", c, im, _norm(m))


# ======================================================================= the generated functions (kinds of C12.py)
def gen_reqs(c):
    """request running Gen.ValidateGraph.* on a case of kind "graph" / "sphere" of harness/corr/C12.py"""
    if c["kind"] == "graph":
        return [{"op": "gen_graph", "ids": _s(c["ids"]), "edges": [[str(a), str(b)] for a, b in c["edges"]]}]
    if c["kind"] == "sphere":
        from harness.corr import C12
        return [{"op": "gen_sphere", "ndim": len(c["shape"]), "flat": C12.sphere_flat_for_model(c) if len(c["shape"]) == 1 else [],
                 "missing": c["missing"]}]
    return []


def judge_gen(ck, c, im, mo):
    """generated code vs implementation: `im` as produced by C12.impl_graph / C12.impl_sphere, `mo` the answer to gen_reqs"""
    if mo is None:
        return
    m = mo[0] if isinstance(mo, list) else mo
    if "err" in m:
        ck.corr_broken("C12:driver", c, im, m)
        return
    if c["kind"] == "graph":
        if not m.get("translationOk", False):
            ck.corr_broken("C12:Gen.ValidateGraph.translationOk", c, None, m)
            return
        if "exc" in im:
            return   # reported by judge_graph
        for name in ("unique", "nodes_for_edges", "self", "repeated"):
            g = _norm(m[name])
            if "exc" in g or g["valid"] != im[name]["valid"] or g["off"] != im[name]["off"]:
                ck.corr_broken(f"C12:Gen.ValidateGraph.validate_{name}", c, im[name], g)
    elif c["kind"] == "sphere":
        got = im["via_data"]
        if m["o"] != got["o"] or (got["o"] == "ValueError" and m.get("msg") != got.get("msg")):
            ck.corr_broken("C12:Gen.ValidateGraph.validate_sphere", c, got, m)
