"""C15 — CTC conversion produces exactly the tracked graph of the dataset.

Implementation: geff.convert.from_ctc_to_geff and the `geff convert-ctc` command, run on datasets
synthesised into a TemporaryDirectory (tiff frames via tifffile + man_track.txt / res_track.txt).
Model: Geff.Ctc.fromCtc through Drivers/C15.lean, fed with the abstract input extracted by an
independent pass over the tiff files (np.unique per frame; centroids = np.argwhere(..).mean).
Specification oracle (Python, independent of the model): expected node list / edge multiset /
axes straight from the property text, geff's own structural + graph validation of the written
store, and the tracklet definition of docs/tracking.md evaluated on the read-back graph.
Differential only (no model): exported segmentation == stacked frames (incl. tczyx), related-object
path resolves to it.

Deepening round: (1) the DIRECTORY layer — which track file is read, which files are frames, in which order, with
which frame index — real directories through the converter vs Geff.CtcDir.discover (stream `dir`, run_dir_stream);
(2) the track table as TEXT — np.loadtxt with the keywords translator T8c finds in _ctc.py vs Geff.CtcTable.parseTable
(stream `text`), and whole conversions of datasets whose table file holds a laid-out text vs tableOfText ; fromCtc
(stream `text-e2e`, run_text_stream).
"""
from __future__ import annotations

import json
import os
import struct
import tempfile
import warnings
from pathlib import Path

import numpy as np

from harness import common

PROP = "C15"
TOL = 1e-9


def f2hex(x: float) -> str:
    return struct.pack("<d", float(x)).hex()


def hex2f(h: str) -> float:
    return struct.unpack("<d", bytes.fromhex(h))[0]


# ----------------------------------------------------------------- dataset synthesis
def render_frames(case):
    """the numpy label frames of a case"""
    shape = tuple(case["shape"])
    frames = []
    for fr in case["frames"]:
        a = np.zeros(shape, dtype=case.get("dtype", "uint16"))
        for label, pixels in fr:
            for p in pixels:
                a[tuple(p)] = label
        frames.append(a)
    return frames


def write_dataset(case, root: Path) -> Path:
    import tifffile

    d = root / "TRA"
    d.mkdir()
    prefix = case.get("tif_prefix", "man_track")
    for t, a in enumerate(render_frames(case)):
        tifffile.imwrite(d / f"{prefix}{t:03d}.tif", a)
    if "table_text" in case:        # deepening: the table file holds this text verbatim (bytes, no newline translation)
        (d / case.get("track_file", "man_track.txt")).write_bytes(case["table_text"].encode("utf-8"))
    else:
        (d / case.get("track_file", "man_track.txt")).write_text(
            "".join(" ".join(str(v) for v in row) + "\n" for row in case["table"]))
    return d


def extract_abstract(ctc_dir: Path):
    """independent pass over the files on disk: per frame the labelled regions in ascending label
    order with their centroids (mean of the pixel coordinates), plus the table rows"""
    import tifffile

    frames, arrays = [], []
    for f in sorted(ctc_dir.glob("*.tif")):
        a = tifffile.imread(f)
        arrays.append(a)
        regs = []
        for lab in np.unique(a):
            if lab == 0:
                continue
            cen = np.argwhere(a == lab).mean(axis=0)
            regs.append({"l": int(lab), "c": [f2hex(v) for v in cen]})
        frames.append(regs)
    ndim = arrays[0].ndim if arrays else 2
    return ndim, frames, arrays


# ----------------------------------------------------------------- specification oracle
def is_consistent(frames, table):
    """`consistent` CTC result: every table row with a parent names labels that occur, the parent's
    last frame is before the child's first frame, and no label has two rows with a parent."""
    first, last = {}, {}
    for t, fr in enumerate(frames):
        for r in fr:
            first.setdefault(r["l"], t)
            last[r["l"]] = t
    if not first:
        return False
    seen = set()
    for L, _b, _e, P in table:
        if P <= 0:
            continue
        if L not in first or P not in first:
            return False
        if not last[P] < first[L]:
            return False
        if L in seen:
            return False
        seen.add(L)
    return True


def _rows_ok_without_nodes(ab):
    """Lean's `Consistent` does not demand that a region exists (the theorems add that separately):
    with no region at all it holds iff no row has a parent"""
    return not any(r[3] > 0 for r in ab["table"])


def expected_graph(frames, table):
    """nodes [(t,label,centroid)] in (frame,label) order; edge multiset as sorted list of pairs of
    (t,label) keys"""
    nodes = [(t, r["l"], [hex2f(h) for h in r["c"]]) for t, fr in enumerate(frames) for r in fr]
    occ = {}
    for t, l, _ in nodes:
        occ.setdefault(l, []).append(t)
    edges = []
    for l, ts in occ.items():
        ts = sorted(ts)
        edges += [((a, l), (b, l)) for a, b in zip(ts, ts[1:])]
    for L, _b, _e, P in table:
        if P > 0:
            edges.append(((max(occ[P]), P), (min(occ[L]), L)))
    return nodes, sorted(edges)


def tracklet_definition_holds(node_ids, edges, lab):
    """docs/tracking.md: two adjacent nodes share a tracklet id exactly when the edge between them is
    the only edge leaving its source and the only edge entering its target (maximal unbranched
    paths), and every tracklet is connected through such edges."""
    out, inn = {}, {}
    for u, v in edges:
        out.setdefault(u, []).append(v)
        inn.setdefault(v, []).append(u)

    def T(u, v):
        return all(w == v for w in out.get(u, [])) and all(w == u for w in inn.get(v, []))

    parent = {n: n for n in node_ids}

    def find(x):
        while parent[x] != x:
            parent[x] = parent[parent[x]]
            x = parent[x]
        return x

    for u, v in edges:
        if (lab[u] == lab[v]) != T(u, v):
            return False, f"edge ({u},{v}): same id = {lab[u] == lab[v]}, tracklet edge = {T(u, v)}"
        if T(u, v):
            parent[find(u)] = find(v)
    rep = {}
    for n in node_ids:
        r = rep.setdefault(lab[n], find(n))
        if r != find(n):
            return False, f"tracklet {lab[n]} is not connected"
    return True, ""


def single_child_parents(table):
    cnt = {}
    for _L, _b, _e, P in table:
        if P > 0:
            cnt[P] = cnt.get(P, 0) + 1
    return sorted(p for p, c in cnt.items() if c == 1)


# ----------------------------------------------------------------- implementation observation
def _convert(case, ctc_dir, geff_arg, seg_target, overwrite):
    """run the converter (API or CLI); returns the exception class name or None"""
    if case.get("via", "api") == "cli":
        from typer.testing import CliRunner

        from geff._cli import app

        args = ["convert-ctc", str(ctc_dir), str(geff_arg)]
        if seg_target is not None:
            args += ["--segm-path", str(seg_target)]
        if case.get("tczyx"):
            args.append("--tczyx")
        if overwrite:
            args.append("--overwrite")
        if case.get("zarr_format", 2) != 2:
            args += ["--zarr-format", str(case["zarr_format"])]
        r = CliRunner().invoke(app, args)
        if r.exception is not None and not isinstance(r.exception, SystemExit):
            return type(r.exception).__name__, str(r.exception)[:200]
        if r.exit_code != 0:
            return "CliExit", f"exit {r.exit_code}: {r.output[-200:]}"
        return None, ""
    from geff.convert import from_ctc_to_geff

    try:
        from_ctc_to_geff(ctc_dir, geff_arg, segmentation_store=seg_target, tczyx=bool(case.get("tczyx")),
                         overwrite=overwrite, zarr_format=case.get("zarr_format", 2))
    except Exception as ex:  # noqa: BLE001
        return type(ex).__name__, str(ex)[:200]
    return None, ""


def impl_obs(case):
    """everything observable of one conversion, JSON-able"""
    import zarr

    import geff
    from geff.core_io import read_to_memory
    from geff.validate.data import ValidationConfig

    with tempfile.TemporaryDirectory(prefix="verif-c15-") as td:
        return _impl_obs_in(case, Path(td))


def impl_seq(seqcase):
    """a SEQUENCE of conversions in one process and one directory tree: every step is observed like a
    single conversion (its targets may be those of an earlier step, then with overwrite=True)"""
    with tempfile.TemporaryDirectory(prefix="verif-c15-") as td:
        root = Path(td)
        return {"steps": [_impl_obs_in(step, root) for step in seqcase["seq"]]}


def observe(item):
    return impl_seq(item) if "seq" in item else impl_obs(item)


def _impl_obs_in(case, root):
    import zarr

    import geff
    from geff.core_io import read_to_memory
    from geff.validate.data import ValidationConfig

    warnings.simplefilter("ignore")
    obs: dict = {}
    if True:
        droot = root / case["data_dir"] if case.get("data_dir") else root
        droot.mkdir(exist_ok=True)
        ctc_dir = write_dataset(case, droot)
        ndim, aframes, arrays = extract_abstract(ctc_dir)
        obs["abstract"] = {"ndim": ndim, "frames": aframes, "table": case["table"]}
        geff_arg = root / case.get("geff_arg", "out.zarr/tracks.geff")
        geff_path = Path(geff_arg).with_suffix(".geff")
        seg_kind = case.get("seg", "none")
        seg_path = root / case.get("seg_rel", "out.zarr/seg")
        if seg_kind in ("path",):
            seg_target = seg_path
        elif seg_kind == "str":
            seg_target = str(seg_path)
        elif seg_kind == "store":
            seg_target = zarr.storage.LocalStore(str(seg_path))
        else:
            seg_target = None
        if case.get("geff_type") == "str":
            geff_arg = str(geff_arg)
        if case.get("preexisting") and not case.get("pre_done"):
            # HISTORY: an older conversion of a DIFFERENT dataset A (possibly another zarr format / tczyx
            # setting) already sits at the target(s); then the conversion under test runs onto it
            pre = case.get("pre") or {"frames": [[[77, [[0] * len(case["shape"])]]]], "table": [[77, 0, 0, 0]]}
            old = {"shape": case["shape"], "frames": pre["frames"], "table": pre["table"], "dtype": case.get("dtype", "uint16"),
                   "tif_prefix": case.get("tif_prefix", "man_track"), "track_file": case.get("track_file", "man_track.txt")}
            (root / "old").mkdir()
            old_dir = write_dataset(old, root / "old")
            st = seg_target
            if seg_kind == "store":
                st = zarr.storage.LocalStore(str(seg_path))
            exc0, msg0 = _convert({**case, "via": "api", "zarr_format": case.get("pre_format", case.get("zarr_format", 2)),
                                   "tczyx": case.get("pre_tczyx", case.get("tczyx"))}, old_dir, geff_arg, st, False)
            if exc0 is not None:
                obs["pre_exc"] = [exc0, msg0]
        with warnings.catch_warnings(record=True) as rec:
            warnings.simplefilter("always")
            exc, msg = _convert(case, ctc_dir, geff_arg, seg_target, bool(case.get("overwrite")))
        warnings.simplefilter("ignore")
        obs["warnings"] = sorted({f"{w.category.__name__}: {str(w.message)[:140]}" for w in rec})
        obs["exc"], obs["msg"] = exc, msg
        if exc is not None:
            return obs
        # metadata files of which zarr format(s) sit in the geff directory after the conversion
        obs["geff_meta_files"] = sorted(f for f in (".zgroup", ".zattrs", "zarr.json") if (geff_path / f).exists())
        obs["geff_exists"] = geff_path.exists()
        # structural validation, then read back
        try:
            geff.validate_structure(geff_path)
            obs["structure"] = "ok"
        except Exception as ex:  # noqa: BLE001
            obs["structure"] = f"{type(ex).__name__}: {str(ex)[:200]}"
        try:
            m = read_to_memory(geff_path, structure_validation=False)
        except Exception as ex:  # noqa: BLE001
            obs["read_exc"] = f"{type(ex).__name__}: {str(ex)[:200]}"
            return obs
        from geff.validate.data import validate_data

        try:
            validate_data(m, ValidationConfig(graph=True))
            obs["graph"] = "ok"
        except Exception as ex:  # noqa: BLE001
            obs["graph"] = f"{type(ex).__name__}: {str(ex)[:200]}"
        try:
            validate_data(m, ValidationConfig(tracklet=True))
            obs["geff_tracklet_validator"] = "ok"
        except Exception as ex:  # noqa: BLE001
            obs["geff_tracklet_validator"] = f"{type(ex).__name__}"
        md = m["metadata"]
        obs["node_ids"] = [int(x) for x in m["node_ids"].tolist()]
        obs["id_dtype"] = m["node_ids"].dtype.name
        obs["edge_shape"] = list(m["edge_ids"].shape)
        obs["edges"] = [[int(a), int(b)] for a, b in m["edge_ids"].reshape(-1, 2).tolist()]
        props = {}
        for k, v in m["node_props"].items():
            vals = v["values"]
            props[k] = {"dtype": vals.dtype.name, "shape": list(vals.shape),
                        "missing": bool(v["missing"] is not None and np.any(v["missing"])),
                        "values": ([f2hex(x) for x in vals.tolist()] if vals.dtype.kind == "f" and vals.ndim == 1
                                   else vals.tolist())}
        obs["props"] = props
        obs["edge_props"] = sorted(m["edge_props"])
        obs["axes"] = [[a.name, a.type] for a in (md.axes or [])]
        obs["directed"] = md.directed
        obs["track_node_props"] = md.track_node_props
        ro = md.related_objects
        obs["related"] = None if not ro else [[r.type, r.path, r.label_prop] for r in ro]
        # segmentation export (differential)
        if seg_target is not None:
            try:
                arr = zarr.open_array(str(seg_path), mode="r")
                got = arr[:]
                exp = np.stack(arrays)
                if case.get("tczyx"):
                    exp = exp.reshape((exp.shape[0],) + (1,) * (5 - exp.ndim) + exp.shape[1:])
                obs["seg"] = {"shape": list(got.shape), "exp_shape": list(exp.shape), "dtype": got.dtype.name,
                              "chunks": list(arr.chunks), "frame_shape": list(arrays[0].shape), "n_files": len(arrays),
                              "exp_dtype": exp.dtype.name,
                              "equal": bool(got.shape == exp.shape and np.array_equal(got, exp)),
                              "zarr_format": arr.metadata.zarr_format}
            except Exception as ex:  # noqa: BLE001
                obs["seg"] = {"error": f"{type(ex).__name__}: {str(ex)[:200]}"}
            if ro:
                resolved = os.path.normpath(os.path.join(str(geff_path), ro[0].path))
                obs["related_resolves"] = resolved == os.path.normpath(str(seg_path))
    return obs


# ----------------------------------------------------------------- verdicts
def judge(case, obs, fail):
    """specification verdict on the implementation's observation; `fail(key, what, observed, expected)`.
    Only called for consistent datasets."""
    ab = obs["abstract"]
    frames, table, ndim = ab["frames"], ab["table"], ab["ndim"]
    nodes, exp_edges = expected_graph(frames, table)
    exc = obs.get("exc")
    if case.get("preexisting") and not case.get("overwrite"):
        # the guard itself belongs to C06; here: refusing is the only acceptable outcome
        if exc != "FileExistsError" and not (exc and "Contains" in exc):
            fail("C15:existing-target-not-refused", f"existing geff, overwrite=False, outcome {exc}", exc, "FileExistsError")
        return "refused"
    if exc is not None:
        if exc == "IndexError" and len(table) <= 1:
            key = "C15:one-row-table"
        elif exc == "KeyError" and ndim == 3 and "z" in obs.get("msg", ""):
            key = "C15:3d-without-segmentation"
        elif exc == "ValueError" and not exp_edges and "edges ids" in obs.get("msg", ""):
            key = "C15:no-edges"
        else:
            key = "C15:exception"
        fail(key, f"conversion of a consistent dataset raised {exc}: {obs.get('msg', '')}", exc, "a geff")
        return "exception"
    # ---- warnings: nothing beyond what the unmodified converter emits for the same history
    cross = bool(case.get("preexisting")) and case.get("pre_format", case.get("zarr_format", 2)) != case.get("zarr_format", 2)
    unexpected = [w for w in obs.get("warnings", []) if not (
        w.startswith(("DeprecationWarning", "PendingDeprecationWarning"))
        or (cross and "is not recognized as a component of a Zarr hierarchy" in w)
        or (not table and "input contained no data" in w))]
    if unexpected:
        fail("C15:unexpected-warning", f"conversion emitted {unexpected}", unexpected, [])
    mf = obs.get("geff_meta_files")
    if mf is not None and mf != ([".zattrs", ".zgroup"] if case.get("zarr_format", 2) == 2 else ["zarr.json"]):
        fail("C15:mixed-zarr-formats", f"geff directory holds group metadata files {mf} after a zarr v{case.get('zarr_format', 2)} "
             "conversion", mf, None)
    if "read_exc" in obs:
        fail("C15:unreadable", f"output cannot be read back: {obs['read_exc']}", obs["read_exc"], "readable geff")
        return "unreadable"
    # ---- nodes: one per (frame,label), t / tracklet_id / centroid attached
    P = obs["props"]
    n = len(obs["node_ids"])
    coord_names = ["z", "y", "x"][-ndim:]
    want_props = {"t", "tracklet_id", *coord_names}
    if set(P) != want_props or any(P[k]["shape"] != [n] or P[k]["missing"] for k in P) or obs["edge_props"]:
        fail("C15:node-properties", f"node properties {sorted(P)} (shapes/missing) differ from {sorted(want_props)}",
             {k: [P[k]["shape"], P[k]["missing"]] for k in P}, sorted(want_props))
        return "props"
    if len(set(obs["node_ids"])) != n or n != len(nodes):
        fail("C15:nodes", f"{n} nodes ({len(set(obs['node_ids']))} distinct ids) for {len(nodes)} (frame,label) regions",
             obs["node_ids"], len(nodes))
        return "nodes"
    by_key = {}
    for i, nid in enumerate(obs["node_ids"]):
        by_key.setdefault((P["t"]["values"][i], P["tracklet_id"]["values"][i]), []).append(i)
    want_keys = {(t, l) for t, l, _ in nodes}
    if set(by_key) != want_keys or any(len(v) != 1 for v in by_key.values()):
        fail("C15:nodes", "nodes are not in bijection with the (frame,label) regions",
             sorted(map(list, by_key)), sorted(map(list, want_keys)))
        return "nodes"
    for t, l, cen in nodes:
        i = by_key[(t, l)][0]
        got = [hex2f(P[c]["values"][i]) for c in coord_names]
        if any(abs(g - w) > TOL for g, w in zip(got, cen)):
            fail("C15:centroid", f"node (t={t},label={l}) has coordinates {got}, region centroid is {cen}", got, cen)
            return "centroid"
    if any(P[c]["dtype"] != "float64" for c in coord_names) or P["t"]["dtype"][:3] not in ("int", "uin") \
            or P["tracklet_id"]["dtype"][:3] not in ("int", "uin"):
        fail("C15:node-properties", "unexpected property dtypes", {k: P[k]["dtype"] for k in P}, "int t/tracklet_id, float64 coords")
    # ---- edges
    key_of = {nid: (P["t"]["values"][i], P["tracklet_id"]["values"][i]) for i, nid in enumerate(obs["node_ids"])}
    if obs["edge_shape"][1:] != [2]:
        fail("C15:edges", f"edge id array has shape {obs['edge_shape']}", obs["edge_shape"], "(E,2)")
        return "edges"
    try:
        got_edges = sorted((key_of[a], key_of[b]) for a, b in obs["edges"])
    except KeyError:
        fail("C15:edges", "an edge endpoint is not a node", obs["edges"], None)
        return "edges"
    if got_edges != exp_edges:
        fail("C15:edges", "edge multiset differs from consecutive appearances + parent->child links",
             [list(map(list, e)) for e in got_edges], [list(map(list, e)) for e in exp_edges])
        return "edges"
    # ---- axes / metadata
    want_axes = [["t", "time"]] + [[c, "space"] for c in coord_names]
    if obs["axes"] != want_axes:
        fail("C15:axes", f"axes {obs['axes']}", obs["axes"], want_axes)
    if obs["directed"] is not True or obs["track_node_props"] != {"tracklet": "tracklet_id"}:
        fail("C15:metadata", "not directed or tracklet property not declared",
             [obs["directed"], obs["track_node_props"]], [True, {"tracklet": "tracklet_id"}])
    # ---- validation of the written store
    if obs["structure"] != "ok":
        fail("C15:structure-invalid", f"validate_structure rejects the output: {obs['structure']}", obs["structure"], "ok")
    if obs["graph"] != "ok":
        fail("C15:graph-invalid", f"graph validation rejects the output: {obs['graph']}", obs["graph"], "ok")
    # ---- tracklet definition (independent oracle on the read-back graph)
    lab = {nid: P["tracklet_id"]["values"][i] for i, nid in enumerate(obs["node_ids"])}
    ok, why = tracklet_definition_holds(obs["node_ids"], [tuple(e) for e in obs["edges"]], lab)
    tag = "ok"
    if not ok:
        if single_child_parents(table):
            fail("C15:single-child-continuation",
                 f"parent(s) {single_child_parents(table)} have exactly one child: {why}", why, "tracklet definition holds")
            tag = "single-child"
        else:
            fail("C15:tracklet-invalid", f"tracklet_id violates the tracklet definition: {why}", why, "holds")
    elif single_child_parents(table):
        fail("C15:oracle-inconsistent", "single-child parent yet tracklet definition holds?", None, None)
    # ---- segmentation (differential)
    if case.get("seg", "none") != "none":
        sg = obs.get("seg", {})
        if not sg.get("equal") or sg.get("dtype") != sg.get("exp_dtype"):
            fail("C15:segmentation-differs", f"exported label volume != stacked frames: {sg}", sg, "equal")
        elif sg.get("zarr_format") != case.get("zarr_format", 2):
            fail("C15:segmentation-zarr-format", f"segmentation written as zarr v{sg.get('zarr_format')}", sg, case.get("zarr_format", 2))
        if obs.get("related") is None:
            fail("C15:related-object-missing", "segmentation exported but no related object recorded", None, "labels object")
        else:
            r = obs["related"]
            if len(r) != 1 or r[0][0] != "labels" or r[0][2] != "tracklet_id" or not obs.get("related_resolves"):
                fail("C15:related-object-path", f"related object {r} does not resolve to the segmentation", r, "resolves")
    elif obs.get("related") is not None:
        fail("C15:related-object-path", "related object recorded without a segmentation target", obs["related"], None)
    return tag


def compare_model(obs, mo):
    """None when model and implementation agree, else a description"""
    exc = obs.get("exc")
    if "exc" in mo:
        return None if exc == mo["exc"] else f"model raises {mo['exc']}, implementation {exc}"
    if exc is not None:
        return f"implementation raises {exc}, model returns a graph"
    if "props" not in obs:
        return "implementation output unreadable"
    m = mo["ok"]
    P = obs["props"]
    if obs["node_ids"] != m["ids"]:
        return "node ids differ"
    if P.get("t", {}).get("values") != m["t"] or P.get("tracklet_id", {}).get("values") != m["tracklet"]:
        return "t / tracklet_id differ"
    mc = {c[0]: c[1] for c in m["coords"]}
    if set(mc) != set(P) - {"t", "tracklet_id"}:
        return f"coordinate properties differ: {sorted(mc)} vs {sorted(P)}"
    for c, toks in mc.items():
        got = [hex2f(h) for h in P[c]["values"]]
        if len(got) != len(toks) or any(abs(g - hex2f(h)) > TOL for g, h in zip(got, toks)):
            return f"coordinate {c} differs"
    if obs["edges"] != m["edges"]:
        return "edge list (in stored order) differs"
    if obs["axes"] != m["axes"]:
        return "axes differ"
    return None


# ----------------------------------------------------------------- generators
CONFIG_KEYS = ("seg", "tczyx", "zarr_format", "overwrite", "preexisting", "via", "track_file", "geff_arg")


def place(rng, shape, frames_labels):
    """give every (frame,label) 1..3 distinct free pixels (fewer when the frame is small: every label of
    the frame gets at least one)"""
    out = []
    cells = [tuple(int(v) for v in idx) for idx in np.ndindex(*shape)]
    for labels in frames_labels:
        if len(labels) > len(cells):
            raise ValueError(f"{len(labels)} labels do not fit into a frame of shape {shape}")
        free = cells[:]
        rng.shuffle(free)
        fr = []
        for i, l in enumerate(labels):
            k = min(rng.choice([1, 1, 2, 3]), len(free) - (len(labels) - i - 1))
            fr.append([l, [list(free.pop()) for _ in range(k)]])
        out.append(fr)
    return out


def random_config(rng, ndim):
    seg = rng.choice(["none", "none", "path", "str", "store"])
    via = "cli" if (seg in ("none", "path") and rng.random() < 0.25) else "api"
    pre = rng.random() < 0.2
    return {"seg": seg, "tczyx": rng.random() < 0.4, "zarr_format": rng.choice([2, 3]),
            "pre_format": rng.choice([2, 3]), "pre_tczyx": rng.random() < 0.4, "geff_type": rng.choice(["path", "str"]),
            "preexisting": pre, "overwrite": (rng.random() < 0.7) if pre else (rng.random() < 0.2),
            "via": via, "track_file": rng.choice(["man_track.txt", "res_track.txt"]),
            "tif_prefix": rng.choice(["man_track", "mask"]),
            "geff_arg": rng.choice(["out.zarr/tracks.geff", "out.zarr/tracks", "tracks.zarr"])}


def build_case(rng, ndim, T, tracks, config=None, shuffle=False, drop_orphan_rows=False, shape=None):
    """tracks: list of dict(L, frames=[t..], P)"""
    if shape is None:
        shape = [5, 6] if ndim == 2 else [3, 4, 5]
        if rng.random() < 0.3:
            shape = [s + rng.randint(0, 2) for s in shape]
    per_frame = [sorted(tr["L"] for tr in tracks if t in tr["frames"]) for t in range(T)]
    table = [[tr["L"], min(tr["frames"]), max(tr["frames"]), tr["P"]] for tr in tracks]
    if shuffle:
        rng.shuffle(table)
    if drop_orphan_rows:
        table = [r for r in table if r[3] > 0 or rng.random() < 0.5]
    case = {"ndim": ndim, "shape": shape, "frames": place(rng, shape, per_frame), "table": table}
    case.update(config if config is not None else random_config(rng, ndim))
    return case


def random_tracks(rng, T, max_labels=9):
    pool = rng.sample(range(1, 14), max_labels)
    tracks = []

    def new_track(B, parent, depth):
        if not pool:
            return
        L = pool.pop()
        E = rng.randint(B, T - 1) if rng.random() < 0.8 else B
        frames = sorted({B, E} | {f for f in range(B + 1, E) if rng.random() < 0.7})
        tracks.append({"L": L, "frames": frames, "P": parent})
        if E < T - 1 and depth < 3:
            for _ in range(rng.choice([0, 0, 1, 2, 2, 3])):
                cb = E + 1 if (rng.random() < 0.8 or E + 2 > T - 1) else E + 2
                new_track(cb, L, depth + 1)

    for _ in range(rng.choice([1, 1, 2, 3])):
        new_track(0 if rng.random() < 0.7 else rng.randint(0, T - 1), 0, 0)
    return tracks


def random_case(rng, thorough=False):
    ndim = rng.choice([2, 2, 3])
    T = rng.randint(1, 6 if thorough else 4)
    tracks = random_tracks(rng, T)
    shape = None
    if rng.random() < 0.2:      # a singleton extent somewhere (enough cells for up to 9 labels x 1 pixel)
        shape = rng.choice([[1, 14], [14, 1]] if ndim == 2 else [[1, 4, 5], [3, 1, 5], [3, 5, 1], [1, 1, 14], [1, 14, 1]])
    return build_case(rng, ndim, T, tracks, shuffle=rng.random() < 0.5, drop_orphan_rows=rng.random() < 0.15, shape=shape)


def templates():
    """small lineage shapes: (name, T, tracks)"""
    def tr(L, frames, P=0):
        return {"L": L, "frames": frames, "P": P}
    out = [
        ("single-frame-single-label", 1, [tr(1, [0])]),
        ("single-frame-three-labels", 1, [tr(2, [0]), tr(5, [0]), tr(9, [0])]),
        ("one-track", 3, [tr(4, [0, 1, 2])]),
        ("one-track-gap", 3, [tr(4, [0, 2])]),
        ("two-tracks", 2, [tr(1, [0, 1]), tr(3, [0, 1])]),
        ("late-start", 3, [tr(1, [0, 1, 2]), tr(2, [2])]),
        ("single-child", 2, [tr(1, [0]), tr(2, [1], 1)]),
        ("single-child-chain", 3, [tr(1, [0]), tr(2, [1], 1), tr(7, [2], 2)]),
        ("division-2", 3, [tr(1, [0, 1]), tr(2, [2], 1), tr(3, [2], 1)]),
        ("division-3", 2, [tr(5, [0]), tr(2, [1], 5), tr(3, [1], 5), tr(9, [1], 5)]),
        ("division-gap", 4, [tr(1, [0, 1]), tr(2, [3], 1), tr(3, [2, 3], 1)]),
        ("two-generations", 4, [tr(1, [0]), tr(2, [1, 2], 1), tr(3, [1], 1), tr(4, [3], 2), tr(6, [3], 2)]),
        ("mixed", 3, [tr(1, [0]), tr(2, [1, 2], 1), tr(3, [1], 1), tr(8, [0, 2]), tr(6, [2], 3)]),
    ]
    return out


def exhaustive_cases(rng, thorough):
    cases = []
    for name, T, tracks in templates():
        for ndim in (2, 3):
            for seg in ("none", "path", "str", "store"):
                combos = [(tz, zf, ow) for tz in (False, True) for zf in (2, 3) for ow in ("fresh", "over", "refuse")]
                combos = rng.sample(combos, 8 if thorough else 2)
                for tz, zf, ow in combos:
                    via = "cli" if (seg in ("none", "path") and rng.random() < 0.3) else "api"
                    cfg = {"seg": seg, "tczyx": tz, "zarr_format": zf, "preexisting": ow != "fresh",
                           "overwrite": ow == "over", "via": via,
                           "track_file": rng.choice(["man_track.txt", "res_track.txt"]),
                           "tif_prefix": rng.choice(["man_track", "mask"]),
                           "geff_arg": rng.choice(["out.zarr/tracks.geff", "out.zarr/tracks"])}
                    c = build_case(rng, ndim, T, tracks, cfg)
                    c["template"] = name
                    cases.append(c)
    return cases


SINGLETON_SHAPES = [[1, 5, 6], [3, 1, 5], [3, 4, 1], [1, 1, 6], [1, 4, 1], [2, 1, 1], [1, 1, 1],     # 3-D
                    [1, 6], [6, 1], [1, 2], [1, 1]]                                                   # 2-D


def singleton_shape_cases(rng, thorough):
    """frames with singleton extents — (1,Y,X), (Z,1,X), (Z,Y,1), (1,1,X), 2-D (1,X), (Y,1), 1x1 / 1x1x1 —
    and single-pixel regions: the RANK of the frame as stored in the tiff (not its squeezed shape) decides
    axes t,(z),y,x, the coordinates and the shape of the exported volume"""
    cases = []
    for shape in SINGLETON_SHAPES:
        ncell = int(np.prod(shape))
        fit = [(n, T, tr) for n, T, tr in templates()
               if max(len([1 for x in tr if t in x["frames"]]) for t in range(T)) <= ncell]
        for name, T, tracks in (fit if thorough else rng.sample(fit, min(3, len(fit)))):
            for seg in ("none", "path", "store"):
                for tz in ((False, True) if (thorough or seg != "store") else (rng.random() < 0.5,)):
                    via = "cli" if (seg in ("none", "path") and rng.random() < 0.3) else "api"
                    cfg = {"seg": seg, "tczyx": tz, "zarr_format": rng.choice([2, 3]), "preexisting": False, "overwrite": False,
                           "via": via, "geff_type": rng.choice(["path", "str"]),
                           "track_file": rng.choice(["man_track.txt", "res_track.txt"]),
                           "tif_prefix": rng.choice(["man_track", "mask"]),
                           "geff_arg": rng.choice(["out.zarr/tracks.geff", "out.zarr/tracks"])}
                    c = build_case(rng, len(shape), T, tracks, cfg, shape=list(shape))
                    c["template"] = name
                    cases.append(c)
    return cases


def history_cases(rng, thorough):
    """conversion HISTORIES: convert(A, fmt1) then convert(B, fmt2, overwrite=True) onto the same geff (and
    segmentation) target, for all four (fmt1, fmt2) pairs x segmentation target {none, path, store} x tczyx,
    geff target as str/Path, API and CLI; A is a different lineage (other number of frames / nodes)"""
    tpl = templates()
    pick = tpl if thorough else [t for t in tpl if t[0] in ("one-track", "division-2", "single-frame-three-labels")]
    cases = []
    for i, (name, T, tracks) in enumerate(pick):
        for ndim in (rng.choice([2, 3]),):
            for f1 in (2, 3):
                for f2 in (2, 3):
                    for seg in ("none", "path", "store"):
                        for tz in (False, True):
                            via = "cli" if (seg in ("none", "path") and rng.random() < 0.4) else "api"
                            cfg = {"seg": seg, "tczyx": tz, "zarr_format": f2, "pre_format": f1,
                                   "pre_tczyx": tz if rng.random() < 0.7 else not tz, "preexisting": True, "overwrite": True,
                                   "via": via, "geff_type": rng.choice(["path", "str"]),
                                   "track_file": rng.choice(["man_track.txt", "res_track.txt"]),
                                   "tif_prefix": rng.choice(["man_track", "mask"]),
                                   "geff_arg": rng.choice(["out.zarr/tracks.geff", "out.zarr/tracks", "tracks.zarr"])}
                            c = build_case(rng, ndim, T, tracks, cfg)
                            an, aT, atracks = tpl[(tpl.index((name, T, tracks)) + rng.randint(1, len(tpl) - 1)) % len(tpl)]
                            a = build_case(rng, ndim, aT, atracks, {}, shape=c["shape"])
                            c["pre"] = {"frames": a["frames"], "table": a["table"], "template": an}
                            c["template"] = name
                            c["history"] = f"v{f1}->v{f2}"
                            cases.append(c)
    return cases


def sequence_case(rng, thorough=False):
    """2..4 conversions in ONE process: 2-D / 3-D mixes, different shapes, formats, targets {none,path,str,store},
    API and CLI; a step writes onto a fresh target or (overwrite=True) onto the targets of an earlier step"""
    steps, slots = [], []
    for k in range(rng.randint(2, 4)):
        c = random_case(rng, thorough)
        reuse = bool(slots) and rng.random() < 0.55
        slot = rng.randrange(len(slots)) if reuse else len(slots)
        c.update({"data_dir": f"d{k}", "geff_arg": f"s{slot}.zarr/" + rng.choice(["tracks.geff", "tracks"]),
                  "seg_rel": f"s{slot}.zarr/seg", "preexisting": reuse, "pre_done": True,
                  "overwrite": True if reuse else rng.random() < 0.2})
        if reuse:
            c["pre_format"] = slots[slot]
            slots[slot] = c["zarr_format"]
        else:
            slots.append(c["zarr_format"])
        steps.append(c)
    return {"seq": steps}


def malformed_case(rng):
    """inconsistent datasets: only the model/implementation correspondence is checked"""
    c = random_case(rng)
    c.update({"preexisting": False, "overwrite": False})
    kind = rng.choice(["missing-child", "missing-parent", "no-nodes", "empty-table", "repeated-row",
                       "parent-after-child", "self-parent", "negative-parent"])
    labels = sorted({l for fr in c["frames"] for l, _ in fr})
    absent = max(labels + [0]) + 3
    if kind == "missing-child":
        c["table"].append([absent, 0, 0, rng.choice(labels)])
    elif kind == "missing-parent":
        c["table"].append([rng.choice(labels), 0, 0, absent])
    elif kind == "no-nodes":
        c["frames"] = [[] for _ in c["frames"]]
    elif kind == "empty-table":
        c["table"] = []
    elif kind == "repeated-row":
        rows = [r for r in c["table"] if r[3] > 0] or c["table"]
        if rows:
            c["table"].append(list(rng.choice(rows)))
    elif kind == "parent-after-child":
        if len(labels) >= 2:
            a, b = rng.sample(labels, 2)
            c["table"].append([a, 0, 0, b])
    elif kind == "self-parent":
        l = rng.choice(labels)
        c["table"].append([l, 0, 0, l])
    elif kind == "negative-parent":
        c["table"].append([rng.choice(labels), 0, 0, -rng.choice(labels)])
    c["malformed"] = kind
    return c


def corpus():
    d = common.VERIF / "harness" / "corpus" / PROP
    for f in sorted(d.glob("*.json")):
        yield json.loads(f.read_text())



# ================================================================= deepening: directory layer
TRACK_FILES = ("man_track.txt", "res_track.txt")
STRAYS = ["notes.txt", "a.TIF", "b.tiff", "x.tif.bak", ".DS_Store", "README", "T000.TIF", "man_track.tif.txt"]
ODD_TIFS = [".hidden.tif", ".tif", "t 1.tif", "t-1.tif", "t_1.tif", "T001.tif", "é.tif", "~.tif", "1.tif", "t1.tif.tif", "zz.tif",
            "t9.tif", "t10.tif", "t010.tif", "man_track9.tif", "man_track10.tif"]


def dir_obs(case):
    """real directory with the listed file names (every non-track file is a valid 2x2 tiff whose single labelled
    pixel carries `position in the listing + 1`), converted by from_ctc_to_geff / `geff convert-ctc`; observed:
    the exception class, or for every frame index t the NAME of the file that got it (through the label)"""
    import tifffile

    from geff.core_io import read_to_memory

    warnings.simplefilter("ignore")
    with tempfile.TemporaryDirectory(prefix="verif-c15-") as td:
        root = Path(td)
        d = root / "TRA"
        names = case["names"]
        if case["exists"]:
            d.mkdir()
            for k, name in enumerate(names):
                if name in TRACK_FILES:
                    continue
                a = np.zeros((2, 2), dtype="uint16")
                a[0, 0] = k + 1
                with open(d / name, "wb") as fh:
                    tifffile.imwrite(fh, a)
            for tf in TRACK_FILES:
                if tf in names:
                    (d / tf).write_text("x y\n" if case.get("poison") == tf
                                        else "".join(f"{k + 1} 0 0 0\n" for k in range(len(names))))
        exc, msg = _convert({"via": case.get("via", "api")}, d, root / "out.geff", None, False)
        obs = {"exc": exc, "msg": msg}
        if exc is None:
            m = read_to_memory(root / "out.geff")
            t = [int(x) for x in m["node_props"]["t"]["values"].tolist()]
            lab = [int(x) for x in m["node_props"]["tracklet_id"]["values"].tolist()]
            order = sorted(zip(t, lab))
            obs["t"] = [x for x, _ in order]
            obs["frames"] = [names[l - 1] for _, l in order]
        return obs


def dir_expected_from_model(case, mo):
    """what the Lean directory layer + the later stages predict for the conversion of a dir case"""
    if "exc" in mo:
        return {"exc": mo["exc"]}
    if not mo["frames"]:
        return {"exc": "ValueError"}            # "No nodes found" (GeffProps.C15.C15_outcome)
    if case.get("poison") == mo["track"]:
        return {"exc": "ValueError"}            # the chosen table file does not parse
    return {"exc": None, "frames": mo["frames"], "t": mo["indices"]}


def dir_oracle(case):
    """independent of the model, from the property text and docs/convert.md: man_track.txt before res_track.txt; for a
    CTC-conformant listing the frames in ascending numeric order of their time index, numbered 0..n-1"""
    names = case["names"]
    if not case["exists"] or not any(t in names for t in TRACK_FILES):
        return {"exc": "FileNotFoundError"}
    chosen = TRACK_FILES[0] if TRACK_FILES[0] in names else TRACK_FILES[1]
    cf = case.get("conformant")
    if cf is None:
        return None
    if not cf["idxs"] or case.get("poison") == chosen:
        return {"exc": "ValueError"}
    order = sorted(cf["idxs"])
    return {"exc": None, "frames": [cf["fmt"] % i for i in order], "t": list(range(len(order)))}


def dir_cases(rng, thorough):
    cases = []

    def tracks(rng):
        return rng.choice([["man_track.txt"], ["res_track.txt"], ["man_track.txt", "res_track.txt"], []] +
                          [["man_track.txt"], ["res_track.txt"]] * 2)

    def finish(names, conformant=None, kind=""):
        tr = tracks(rng)
        names = names + tr
        rng.shuffle(names)
        c = {"kind": "dir", "sub": kind, "exists": rng.random() > 0.04, "names": names,
             "via": "cli" if rng.random() < 0.2 else "api"}
        if len(tr) == 2 or (tr and rng.random() < 0.15):
            c["poison"] = rng.choice([None] + tr)
        if conformant is not None:
            c["conformant"] = conformant
        return c

    # CTC-conformant: one prefix, one width, all numbers inside the width, stray non-tif files
    for _ in range(160 if thorough else 40):
        pre = rng.choice(["man_track", "mask", "t", "", "seg_"])
        w = rng.choice([1, 2, 3, 3, 4])
        n = rng.randint(0, min(10 ** w, 12))
        idxs = rng.sample(range(min(10 ** w, 40)), n) if rng.random() < 0.3 else list(range(n))
        fmt = f"{pre}%0{w}d.tif"
        names = [fmt % i for i in idxs] + rng.sample(STRAYS, rng.randint(0, 3))
        cases.append(finish(names, {"fmt": fmt, "idxs": idxs, "class": "same-width"}, "conformant"))
    # "%0wd" with more frames than the width holds (what `"%03d" % t` writes from frame 1000 on)
    for n, w in ([(11, 1), (12, 1), (101, 2)] if not thorough else [(11, 1), (12, 1), (13, 1), (101, 2), (105, 2), (1001, 3)]):
        pre = rng.choice(["man_track", "mask"])
        fmt = f"{pre}%0{w}d.tif"
        c = finish([fmt % i for i in range(n)], {"fmt": fmt, "idxs": list(range(n)), "class": "width-overflow"}, "overflow")
        c.update({"exists": True, "poison": None})
        if "man_track.txt" not in c["names"] and "res_track.txt" not in c["names"]:
            c["names"].append("res_track.txt")
        cases.append(c)
    # bounded-exhaustive: every subset of <= 2 (3 in thorough) of the odd names
    import itertools
    pool = ODD_TIFS + STRAYS[:3]
    subs = [list(x) for k in range(0, (3 if thorough else 2) + 1) for x in itertools.combinations(pool, k)]
    subs = rng.sample(subs, 400 if thorough else 70)
    for sub in subs:
        cases.append(finish(list(sub), None, "odd-names"))
    return cases


# ================================================================= deepening: the table as text
def loadtxt_kwargs(ck):
    """the keywords of the np.loadtxt call as translator T8c found them in the current _ctc.py"""
    g = (ck.extra.get("translator", {}).get("T8c_ctc_glue", {}) or {}).get("glue", {}) or {}
    kw = {}
    for k, v in g.get("loadtxtKw", [("dtype", "int"), ("ndmin", "2")]):
        try:
            kw[k] = eval(v, {"__builtins__": {}}, {"int": int, "float": float, "str": str, "None": None})  # noqa: S307
        except Exception:  # noqa: BLE001
            kw[k] = v
    return kw


def text_obs(item):
    """np.loadtxt exactly as the converter calls it, on a real file holding the bytes of `text`"""
    text, kw = item
    warnings.simplefilter("ignore")
    with tempfile.TemporaryDirectory(prefix="verif-c15-") as td:
        f = Path(td) / "man_track.txt"
        f.write_bytes(text.encode("utf-8"))
        try:
            a = np.loadtxt(f, **kw)
            return {"rows": [[int(v) for v in r] for r in a.tolist()] if a.size else [], "shape": list(a.shape)}
        except Exception as ex:  # noqa: BLE001
            return {"exc": type(ex).__name__}


def text_oracle(text):
    """small independent reading of a table text (Python's own str methods): rows of ints, "ValueError", or None when
    the text leaves the lexical subset the model covers"""
    if any(not (ch in "\n\r\t" or 32 <= ord(ch) <= 126) for ch in text):
        return None
    rows = []
    for line in text.replace("\r\n", "\n").replace("\r", "\n").split("\n"):
        toks = [t for t in line.split("#")[0].replace("\t", " ").split(" ") if t]
        if not toks:
            continue
        row = []
        for t in toks:
            body = t[1:] if t[0] in "+-" else t
            if not body or any(ch not in "0123456789" for ch in body):
                return "ValueError"
            v = int(t)
            if not -2 ** 63 <= v < 2 ** 63:
                return "ValueError"
            row.append(v)
        rows.append(row)
    if any(len(r) != len(rows[0]) for r in rows):
        return "ValueError"
    return rows


def layout_text(rng, rows, messy=True):
    """a laid-out rendering of `rows` (GeffModel/CtcTable.lean `renderLines`): blanks, tabs, comments, blank lines, \\n or \\r\\n"""
    eol = rng.choice(["\n", "\n", "\r\n"]) if messy else "\n"
    ws = lambda a, b: "".join(rng.choice(" \t") for _ in range(rng.randint(a, b)))  # noqa: E731
    lines = []
    for r in rows:
        while messy and rng.random() < 0.2:
            lines.append(ws(0, 2) + (rng.choice(["# c", "#", "#1 2 3 4"]) if rng.random() < 0.6 else ""))
        sep = ws(1, 3) if messy else " "
        toks = [("+" if (messy and v >= 0 and rng.random() < 0.1) else "") + ("00" if (messy and rng.random() < 0.05) else "") + str(v)
                if v >= 0 else str(v) for v in r]
        lines.append((ws(0, 2) if messy else "") + sep.join(toks) + (ws(0, 2) if messy else "")
                     + (rng.choice(["# x", "#", " # 9 9"]) if (messy and rng.random() < 0.2) else ""))
    final = rng.random() < 0.8 or not messy
    return eol.join(lines) + (eol if (final and lines) else "")


TEXT_FIXED = ["1 0 0 0\n", "1 0 0 0", "1 0 0 0\n\n\n", "\n\n1 0 0 0\n", "1\t0  0 \t0 \n", " 1 0 0 0\n", "1 0 0 0 # c\n", "# c\n1 0 0 0\n",
              "1 0 0 0\n2 1 1\n", "1 0 0 0\r\n2 1 1 1\r\n", "1 0 0 0\r2 1 1 1", "", "\n", "#\n", "1.0 0 0 0\n", "+1 0 0 0\n", "-1 0 0 0\n",
              "1_0 0 0 0\n", "0x10 0 0 0\n", "007 0 0 0\n", "1e2 0 0 0\n", "9223372036854775807 0 0 0\n", "9223372036854775808 0 0 0\n",
              "-9223372036854775808 0 0 0\n", "-9223372036854775809 0 0 0\n", "a 0 0 0\n", "1,0,0,0\n", "1 0 0 0 5\n", "1\n", "1 0\n2 1\n",
              "1 0 0 0#c\n2 1 1 1", "- 1 0 0\n", "--1 0 0 0\n", "+-1 0\n", "1 0 0 0\n\t\n2 0 0 0\n", "1 0 0 0\r\r\n2 1 1 1", "\r\n\r\n", "1 2\r\n\r3 4",
              "1 0 0 0\n# 1 2\n2 1 1 1 #\n", "+ 1", "1+ 2", "1- 2", "00 -0 +0 0"]


def text_cases(rng, thorough):
    import itertools

    out = list(TEXT_FIXED)
    alpha = ["1", "0", "-", "+", " ", "\n", "#", ".", "\r", "\t"]
    for n in range(0, 5 if thorough else 4):
        out += ["".join(x) for x in itertools.product(alpha, repeat=n)]
    for _ in range(2000 if thorough else 300):
        k = rng.choice([1, 2, 4, 4, 4, 5])
        rows = [[rng.choice([0, 1, 7, 12, 345, -1, -20, 2 ** 63 - 1, -2 ** 63, rng.randint(-99, 999)]) for _ in range(k)]
                for _ in range(rng.randint(0, 5))]
        t = layout_text(rng, rows)
        if rng.random() < 0.3 and t:        # corrupt one character
            i = rng.randrange(len(t))
            t = t[:i] + rng.choice(["x", ".", ",", " 5 ", "\n", "#", "-", "e", "_", "9" * 19]) + t[i + 1:]
        out.append(t)
    return out


def run_dir_stream(ck, drv, thorough):
    """directory layer: real directories through the converter vs GeffModel/CtcDir.lean `discover` (+ oracle)"""
    cases = [c for c in corpus() if c.get("kind") == "dir"] + dir_cases(ck.rng, thorough)
    obs = common.pmap(dir_obs, cases, chunksize=2)
    model = drv.ask([{"op": "dir", "exists": c["exists"], "listing": c["names"]} for c in cases])
    if model is None:
        ck.broken.append({"what": "driver Drivers/C15.lean (dir)", "detail": drv.broken})
        return
    n_conf = n_over = 0
    for c, o, mo in zip(cases, obs, model):
        got = {k: o.get(k) for k in ("exc", "frames", "t") if o.get(k) is not None or k == "exc"}
        if "err" in mo:
            ck.corr_broken("C15:driver-dir", c, got, mo)
            continue
        exp = dir_expected_from_model(c, mo)
        if got != exp:
            ck.corr_broken("C15:discover", c, {**got, "msg": o.get("msg")}, exp)
        orc = dir_oracle(c)
        tag = "dir|" + c.get("sub", "") + "|" + str(o.get("exc"))
        if orc is not None and got != orc:
            cls = (c.get("conformant") or {}).get("class")
            if orc.get("exc") == "FileNotFoundError" or got.get("exc") == "FileNotFoundError":
                ck.fail("C15:track-file-discovery", f"listing {c['names']} (exists={c['exists']}): outcome {got.get('exc')}, "
                        f"expected {orc.get('exc')}", c, got, orc)
            elif cls == "width-overflow" and got.get("exc") is None:
                ck.fail("C15:frame-order-not-numeric", f"frames named {c['conformant']['fmt']} for T=0..{len(c['conformant']['idxs']) - 1}: "
                        f"file order {got.get('frames')[:14]}… is not the time order", c, got.get("frames"), orc.get("frames"))
                n_over += 1
                tag += "|not-numeric"
            else:
                ck.fail("C15:frame-order", f"CTC-conformant listing {c['names']}: frames/indices {got}, expected {orc}", c, got, orc)
        n_conf += c.get("conformant") is not None
        ck.case({k: c[k] for k in c if k != "names"} | {"names": c["names"][:16], "n": len(c["names"])}, tag=tag,
                nontrivial=bool(got.get("frames")))
    ck.extra["dir_cases"] = len(cases)
    ck.extra["dir_cases_ctc_conformant"] = int(n_conf)
    ck.extra["dir_cases_width_overflow_misordered"] = int(n_over)


def run_text_stream(ck, drv, thorough):
    """the table as text: np.loadtxt as called by the converter vs GeffModel/CtcTable.lean `parseTable` (+ oracle);
    then whole conversions of datasets whose table file holds a laid-out text vs `tableOfText` ; `fromCtc`"""
    kw = loadtxt_kwargs(ck)
    texts = [c["text"] for c in corpus() if c.get("kind") == "text"] + text_cases(ck.rng, thorough)
    texts = list(dict.fromkeys(texts))
    obs = common.pmap(text_obs, [(t, kw) for t in texts], chunksize=64)
    model = drv.ask([{"op": "text", "text": t} for t in texts])
    if model is None:
        ck.broken.append({"what": "driver Drivers/C15.lean (text)", "detail": drv.broken})
        return
    n_unsup = n_ok = n_err = 0
    for t, o, mo in zip(texts, obs, model):
        orc = text_oracle(t)
        if "err" in mo:
            ck.corr_broken("C15:driver-text", {"kind": "text", "text": t}, o, mo)
            continue
        if mo.get("unsupported"):
            n_unsup += 1
            if orc is not None:
                ck.corr_broken("C15:parseTable(subset)", {"kind": "text", "text": t}, orc, mo)
            continue
        got = o.get("exc") or o["rows"]
        want = mo.get("exc") or [[int(v) for v in r] for r in mo["rows"]]      # integers beyond 2^53 travel as strings
        if got != want:
            ck.corr_broken("C15:parseTable", {"kind": "text", "text": t}, o, mo)
        if orc is not None and got != orc:
            ck.corr_broken("C15:parseTable(oracle)", {"kind": "text", "text": t}, o, orc)
        n_ok += "rows" in mo
        n_err += "exc" in mo
        ck.case({"kind": "text", "text": t[:200]}, tag="text|" + ("rows" if "rows" in mo else mo["exc"]), nontrivial="rows" in mo and bool(mo["rows"]))
    ck.extra["table_texts"] = {"compared": len(texts), "parsed": int(n_ok), "ValueError": int(n_err), "outside_subset": int(n_unsup),
                               "loadtxt_kwargs": {k: str(v) for k, v in kw.items()}}
    # ---- end to end
    cases = [c for c in corpus() if c.get("kind") == "text-e2e"]
    for _ in range(240 if thorough else 60):
        c = random_case(ck.rng, thorough)
        c.update({"preexisting": False, "overwrite": False, "kind": "text-e2e"})
        c["table_text"] = layout_text(ck.rng, c["table"])
        cases.append(c)
    for _ in range(60 if thorough else 12):     # tables that do not parse / other widths
        c = random_case(ck.rng, thorough)
        c.update({"preexisting": False, "overwrite": False, "kind": "text-e2e", "seg": "none"})
        how = ck.rng.choice(["float", "ragged", "two-columns", "comma", "empty"])
        rows = c["table"]
        if how == "float":
            c["table_text"] = "".join(" ".join(f"{v}.0" for v in r) + "\n" for r in rows)
        elif how == "ragged":
            c["table_text"] = layout_text(ck.rng, rows + [[1, 0, 0]], messy=False)
        elif how == "two-columns":
            c["table_text"] = layout_text(ck.rng, [[r[0], r[3]] for r in rows])
        elif how == "comma":
            c["table_text"] = "".join(",".join(str(v) for v in r) + "\n" for r in rows)
        else:
            c["table_text"] = "# nothing\n\n"
            c["table"] = []
        c["malformed_text"] = how
        cases.append(c)
    obs = common.pmap(impl_obs, cases, chunksize=4)
    model = drv.ask([{"op": "text-e2e", "ndim": o["abstract"]["ndim"], "frames": o["abstract"]["frames"], "text": c["table_text"]}
                     for c, o in zip(cases, obs)])
    if model is None:
        ck.broken.append({"what": "driver Drivers/C15.lean (text-e2e)", "detail": drv.broken})
        return
    for c, o, mo in zip(cases, obs, model):
        small = {k: c[k] for k in c if k != "frames"} | {"n_frames": len(c["frames"])}
        if "err" in mo or mo.get("unsupported"):
            ck.corr_broken("C15:driver-text-e2e", small, o.get("exc"), mo)
            continue
        d = compare_model(o, mo)
        if d is not None:
            ck.corr_broken("C15:tableOfText;fromCtc", small, {k: o.get(k) for k in ("exc", "msg", "node_ids", "edges", "axes")},
                           {"diff": d, "model": mo})
        tag = "text-e2e|" + str(c.get("malformed_text", "layout")) + "|" + str(o.get("exc"))
        ab = o["abstract"]
        if "malformed_text" not in c and is_consistent(ab["frames"], ab["table"]):
            def fail(key, what, observed=None, expected=None, _c=c):
                ck.fail(key, "[table written as laid-out text] " + what, _c, observed, expected)
            tag += "|" + judge(c, o, fail)
        ck.case(small, tag=tag, nontrivial=o.get("exc") is None)
    ck.extra["table_text_conversions"] = len(cases)

# ----------------------------------------------------------------- the check
def run(ck: common.Check):
    ck.prove(["GeffProps.C15", "GeffProps.C15Links", "GeffProps.C15Cli", "GeffProps.C15Dir", "GeffProps.C15Table"])
    ck.rule = ("cases = corpus + 13 lineage templates (single frame, one-row table, gaps, late starts, 1/2/3 "
               "children, chains, two generations) x {2-D,3-D} x segmentation target {none,path,str,store} x "
               "tczyx x zarr_format x {fresh, overwrite, refuse} (all combinations in thorough, 2 sampled per "
               "template/ndim/target in quick) + frames with singleton extents ((1,Y,X), (Z,1,X), (Z,Y,1), (1,1,X), (1,X), (Y,1), "
               "1x1, 1x1x1; rank taken from the tiff) x fitting templates x target x tczyx + conversion histories convert(A, fmt1) -> convert(B, fmt2, overwrite) for all "
               "four format pairs x target {none,path,store} x tczyx, geff target as str/Path, API/CLI (warnings recorded) + seeded random lineage forests (1..4(6) frames, labels with gaps, "
               "random pixel sets, shuffled tables, dropped parentless rows, man_track/res_track, API and CLI) + a "
               "malformed stream (absent labels, empty/duplicated rows, no nodes) for the error outcomes + sequences of 2..4 "
               "conversions in one process (2-D/3-D mixes, other shapes/formats, onto fresh targets or with overwrite onto an earlier "
               "step's targets), every step compared with the model's answer for that dataset alone; "
               "non-trivial = at least one edge expected; distinct = distinct canonical JSON of the case; "
               "deepening streams: `dir` = real directories (CTC names of widths 1-4 + strays, width-overflow sequences, all subsets of <= 2 (3) "
               "odd names, track files man/res/both/none, missing directory, API/CLI; non-trivial = at least one frame), `text` = all strings of "
               "length <= 3 (4) over {1,0,-,+,space,LF,#,.,CR,TAB} + fixed probes + seeded laid-out/corrupted tables through the source's np.loadtxt "
               "call (non-trivial = at least one row), `text-e2e` = conversions with a laid-out table file")
    thorough = not ck.quick
    cases = [c for c in corpus() if "kind" not in c]
    n_corpus = len(list(corpus()))
    cases += exhaustive_cases(ck.rng, thorough)
    cases += history_cases(ck.rng, thorough)
    cases += singleton_shape_cases(ck.rng, thorough)
    for _ in range(1500 if thorough else 150):
        cases.append(random_case(ck.rng, thorough))
    for _ in range(300 if thorough else 40):
        cases.append(malformed_case(ck.rng))
    ck.extra["corpus_cases"] = n_corpus

    seqs = [sequence_case(ck.rng, thorough) for _ in range(300 if thorough else 36)]
    all_obs = common.pmap(observe, cases + seqs, chunksize=4)
    obs_all, seq_obs = all_obs[:len(cases)], all_obs[len(cases):]
    drv = ck.driver()
    model = drv.ask([o["abstract"] for o in obs_all])
    if model is None:
        ck.broken.append({"what": "driver Drivers/C15.lean", "detail": drv.broken})
    n_seg = n_cli = n_validator_agrees = 0
    for idx, (c, o) in enumerate(zip(cases, obs_all)):
        ab = o["abstract"]
        consistent = is_consistent(ab["frames"], ab["table"]) and "pre_exc" not in o
        tag = "inconsistent:" + str(c.get("malformed", "other"))
        if consistent:
            def fail(key, what, observed=None, expected=None, _c=c):
                ck.fail(key, what, _c, observed, expected)
            tag = judge(c, o, fail)
            n_seg += c.get("seg", "none") != "none" and tag not in ("refused", "exception")
            n_cli += c.get("via") == "cli"
            if tag in ("ok", "single-child"):
                n_validator_agrees += (o.get("geff_tracklet_validator") == "ok") == (tag == "ok")
        elif "pre_exc" in o and is_consistent(ab["frames"], ab["table"]):
            tag = "setup-failed"
        _, exp_edges = expected_graph(ab["frames"], ab["table"]) if consistent else (None, [])
        ck.case({k: c[k] for k in c if k != "frames"} | {"n_frames": len(c["frames"])},
                tag=f"{tag}|{c.get('ndim')}D|seg={c.get('seg')}|{c.get('via')}", nontrivial=bool(exp_edges))
        if model is not None and "err" not in model[idx]:
            # the harness' notion of `consistent` must be the hypothesis of the theorems
            py_cons = is_consistent(ab["frames"], ab["table"]) or not any(ab["frames"]) and _rows_ok_without_nodes(ab)
            lean_cons, lean_wf, lean_sorted = model[idx].get("consistent", [None, None, None])
            if lean_cons != py_cons:
                ck.corr_broken("C15:consistentB", c, py_cons, lean_cons)
            # what the independent pass extracts must satisfy the theorems' input hypotheses WF and Sorted
            if not (lean_wf and lean_sorted):
                ck.corr_broken("C15:input-hypotheses(WF,Sorted)", c, ab, [lean_wf, lean_sorted])
        if model is not None and not (c.get("preexisting") and not c.get("overwrite")):
            mo = model[idx]
            if "err" in mo:
                ck.corr_broken("C15:driver", c, o.get("exc"), mo)
            else:
                d = compare_model(o, mo)
                if d is not None:
                    ck.corr_broken("C15:fromCtc", c, {k: o.get(k) for k in ("exc", "msg", "node_ids", "edges", "axes")},
                                   {"diff": d, "model": mo})
    # ---- conversion sequences: every step must equal the conversion of its dataset alone
    # (GeffProps.C15.C15_history_independent: convertSeq = map fromCtc)
    seq_model = drv.ask([{"op": "seq", "datasets": [o["abstract"] for o in so["steps"]]} for so in seq_obs]) if seq_obs else []
    if seq_model is None:
        ck.broken.append({"what": "driver Drivers/C15.lean (seq)", "detail": drv.broken})
    n_steps = 0
    for qi, (sq, so) in enumerate(zip(seqs, seq_obs)):
        small = {"seq": [{k: st[k] for k in st if k != "frames"} | {"n_frames": len(st["frames"])} for st in sq["seq"]]}
        tags = []
        for si, (step, o) in enumerate(zip(sq["seq"], so["steps"])):
            n_steps += 1
            ab = o["abstract"]
            tag = "inconsistent"
            if is_consistent(ab["frames"], ab["table"]):
                def fail(key, what, observed=None, expected=None, _si=si, _sq=sq):
                    k2 = key if (_si == 0 or key == "C15:single-child-continuation") else "C15:history-dependent-output"
                    ck.fail(k2, f"step {_si} of a conversion sequence [{key}]: {what}", _sq, observed, expected)
                tag = judge(step, o, fail)
            tags.append(tag)
            if seq_model is not None:
                mo = seq_model[qi]
                if "err" in mo or len(mo.get("steps", [])) != len(so["steps"]):
                    ck.corr_broken("C15:driver-seq", small, None, mo)
                    break
                d = compare_model(o, mo["steps"][si])
                if d is not None:
                    if si > 0:
                        ck.fail("C15:history-dependent-output",
                                f"step {si} of a conversion sequence differs from the conversion of its dataset alone: {d}",
                                sq, {k: o.get(k) for k in ("exc", "msg", "node_ids", "edges", "axes")}, mo["steps"][si])
                    else:
                        ck.corr_broken("C15:fromCtc(seq step 0)", small, {k: o.get(k) for k in ("exc", "msg", "node_ids", "edges", "axes")},
                                       {"diff": d, "model": mo["steps"][si]})
        ck.case(small, tag=f"sequence|{len(sq['seq'])} steps|" + ",".join(sorted(set(tags))), nontrivial=True)
    ck.extra["conversion_sequences"] = len(seqs)
    ck.extra["conversion_sequence_steps"] = n_steps
    n_setup_failed = sum(1 for o in obs_all if "pre_exc" in o)
    ck.extra["setup_failed"] = n_setup_failed
    if n_setup_failed * 20 > len(obs_all):
        ck.broken.append({"what": "corr C15:generation", "detail": f"{n_setup_failed} scenario set-ups (pre-existing target) failed: "
                          + str(next(o["pre_exc"] for o in obs_all if "pre_exc" in o))})
    # shape / chunks of the exported segmentation array against the model (segShape / segChunks)
    seg_idx = [i for i, o in enumerate(obs_all) if isinstance(o.get("seg"), dict) and "shape" in o["seg"]]
    seg_model = drv.ask([{"op": "seg", "n": obs_all[i]["seg"]["n_files"], "shape": obs_all[i]["seg"]["frame_shape"],
                          "tczyx": bool(cases[i].get("tczyx"))} for i in seg_idx]) if seg_idx else []
    if seg_model is None:
        ck.broken.append({"what": "driver Drivers/C15.lean (seg)", "detail": drv.broken})
    else:
        for i, mo in zip(seg_idx, seg_model):
            sg = obs_all[i]["seg"]
            if "err" in mo or mo["shape"] != sg["shape"] or mo["chunks"] != sg["chunks"]:
                ck.corr_broken("C15:segShape", cases[i], {"shape": sg["shape"], "chunks": sg["chunks"]}, mo)
    ck.extra["segmentation_shapes_compared_with_model"] = len(seg_idx)
    # ---- deepening: directory layer, table text
    run_dir_stream(ck, drv, thorough)
    run_text_stream(ck, drv, thorough)
    ck.extra["partial"] = ("proof for the graph construction (nodes, edges, axes, validity, tracklets, outcome) and the "
                           "segmentation array shape, the directory layer and the table text; tiff decoding, regionprops/centroid arithmetic, the exported pixel "
                           "data and the related-object path are differential tests only")
    ck.extra.update({"segmentation_exports_compared": int(n_seg), "through_cli": int(n_cli),
                     "geff_tracklet_validator_agrees_with_oracle": int(n_validator_agrees)})
    ck.assumptions += [
        "tifffile decoding, skimage.regionprops (ascending labels, centroid = mean pixel coordinate, checked to 1e-9 "
        "on every case), zarr array I/O and write_arrays are exercised, not modelled; np.loadtxt is modelled inside the lexical "
        "subset printable ASCII / tab / LF / CR (GeffModel/CtcTable.lean), the directory layer for directories of regular files "
        "(GeffModel/CtcDir.lean)",
        "the theorems are about the abstract dataset (regions per frame in ascending label order + table rows); "
        "`consistent` = labels of rows with a parent occur, parent's last frame < child's first frame, one parent row per label",
        "segmentation export and related-object path: differential test only (partial)",
        "behaviour for an existing target (FileExistsError / overwrite) is C06's; here only that an overwriting "
        "conversion yields the same graph as a fresh one",
    ]


def replay(rp):
    c = rp["case"]
    if c.get("kind") == "dir":
        o = dir_obs(c)
        orc = dir_oracle(c)
        got = {k: o.get(k) for k in ("exc", "frames", "t") if o.get(k) is not None or k == "exc"}
        print(json.dumps({"names": c["names"], "observed": got, "msg": o.get("msg"), "expected": orc}, default=str))
        bad = orc is not None and got != orc
        print("REPLAY: property FAILS on this input" if bad else "REPLAY: property holds on this input")
        return 1 if bad else 0
    if c.get("kind") == "text":
        o = text_obs((c["text"], {"dtype": int, "ndmin": 2}))
        print(json.dumps({"text": c["text"], "observed": o, "oracle": text_oracle(c["text"])}, default=str))
        print("REPLAY: property holds on this input")
        return 0
    if "seq" in c:
        fails = []
        so = impl_seq(c)
        for si, (step, o) in enumerate(zip(c["seq"], so["steps"])):
            ab = o["abstract"]
            if is_consistent(ab["frames"], ab["table"]):
                judge(step, o, lambda key, what, observed=None, expected=None, _si=si: fails.append({"step": _si, "key": key, "what": what}))
            print(json.dumps({"step": si, "exc": o.get("exc"), "msg": o.get("msg"), "node_ids": o.get("node_ids"),
                              "edges": o.get("edges"), "axes": o.get("axes"), "warnings": o.get("warnings")}, default=str))
        known = {k["key"] for k in common.load_known() if k["property"] == PROP and k["kind"] == "known"}
        bad = [f for f in fails if f["key"] not in known]
        print(json.dumps({"failures": fails}))
        print("REPLAY: property holds on this input" if not fails else
              ("REPLAY: property FAILS on this input" + ("" if bad else " (known finding)")))
        return 1 if fails else 0
    o = impl_obs(c)
    ab = o["abstract"]
    fails = []
    if is_consistent(ab["frames"], ab["table"]):
        judge(c, o, lambda key, what, observed=None, expected=None: fails.append({"key": key, "what": what}))
    print(json.dumps({"case": {k: c[k] for k in c if k != "frames"}, "exc": o.get("exc"), "msg": o.get("msg"),
                      "node_ids": o.get("node_ids"), "edges": o.get("edges"), "axes": o.get("axes"),
                      "failures": fails}, default=str))
    known = {k["key"] for k in common.load_known() if k["property"] == PROP and k["kind"] == "known"}
    bad = [f for f in fails if f["key"] not in known]
    print("REPLAY: property holds on this input" if not fails else
          ("REPLAY: property FAILS on this input" + ("" if bad else " (known finding)")))
    return 1 if fails else 0
