"""C20 — mock-data generators honour their parameters and emit valid geffs.

Implementation: geff.testing.data.{create_dummy_in_mem_geff, create_mock_geff, create_simple_2d_geff,
create_simple_3d_geff, create_simple_temporal_geff, create_empty_geff}.

Three verdicts per case
  * spec oracle (this file, `oracle`): written from the property text only — node count, edge count
    min(requested, possible), no self / repeated edge (unordered when undirected), endpoints exist,
    directedness, dtypes, exactly the requested axes / extra properties, var-length / sparse property
    iff requested, store == in-memory geff, validate_structure, validate_data(graph=True).  A failure
    here is a concrete violation (`ck.fail`).  The edge part is decided a second time by the Lean
    decider `Geff.MockEdges.edgesOk` (proved equivalent to the Prop-level spec in GeffProps.C20).
  * translated generator: `Gen.MockEdges.gen` (T9, regenerated from the source) must return the very
    edge list the Python function returns (ties the translator to the code);
  * hand-written model `Geff.MockData.*` of the rest of the six helpers (names, dtypes, lengths,
    masks, integer/string values exactly, float values via numpy's own linspace) must agree with the
    observation.  Disagreements of the last two kinds are `corr_broken`.
"""
from __future__ import annotations

import itertools
import json

import numpy as np

from harness import common

PROP = "C20"
DTYPESTR = ["double", "int", "int8", "uint8", "int16", "uint16", "float32", "float64", "str"]
AXIS_DT = [d for d in DTYPESTR if d != "str"]
ID_DT = ["uint", "uint8", "uint16", "uint32", "uint64", "int"]
ARR_DT = ["bool", "int8", "int16", "int32", "int64", "uint8", "uint16", "uint32", "uint64", "float32", "float64", "str"]
WRAPPERS = {"simple_2d": dict(t=True, z=False, y=True, x=True),
            "simple_3d": dict(t=True, z=True, y=True, x=True),
            "simple_temporal": dict(t=True, z=False, y=False, x=False)}
K_EMPTY_VLEN = "C20:varlength-empty-graph-D15"


def np_name(d):
    dt = np.dtype(d)
    return "str" if dt.kind == "U" else dt.name


# ----------------------------------------------------------------- building the call
def mk_array(spec):
    k, tag, cols = spec["len"], spec.get("tag", 0), spec.get("cols", 0)
    tot = k * (cols or 1)
    base = (np.arange(tot) * 7 + tag) % 100
    d = spec["arr"]
    if d == "str":
        a = np.array([f"v{tag}_{i}" for i in range(tot)], dtype="str").reshape(-1) if tot else np.array([], dtype="<U4")
    elif d == "bool":
        a = (base % 2).astype(bool)
    elif d.startswith("float"):
        a = (base / 4).astype(d)
    else:
        a = base.astype(d)
    return a.reshape((k, cols)) if cols else a


def mk_extra(x):
    """case encoding -> the Python argument:  None | "notdict" | [[key, spec], …]"""
    if x is None:
        return None
    if isinstance(x, str):
        return [("a", "int")]           # a list, not a dict
    out = {}
    for key, spec in x:
        k = key if isinstance(key, str) else 7       # non-string key
        if isinstance(spec, str):
            out[k] = spec
        elif isinstance(spec, dict) and "arr" in spec:
            out[k] = mk_array(spec)
        else:
            out[k] = 3.5                              # neither dtype string nor array
    return out


def effective(case):
    """the full parameter record a case stands for (wrappers spelled out from their documentation)"""
    h = case["helper"]
    if h in ("dummy", "mock"):
        e = dict(t=True, z=True, y=True, x=True, vl=False, ms=False, xn=None, xe=None)
        e.update(case)
        return e
    base = dict(id="uint", time="float64", pos="float64", vl=False, ms=False, xn=None,
                directed=case.get("directed", False))
    if h == "empty":
        return dict(base, n=0, m=0, t=False, z=False, y=False, x=False, xe=None, helper=h)
    return dict(base, n=case.get("n", 10), m=case.get("m", 15), xe=[["score", "float64"], ["color", "int"]],
                helper=h, **WRAPPERS[h])


def call(case):
    from geff.testing import data as D

    h = case["helper"]
    if h in ("dummy", "mock"):
        kw = dict(node_id_dtype=case["id"], node_axis_dtypes={"position": case["pos"], "time": case["time"]},
                  directed=case["directed"], num_nodes=case["n"], num_edges=case["m"],
                  extra_node_props=mk_extra(case.get("xn")), extra_edge_props=mk_extra(case.get("xe")))
        for k, name in (("t", "include_t"), ("z", "include_z"), ("y", "include_y"), ("x", "include_x"),
                        ("vl", "include_varlength"), ("ms", "include_missing")):
            if k in case:
                kw[name] = case[k]
        if h == "dummy":
            return None, D.create_dummy_in_mem_geff(**kw)
        return D.create_mock_geff(**kw)
    if h == "empty":
        return D.create_empty_geff(**({"directed": case["directed"]} if "directed" in case else {}))
    kw = {k2: case[k] for k, k2 in (("n", "num_nodes"), ("m", "num_edges"), ("directed", "directed")) if k in case}
    return getattr(D, f"create_{h}_geff")(**kw)


# ----------------------------------------------------------------- canonical observation
def canon(a):
    a = np.asarray(a)
    if a.dtype == object:
        return [{"shape": list(np.asarray(x).shape), "dtype": np_name(np.asarray(x).dtype),
                 "vals": canon(np.asarray(x).ravel())} for x in a]
    if a.ndim > 1:
        return [canon(r) for r in a]
    if a.dtype.kind == "U":
        return [str(x) for x in a]
    if a.dtype.kind == "f":
        return [float(x).hex() for x in a]
    if a.dtype.kind == "b":
        return [bool(x) for x in a]
    return [int(x) for x in a]


def canon_edges(a):
    """edge ids as Python ints whatever dtype the array has (a wrong dtype is judged by the oracle, it
    must not break the harness); non-integral / non-numeric values are kept as they are"""
    a = np.asarray(a)
    if a.size == 0:
        return []
    rows = a.tolist() if a.ndim == 2 else [[x] for x in a.ravel().tolist()]
    out = []
    for row in rows:
        r = []
        for x in row:
            try:
                r.append(int(x) if float(x) == int(x) else float(x))
            except Exception:  # noqa: BLE001
                r.append(str(x))
        out.append(r)
    return out


def obs_props(props, meta):
    out = []
    for name, pd in props.items():
        v, ms = pd["values"], pd["missing"]
        out.append({"name": name, "dtype": np_name(v.dtype) if v.dtype != object else "object",
                    "shape": list(v.shape), "values": canon(v),
                    "missing": None if ms is None else canon(ms),
                    "missing_dtype": None if ms is None else ms.dtype.name})
    return out


def obs_meta(d):
    return [[k, m.dtype, bool(m.varlength), m.unit] for k, m in d.items()]


def arrays_equal(a, b):
    a, b = np.asarray(a), np.asarray(b)
    if a.dtype == object or b.dtype == object:
        return len(a) == len(b) and all(
            np.asarray(x).dtype == np.asarray(y).dtype and np.array_equal(np.asarray(x), np.asarray(y)) for x, y in zip(a, b))
    return a.dtype == b.dtype and a.shape == b.shape and bool(np.array_equal(a, b))


def readback_diff(store, mem):
    from geff.core_io import read_to_memory

    r = read_to_memory(store)
    if not arrays_equal(r["node_ids"], mem["node_ids"]):
        return "node_ids"
    if not arrays_equal(r["edge_ids"], mem["edge_ids"]):
        return "edge_ids"
    for grp in ("node_props", "edge_props"):
        if list(sorted(r[grp])) != list(sorted(mem[grp])):
            return f"{grp} names {sorted(r[grp])} vs {sorted(mem[grp])}"
        n = len(mem["node_ids"] if grp == "node_props" else mem["edge_ids"])
        for k in mem[grp]:
            if not arrays_equal(r[grp][k]["values"], mem[grp][k]["values"]):
                return f"{grp}[{k}].values"
            m1, m2 = r[grp][k]["missing"], mem[grp][k]["missing"]
            m1 = np.zeros(n, bool) if m1 is None else np.asarray(m1)
            m2 = np.zeros(n, bool) if m2 is None else np.asarray(m2)
            if m1.shape != m2.shape or not np.array_equal(m1, m2):
                return f"{grp}[{k}].missing"
    if r["metadata"].model_dump() != mem["metadata"].model_dump():
        return "metadata"
    return None


def observe(case):
    from geff.validate.data import ValidationConfig, validate_data
    from geff.validate.structure import validate_structure

    try:
        store, mem = call(case)
    except Exception as ex:  # noqa: BLE001
        return {"exc": type(ex).__name__, "msg": str(ex)[:160]}
    try:
        return _describe(case, store, mem)
    except Exception as ex:  # noqa: BLE001  (the result has not the shape of an InMemoryGeff: an observation, not a crash)
        return {"unreadable": f"{type(ex).__name__}: {str(ex)[:200]}"}


def _describe(case, store, mem):
    from geff.validate.data import ValidationConfig, validate_data
    from geff.validate.structure import validate_structure

    md = mem["metadata"]
    o = {"node_ids": canon(mem["node_ids"]), "id_dtype": mem["node_ids"].dtype.name,
         "edges": canon_edges(mem["edge_ids"]),
         "edge_dtype": mem["edge_ids"].dtype.name, "edge_shape": list(mem["edge_ids"].shape),
         "directed": bool(md.directed),
         "axes": [[a.name, a.type, a.unit, None if a.min is None else float(a.min).hex(),
                   None if a.max is None else float(a.max).hex()] for a in (md.axes or [])],
         "node_props": obs_props(mem["node_props"], md.node_props_metadata),
         "edge_props": obs_props(mem["edge_props"], md.edge_props_metadata),
         "node_meta": obs_meta(md.node_props_metadata), "edge_meta": obs_meta(md.edge_props_metadata)}
    try:
        validate_data(mem, ValidationConfig(graph=True))
        o["graph"] = "ok"
    except Exception as ex:  # noqa: BLE001
        o["graph"] = f"{type(ex).__name__}: {str(ex)[:120]}"
    if store is not None:
        st = {}
        try:
            validate_structure(store)
            st["structure"] = "ok"
        except Exception as ex:  # noqa: BLE001
            st["structure"] = f"{type(ex).__name__}: {str(ex)[:120]}"
        try:
            d = readback_diff(store, mem)
            st["readback"] = "equal" if d is None else f"differs: {d}"
        except Exception as ex:  # noqa: BLE001
            st["readback"] = f"{type(ex).__name__}: {str(ex)[:120]}"
        o["store"] = st
    else:
        o["store"] = None
    return o


# ----------------------------------------------------------------- specification oracle
def max_possible(directed, n):
    return n * (n - 1) if directed else n * (n - 1) // 2


def oracle(case, o):
    """-> list of (key, what, expected) — written from the property statement, not from the code"""
    e = effective(case)
    n, m, directed = e["n"], e["m"], e["directed"]
    bad = []
    if "unreadable" in o:
        return [("C20:result-not-an-in-memory-geff", f"the returned value cannot be read as an InMemoryGeff: {o['unreadable']}",
                 "an InMemoryGeff")]
    if "exc" in o:
        key = "C20:exception"
        if n == 0 and e["vl"] and o["exc"] == "IndexError":
            key = K_EMPTY_VLEN
        return [(key, f"accepted parameters raise {o['exc']}: {o.get('msg', '')}", "a valid geff")]
    # nodes
    if o["node_ids"] != list(range(n)):
        bad.append(("C20:node-count", f"node ids {o['node_ids'][:8]}… for num_nodes={n}", list(range(n))))
    if o["id_dtype"] != np_name(e["id"]) or o["edge_dtype"] != np_name(e["id"]):
        bad.append(("C20:id-dtype", f"node id dtype {o['id_dtype']}, edge id dtype {o['edge_dtype']} for requested "
                    f"node_id_dtype={e['id']!r}", np_name(e["id"])))
    # edges
    want = min(m, max_possible(directed, n))
    if any(len(x) != 2 or not all(isinstance(v, int) for v in x) for x in o["edges"]):
        bad.append(("C20:edge-shape", f"edge ids are not pairs of integers: {o['edges'][:4]} (shape {o['edge_shape']}, "
                    f"dtype {o['edge_dtype']})", "an (E, 2) integer array"))
        return bad
    es = [tuple(x) for x in o["edges"]]
    if o["edge_shape"] != [len(es), 2] and not (len(es) == 0 and o["edge_shape"] == [0, 2]):
        bad.append(("C20:edge-shape", f"edge array shape {o['edge_shape']}", [len(es), 2]))
    if len(es) != want:
        bad.append(("C20:edge-count", f"{len(es)} edges for (directed={directed}, n={n}, m={m})", want))
    if any(a == b for a, b in es):
        bad.append(("C20:self-edge", f"self edge in {es[:10]}", "none"))
    if any(not (0 <= a < n and 0 <= b < n) for a, b in es):
        bad.append(("C20:dangling-endpoint", f"endpoint outside 0..{n - 1}", "none"))
    keys = es if directed else [tuple(sorted(x)) for x in es]
    if len(set(keys)) != len(keys):
        dup = next(k for k in keys if keys.count(k) > 1)
        bad.append(("C20:repeated-edge", f"edge {dup} repeated ({'ordered' if directed else 'unordered'}) in {es[:12]}", "no repeated edge"))
    if o["directed"] != directed:
        bad.append(("C20:directed", f"metadata.directed={o['directed']}", directed))
    # axes
    want_axes = [a for a in "tzyx" if e[a]]
    if [a[0] for a in o["axes"]] != want_axes:
        bad.append(("C20:axes", f"axes {[a[0] for a in o['axes']]}", want_axes))
    np_by = {p["name"]: p for p in o["node_props"]}
    ep_by = {p["name"]: p for p in o["edge_props"]}
    for a in want_axes:
        wd = np_name(e["time"] if a == "t" else e["pos"])
        if a not in np_by or np_by[a]["dtype"] != wd:
            bad.append(("C20:axis-dtype", f"axis {a}: {np_by.get(a, {}).get('dtype')}", wd))
    # exactly the requested properties
    E = len(es)
    for grp, by, xs, ln in (("node", np_by, e["xn"], n), ("edge", ep_by, e["xe"], E)):
        want_names = (want_axes if grp == "node" else []) + [k for k, _ in (xs or [])]
        if e["vl"] and grp == "node":
            want_names.append("var_length")
        if e["ms"]:
            want_names.append("sparse_prop")
        if sorted(by) != sorted(set(want_names)):
            k = "C20:sparse-prop-iff" if set(by) ^ set(want_names) == {"sparse_prop"} else "C20:property-set"
            bad.append((k, f"{grp} properties {sorted(by)}", sorted(set(want_names))))
        for k, spec in (xs or []):
            if k not in by:
                continue
            p = by[k]
            if isinstance(spec, str):
                if p["dtype"] != np_name(spec):
                    bad.append(("C20:extra-dtype", f"{grp} property {k}: {p['dtype']}", np_name(spec)))
            else:
                arr = mk_array(spec)
                if p["dtype"] != np_name(arr.dtype) or p["values"] != canon(arr):
                    bad.append(("C20:explicit-array-altered", f"{grp} property {k} is not the supplied array", canon(arr)))
        for k, p in by.items():
            if p["shape"][:1] != [ln]:
                bad.append(("C20:prop-length", f"{grp} property {k} has shape {p['shape']} for {ln} {grp}s", ln))
            if p["missing"] is not None and (len(p["missing"]) != ln or p["missing_dtype"] != "bool"):
                bad.append(("C20:prop-length", f"{grp} property {k}: missing mask of length {len(p['missing'])}/{p['missing_dtype']}", ln))
            is_v = p["dtype"] == "object"
            if is_v != (k == "var_length" and e["vl"] and grp == "node"):
                bad.append(("C20:varlength-iff", f"{grp} property {k} var-length={is_v}, requested={e['vl']}", e["vl"]))
            has_missing = p["missing"] is not None and any(p["missing"])
            if k == "sparse_prop" and e["ms"]:
                if ln > 0 and not has_missing:
                    bad.append(("C20:sparse-prop-iff", f"{grp} sparse_prop bears no missing value", "missing-bearing"))
            elif k != "var_length" and has_missing:
                bad.append(("C20:sparse-prop-iff", f"{grp} property {k} bears missing values although not requested", "dense"))
        # metadata describes the properties
        meta = {x[0]: x for x in o[f"{grp}_meta"]}
        if sorted(meta) != sorted(by):
            bad.append(("C20:props-metadata", f"{grp}_props_metadata {sorted(meta)} vs properties {sorted(by)}", sorted(by)))
        for k, p in by.items():
            if k in meta:
                wantv = p["dtype"] == "object"
                if meta[k][2] != wantv or (not wantv and meta[k][1] != p["dtype"]):
                    bad.append(("C20:props-metadata", f"{grp} metadata of {k}: {meta[k]} vs dtype {p['dtype']}", p["dtype"]))
    # validity
    if o["graph"] != "ok":
        bad.append(("C20:graph-invalid", f"validate_data(graph=True): {o['graph']}", "ok"))
    if o["store"] is not None:
        if o["store"]["structure"] != "ok":
            bad.append(("C20:structure-invalid", f"validate_structure: {o['store']['structure']}", "ok"))
        if o["store"]["readback"] != "equal":
            k = K_EMPTY_VLEN if (n == 0 and e["vl"]) else "C20:store-differs"
            bad.append((k, f"store vs in-memory geff: {o['store']['readback']}", "equal"))
    elif case["helper"] != "dummy":
        bad.append(("C20:no-store", "helper returned no store", "store"))
    return bad


# ----------------------------------------------------------------- model comparison
def eval_values(tok, dtype, case_arrays):
    if "ints" in tok:
        return canon(np.array([int(x) for x in tok["ints"]], dtype=dtype if dtype != "str" else "int64")) if True else None
    if "strs" in tok:
        return list(tok["strs"])
    if "linspace" in tok:
        a, b, k = tok["linspace"]
        return canon(np.linspace(float(a), float(b), int(k), dtype=dtype))
    if "given" in tok:
        return canon(case_arrays[int(tok["given"])])
    if "cubes" in tok:
        return canon(np.array([None] + [np.ones((i, i, i), dtype=np.uint64) * i for i in range(int(tok["cubes"]))], dtype=object)[1:])
    return None


def model_request(case, vlen_ok):
    """case -> driver request; explicit arrays are numbered (tag) in order of appearance"""
    r = {"op": "helper", "helper": case["helper"], "vlen_ok": vlen_ok}
    arrays = []

    def enc(x):
        if x is None or isinstance(x, str):
            return x
        out = []
        for key, spec in x:
            if isinstance(spec, dict) and "arr" in spec:
                a = mk_array(spec)
                arrays.append(a)
                out.append([key, {"arr": np_name(a.dtype), "len": len(a), "tag": len(arrays) - 1}])
            elif isinstance(spec, str):
                out.append([key, spec])
            else:
                out.append([key, 0])
        return out
    for k, v in case.items():
        if k in ("xn", "xe"):
            r[k] = enc(v)
        elif k != "helper":
            r[k] = v
    return r, arrays


def compare_model(case, o, mo, arrays):
    """-> None or a short description of the first difference"""
    if "err" in mo:
        return f"driver error {mo['err']}"
    if "unreadable" in o:
        return "implementation result unreadable"
    if "exc" in mo or "exc" in o:
        if mo.get("exc") != o.get("exc"):
            return f"outcome: model {mo.get('exc', 'ok')} impl {o.get('exc', 'ok')}"
        return None
    g = mo["ok"]["mem"]
    if list(range(g["n"])) != o["node_ids"] or g["id_dtype"] != o["id_dtype"]:
        return "nodes"
    if [list(map(int, x)) for x in g["edges"]] != o["edges"]:
        return "edges"
    if g["directed"] != o["directed"]:
        return "directed"
    if [[a[0], a[1], a[2], a[3] is not None] for a in o["axes"]] != g["axes"]:
        return "axes"
    for grp in ("node", "edge"):
        mp, ip = g[f"{grp}_props"], o[f"{grp}_props"]
        if [p["name"] for p in mp] != [p["name"] for p in ip]:
            return f"{grp} property names/order"
        for a, b in zip(mp, ip):
            if a["dtype"] != b["dtype"] or [a["len"]] != b["shape"][:1] or a["missing"] != b["missing"]:
                return f"{grp} property {a['name']}: dtype/len/missing"
            if eval_values(a["values"], b["dtype"], arrays) != b["values"]:
                return f"{grp} property {a['name']}: values"
        if g[f"{grp}_meta"] != o[f"{grp}_meta"]:
            return f"{grp} metadata"
    if o["store"] is not None and mo["ok"].get("store_is_mem") != (o["store"]["readback"] == "equal"):
        return "store_is_mem"
    return None


# ----------------------------------------------------------------- generators
BASE = {"id": "uint8", "time": "float64", "pos": "float64"}


def edge_grid(nmax):
    for d in (False, True):
        for n in range(0, nmax + 1):
            for m in range(0, n * (n - 1) + 3):
                yield dict(BASE, helper="dummy", directed=d, n=n, m=m)


def flag_grid():
    sizes = [(0, 0), (1, 0), (1, 3), (2, 1), (3, 3), (5, 4), (4, 20)]
    for h in ("dummy", "mock"):
        for bits in itertools.product((False, True), repeat=6):
            t, z, y, x, vl, ms = bits
            for d in (False, True):
                for n, m in sizes:
                    yield dict(BASE, helper=h, directed=d, n=n, m=m, t=t, z=z, y=y, x=x, vl=vl, ms=ms)
    for h in WRAPPERS:
        for d in (False, True):
            yield {"helper": h}
            for n in range(0, 6):
                for m in range(0, n * (n - 1) + 2, 1 if n < 4 else 3):
                    yield {"helper": h, "directed": d, "n": n, "m": m}
    yield {"helper": "empty"}
    yield {"helper": "empty", "directed": True}
    yield {"helper": "empty", "directed": False}


def dtype_grid():
    for i, (idt, td, pd) in enumerate(itertools.product(ID_DT, AXIS_DT, AXIS_DT)):
        for n in (0, 4):
            yield {"helper": "mock" if i % 2 else "dummy", "id": idt, "time": td, "pos": pd, "directed": bool(i % 3 == 0),
                   "n": n, "m": 3, "xn": [[f"{d}_p", d] for d in DTYPESTR], "xe": [[f"{d}_q", d] for d in DTYPESTR]}


def rand_extra(rng, ln, prefix):
    if rng.random() < 0.25:
        return None
    items = []
    for j in range(rng.randint(0, 4)):
        name = f"{prefix}{j}"
        if rng.random() < 0.55:
            items.append([name, rng.choice(DTYPESTR)])
        else:
            items.append([name, {"arr": rng.choice(ARR_DT), "len": ln, "tag": rng.randint(0, 9),
                                 "cols": rng.choice([0, 0, 0, 2])}])
    return items


def random_case(rng):
    d = rng.random() < 0.5
    n = rng.choice([0, 1, 2, 3, 4, 5, 6, 8, 12])
    m = rng.randint(0, max_possible(d, n) + 2)
    E = min(m, max_possible(d, n))
    c = {"helper": rng.choice(["dummy", "mock", "mock"]), "id": rng.choice(ID_DT), "time": rng.choice(AXIS_DT),
         "pos": rng.choice(AXIS_DT), "directed": d, "n": n, "m": m,
         "xn": rand_extra(rng, n, "np"), "xe": rand_extra(rng, E, "ep")}
    for k in "tzyx":
        if rng.random() < 0.6:
            c[k] = rng.random() < 0.6
    for k in ("vl", "ms"):
        if rng.random() < 0.6:
            c[k] = rng.random() < 0.5
    return c


def malformed_case(rng):
    c = random_case(rng)
    c["n"] = max(c["n"], 1)
    E = min(c["m"], max_possible(c["directed"], c["n"]))
    which = rng.choice(["xn", "xe"])
    ln = c["n"] if which == "xn" else E
    kind = rng.choice(["dtype", "length", "notdict", "key", "value"])
    good = [["g0", "int"]]
    if kind == "dtype":
        c[which] = good + [["b", rng.choice(["float16", "int32", "bool", "uint64", "bogus", "Str"])]]
    elif kind == "length":
        c[which] = good + [["b", {"arr": "int64", "len": ln + rng.choice([1, 2]), "tag": 1}]]
    elif kind == "notdict":
        c[which] = "notdict"
    elif kind == "key":
        c[which] = good + [[7, "int"]]
    else:
        c[which] = good + [["b", 0]]
    c["malformed"] = kind
    return c


def corpus():
    d = common.VERIF / "harness" / "corpus" / PROP
    for f in sorted(d.glob("*.json")):
        yield json.loads(f.read_text())


def probe_vlen_ok():
    """does create_props_metadata accept an empty object array on this tree? (defect D15, owned by C01)"""
    try:
        from geff_spec.utils import create_props_metadata

        create_props_metadata("p", {"values": np.empty((0,), dtype=object), "missing": None})
        return True
    except IndexError:
        return False


# ----------------------------------------------------------------- histories (several calls in one process)
def _result_arrays(mem):
    """every numpy array reachable from an InMemoryGeff, with a name"""
    out = [("node_ids", mem["node_ids"]), ("edge_ids", mem["edge_ids"])]
    for grp in ("node_props", "edge_props"):
        for k, pd in mem[grp].items():
            out.append((f"{grp}[{k}].values", pd["values"]))
            if pd["missing"] is not None:
                out.append((f"{grp}[{k}].missing", pd["missing"]))
            if pd["values"].dtype == object:
                for i, el in enumerate(pd["values"]):
                    if isinstance(el, np.ndarray):
                        out.append((f"{grp}[{k}].values[{i}]", el))
    return out


def _edit_in_place(mem):
    """what a caller building an invalid fixture does: overwrite every array of the result in place and
    change the returned metadata object"""
    for _name, a in _result_arrays(mem):
        try:
            if a.dtype == object:
                continue                        # its element arrays are listed on their own
            if a.dtype.kind in "iu":
                a[...] = 0                      # e.g. every edge becomes the self edge (0, 0)
            elif a.dtype.kind == "f":
                a[...] = -1.5
            elif a.dtype.kind == "b":
                a[...] = ~a
            elif a.dtype.kind == "U":
                a[...] = "edited"
        except (ValueError, TypeError):         # read-only or immutable: nothing to edit
            pass
    md = mem["metadata"]
    for edit in (lambda: setattr(md, "directed", not md.directed),
                 lambda: [setattr(ax, "unit", "meter") for ax in (md.axes or [])],
                 lambda: [setattr(ax, "min", None) or setattr(ax, "max", None) for ax in (md.axes or [])],
                 lambda: md.node_props_metadata.clear(),
                 lambda: md.edge_props_metadata.clear()):
        try:
            edit()
        except Exception:  # noqa: BLE001
            pass


def observe_history(hist):
    """run the calls of `hist["history"]` in THIS process, one after the other; after each call describe the
    result, look for memory shared with earlier results, then edit the result in place"""
    out = {"steps": [], "shared": []}
    earlier = []
    for i, case in enumerate(hist["history"]):
        try:
            store, mem = call(case)
        except Exception as ex:  # noqa: BLE001
            out["steps"].append({"exc": type(ex).__name__, "msg": str(ex)[:160]})
            continue
        try:
            out["steps"].append(_describe(case, store, mem))
            arrs = _result_arrays(mem)
            for j, prev in earlier:
                for na, a in arrs:
                    for nb, b in prev:
                        if a.size and b.size and np.shares_memory(a, b):
                            out["shared"].append([j, nb, i, na])
            earlier.append((i, arrs))
            _edit_in_place(mem)
        except Exception as ex:  # noqa: BLE001
            out["steps"].append({"unreadable": f"{type(ex).__name__}: {str(ex)[:200]}"})
    return out


def _safe_observe_history(hist):
    try:
        return observe_history(hist)
    except BaseException as ex:  # noqa: BLE001
        return {"steps": [], "shared": [], "error": f"{type(ex).__name__}: {str(ex)[:200]}"}


def run_histories(hists):
    """every history in a freshly forked child (maxtasksperchild=1): no state is inherited from other cases"""
    import multiprocessing as mp

    if not hists:
        return []
    with mp.get_context("fork").Pool(min(16, len(hists)), maxtasksperchild=1) as pool:
        return pool.map(_safe_observe_history, hists, chunksize=1)


def history_step(rng):
    """a small call of one of the six helpers; uint/uint64 ids (what every wrapper uses) are frequent"""
    r = rng.random()
    d = rng.random() < 0.5
    n = rng.choice([0, 1, 2, 3, 4, 5, 6])
    m = rng.randint(0, max_possible(d, n) + 1)
    if r < 0.35:
        c = {"helper": rng.choice(list(WRAPPERS)), "directed": d, "n": n, "m": m}
        if rng.random() < 0.15:
            c = {"helper": c["helper"]}
        return c
    if r < 0.42:
        return {"helper": "empty", "directed": d}
    c = {"helper": rng.choice(["dummy", "mock"]), "id": rng.choice(["uint", "uint64", "uint", "uint8", "uint32", "int"]),
         "time": rng.choice(AXIS_DT), "pos": rng.choice(AXIS_DT), "directed": d, "n": n, "m": m,
         "vl": rng.random() < 0.4, "ms": rng.random() < 0.4}
    if rng.random() < 0.4:
        c["xn"] = rand_extra(rng, n, "np")
        c["xe"] = rand_extra(rng, min(m, max_possible(d, n)), "ep")
    return c


def history_case(rng):
    a = history_step(rng)
    steps = [a]
    for _ in range(rng.randint(1, 3)):
        r = rng.random()
        if r < 0.5:
            steps.append(json.loads(json.dumps(a)))                       # the very same call again
        elif r < 0.8 and "n" in a:                                        # same size / directedness, other helper or count
            b = json.loads(json.dumps(a))
            e = effective(a)
            b["m"] = rng.randint(0, max_possible(e["directed"], e["n"]) + 1)
            if b["helper"] in WRAPPERS and rng.random() < 0.5:
                b["helper"] = rng.choice(list(WRAPPERS))
            for k in ("xe",):
                b.pop(k, None)                                            # explicit edge arrays depend on the edge count
            steps.append(b)
        else:
            steps.append(history_step(rng))
    return {"history": steps}


# ----------------------------------------------------------------- explicit arrays in every memory layout
LAYOUTS = ["C", "F", "T", "strided", "reversed", "readonly", "byteswapped", "broadcast0"]
LAYOUT_DT = ["int16", "uint8", "int64", "float32", "float64", "bool", "str"]
K_LAYOUT = "C20:store-differs-explicit-array-layout"


def _base(shape, dtype, salt):
    tot = int(np.prod(shape)) if len(shape) else 1
    b = (np.arange(tot) * 3 + salt) % 97
    if dtype == "str":
        a = np.array([f"s{salt}_{i}" for i in range(tot)], dtype="<U8")
    elif dtype == "bool":
        a = (b % 2).astype(bool)
    elif dtype.startswith("float"):
        a = (b / 4).astype(dtype)
    else:
        a = b.astype(dtype)
    return a.reshape(shape)


def in_layout(a, layout):
    """the same VALUES (as seen through numpy indexing) in another memory layout"""
    if layout == "C":
        return np.ascontiguousarray(a)
    if layout == "F":
        return np.asfortranarray(a)
    if layout == "T":                       # transposed view of C-ordered data
        return np.ascontiguousarray(a.T).T
    if layout == "strided":                 # every other element of a larger buffer, along every axis
        big = np.zeros(tuple(2 * k for k in a.shape), dtype=a.dtype)
        v = big[tuple(slice(None, None, 2) for _ in a.shape)]
        v[...] = a
        return v
    if layout == "reversed":                # negative strides
        idx = tuple(slice(None, None, -1) for _ in a.shape)
        return np.ascontiguousarray(a[idx])[idx]
    if layout == "readonly":
        c = np.array(a, copy=True)
        c.setflags(write=False)
        return c
    if layout == "byteswapped":
        if a.dtype.kind in "iuf" and a.dtype.itemsize > 1:
            return a.astype(a.dtype.newbyteorder())
        return np.asfortranarray(a)
    if layout == "broadcast0":              # zero strides where the values allow it, else Fortran order
        if a.size and (a == a.flat[0]).all():
            return np.broadcast_to(a.flat[0], a.shape)
        return np.asfortranarray(a)
    raise ValueError(layout)


def layout_arrays(case):
    """-> (extra_node_props, extra_edge_props, reference values) for a layout case; the reference is built
    independently (C order, native byte order)"""
    n, E = case["n"], case["E"]
    xn, xe, ref = {}, {}, {"node": {}, "edge": {}}
    for grp, ln, x in (("node", n, xn), ("edge", E, xe)):
        for j, (kind, dt, lay) in enumerate(case[grp]):
            name = f"{grp[0]}{j}_{kind}"
            if kind == "dense1":
                a = _base((ln,), dt, j)
            elif kind == "dense2":
                a = _base((ln, 3), dt, j + 5)
            elif kind == "dense3":
                a = _base((ln, 2, 3), dt, j + 9)
            else:                                   # var-length: one array per element, rank 2 (or 1 / 3)
                rank = {"vlen2": 2, "vlen1": 1, "vlen3": 3}[kind]
                a = np.empty(ln, dtype=object)
                for i in range(ln):
                    shp = {1: (i + 1,), 2: (i + 2, 3), 3: (2, i + 1, 3)}[rank]
                    if case.get("zero") and i == 1:
                        shp = tuple(0 if k == 0 else d for k, d in enumerate(shp))
                    a[i] = _base(shp, dt, 10 * i + j)
            ref[grp][name] = a
            if a.dtype == object:
                v = np.empty(ln, dtype=object)
                for i in range(ln):
                    v[i] = in_layout(a[i], lay)
                x[name] = v
            else:
                x[name] = in_layout(a, lay)
    return xn, xe, ref


def _same(x, y):
    x, y = np.asarray(x), np.asarray(y)
    return x.dtype.name == y.dtype.name and x.shape == y.shape and bool(np.array_equal(x, y))


def observe_layout(case):
    """create_mock_geff with explicit arrays in the case's layouts; the store is read back with the real
    reader and compared ELEMENT-WISE with the in-memory geff and with the independently built reference"""
    from geff.core_io import read_to_memory
    from geff.testing.data import create_mock_geff
    from geff.validate.structure import validate_structure

    try:
        xn, xe, ref = layout_arrays(case)
    except Exception as ex:  # noqa: BLE001
        return {"harness": f"{type(ex).__name__}: {str(ex)[:160]}"}
    try:
        store, mem = create_mock_geff(node_id_dtype="uint16", node_axis_dtypes={"position": "float32", "time": "float64"},
                                      directed=case["directed"], num_nodes=case["n"], num_edges=case["E"],
                                      extra_node_props=xn, extra_edge_props=xe, include_z=False,
                                      include_varlength=case.get("vl", False))
    except Exception as ex:  # noqa: BLE001
        return {"exc": type(ex).__name__, "msg": str(ex)[:200]}
    bad = []
    try:
        validate_structure(store)
    except Exception as ex:  # noqa: BLE001
        bad.append(f"validate_structure: {type(ex).__name__}: {str(ex)[:120]}")
    try:
        back = read_to_memory(store)
    except Exception as ex:  # noqa: BLE001
        return {"bad": bad + [f"read_to_memory: {type(ex).__name__}: {str(ex)[:160]}"]}
    if not _same(back["edge_ids"], mem["edge_ids"]) or len(mem["edge_ids"]) != case["E"]:
        bad.append("edge ids differ / edge count")
    for grp in ("node", "edge"):
        mp, bp = mem[f"{grp}_props"], back[f"{grp}_props"]
        meta = getattr(mem["metadata"], f"{grp}_props_metadata")
        for name, want in ref[grp].items():
            if name not in mp or name not in bp or name not in meta:
                bad.append(f"{grp} property {name} missing (memory {name in mp}, store {name in bp}, metadata {name in meta})")
                continue
            vl = want.dtype == object
            if bool(meta[name].varlength) != vl:
                bad.append(f"{grp} property {name}: metadata varlength={meta[name].varlength}")
            mv, bv = mp[name]["values"], bp[name]["values"]
            if len(mv) != len(want) or len(bv) != len(want):
                bad.append(f"{grp} property {name}: lengths memory {len(mv)} store {len(bv)} wanted {len(want)}")
                continue
            for i in range(len(want)) if vl else [None]:
                w, m_, b_ = (want[i], mv[i], bv[i]) if vl else (want, mv, bv)
                where = f"{grp} property {name}" + (f"[{i}]" if vl else "")
                if not _same(m_, w):
                    bad.append(f"{where}: the in-memory geff does not hold the supplied values")
                if not _same(b_, m_):
                    bad.append(f"{where}: store holds {np.asarray(b_).tolist()!r:.90} ({np.asarray(b_).dtype.name}"
                               f"{list(np.asarray(b_).shape)}) but the in-memory geff holds {np.asarray(m_).tolist()!r:.90} "
                               f"({np.asarray(m_).dtype.name}{list(np.asarray(m_).shape)})")
                if len(bad) > 6:
                    return {"bad": bad}
    return {"bad": bad}


def layout_cases(rng, quick):
    out = []
    # bounded-exhaustive: every layout x every kind x every dtype once, on the node side and on the edge side
    kinds = ["dense1", "dense2", "dense3", "vlen2", "vlen1", "vlen3"]
    k = 0
    for lay in LAYOUTS:
        for kind in kinds:
            for dt in LAYOUT_DT:
                if kind.startswith("vlen") and dt == "str":
                    continue
                k += 1
                if quick and kind in ("dense3", "vlen1", "vlen3") and k % 3:
                    continue
                d = bool(k % 2)
                n = 3 + k % 2
                E = min(2 + k % 3, n * (n - 1) // 2)
                out.append({"layout_case": True, "directed": d, "n": n, "E": E, "node": [[kind, dt, lay]],
                            "edge": [[kind, dt, lay]], "vl": k % 5 == 0, "zero": k % 7 == 0})
    for _ in range(60 if quick else 600):
        n = rng.choice([1, 2, 3, 4, 5])
        d = rng.random() < 0.5
        E = rng.randint(0, max_possible(d, n))
        mk = lambda: [[rng.choice(kinds), rng.choice(LAYOUT_DT[:-1]), rng.choice(LAYOUTS)]  # noqa: E731
                      for _ in range(rng.randint(1, 3))]
        out.append({"layout_case": True, "directed": d, "n": n, "E": E, "node": mk(), "edge": mk(),
                    "vl": rng.random() < 0.3, "zero": rng.random() < 0.2})
    return out


def judge_layout(c, o):
    """-> list of (key, what, expected)"""
    if "harness" in o:
        raise RuntimeError(o["harness"])
    if "exc" in o:
        return [("C20:exception", f"explicit arrays of the right length raise {o['exc']}: {o.get('msg', '')}", "a valid geff")]
    return [(K_LAYOUT, b, "store == in-memory geff == supplied values") for b in o["bad"][:3]]


# ----------------------------------------------------------------- the check
def tag_of(case, o):
    e = effective(case)
    if case.get("malformed"):
        return "malformed-" + case["malformed"]
    full = e["m"] >= max_possible(e["directed"], e["n"])
    return (f"{case['helper']}-{'dir' if e['directed'] else 'undir'}-"
            f"{'saturated' if full else 'partial'}{'-vl' if e['vl'] else ''}{'-ms' if e['ms'] else ''}"
            f"{'-EXC' if 'exc' in o else ''}")


def run(ck: common.Check):
    ck.prove(["GeffProps.C20", "GeffProps.C20Links", "GeffProps.C20Gen"])
    drv = ck.driver()      # built right after the translation so that it is linked against the same Gen files
    ck.rule = ("cases = corpus + every (directed, n<=N, m<=n(n-1)+2) through create_dummy_in_mem_geff + every subset of "
               "{t,z,y,x} x include_varlength x include_missing x directed x 7 sizes through create_dummy_in_mem_geff and "
               "create_mock_geff + the four wrappers over (directed, n<=5, m) + id/axis dtype grid + seeded random extra-"
               "property maps (dtype strings and explicit 1-D/2-D arrays) + a malformed stream (bad dtype / length / "
               "non-dict / key / value) + HISTORIES: 2-4 calls of the six helpers in one freshly forked process (same and different "
               "parameters), every array of each result and its metadata edited in place before the next call; each call must equal "
               "a fresh call and results must not share memory; + LAYOUTS: explicit dense (1-D/2-D/3-D) and var-length (rank 1-3, "
               "zero-sized elements) arrays x 7 dtypes presented C-contiguous / Fortran-ordered / transposed view / strided / "
               "negative strides / read-only / byte-swapped / zero-stride, through create_mock_geff: the store read back with "
               "read_to_memory must equal the in-memory geff and the independently built values element-wise; "
               "non-trivial = at least one node; distinct = canonical JSON of the case")
    nmax = 9 if ck.quick else 25
    cases = [c for c in corpus() if not c.get("layout_case")]
    n_corpus = len(list(corpus()))
    cases += list(edge_grid(nmax))
    cases += list(flag_grid())
    cases += list(dtype_grid())
    for _ in range(400 if ck.quick else 5000):
        cases.append(random_case(ck.rng))
    for _ in range(120 if ck.quick else 1200):
        cases.append(malformed_case(ck.rng))
    ck.extra["corpus_cases"] = n_corpus
    ck.extra["edge_grid_exhaustive_upto_nodes"] = nmax
    # histories: 2-4 calls in one process, every array of each result edited in place before the next call;
    # each step is also a case of its own (fresh process pool) so that "what a fresh call returns" is observed
    hists = [c for c in cases if "history" in c]
    cases = [c for c in cases if "history" not in c]
    hists += [{"history": [{"helper": h, "directed": d, "n": n, "m": m}] * 2}
              for h in WRAPPERS for d in (False, True) for n, m in ((3, 2), (4, 6), (5, 4))]
    hists += [{"history": [{"helper": "empty", "directed": d}] * 2} for d in (False, True)]
    for _ in range(150 if ck.quick else 1500):
        hists.append(history_case(ck.rng))
    step_index = {}
    for h in hists:
        for st in h["history"]:
            k = json.dumps(st, sort_keys=True)
            if k not in step_index:
                step_index[k] = len(cases)
                cases.append(st)
    ck.extra["histories"] = len(hists)

    vlen_ok = probe_vlen_ok()
    ck.extra["create_props_metadata_accepts_empty_object_array (D15 repaired on this tree)"] = vlen_ok
    obs = common.pmap(observe, cases, chunksize=32)
    hobs = run_histories(hists)

    def guarded(what, c, f, dflt):
        """nothing the harness computes about a case may abort the check: an exception here means the
        implementation's output has a form the oracle cannot judge — reported with the parameters"""
        try:
            return f()
        except Exception as ex:  # noqa: BLE001
            ck.fail("C20:harness-cannot-judge-output", f"{what} raised {type(ex).__name__}: {str(ex)[:160]}", c,
                    None, "an output of the specified form")
            return dflt

    reqs, arrs = [], []
    for c in cases:
        r, a = guarded("building the model request", c, lambda c=c: model_request(c, vlen_ok),
                       ({"op": "gen", "directed": False, "n": 0, "m": 0}, []))
        reqs.append(r)
        arrs.append(a)
    gen_reqs, spec_reqs = [], []
    for c, o in zip(cases, obs):
        e = effective(c)
        gen_reqs.append({"op": "gen", "directed": e["directed"], "n": e["n"], "m": e["m"]})
        es = o.get("edges", []) if ("exc" not in o and "unreadable" not in o) else []
        if any(len(x) != 2 or not all(isinstance(v, int) for v in x) for x in es):
            es = []
        spec_reqs.append({"op": "spec", "directed": e["directed"], "n": e["n"], "m": e["m"],
                          "edges": [[str(a), str(b)] for a, b in es]})
    answers = drv.ask(reqs + gen_reqs + spec_reqs)
    if answers is None:
        ck.broken.append({"what": "driver Drivers/C20.lean", "detail": drv.broken})
    k = len(cases)
    s_evals = 0
    for i, (c, o) in enumerate(zip(cases, obs)):
        ck.case(c, guarded("tagging", c, lambda: tag_of(c, o), "untagged"), nontrivial=effective(c)["n"] > 0)
        mal = bool(c.get("malformed"))
        fails = [] if mal else guarded("the specification oracle", c, lambda: oracle(c, o), [("C20:harness-cannot-judge-output", "", "")])
        for key, what, exp in fails:
            if key == "C20:harness-cannot-judge-output":
                continue      # already recorded by guarded()
            ck.fail(key, what, c, {kk: o.get(kk) for kk in ("exc", "msg", "unreadable", "edges", "id_dtype", "edge_dtype",
                                                            "graph", "store") if kk in o}, exp)
        if answers is None:
            continue
        mo, go, so = answers[i], answers[k + i], answers[2 * k + i]
        readable = "exc" not in o and "unreadable" not in o
        # translated generator == implementation's edge list
        if readable and "err" not in go:
            tr = go["translated"]
            same = guarded("comparing the translated generator", c,
                           lambda: "ok" in tr and [list(map(int, x)) for x in tr["ok"]] == o["edges"], False)
            if not go.get("translationOk") or not same:
                ck.corr_broken("C20:Gen.MockEdges.gen (T9) vs create_dummy_in_mem_geff edge list", c, o["edges"][:20], tr)
        # Lean spec decider vs python oracle on the observed edges
        if readable and not mal and "err" not in so and not any(key == "C20:edge-shape" for key, _, _ in fails):
            s_evals += 1
            py_ok = not any(key in ("C20:edge-count", "C20:self-edge", "C20:dangling-endpoint", "C20:repeated-edge")
                            for key, _, _ in fails)
            if so["ok"] != py_ok:
                ck.corr_broken("C20:edgesOk (Lean spec decider) vs python oracle", c, py_ok, so)
        # source-translated generators (T24, Gen.MockData) == hand-written model on this very request
        if "err" not in mo and not (mo.get("gen_agrees") and mo.get("gen_translationOk")):
            ck.corr_broken("C20:Gen.MockData (T24, translated from the source) vs Geff.MockData model", c,
                           {"gen_agrees": mo.get("gen_agrees"), "gen_translationOk": mo.get("gen_translationOk")},
                           "the generated function returns what the model returns")
        d = guarded("comparing with the model", c, lambda: compare_model(c, o, mo, arrs[i]), "comparison failed")
        if d is not None:
            # the model describes the repaired behaviour; where the spec oracle already reports the
            # implementation, the disagreement is the violation itself and not a second finding
            if not fails:
                ck.corr_broken(f"C20:Geff.MockData model vs {c['helper']}: {d}", c,
                               {kk: o.get(kk) for kk in ("exc", "msg", "edges", "node_meta", "edge_meta", "store")},
                               mo if "exc" in mo else "see model")
    # ---- histories: every step equals what a fresh call returns; results share no memory
    def judge_history(h, ho):
        if ho.get("error"):
            raise RuntimeError(ho["error"])
        for i, st in enumerate(h["history"]):
            fresh = obs[step_index[json.dumps(st, sort_keys=True)]]
            got = ho["steps"][i] if i < len(ho["steps"]) else {"unreadable": "no observation"}
            if got != fresh:
                diff = [k for k in sorted(set(got) | set(fresh)) if got.get(k) != fresh.get(k)]
                ck.fail("C20:history-dependent-output",
                        f"call {i + 1} of the history ({st}) differs from a fresh call in {diff[:6]} after the earlier "
                        f"results were edited in place: e.g. {diff[0]}: {str(got.get(diff[0]))[:120]} vs fresh "
                        f"{str(fresh.get(diff[0]))[:120]}", h, {k: got.get(k) for k in diff[:3]}, {k: fresh.get(k) for k in diff[:3]})
                break
        if ho["shared"]:
            j, nb, i, na = ho["shared"][0]
            ck.fail("C20:results-share-memory",
                    f"{na} of call {i + 1} shares memory with {nb} of call {j + 1} ({len(ho['shared'])} pairs)", h,
                    ho["shared"][:6], "independent arrays")

    # ---- explicit arrays (dense and var-length) in every memory layout: store == memory == supplied values
    lcases = [c for c in corpus() if c.get("layout_case")] + layout_cases(ck.rng, ck.quick)
    lobs = common.pmap(observe_layout, lcases, chunksize=8)
    for c, o in zip(lcases, lobs):
        lays = sorted({x[2] for x in c["node"] + c["edge"]})
        ck.case(c, "layout-" + "+".join(lays)[:40] + ("-vlen" if any(x[0].startswith("vlen") for x in c["node"] + c["edge"]) else "-dense"),
                nontrivial=True)
        for key, what, exp in guarded("judging a layout case", c, lambda: judge_layout(c, o), []):
            ck.fail(key, what, c, o, exp)
    ck.extra["layout_cases"] = len(lcases)

    for h, ho in zip(hists, hobs):
        lens = len(h["history"])
        same = all(json.dumps(x, sort_keys=True) == json.dumps(h["history"][0], sort_keys=True) for x in h["history"])
        ck.case(h, f"history-{lens}-{'same-call' if same else 'mixed'}", nontrivial=True)
        guarded("judging a history", h, lambda: judge_history(h, ho), None)
    ck.extra["s_oracle_evaluations"] = s_evals
    ck.extra["explanation"] = (
        "C20_edges is proved about Gen.MockEdges.gen, regenerated from the source by T9 on every run (all directed, n, m); "
        "the rest of the six helpers is a hand-written model (Geff.MockData) tied by the grid correspondence, with the "
        "forwarding of every parameter and the wrappers' constants additionally decided on tables regenerated from the source "
        "(T9b). 'store denotes memory' rests on C01: this property proves that the store is written from the returned geff and "
        "that it satisfies C01's/C12's preconditions; the real validate_structure / validate_data / read_to_memory run on every case.")
    ck.assumptions += [
        "numpy (arange, linspace, dtype names, object arrays), pydantic metadata construction and write_arrays/"
        "read_to_memory are modelled or used as given, not verified; store == memory relies on C01",
        "num_nodes <= 127 (no overflow of the int8/uint8 patterns), axis dtypes numeric, explicit arrays not float16",
        "T9 translates the maximal supported statement run before `edges = np.array(...)`; the theorem is about that "
        "generated function, the correspondence compares it with the real edge list on every case",
    ]


def replay_history(h):
    fresh = [observe(st) for st in h["history"]]            # fresh calls first (nothing is edited)
    ho = _safe_observe_history(h)
    bad = []
    for i, st in enumerate(h["history"]):
        got = ho["steps"][i] if i < len(ho["steps"]) else {"unreadable": ho.get("error", "no observation")}
        if got != fresh[i]:
            diff = [k for k in sorted(set(got) | set(fresh[i])) if got.get(k) != fresh[i].get(k)]
            bad.append(["C20:history-dependent-output", f"call {i + 1} {st}: differs from a fresh call in {diff[:6]}: "
                        f"{str(got.get(diff[0]))[:160]} vs {str(fresh[i].get(diff[0]))[:160]}"])
            break
    if ho["shared"]:
        bad.append(["C20:results-share-memory", str(ho["shared"][:4])])
    print(json.dumps({"history": h["history"], "failures": bad}, default=str))
    print("REPLAY: property holds on this input" if not bad else "REPLAY: property FAILS on this input")
    return 0 if not bad else 1


def replay(rp):
    c = rp["case"]
    if "history" in c:
        return replay_history(c)
    if c.get("layout_case"):
        o = observe_layout(c)
        try:
            fails = judge_layout(c, o)
        except Exception as ex:  # noqa: BLE001
            fails = [("C20:harness-cannot-judge-output", str(ex), "")]
        print(json.dumps({"case": c, "observed": o, "failures": [[k, w] for k, w, _ in fails]}, default=str))
        print("REPLAY: property holds on this input" if not fails else "REPLAY: property FAILS on this input")
        return 0 if not fails else 1
    o = observe(c)
    try:
        fails = [] if c.get("malformed") else oracle(c, o)
    except Exception as ex:  # noqa: BLE001
        fails = [("C20:harness-cannot-judge-output", f"the specification oracle raised {type(ex).__name__}: {ex}", "")]
    print(json.dumps({"case": c, "observed": {k: o.get(k) for k in ("exc", "msg", "unreadable", "edges", "id_dtype", "edge_dtype", "graph", "store", "node_meta", "edge_meta") if k in o},
                      "failures": [[k, w] for k, w, _ in fails]}, default=str))
    print("REPLAY: property holds on this input" if not fails else "REPLAY: property FAILS on this input")
    return 0 if not fails else 1
