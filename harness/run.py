"""Entry point:  python harness/run.py Cxx [--tier quick|thorough] [--replay file]"""
import argparse
import importlib
import json
import os
import sys
from pathlib import Path

sys.path.insert(0, str(Path(__file__).resolve().parent.parent))
from harness import common  # noqa: E402


def main():
    ap = argparse.ArgumentParser()
    ap.add_argument("prop")
    ap.add_argument("--tier", default=os.environ.get("VERIF_TIER", "quick"), choices=["quick", "thorough"])
    ap.add_argument("--replay")
    a = ap.parse_args()
    seed = int(os.environ.get("VERIF_SEED", "0") or 0)
    common.setup_impl()
    mod = importlib.import_module(f"harness.corr.{a.prop}")
    if a.replay:
        rp = json.loads(Path(a.replay).read_text())
        sys.exit(mod.replay(rp))
    ck = common.Check(a.prop, a.tier, seed)
    try:
        mod.run(ck)
    except SystemExit:
        raise
    except (OSError, MemoryError, KeyboardInterrupt, ImportError) as e:  # infrastructure: the check could not run
        import traceback

        traceback.print_exc()
        common.die(f"{a.prop}: harness error {type(e).__name__}: {e}")
    except BaseException as e:
        # The harness itself tripped over the tree under test (an observation, oracle or request
        # builder met behaviour it has no case for).  On the unchanged tree this never happens
        # (vp check); on a changed tree it means the tie between model and code can no longer be
        # evaluated, which is reported like any other broken correspondence — never as a pass.
        import traceback

        tb = traceback.format_exc()
        print(tb, flush=True)
        ck.broken.append({"what": f"corr {a.prop}:harness-exception {type(e).__name__}", "detail": tb[-3000:]})
    ck.finish()


main()
