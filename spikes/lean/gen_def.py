import json, sys
sys.path.insert(0, ".")
from gen_schema import tr
doc = json.load(open("/repo/geff-schema.json"))
print("import Sp.J\nnamespace GenDefs\nopen Sp\n")
for name, d in doc["$defs"].items():
    print(f"def def_{name} : J :=\n  {tr(d)}\n")
print("def defs : List (String × J) := [" + ", ".join(f'("#/$defs/{n}", def_{n})' for n in doc["$defs"]) + "]")
print("end GenDefs")
