import Lean.Data.Json
import Sp.Vlen
open Lean
def handle (line : String) : String :=
  match Json.parse line with
  | .error e => "{\"err\":\"parse " ++ e ++ "\"}"
  | .ok j =>
    match j.getObjValAs? (Array (Array Nat)) "shapes" with
    | .ok shapes =>
      let es : List (Vlen.Elem Nat) := shapes.toList.map (fun sh => { shape := sh.toList, flat := List.replicate (Vlen.size sh.toList) 7 })
      let (rows, data) := Vlen.encode es
      (Json.mkObj [("rows", toJson (rows.map (fun r => r.1 :: r.2))), ("n", toJson data.length)]).compress
    | .error e => "{\"err\":\"" ++ e ++ "\"}"
partial def loop (h : IO.FS.Stream) : IO Unit := do
  let line ← h.getLine
  if line.isEmpty then return ()
  IO.println (handle line)
  loop h
def main : IO Unit := do loop (← IO.getStdin)
