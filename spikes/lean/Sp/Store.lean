/-! Spike for C01/C02: a flat path→entry store, `writeProps`/`readProps` for a list of properties with
    optional missing masks, and the round-trip theorem for every property list with distinct names. -/
namespace Store

abbrev Path := List String

/-- what the model keeps of an array: an opaque payload (dtype, shape and values live inside `α`) -/
inductive Entry (α : Type) where
  | group : Entry α
  | array : α → Entry α

abbrev St (α : Type) := List (Path × Entry α)

def get {α} (s : St α) (p : Path) : Option (Entry α) := (s.find? (fun kv => kv.1 = p)).map (·.2)

/-- `group[path] = value`: replace or insert -/
def set {α} (s : St α) (p : Path) (e : Entry α) : St α := (p, e) :: s.filter (fun kv => kv.1 ≠ p)

theorem get_set_same {α} (s : St α) (p : Path) (e : Entry α) : get (set s p e) p = some e := by
  simp [get, set]

theorem get_set_other {α} (s : St α) (p q : Path) (e : Entry α) (h : q ≠ p) :
    get (set s p e) q = get s q := by
  unfold get set
  rw [List.find?_cons_of_neg (by simpa using fun hh => h hh.symm)]
  congr 1
  rw [List.find?_filter]
  congr 1
  funext kv
  by_cases hq : kv.1 = q
  · have : kv.1 ≠ p := by rw [hq]; exact h
    simp [hq, this, h]
  · simp [hq]

/-- one property as the writer sees it -/
structure Prop' (α : Type) where
  name : String
  values : α
  missing : Option α

/-- `write_props_arrays` for one group prefix (`["nodes","props"]`), names from `_path.py` as parameters -/
def writeProp {α} (VALUES MISSING : String) (pre : Path) (s : St α) (p : Prop' α) : St α :=
  let s1 := set s (pre ++ [p.name]) .group
  let s2 := set s1 (pre ++ [p.name, VALUES]) (.array p.values)
  match p.missing with
  | none => s2
  | some m => set s2 (pre ++ [p.name, MISSING]) (.array m)

def writeProps {α} (VALUES MISSING : String) (pre : Path) (s : St α) (ps : List (Prop' α)) : St α :=
  ps.foldl (writeProp VALUES MISSING pre) s

/-- `GeffReader._read_prop` + `_load_prop_to_memory` (no mask) for one name -/
def readProp {α} (VALUES MISSING : String) (pre : Path) (s : St α) (name : String) : Option (Prop' α) :=
  match get s (pre ++ [name, VALUES]) with
  | some (.array v) =>
    match get s (pre ++ [name, MISSING]) with
    | some (.array m) => some ⟨name, v, some m⟩
    | some .group => none
    | none => some ⟨name, v, none⟩
  | _ => none

theorem path_ne_of_name_ne (pre : Path) (a b : String) (ta tb : List String) (h : a ≠ b) :
    pre ++ a :: ta ≠ pre ++ b :: tb := by
  intro hh
  have := List.append_cancel_left hh
  simp at this; exact h this.1

/-- writing another property (different name) does not disturb what is read for `name` -/
theorem readProp_writeProp_other {α} (V M : String) (pre : Path) (s : St α) (p : Prop' α) (name : String)
    (h : p.name ≠ name) : readProp V M pre (writeProp V M pre s p) name = readProp V M pre s name := by
  have hv : get (writeProp V M pre s p) (pre ++ [name, V]) = get s (pre ++ [name, V]) := by
    unfold writeProp
    cases p.missing <;>
      simp only [] <;>
      repeat (rw [get_set_other _ _ _ _ (by
        first
          | exact path_ne_of_name_ne pre name p.name _ _ (Ne.symm h)
          | (intro hh; have := List.append_cancel_left hh; simp at this; exact h this.1.symm))])
  have hm : get (writeProp V M pre s p) (pre ++ [name, M]) = get s (pre ++ [name, M]) := by
    unfold writeProp
    cases p.missing <;>
      simp only [] <;>
      repeat (rw [get_set_other _ _ _ _ (by
        first
          | exact path_ne_of_name_ne pre name p.name _ _ (Ne.symm h)
          | (intro hh; have := List.append_cancel_left hh; simp at this; exact h this.1.symm))])
  unfold readProp
  rw [hv, hm]

/-- what was just written is what is read, provided no stale `missing` array sits at that place -/
theorem readProp_writeProp_same {α} (V M : String) (hVM : V ≠ M) (pre : Path) (s : St α) (p : Prop' α)
    (hfresh : get s (pre ++ [p.name, M]) = none) :
    readProp V M pre (writeProp V M pre s p) p.name = some p := by
  obtain ⟨name, values, missing⟩ := p
  have hne1 : pre ++ [name, V] ≠ pre ++ [name, M] := by
    intro hh; have := List.append_cancel_left hh; simp at this; exact hVM this
  have hne2 : pre ++ [name, M] ≠ pre ++ [name] := by
    intro hh; have := List.append_cancel_left hh; simp at this
  have hne3 : pre ++ [name, V] ≠ pre ++ [name] := by
    intro hh; have := List.append_cancel_left hh; simp at this
  cases missing with
  | none =>
    simp only [readProp, writeProp, get_set_same]
    rw [get_set_other _ _ _ _ hne1.symm, get_set_other _ _ _ _ hne2]
    simp only at hfresh
    rw [hfresh]
  | some m =>
    simp only [readProp, writeProp, get_set_same]
    rw [get_set_other _ _ _ _ hne1, get_set_same]

/-- writing a property with another name leaves the `missing` slot of `name` untouched -/
theorem get_missing_writeProp_other {α} (V M : String) (pre : Path) (s : St α) (p : Prop' α) (name : String)
    (h : p.name ≠ name) : get (writeProp V M pre s p) (pre ++ [name, M]) = get s (pre ++ [name, M]) := by
  unfold writeProp
  cases p.missing <;>
    simp only [] <;>
    repeat (rw [get_set_other _ _ _ _ (by
      first
        | exact path_ne_of_name_ne pre name p.name _ _ (Ne.symm h)
        | (intro hh; have := List.append_cancel_left hh; simp at this; exact h this.1.symm))])

/-- C01 core: after writing any list of properties with pairwise distinct names into a place that holds
    no stale `missing` arrays, every one of them is read back exactly (values and mask) -/
theorem readProp_writeProps {α} (V M : String) (hVM : V ≠ M) (pre : Path) :
    ∀ (ps : List (Prop' α)) (s : St α),
      (ps.map (·.name)).Nodup →
      (∀ p ∈ ps, get s (pre ++ [p.name, M]) = none) →
      ∀ p ∈ ps, readProp V M pre (writeProps V M pre s ps) p.name = some p := by
  intro ps
  induction ps with
  | nil => intro s _ _ p hp; cases hp
  | cons q qs ih =>
    intro s hnd hfresh p hp
    simp only [List.map_cons, List.nodup_cons] at hnd
    obtain ⟨hq, hnd'⟩ := hnd
    simp only [writeProps, List.foldl_cons]
    have hfresh' : ∀ r ∈ qs, get (writeProp V M pre s q) (pre ++ [r.name, M]) = none := by
      intro r hr
      have hne : q.name ≠ r.name := fun hh => hq (hh ▸ List.mem_map.2 ⟨r, hr, rfl⟩)
      rw [get_missing_writeProp_other V M pre s q r.name hne]
      exact hfresh r (List.mem_cons_of_mem _ hr)
    rcases List.mem_cons.1 hp with rfl | hp'
    · -- `p` is written first; the later writes have other names
      have hlater : ∀ (rs : List (Prop' α)) (t : St α), (∀ r ∈ rs, r.name ≠ p.name) →
          readProp V M pre (rs.foldl (writeProp V M pre) t) p.name = readProp V M pre t p.name := by
        intro rs
        induction rs with
        | nil => intro t _; rfl
        | cons r rs ihr =>
          intro t hall
          simp only [List.foldl_cons]
          rw [ihr _ (fun x hx => hall x (List.mem_cons_of_mem _ hx))]
          exact readProp_writeProp_other V M pre t r p.name (hall r (List.mem_cons_self ..))
      rw [hlater qs _ (fun r hr hh => hq (hh ▸ List.mem_map.2 ⟨r, hr, rfl⟩))]
      exact readProp_writeProp_same V M hVM pre s p (hfresh p (List.mem_cons_self ..))
    · exact ih (writeProp V M pre s q) hnd' hfresh' p hp'

end Store
