namespace Sp
inductive J where
  | null | bool (b : Bool) | int (i : Int) | str (s : String)
  | arr (xs : List J) | obj (kvs : List (String × J))
deriving Repr, Inhabited
end Sp
