import Sp.J
import Sp.GenDefs
/-! Spike for C08 (second attempt): typed schema AST. The generated JSON term is only ever *computed on*
    by the kernel (`ofJson gen = some spec` by `rfl`/`decide`), never unfolded by `simp`; the validity
    proof is against the small hand-written typed `spec`. -/
namespace SchemaEval
open Sp

def lookup (kvs : List (String × J)) (k : String) : Option J := (kvs.find? (fun kv => kv.1 == k)).map (·.2)

/-- typed abstract syntax for the keyword subset used by geff-schema.json -/
inductive Sch where
  | mk (ref : Option String) (type : Option String) (enum : Option (List String)) (minLength : Option Nat)
       (pattern : Option String) (anyOf : Option (List Sch)) (items : Option Sch)
       (required : List String) (properties : List (String × Sch))
       (propertyNames : Option Sch) (additional : Option Sch) : Sch
deriving Repr

def strOf : J → Option String | .str s => some s | _ => none
def strsOf : List J → Option (List String)
  | [] => some []
  | x :: xs => match strOf x, strsOf xs with | some s, some ss => some (s :: ss) | _, _ => none

/-- parser from raw JSON (fuelled; annotations `title`/`description`/`default` are dropped) -/
def ofJson : Nat → J → Option Sch
  | 0, _ => none
  | fuel + 1, .obj kvs =>
    let sub (k : String) : Option (Option Sch) :=
      match lookup kvs k with | none => some none | some j => (ofJson fuel j).map some
    let subs (js : List J) : Option (List Sch) := js.foldr (fun j acc => match ofJson fuel j, acc with | some s, some ss => some (s :: ss) | _, _ => none) (some [])
    let props : Option (List (String × Sch)) :=
      match lookup kvs "properties" with
      | none => some []
      | some (.obj ps) => ps.foldr (fun (k, j) acc => match ofJson fuel j, acc with | some s, some ss => some ((k, s) :: ss) | _, _ => none) (some [])
      | _ => none
    let anyOf : Option (Option (List Sch)) :=
      match lookup kvs "anyOf" with | none => some none | some (.arr js) => (subs js).map some | _ => none
    let req : Option (List String) := match lookup kvs "required" with | none => some [] | some (.arr js) => strsOf js | _ => none
    let enum : Option (Option (List String)) := match lookup kvs "enum" with | none => some none | some (.arr js) => (strsOf js).map some | _ => none
    match sub "items", sub "propertyNames", sub "additionalProperties", props, anyOf, req, enum with
    | some items, some pn, some ad, some ps, some ao, some rq, some en =>
      some (.mk ((lookup kvs "$ref").bind strOf) ((lookup kvs "type").bind strOf) en
              (match lookup kvs "minLength" with | some (.int n) => some n.toNat | _ => none)
              ((lookup kvs "pattern").bind strOf) ao items rq ps pn ad)
    | _, _, _, _, _, _, _ => none
  | _, _ => none

def S (type : Option String := none) (minLength : Option Nat := none) (anyOf : Option (List Sch) := none)
    (required : List String := []) (properties : List (String × Sch) := []) : Sch :=
  .mk none type none minLength none anyOf none required properties none none

def optString : Sch := S (anyOf := some [S (type := some "string"), S (type := some "null")])

/-- the schema the pydantic model `PropMetadata` is expected to export (hand-written specification) -/
def specPropMetadata : Sch :=
  S (type := some "object") (required := ["identifier", "dtype"])
    (properties := [("description", optString),
                    ("dtype", S (type := some "string") (minLength := some 1)),
                    ("identifier", S (type := some "string") (minLength := some 1)),
                    ("name", optString), ("unit", optString),
                    ("varlength", S (type := some "boolean"))])  -- keys in the translator's canonical (sorted) order

/-- Gen obligation: the *published* definition parses to exactly the specified one (kernel computation) -/
theorem published_PropMetadata : ofJson 5 GenDefs.def_PropMetadata = some specPropMetadata := by rfl


def typeOk (t : String) (d : J) : Bool :=
  match d with
  | .null => t == "null"
  | .bool _ => t == "boolean"
  | .int _ => t == "integer" || t == "number"
  | .str _ => t == "string"
  | .arr _ => t == "array"
  | .obj _ => t == "object"

def refOk (defs : List (String × Sch)) (rec_ : Sch → J → Bool) (ref : Option String) (doc : J) : Bool :=
  match ref with
  | some r => (match (defs.find? (fun kv => kv.1 == r)).map (·.2) with | some s => rec_ s doc | none => false)
  | none => true

def scalarOk (mp : String → String → Bool) (type : Option String) (enum : Option (List String))
    (minLength : Option Nat) (pattern : Option String) (doc : J) : Bool :=
  (match type with | some t => typeOk t doc | none => true) &&
  (match enum with | some vs => (match doc with | .str s => vs.contains s | _ => false) | none => true) &&
  (match doc with
    | .str s => (match minLength with | some n => decide (n ≤ s.length) | none => true) &&
                (match pattern with | some p => mp p s | none => true)
    | _ => true)

def anyOfOk (rec_ : Sch → J → Bool) (anyOf : Option (List Sch)) (doc : J) : Bool :=
  match anyOf with | some ss => ss.any (fun s => rec_ s doc) | none => true

def itemsOk (rec_ : Sch → J → Bool) (items : Option Sch) (doc : J) : Bool :=
  match doc with
  | .arr xs => (match items with | some s => xs.all (fun x => rec_ s x) | none => true)
  | _ => true

def objOk (rec_ : Sch → J → Bool) (required : List String) (properties : List (String × Sch))
    (propertyNames additional : Option Sch) (doc : J) : Bool :=
  match doc with
  | .obj fs =>
    required.all (fun k => (lookup fs k).isSome) &&
    properties.all (fun ks => match lookup fs ks.1 with | some v => rec_ ks.2 v | none => true) &&
    (match propertyNames with | some s => fs.all (fun kv => rec_ s (.str kv.1)) | none => true) &&
    (match additional with
      | some s => fs.all (fun kv => (properties.map (·.1)).contains kv.1 || rec_ s kv.2)
      | none => true)
  | _ => true

/-- evaluator on the typed syntax (`$ref` through `defs`, `pattern` uninterpreted) -/
def validates (mp : String → String → Bool) (defs : List (String × Sch)) : Nat → Sch → J → Bool
  | 0, _, _ => false
  | fuel + 1, .mk ref type enum minLength pattern anyOf items required properties propertyNames additional, doc =>
    refOk defs (validates mp defs fuel) ref doc &&
    scalarOk mp type enum minLength pattern doc &&
    anyOfOk (validates mp defs fuel) anyOf doc &&
    itemsOk (validates mp defs fuel) items doc &&
    objOk (validates mp defs fuel) required properties propertyNames additional doc

structure PropMeta where
  identifier : String
  dtype : String
  varlength : Bool
  unit : Option String
  name : Option String
  description : Option String

def optStr : Option String → J | none => .null | some s => .str s

/-- model of `PropMetadata.model_dump(mode="json")` -/
def dumpProp (p : PropMeta) : J :=
  .obj [("identifier", .str p.identifier), ("dtype", .str p.dtype), ("varlength", .bool p.varlength),
        ("unit", optStr p.unit), ("name", optStr p.name), ("description", optStr p.description)]

theorem optString_valid (mp : String → String → Bool) (defs) (o : Option String) :
    validates mp defs 2 optString (optStr o) = true := by
  cases o <;> simp [validates, optString, S, optStr, typeOk, refOk, scalarOk, anyOfOk, itemsOk, objOk]

/-- every dumped PropMetadata validates against the specified schema (hence, by
    `published_PropMetadata`, against the published one) -/
theorem dumpProp_valid (mp : String → String → Bool) (defs) (p : PropMeta)
    (h1 : 1 ≤ p.identifier.length) (h2 : 1 ≤ p.dtype.length) :
    validates mp defs 3 specPropMetadata (dumpProp p) = true := by
  obtain ⟨i, d, v, u, n, ds⟩ := p
  have hu := optString_valid mp defs u
  have hn := optString_valid mp defs n
  have hd := optString_valid mp defs ds
  simp only at h1 h2
  simp [validates, specPropMetadata, S, dumpProp, lookup, typeOk, refOk, scalarOk, anyOfOk, itemsOk, objOk, hu, hn, hd, h1, h2]

end SchemaEval
