import Sp.Sink
/-! Spike for C13: Prop-level core of `validate_tracklets` (post-fix) ↔ documented tracklet definition. -/
namespace Tracklet
open Relation
variable {α L : Type}

/-- directed edge relation and the "tracklet edge": only edge out of its source, only edge into its target -/
def E (es : List (α × α)) (a b : α) : Prop := (a, b) ∈ es
def T (es : List (α × α)) (a b : α) : Prop :=
  E es a b ∧ (∀ w, E es a w → w = b) ∧ (∀ w, E es w b → w = a)
def symT (es : List (α × α)) (a b : α) : Prop := T es a b ∨ T es b a

/-- documented definition (docs/tracking.md) for a labelling `lab` of the node set `V` -/
structure Spec (es : List (α × α)) (V : α → Prop) (lab : α → L) : Prop where
  edge_iff : ∀ u v, V u → V v → E es u v → (lab u = lab v ↔ T es u v)
  connected : ∀ a b, V a → V b → lab a = lab b → ReflTransGen (symT es) a b

/-- edges of the sub-graph induced by the label class of `t` -/
def ES (es : List (α × α)) (V : α → Prop) (lab : α → L) (t : L) (a b : α) : Prop :=
  E es a b ∧ V a ∧ V b ∧ lab a = t ∧ lab b = t
def AdjS (es : List (α × α)) (V : α → Prop) (lab : α → L) (t : L) (a b : α) : Prop :=
  ES es V lab t a b ∨ ES es V lab t b a

/-- what the (repaired) validator checks for every tracklet id `t` (Prop-level reading of the code):
    c1 degrees ≤ 1 inside the class, c3 the class is weakly connected, c4 it cannot be extended at a
    source-less / sink-less node, c5 every inner edge is a tracklet edge of the whole graph -/
structure Checks (es : List (α × α)) (V : α → Prop) (lab : α → L) : Prop where
  c1out : ∀ t a b c, ES es V lab t a b → ES es V lab t a c → b = c
  c1in  : ∀ t a b c, ES es V lab t b a → ES es V lab t c a → b = c
  c3 : ∀ t a b, V a → V b → lab a = t → lab b = t → ReflTransGen (AdjS es V lab t) a b
  c4start : ∀ t s, V s → lab s = t → (∀ p, ¬ ES es V lab t p s) → ∀ p, ¬ T es p s
  c4end   : ∀ t e, V e → lab e = t → (∀ n, ¬ ES es V lab t e n) → ∀ n, ¬ T es e n
  c5 : ∀ t a b, ES es V lab t a b → T es a b

theorem checks_of_spec (es : List (α × α)) (V : α → Prop) (lab : α → L)
    (hV : ∀ a b, E es a b → V a ∧ V b) (h : Spec es V lab) : Checks es V lab := by
  have c5 : ∀ t a b, ES es V lab t a b → T es a b := by
    rintro t a b ⟨hab, ha, hb, hla, hlb⟩
    exact (h.edge_iff a b ha hb hab).1 (hla.trans hlb.symm)
  -- tracklet-connected nodes carry the same label
  have hsame : ∀ a b, V a → ReflTransGen (symT es) a b → V b ∧ lab a = lab b := by
    intro a b ha hab
    induction hab with
    | refl => exact ⟨ha, rfl⟩
    | @tail x y _ hxy ih =>
      obtain ⟨hx, hlx⟩ := ih
      rcases hxy with hT | hT
      · have hy := (hV _ _ hT.1).2
        exact ⟨hy, hlx.trans ((h.edge_iff x y hx hy hT.1).2 hT)⟩
      · have hy := (hV _ _ hT.1).1
        exact ⟨hy, hlx.trans ((h.edge_iff y x hy hx hT.1).2 hT).symm⟩
  refine ⟨?_, ?_, ?_, ?_, ?_, c5⟩
  · intro t a b c hab hac
    exact ((c5 t a c hac).2.1 b hab.1)
  · intro t a b c hba hca
    exact ((c5 t c a hca).2.2 b hba.1)
  · intro t a b ha hb hla hlb
    have hconn := h.connected a b ha hb (hla.trans hlb.symm)
    -- every node on the path has label t, so each step is an inner edge
    have : ∀ x, ReflTransGen (symT es) a x → ReflTransGen (AdjS es V lab t) a x := by
      intro x hax
      induction hax with
      | refl => exact ReflTransGen.refl
      | @tail x y hax' hxy ih =>
        obtain ⟨hx, hlx⟩ := hsame a x ha hax'
        obtain ⟨hy, hly⟩ := hsame a y ha (hax'.tail hxy)
        refine ih.tail ?_
        rcases hxy with hT | hT
        · exact Or.inl ⟨hT.1, hx, hy, hlx.symm.trans hla, hly.symm.trans hla⟩
        · exact Or.inr ⟨hT.1, hy, hx, hly.symm.trans hla, hlx.symm.trans hla⟩
    exact this b hconn
  · intro t s hs hls hnop p hT
    have hp := (hV _ _ hT.1).1
    have := (h.edge_iff p s hp hs hT.1).2 hT
    exact hnop p ⟨hT.1, hp, hs, this.trans hls, hls⟩
  · intro t e he hle hnon n hT
    have hn := (hV _ _ hT.1).2
    have := (h.edge_iff e n he hn hT.1).2 hT
    exact hnon n ⟨hT.1, he, hn, hle, this.symm.trans hle⟩

theorem spec_of_checks (es : List (α × α)) (V : α → Prop) (lab : α → L)
    (h : Checks es V lab) : Spec es V lab := by
  refine ⟨?_, ?_⟩
  · intro u v hu hv huv
    constructor
    · intro hl; exact h.c5 (lab u) u v ⟨huv, hu, hv, rfl, hl.symm⟩
    · intro hT
      -- if the labels differed, `u` would have no inner successor, and the tracklet could be extended
      apply Classical.byContradiction
      intro hne
      have hno : ∀ n, ¬ ES es V lab (lab u) u n := by
        rintro n ⟨hun, _, _, _, hln⟩
        have : n = v := hT.2.1 n hun
        subst this; exact hne hln.symm
      exact h.c4end (lab u) u hu rfl hno v hT
  · intro a b ha hb hl
    have key : ∀ x, ReflTransGen (AdjS es V lab (lab a)) a x → ReflTransGen (symT es) a x := by
      intro x hx
      induction hx with
      | refl => exact ReflTransGen.refl
      | tail _ hxy ih =>
        refine ih.tail ?_
        rcases hxy with hxy | hxy
        · exact Or.inl (h.c5 _ _ _ hxy)
        · exact Or.inr (h.c5 _ _ _ hxy)
    exact key b (h.c3 (lab a) a b ha hb rfl hl.symm)

theorem checks_iff_spec (es : List (α × α)) (V : α → Prop) (lab : α → L)
    (hV : ∀ a b, E es a b → V a ∧ V b) : Checks es V lab ↔ Spec es V lab :=
  ⟨spec_of_checks es V lab, checks_of_spec es V lab hV⟩
end Tracklet
