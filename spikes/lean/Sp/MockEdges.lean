import Mathlib.Data.List.Nodup
/-! Spike for C20: the (repaired) mock edge generator as an enumeration by offset, with
    count / validity / no-repeat theorems for every `directed`, `n`, `m`. Core Lean for count/validity; `Mathlib.Data.List.Nodup` for the no-repeat part. -/
namespace MockEdges

/-- all pairs (i, i+d) with 1 ≤ d, i + d < n, ordered by offset d then i (the chain comes first) -/
def fwd (n : Nat) : List (Nat × Nat) :=
  (List.range (n - 1)).flatMap (fun d' => (List.range (n - (d' + 1))).map (fun i => (i, i + (d' + 1))))

def maxPossible (directed : Bool) (n : Nat) : Nat :=
  if directed then n * (n - 1) else n * (n - 1) / 2

def all (directed : Bool) (n : Nat) : List (Nat × Nat) :=
  if directed then fwd n ++ (fwd n).map (fun e => (e.2, e.1)) else fwd n

def gen (directed : Bool) (n m : Nat) : List (Nat × Nat) :=
  (all directed n).take (min m (maxPossible directed n))

theorem mem_fwd {n a b : Nat} : (a, b) ∈ fwd n ↔ a < b ∧ b < n := by
  unfold fwd
  simp only [List.mem_flatMap, List.mem_range, List.mem_map, Prod.mk.injEq]
  constructor
  · rintro ⟨d', hd', i, hi, rfl, rfl⟩
    omega
  · rintro ⟨hab, hbn⟩
    exact ⟨b - a - 1, by omega, a, by omega, rfl, by omega⟩

/-- Σ_{d' < k} (k - d') computed by peeling the first summand -/
def tri : Nat → Nat
  | 0 => 0
  | k + 1 => tri k + (k + 1)

theorem two_tri (k : Nat) : 2 * tri k = k * (k + 1) := by
  induction k with
  | zero => rfl
  | succ k ih =>
    simp only [tri]
    rw [Nat.mul_add, ih]
    simp only [Nat.mul_add, Nat.add_mul, Nat.mul_one, Nat.one_mul]
    omega

theorem sum_range_sub (k : Nat) :
    ((List.range k).map (fun d' => k - d')).sum = tri k := by
  induction k with
  | zero => rfl
  | succ k ih =>
    rw [List.range_succ_eq_map, List.map_cons, List.sum_cons, List.map_map]
    have : ((fun d' => k + 1 - d') ∘ Nat.succ) = (fun d' => k - d') := by
      funext d'; simp
    rw [this, ih]
    simp only [tri]; omega

theorem length_fwd (n : Nat) : (fwd n).length = tri (n - 1) := by
  unfold fwd
  rw [List.length_flatMap]
  have : (List.map (fun d' => (List.map (fun i => (i, i + (d' + 1))) (List.range (n - (d' + 1)))).length) (List.range (n - 1)))
        = (List.range (n - 1)).map (fun d' => (n - 1) - d') := by
    apply List.map_congr_left
    intro d' _
    simp only [List.length_map, List.length_range]
    omega
  rw [this, sum_range_sub]

theorem two_length_fwd (n : Nat) : 2 * (fwd n).length = n * (n - 1) := by
  rw [length_fwd, two_tri]
  cases n with
  | zero => rfl
  | succ k => simp [Nat.mul_comm]

theorem length_all (directed : Bool) (n : Nat) : (all directed n).length = maxPossible directed n := by
  unfold all maxPossible
  cases directed with
  | false =>
    simp only [Bool.false_eq_true, if_false]
    have := two_length_fwd n; omega
  | true =>
    simp only [if_true, List.length_append, List.length_map]
    have := two_length_fwd n; omega

/-- C20, count: exactly min(requested, possible) edges, for every parameter triple -/
theorem length_gen (directed : Bool) (n m : Nat) :
    (gen directed n m).length = min m (maxPossible directed n) := by
  unfold gen
  rw [List.length_take, length_all]
  omega

/-- C20, validity: endpoints exist and no self edge -/
theorem gen_valid (directed : Bool) (n m : Nat) :
    ∀ e ∈ gen directed n m, e.1 < n ∧ e.2 < n ∧ e.1 ≠ e.2 := by
  intro e he
  have he' : e ∈ all directed n := List.mem_of_mem_take he
  unfold all at he'
  obtain ⟨a, b⟩ := e
  cases directed with
  | false =>
    simp only [Bool.false_eq_true, if_false] at he'
    have := mem_fwd.1 he'; simp only; omega
  | true =>
    simp only [if_true, List.mem_append, List.mem_map, Prod.mk.injEq] at he'
    rcases he' with h | ⟨⟨x, y⟩, h, rfl, rfl⟩
    · have := mem_fwd.1 h; simp only; omega
    · have := mem_fwd.1 h; simp only; omega

theorem nodup_fwd (n : Nat) : (fwd n).Nodup := by
  unfold fwd
  rw [List.nodup_flatMap]
  constructor
  · intro d' _
    apply List.Nodup.map_on _ List.nodup_range
    intro a _ b _ h
    simpa using congrArg Prod.fst h
  · apply List.Pairwise.imp_of_mem _ List.nodup_range
    intro d1 d2 _ _ hne
    intro e h1 h2
    simp only [List.mem_map, List.mem_range] at h1 h2
    obtain ⟨i, _, rfl⟩ := h1
    obtain ⟨j, _, hj⟩ := h2
    simp only [Prod.mk.injEq] at hj
    omega

/-- edge key: ordered pair when directed, unordered (sorted) pair otherwise -/
def key (directed : Bool) (e : Nat × Nat) : Nat × Nat :=
  if directed then e else (min e.1 e.2, max e.1 e.2)

theorem nodup_all_keys (directed : Bool) (n : Nat) : ((all directed n).map (key directed)).Nodup := by
  unfold all
  cases directed with
  | false =>
    simp only [Bool.false_eq_true, if_false]
    apply List.Nodup.map_on _ (nodup_fwd n)
    rintro ⟨a, b⟩ ha ⟨c, d⟩ hc h
    have h1 := mem_fwd.1 ha; have h2 := mem_fwd.1 hc
    simp only [key, Bool.false_eq_true, if_false, Prod.mk.injEq] at h
    simp only [Prod.mk.injEq]; omega
  | true =>
    have hk : (fun e : Nat × Nat => key true e) = id := by funext e; simp [key]
    simp only [if_true]
    rw [show List.map (key true) (fwd n ++ List.map (fun e => (e.2, e.1)) (fwd n)) = fwd n ++ List.map (fun e => (e.2, e.1)) (fwd n) from by
      rw [show key true = id from hk]; simp]
    rw [List.nodup_append]
    refine ⟨nodup_fwd n, ?_, ?_⟩
    · apply List.Nodup.map_on _ (nodup_fwd n)
      rintro ⟨a, b⟩ _ ⟨c, d⟩ _ h
      simp only [Prod.mk.injEq] at h ⊢; omega
    · rintro ⟨a, b⟩ ha ⟨c, d⟩ hc
      simp only [List.mem_map] at hc
      obtain ⟨⟨x, y⟩, hxy, h⟩ := hc
      have h1 := mem_fwd.1 ha; have h2 := mem_fwd.1 hxy
      simp only [Prod.mk.injEq] at h
      intro heq; simp only [Prod.mk.injEq] at heq; omega

/-- C20, no repeated edge (as unordered pairs when undirected), for every parameter triple -/
theorem gen_nodup (directed : Bool) (n m : Nat) : ((gen directed n m).map (key directed)).Nodup := by
  unfold gen
  rw [List.map_take]
  exact (nodup_all_keys directed n).sublist (List.take_sublist _ _)

#eval gen false 5 7
#eval gen true 3 100
#eval (gen false 10 15).length
end MockEdges
