import Mathlib.Logic.Relation
/-! Spike for C13: in a weakly connected digraph with out-degree ≤ 1, a sink is unique. -/
namespace Sink
open Relation
variable {α : Type}

def E (es : List (α × α)) (a b : α) : Prop := (a, b) ∈ es
def Adj (es : List (α × α)) (a b : α) : Prop := (a, b) ∈ es ∨ (b, a) ∈ es

theorem reaches_of_conn (es : List (α × α))
    (hfun : ∀ a b c, (a, b) ∈ es → (a, c) ∈ es → b = c)
    (u : α) (hu : ∀ b, (u, b) ∉ es) :
    ∀ x, ReflTransGen (Adj es) u x → ReflTransGen (E es) x u := by
  intro x hx
  induction hx with
  | refl => exact ReflTransGen.refl
  | @tail b c _ hbc ih =>
    rcases hbc with h | h
    · -- edge b → c : b's path to u must start with this very edge
      rcases ReflTransGen.cases_head ih with hbu | ⟨y, hby, hyu⟩
      · subst hbu; exact absurd h (hu _)
      · have : y = c := hfun _ _ _ hby h
        subst this; exact hyu
    · -- edge c → b
      exact ReflTransGen.head h ih

theorem sink_unique (es : List (α × α))
    (hfun : ∀ a b c, (a, b) ∈ es → (a, c) ∈ es → b = c)
    (u e : α) (hu : ∀ b, (u, b) ∉ es) (he : ∀ b, (e, b) ∉ es)
    (hconn : ReflTransGen (Adj es) u e) : e = u := by
  have h := reaches_of_conn es hfun u hu e hconn
  rcases ReflTransGen.cases_head h with h | ⟨y, hey, _⟩
  · exact h
  · exact absurd hey (he y)
end Sink
