import Mathlib.Logic.Relation
/-! Spike: executable reachability closure with soundness+completeness, no pigeonhole. -/
namespace Reach
variable {α : Type} [DecidableEq α]

/-- adjacency test derived from an undirected view of an edge list -/
def adjB (es : List (α × α)) (a b : α) : Bool := es.any (fun e => (e.1 = a ∧ e.2 = b) ∨ (e.1 = b ∧ e.2 = a))

def Adj (es : List (α × α)) (a b : α) : Prop := (a, b) ∈ es ∨ (b, a) ∈ es

theorem adjB_iff (es : List (α × α)) (a b : α) : adjB es a b = true ↔ Adj es a b := by
  unfold adjB Adj
  simp only [List.any_eq_true, decide_eq_true_eq]
  constructor
  · rintro ⟨⟨x, y⟩, hm, h⟩
    rcases h with ⟨rfl, rfl⟩ | ⟨rfl, rfl⟩
    · exact Or.inl hm
    · exact Or.inr hm
  · rintro (h | h)
    · exact ⟨(a, b), h, Or.inl ⟨rfl, rfl⟩⟩
    · exact ⟨(b, a), h, Or.inr ⟨rfl, rfl⟩⟩

/-- grow `seen` by moving one adjacent vertex out of `unseen` until none is adjacent -/
def grow (es : List (α × α)) (unseen seen : List α) : List α :=
  match h : unseen.find? (fun u => seen.any (fun s => adjB es s u)) with
  | none => seen
  | some u => grow es (unseen.erase u) (u :: seen)
termination_by unseen.length
decreasing_by
  have hm : u ∈ unseen := List.mem_of_find?_eq_some h
  rw [List.length_erase_of_mem hm]
  have : 0 < unseen.length := List.length_pos_of_mem hm
  omega

abbrev Conn (es : List (α × α)) := Relation.ReflTransGen (Adj es)

theorem grow_sound (es : List (α × α)) (r : α) (unseen seen : List α)
    (hs : ∀ s ∈ seen, Conn es r s) : ∀ x ∈ grow es unseen seen, Conn es r x := by
  fun_induction grow es unseen seen with
  | case1 unseen seen h => exact hs
  | case2 unseen seen u h ih =>
    apply ih
    intro s hsm
    rcases List.mem_cons.mp hsm with rfl | hsm
    · have hp := List.find?_some h
      simp only [List.any_eq_true] at hp
      obtain ⟨s', hs', hadj⟩ := hp
      exact (hs s' hs').tail ((adjB_iff es s' _).mp hadj)
    · exact hs s hsm

theorem grow_superset (es : List (α × α)) (unseen seen : List α) :
    ∀ x ∈ seen, x ∈ grow es unseen seen := by
  fun_induction grow es unseen seen with
  | case1 unseen seen h => exact fun x hx => hx
  | case2 unseen seen u h ih => exact fun x hx => ih x (List.mem_cons_of_mem _ hx)

/-- the result is closed under adjacency, provided every vertex is in `unseen ∪ seen` -/
theorem grow_closed (es : List (α × α)) (unseen seen : List α)
    (hV : ∀ a b, Adj es a b → b ∈ unseen ∨ b ∈ seen) :
    ∀ a ∈ grow es unseen seen, ∀ b, Adj es a b → b ∈ grow es unseen seen := by
  fun_induction grow es unseen seen with
  | case1 unseen seen h =>
    intro a ha b hab
    rcases hV a b hab with hb | hb
    · have := List.find?_eq_none.mp h b hb
      simp only [List.any_eq_true, not_exists, not_and, Bool.not_eq_true] at this
      have h2 := this a ha
      have h3 := (adjB_iff es a b).mpr hab
      simp [h3] at h2
    · exact hb
  | case2 unseen seen u h ih =>
    apply ih
    intro a b hab
    rcases hV a b hab with hb | hb
    · by_cases hbu : b = u
      · right; simp [hbu]
      · left; exact (List.mem_erase_of_ne hbu).mpr hb
    · right; exact List.mem_cons_of_mem _ hb

theorem grow_complete (es : List (α × α)) (r : α) (unseen seen : List α)
    (hV : ∀ a b, Adj es a b → b ∈ unseen ∨ b ∈ seen) (hr : r ∈ seen) :
    ∀ x, Conn es r x → x ∈ grow es unseen seen := by
  intro x hx
  induction hx with
  | refl => exact grow_superset es unseen seen r hr
  | tail _ hbc ih => exact grow_closed es unseen seen hV _ ih _ hbc

/-- component of r among vertex list V -/
def component (es : List (α × α)) (V : List α) (r : α) : List α := grow es (V.erase r) [r]

theorem mem_component_iff (es : List (α × α)) (V : List α) (r : α)
    (hV : ∀ e ∈ es, e.1 ∈ V ∧ e.2 ∈ V) (x : α) :
    x ∈ component es V r ↔ Conn es r x := by
  constructor
  · intro hx
    exact grow_sound es r _ _ (by intro s hs; simp at hs; subst hs; exact Relation.ReflTransGen.refl) x hx
  · intro hx
    apply grow_complete es r _ _ _ (by simp) x hx
    intro a b hab
    have hb : b ∈ V := by
      rcases hab with h | h
      · exact (hV _ h).2
      · exact (hV _ h).1
    by_cases hbr : b = r
    · right; simp [hbr]
    · left; exact (List.mem_erase_of_ne hbr).mpr hb

#eval component [(1,2),(2,3),(5,4)] [1,2,3,4,5,6] 3
end Reach
