import Sp.Reach
/-! Spike for C14: validate_lineages accepts iff labels = weakly connected components. -/
namespace Lineage
open Reach Relation
variable {α L : Type} [DecidableEq α] [DecidableEq L]

/-- vertex set nx builds: node list plus every edge endpoint -/
def verts (nl : List (α × L)) (es : List (α × α)) : List α :=
  nl.map (·.1) ++ es.flatMap (fun e => [e.1, e.2])

def nodesWith (nl : List (α × L)) (l : L) : List α := (nl.filter (fun p => p.2 = l)).map (·.1)

theorem mem_nodesWith (nl : List (α × L)) (l : L) (x : α) : x ∈ nodesWith nl l ↔ (x, l) ∈ nl := by
  unfold nodesWith
  simp only [List.mem_map, List.mem_filter, decide_eq_true_eq]
  constructor
  · rintro ⟨⟨a, b⟩, ⟨hm, rfl⟩, rfl⟩; exact hm
  · intro h; exact ⟨(x, l), ⟨h, rfl⟩, rfl⟩

def sameSet (a b : List α) : Bool := a.all (· ∈ b) && b.all (· ∈ a)
theorem sameSet_iff (a b : List α) : sameSet a b = true ↔ ∀ x, x ∈ a ↔ x ∈ b := by
  unfold sameSet
  simp only [Bool.and_eq_true, List.all_eq_true, decide_eq_true_eq]
  constructor
  · rintro ⟨h1, h2⟩ x; exact ⟨h1 x, h2 x⟩
  · intro h; exact ⟨fun x hx => (h x).1 hx, fun x hx => (h x).2 hx⟩

/-- model of `validate_lineages`: every label's node set is one of the components -/
def validateLineages (nl : List (α × L)) (es : List (α × α)) : Bool :=
  nl.all (fun p => (verts nl es).any (fun r => sameSet (nodesWith nl p.2) (component es (verts nl es) r)))

/-- specification (docs/tracking.md): same id ↔ same weakly connected component, nothing outside -/
def Spec (nl : List (α × L)) (es : List (α × α)) : Prop :=
  (∀ u l v l', (u, l) ∈ nl → (v, l') ∈ nl → (l = l' ↔ Conn es u v)) ∧
  (∀ u l x, (u, l) ∈ nl → Conn es u x → x ∈ nl.map (·.1))

theorem edges_in_verts (nl : List (α × L)) (es : List (α × α)) :
    ∀ e ∈ es, e.1 ∈ verts nl es ∧ e.2 ∈ verts nl es := by
  intro e he
  unfold verts
  constructor <;>
  · apply List.mem_append_right
    simp only [List.mem_flatMap]
    exact ⟨e, he, by simp⟩

theorem adj_symm (es : List (α × α)) {a b : α} (h : Adj es a b) : Adj es b a := h.symm
theorem conn_symm (es : List (α × α)) {a b : α} (h : Conn es a b) : Conn es b a := by
  induction h with
  | refl => exact ReflTransGen.refl
  | tail _ hbc ih => exact ReflTransGen.head (adj_symm es hbc) ih

theorem validateLineages_iff (nl : List (α × L)) (es : List (α × α))
    (huniq : ∀ u l l', (u, l) ∈ nl → (u, l') ∈ nl → l = l') :
    validateLineages nl es = true ↔ Spec nl es := by
  have hV := edges_in_verts nl es
  unfold validateLineages
  simp only [List.all_eq_true, List.any_eq_true, sameSet_iff, mem_nodesWith]
  constructor
  · intro h
    refine ⟨?_, ?_⟩
    · intro u l v l' hu hv
      obtain ⟨r, _, hr⟩ := h (u, l) hu
      simp only at hr
      constructor
      · rintro rfl
        have h1 := (mem_component_iff es _ r hV u).1 ((hr u).1 hu)
        have h2 := (mem_component_iff es _ r hV v).1 ((hr v).1 hv)
        exact (conn_symm es h1).trans h2
      · intro huv
        have h1 := (mem_component_iff es _ r hV u).1 ((hr u).1 hu)
        have h2 : (v, l) ∈ nl := (hr v).2 ((mem_component_iff es _ r hV v).2 (h1.trans huv))
        exact huniq v l l' h2 hv
    · intro u l x hu hux
      obtain ⟨r, _, hr⟩ := h (u, l) hu
      simp only at hr
      have h1 := (mem_component_iff es _ r hV u).1 ((hr u).1 hu)
      have h2 : (x, l) ∈ nl := (hr x).2 ((mem_component_iff es _ r hV x).2 (h1.trans hux))
      exact List.mem_map.2 ⟨(x, l), h2, rfl⟩
  · rintro ⟨hs, hout⟩ ⟨u, l⟩ hu
    refine ⟨u, ?_, ?_⟩
    · unfold verts; exact List.mem_append_left _ (List.mem_map.2 ⟨(u, l), hu, rfl⟩)
    · intro x
      simp only
      rw [mem_component_iff es _ u hV x]
      constructor
      · intro hx; exact (hs u l x l hu hx).1 rfl
      · intro hux
        obtain ⟨⟨x', l'⟩, hx', rfl⟩ := List.mem_map.1 (hout u l x hu hux)
        have : l = l' := (hs u l x' l' hu hx').2 hux
        subst this; exact hx'

#eval validateLineages [(1,10),(2,10),(3,20)] [(1,2)]
#eval validateLineages [(1,10),(2,10),(3,10)] [(1,2)]
#eval validateLineages [(1,10),(2,10)] [(1,2),(2,9)]
end Lineage
