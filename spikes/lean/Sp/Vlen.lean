/-! Spike: var-length encode/decode (model of geff.core_io._serialization) -/
namespace Vlen

/-- number of scalars of an array of the given shape (np.prod(shape)); prod [] = 1 (rank 0) -/
def size (sh : List Nat) : Nat := sh.foldl (· * ·) 1

structure Elem (α : Type) where
  shape : List Nat
  flat  : List α          -- C-order ravel()
deriving Repr, DecidableEq

def Elem.WF {α} (e : Elem α) : Prop := e.flat.length = size e.shape

/-- serialize_vlen_property_data: rows (offset, *shape) and concatenated data -/
def encodeAux {α} : Nat → List (Elem α) → List (Nat × List Nat) × List α
  | _, [] => ([], [])
  | off, e :: es =>
    let (rows, data) := encodeAux (off + size e.shape) es
    ((off, e.shape) :: rows, e.flat ++ data)

def encode {α} (es : List (Elem α)) := encodeAux 0 es

/-- _deserialize_vlen_value: data[offset : offset + prod(shape)].reshape(shape) -/
def decodeRow {α} (data : List α) (row : Nat × List Nat) : Elem α :=
  { shape := row.2, flat := (data.drop row.1).take (size row.2) }

def decode {α} (rows : List (Nat × List Nat)) (data : List α) : List (Elem α) :=
  rows.map (decodeRow data)

theorem encodeAux_data_length {α} (off : Nat) (es : List (Elem α)) (h : ∀ e ∈ es, e.WF) :
    (encodeAux off es).2.length = (es.map (fun e => size e.shape)).sum := by
  induction es generalizing off with
  | nil => simp [encodeAux]
  | cons e es ih =>
    have he : e.WF := h e (by simp)
    have := ih (off + size e.shape) (fun x hx => h x (by simp [hx]))
    unfold Elem.WF at he
    simp [encodeAux, this, he]

/-- generalised round trip: decoding against `pre ++ data` where `pre.length = off` -/
theorem decode_encodeAux {α} (pre : List α) (es : List (Elem α)) (h : ∀ e ∈ es, e.WF) (post : List α) :
    decode (encodeAux pre.length es).1 (pre ++ (encodeAux pre.length es).2 ++ post) = es := by
  induction es generalizing pre with
  | nil => simp [encodeAux, decode]
  | cons e es ih =>
    have he : e.WF := h e (by simp)
    have ih' := ih (pre ++ e.flat) (fun x hx => h x (by simp [hx]))
    unfold Elem.WF at he
    simp only [List.length_append, he] at ih'
    simp only [encodeAux, decode, List.map_cons]
    congr 1
    · simp [decodeRow, List.drop_append, ← he]
    · simpa [decode, List.append_assoc] using ih'

theorem decode_encode {α} (es : List (Elem α)) (h : ∀ e ∈ es, e.WF) :
    decode (encode es).1 (encode es).2 = es := by
  have := decode_encodeAux (α := α) [] es h []
  simpa [encode] using this

end Vlen
