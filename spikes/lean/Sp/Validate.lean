/-! Spike for C04: sequential validator with early exit (`Except`) vs declarative conformance,
    for one props group. Checks proof ergonomics of the "validate = ok ↔ Conformant" shape. -/
namespace Validate

inductive Out where | valueError | other (name : String)
deriving DecidableEq, Repr

/-- what `validate_structure` can see of an array -/
structure Arr where
  dtype : String
  shape : List Nat
deriving DecidableEq, Repr

inductive Node where | group | array (a : Arr)
deriving DecidableEq, Repr

/-- a property group as found in the store -/
structure PropGrp where
  isGroup : Bool
  values : Option Node
  missing : Option Node
  data : Option Node
deriving Repr

structure PropMeta where
  dtype : String
  varlength : Bool
deriving Repr

def lookup {β} (kvs : List (String × β)) (k : String) : Option β := (kvs.find? (fun kv => kv.1 == k)).map (·.2)

/-- `np.issubdtype(actual, np.dtype(stated))`, restricted to what matters here -/
def dtypeMatches (actual stated : String) : Bool := actual == stated

/-- repaired `_validate_props_group` body for one property (Python's own IndexError on 0-d arrays is
    modelled, and is unreachable after the repair because rank is tested first) -/
def validateOne (expectedLen : Nat) (name : String) (g : PropGrp) (md : PropMeta) : Except Out Unit := do
  if !g.isGroup then throw .valueError
  let vals ← match g.values with
    | some (.array a) => pure a
    | _ => throw .valueError
  if md.varlength then
    let d ← match g.data with
      | some (.array a) => pure a
      | _ => throw .valueError
    if vals.dtype != "uint64" then throw .valueError
    if !dtypeMatches d.dtype md.dtype then throw .valueError
  else
    if !dtypeMatches vals.dtype md.dtype then throw .valueError
    if g.data.isSome then throw .valueError
  match vals.shape with
  | [] => throw .valueError            -- repaired: explicit rank test instead of `shape[0]` → IndexError
  | n :: _ => if n != expectedLen then throw .valueError
  match g.missing with
  | none => pure ()
  | some .group => throw .valueError
  | some (.array m) =>
    if m.shape != [expectedLen] then throw .valueError
    if m.dtype != "bool" then throw .valueError

def validateProps (expectedLen : Nat) (store : List (String × PropGrp)) (mds : List (String × PropMeta)) :
    Except Out Unit := do
  for (name, _) in mds do
    if (lookup store name).isNone then throw .valueError
  for (name, g) in store do
    match lookup mds name with
    | none => throw .valueError
    | some md => validateOne expectedLen name g md

/-- the specification's structural requirements for one property -/
def ConformantOne (expectedLen : Nat) (g : PropGrp) (md : PropMeta) : Prop :=
  g.isGroup = true ∧
  ∃ v, g.values = some (.array v) ∧
    (∃ n rest, v.shape = n :: rest ∧ n = expectedLen) ∧
    (if md.varlength then (∃ d, g.data = some (.array d) ∧ d.dtype = md.dtype) ∧ v.dtype = "uint64"
     else v.dtype = md.dtype ∧ g.data = none) ∧
    (g.missing = none ∨ ∃ m, g.missing = some (.array m) ∧ m.shape = [expectedLen] ∧ m.dtype = "bool")

theorem validateOne_iff (expectedLen : Nat) (name : String) (g : PropGrp) (md : PropMeta) :
    validateOne expectedLen name g md = .ok () ↔ ConformantOne expectedLen g md := by
  obtain ⟨isG, values, missing, data⟩ := g
  obtain ⟨dt, vl⟩ := md
  unfold validateOne ConformantOne dtypeMatches
  cases isG <;> simp [bind, Except.bind, pure, Except.pure, throw, throwThe, MonadExceptOf.throw]
  rcases values with _ | (_ | ⟨⟨vd, vs⟩⟩) <;> simp
  cases vl <;> simp
  · -- fixed-shape property
    by_cases h1 : vd = dt <;> simp [h1]
    cases data <;> simp
    rcases vs with _ | ⟨n, rest⟩ <;> simp
    by_cases h2 : n = expectedLen <;> simp [h2]
    rcases missing with _ | (_ | ⟨⟨mdt, ms⟩⟩) <;> simp
    by_cases h3 : ms = [expectedLen] <;> simp [h3]
  · -- variable-length property
    rcases data with _ | (_ | ⟨⟨dd, ds⟩⟩) <;> simp
    by_cases h0 : vd = "uint64" <;> simp [h0]
    by_cases h1 : dd = dt <;> simp [h1]
    rcases vs with _ | ⟨n, rest⟩ <;> simp
    by_cases h2 : n = expectedLen <;> simp [h2]
    rcases missing with _ | (_ | ⟨⟨mdt, ms⟩⟩) <;> simp
    by_cases h3 : ms = [expectedLen] <;> simp [h3]

/-- never an unrelated exception -/
theorem validateOne_error_class (expectedLen : Nat) (name : String) (g : PropGrp) (md : PropMeta) :
    validateOne expectedLen name g md = .ok () ∨ validateOne expectedLen name g md = .error .valueError := by
  obtain ⟨isG, values, missing, data⟩ := g
  obtain ⟨dt, vl⟩ := md
  unfold validateOne dtypeMatches
  cases isG <;> simp [bind, Except.bind, pure, Except.pure, throw, throwThe, MonadExceptOf.throw]
  rcases values with _ | (_ | ⟨⟨vd, vs⟩⟩) <;> simp
  cases vl <;> cases data <;> simp <;> (repeat' split) <;> simp_all

end Validate
