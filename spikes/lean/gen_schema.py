import json, sys
def esc(s): return json.dumps(s, ensure_ascii=False).replace("\\u", "\\u")  # Lean string literal is close to JSON's
def lean_str(s):
    out = '"'
    for ch in s:
        if ch == '"': out += '\\"'
        elif ch == '\\': out += '\\\\'
        elif ch == '\n': out += '\\n'
        elif ch == '\t': out += '\\t'
        elif ch == '\r': out += '\\r'
        elif ord(ch) < 32: out += '\\x%02x' % ord(ch)
        else: out += ch
    return out + '"'
def tr(j, ind=2):
    if j is None: return "J.null"
    if isinstance(j, bool): return "J.bool " + ("true" if j else "false")
    if isinstance(j, int): return f"J.int ({j})"
    if isinstance(j, float): return f"J.str {lean_str(repr(j))}"
    if isinstance(j, str): return "J.str " + lean_str(j)
    if isinstance(j, list): return "J.arr [" + ", ".join(tr(x) for x in j) + "]"
    if isinstance(j, dict): return "J.obj [" + ", ".join("(" + lean_str(k) + ", " + tr(v) + ")" for k, v in sorted(j.items())) + "]"
    raise TypeError(j)
if __name__ == '__main__':
    doc = json.load(open("/repo/geff-schema.json"))
    print("import Sp.J\nnamespace Gen\nopen Sp\n")
    print("def published : J :=\n  " + tr(doc))
    print("def exported : J :=\n  " + tr(doc))
    print("\ntheorem published_eq_exported : published = exported := rfl\nend Gen")
