import Sp.Vlen
import Sp.Reach
import Sp.Sink
import Sp.Lineage
import Sp.Tracklet
import Sp.J
import Sp.MockEdges
import Sp.Store
