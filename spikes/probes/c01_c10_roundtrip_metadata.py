import warnings, sys, os, tempfile, traceback, shutil, pathlib
warnings.simplefilter("ignore")
import numpy as np, zarr, networkx as nx
import geff, geff_spec
from geff.core_io import write_arrays, read_to_memory
from geff import GeffReader, GeffMetadata
from geff_spec import Axis, PropMetadata
def md(directed=True, **kw):
    kw.setdefault("node_props_metadata", {}); kw.setdefault("edge_props_metadata", {})
    return GeffMetadata(directed=directed, **kw)
def T(name, f):
    try:
        print(name, "->", f())
    except BaseException as e:
        print(name, "EXC", type(e).__name__, str(e)[:300]); 
def rt(props, fmt=2, ids=np.array([1,2,3],np.uint8), meta=None, eprops=None, eids=None):
    s = zarr.storage.MemoryStore()
    if eids is None: eids = np.zeros((0,2), ids.dtype)
    write_arrays(s, ids, props, eids, eprops or {}, meta or md(), zarr_format=fmt)
    o = read_to_memory(s)
    return o["node_ids"].dtype.name, o["node_ids"].tolist(), {k:(v["values"].dtype.name, v["values"].shape, v["values"].tolist(), None if v["missing"] is None else v["missing"].tolist()) for k,v in o["node_props"].items()}, {k:(m.dtype, m.varlength, m.unit) for k,m in o["metadata"].node_props_metadata.items()}
for fmt in (2,3):
    T(f"C01 str fmt{fmt}", lambda: rt({"s":{"values":np.array(["a","","žлюé long string"]),"missing":None}}, fmt))
    T(f"C01 f16 fmt{fmt}", lambda: rt({"h":{"values":np.array([1,2,3],np.float16),"missing":None}}, fmt))
    T(f"C01 bool/nan fmt{fmt}", lambda: rt({"b":{"values":np.array([True,False,True]),"missing":np.array([0,1,0],bool)},"f":{"values":np.array([np.nan,np.inf,-0.0],np.float32),"missing":None}}, fmt))
    T(f"C01 u64 ids fmt{fmt}", lambda: rt({}, fmt, ids=np.array([2**64-1,0,2**63],np.uint64)))
    T(f"C01 int8 ids fmt{fmt}", lambda: rt({}, fmt, ids=np.array([-128,0,127],np.int8)))
    T(f"C01 names fmt{fmt}", lambda: rt({"a b":{"values":np.arange(3),"missing":None}, "values":{"values":np.arange(3),"missing":None}, "ünï":{"values":np.arange(3),"missing":None}, "a.b":{"values":np.arange(3),"missing":None}}, fmt))
    T(f"C01 name with slash fmt{fmt}", lambda: rt({"a/b":{"values":np.arange(3),"missing":None}}, fmt))
    T(f"C01 3D prop fmt{fmt}", lambda: rt({"p":{"values":np.arange(24).reshape(3,2,4).astype(np.int16),"missing":None}}, fmt))
    T(f"C01 bytes fmt{fmt}", lambda: rt({"p":{"values":np.array([b"a",b"bc",b""]),"missing":None}}, fmt))
    T(f"C01 empty fmt{fmt}", lambda: rt({"p":{"values":np.zeros((0,2),np.float32),"missing":np.zeros(0,bool)}}, fmt, ids=np.zeros(0,np.int32)))
    T(f"C01 object-str fmt{fmt}", lambda: rt({"p":{"values":np.array(["a","bb","c"],dtype=object),"missing":None}}, fmt))
# C10 stale metadata
def c10():
    meta = md(axes=[Axis(name="x",min=-100,max=100,unit="meter",type="space",scale=2.0,offset=1.0)], node_props_metadata={"x":PropMetadata(identifier="x",dtype="int8",unit="meter",name="X",description="d"),"gone":PropMetadata(identifier="gone",dtype="int8")}, extra={"a":[1,{"b":None}]})
    before = meta.model_dump()
    s = zarr.storage.MemoryStore()
    try:
        write_arrays(s, np.array([1,2],np.uint8), {"x":{"values":np.array([1.5,2.5]),"missing":None}}, np.zeros((0,2),np.uint8), {}, meta)
    except Exception as e:
        return type(e).__name__, str(e)[:200], "meta changed" if meta.model_dump()!=before else "meta same"
    return GeffMetadata.read(s).model_dump(), "meta changed" if meta.model_dump()!=before else "meta same"
T("C10 stale md", c10)
def c10b():
    meta = md(axes=[Axis(name="x",min=-100,max=100,unit="meter",type="space",scale=2.0,offset=1.0)], node_props_metadata={"x":PropMetadata(identifier="x",dtype="int8",unit="meter",name="X",description="d")}, extra={"a":[1,{"b":None}]})
    before = meta.model_dump()
    s = zarr.storage.MemoryStore()
    write_arrays(s, np.array([1,2],np.uint8), {"x":{"values":np.array([1.5,2.5]),"missing":None}}, np.zeros((0,2),np.uint8), {}, meta)
    return GeffMetadata.read(s).model_dump(exclude_none=True), "meta changed" if meta.model_dump()!=before else "meta same"
T("C10 stale md 2", c10b)
def c10c():
    g = nx.Graph(); g.add_node(1, x=1.0, y=5); g.add_node(2, x=3.0, y=2)
    meta = md(directed=True, axes=[Axis(name="x",min=-100,max=100)])
    before = meta.model_dump()
    s = zarr.storage.MemoryStore(); geff.write(g, s, metadata=meta, axis_names=["y","x"], axis_units=["meter",None], axis_types=["space","space"])
    return GeffMetadata.read(s).model_dump(exclude_none=True), "meta changed" if meta.model_dump()!=before else "meta same"
T("C10 nx", c10c)
def c10d():
    # axis with all missing? NaN?
    s = zarr.storage.MemoryStore()
    write_arrays(s, np.array([1,2],np.uint8), {"x":{"values":np.array([np.nan,2.5]),"missing":None}}, np.zeros((0,2),np.uint8), {}, md(axes=[Axis(name="x")]))
    return GeffMetadata.read(s).model_dump(exclude_none=True)["axes"]
T("C10 nan axis", c10d)
