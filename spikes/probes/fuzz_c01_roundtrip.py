import warnings, random, itertools, traceback
warnings.simplefilter("ignore")
import numpy as np, zarr
from geff.core_io import write_arrays, read_to_memory, construct_var_len_props
from geff import GeffMetadata
rng = random.Random(1)
DT = ["bool","int8","int16","int32","int64","uint8","uint16","uint32","uint64","float32","float64","float16","str"]
def rand_arr(dt, shape):
    n = int(np.prod(shape))
    if dt=="bool": a = np.array([rng.random()<.5 for _ in range(n)], bool)
    elif dt=="str": a = np.array([rng.choice(["","a","äö","long string here","x"*40]) for _ in range(n)] or [], dtype="<U40" if n==0 else None)
    elif dt.startswith("float"):
        a = np.array([rng.choice([0.0,-0.0,1.5,-2.25,float("nan"),float("inf"),1e30 if dt!="float16" else 100.0]) for _ in range(n)], dt)
    else:
        ii = np.iinfo(dt); a = np.array([rng.choice([ii.min, ii.max, 0, 1]) for _ in range(n)], dt)
    return a.reshape(shape)
def eqarr(a,b):
    if a.dtype != b.dtype or a.shape != b.shape: return False
    if a.dtype.kind=="f": return a.tobytes()==b.tobytes()
    return np.array_equal(a,b)
fails = {}
for it in range(1500):
    N = rng.choice([0,1,2,3,5]); E = rng.choice([0,1,2,4])
    idt = rng.choice(["int8","int16","int32","int64","uint8","uint16","uint32","uint64"])
    ii = np.iinfo(idt)
    ids = np.array(rng.sample([ii.min, ii.max, 0, 1, 2, 3, 4, 5, ii.max-1][: max(N,1)+4], N) if N else [], idt)
    edges = np.array([[rng.choice(ids.tolist()), rng.choice(ids.tolist())] for _ in range(E)] if N else [], idt).reshape(-1,2)
    E = len(edges)
    def mkprops(n):
        props = {}
        for k in range(rng.choice([0,1,2,3])):
            dt = rng.choice(DT); rank = rng.choice([1,1,2,3])
            name = rng.choice(["p","values","a b","ü","x.y","missing","data"]) + str(k)
            if rng.random()<.25 and dt not in ("str","float16"):
                seq = [rand_arr(dt, tuple(rng.choice([0,1,2,3]) for _ in range(rank-1 if rank>1 else 1))) if rng.random()>.2 else None for _ in range(n)]
                try: p = construct_var_len_props(seq)
                except Exception as e: continue
                if p["values"].dtype != object: continue
            else:
                shape = (n,)+tuple(rng.choice([0,1,2,3]) for _ in range(rank-1))
                p = {"values": rand_arr(dt, shape), "missing": None}
                if rng.random()<.5: p["missing"] = np.array([rng.random()<.4 for _ in range(n)], bool)
            props[name] = p
        return props
    np_, ep_ = mkprops(N), mkprops(E)
    fmt = rng.choice([2,3])
    s = zarr.storage.MemoryStore()
    import copy
    try:
        write_arrays(s, ids, {k:dict(v) for k,v in np_.items()}, edges, {k:dict(v) for k,v in ep_.items()}, GeffMetadata(directed=True,node_props_metadata={},edge_props_metadata={}), zarr_format=fmt)
        o = read_to_memory(s)
    except Exception as e:
        key = ("EXC", type(e).__name__, str(e)[:70]); fails.setdefault(key, []).append((it, N, E, {k:(v["values"].dtype.name, v["values"].shape) for k,v in {**np_,**ep_}.items()})); continue
    ok = eqarr(o["node_ids"], ids) and eqarr(o["edge_ids"], edges)
    if not ok: fails.setdefault(("ids",), []).append(it)
    for (orig, got, tag) in ((np_, o["node_props"], "n"), (ep_, o["edge_props"], "e")):
        if set(orig)!=set(got): fails.setdefault(("names",tag), []).append((it, set(orig), set(got))); continue
        for k,p in orig.items():
            g = got[k]; v = p["values"]; 
            if v.dtype==np.float16: v = v.astype(np.float32)
            m = p["missing"]; gm = g["missing"]
            if (m is None) != (gm is None) or (m is not None and not np.array_equal(m,gm)): fails.setdefault(("missing",tag), []).append((it,k)); continue
            if v.dtype==object:
                good = g["values"].dtype==object and len(v)==len(g["values"]) and all((m is not None and m[i]) or eqarr(v[i], g["values"][i]) for i in range(len(v)))
            else:
                if m is not None and len(v)>0:
                    good = v.dtype==g["values"].dtype and v.shape==g["values"].shape and all(eqarr(v[i], g["values"][i]) for i in range(len(v)) if not m[i])
                else: good = eqarr(v, g["values"])
            if not good: fails.setdefault(("values",tag,v.dtype.name), []).append((it,k,v.shape, g["values"].dtype.name, g["values"].shape))
for k,v in fails.items(): print(k, len(v), v[:2])
print("done")
