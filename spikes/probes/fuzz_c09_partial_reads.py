import warnings, random
warnings.simplefilter("ignore")
import numpy as np, zarr
from geff.core_io import write_arrays
from geff import GeffMetadata, GeffReader
rng = random.Random(5)
fails = {}
for it in range(800):
    N = rng.choice([0,1,2,3,6]); ids = np.array(rng.sample(range(0,50), N), np.int32)
    E = rng.choice([0,1,3,6]) if N>=1 else 0
    edges = np.array([[rng.choice(ids.tolist()), rng.choice(ids.tolist())] for _ in range(E)], np.int32).reshape(-1,2)
    def mk(n, pre):
        props = {}
        for k in range(rng.choice([0,1,2,3])):
            shape = rng.choice([(n,),(n,2),(n,2,3),(n,0)])
            v = rng.choice([lambda: np.arange(int(np.prod(shape)),dtype=np.float32).reshape(shape), lambda: np.array([f"s{i}" for i in range(int(np.prod(shape)))] or np.zeros(0,"<U2")).reshape(shape)])()
            m = np.array([rng.random()<.4 for _ in range(n)], bool) if rng.random()<.5 else None
            props[f"{pre}{k}"] = {"values": v, "missing": m}
        return props
    np_, ep_ = mk(N,"n"), mk(E,"e")
    s = zarr.storage.MemoryStore()
    write_arrays(s, ids, {k:dict(v) for k,v in np_.items()}, edges, {k:dict(v) for k,v in ep_.items()}, GeffMetadata(directed=True,node_props_metadata={},edge_props_metadata={}), zarr_format=rng.choice([2,3]))
    nsel = rng.sample(list(np_), rng.randint(0,len(np_))); esel = rng.sample(list(ep_), rng.randint(0,len(ep_)))
    nm = rng.choice([None, np.array([rng.random()<.5 for _ in range(N)], bool), np.ones(N,bool), np.zeros(N,bool)])
    em = rng.choice([None, np.array([rng.random()<.5 for _ in range(E)], bool), np.ones(E,bool), np.zeros(E,bool)])
    try:
        r = GeffReader(s); r.read_node_props(nsel); r.read_edge_props(esel); o = r.build(nm, em)
    except Exception as ex:
        fails.setdefault(("EXC", type(ex).__name__, str(ex)[:80]),[]).append((it,N,E, None if nm is None else nm.tolist(), None if em is None else em.tolist())); continue
    keepn = np.ones(N,bool) if nm is None else nm
    kept = ids[keepn]
    keepe = (np.ones(E,bool) if em is None else em)
    if nm is not None: keepe = keepe & np.isin(edges, kept).all(axis=1) if E else keepe
    ok = np.array_equal(o["node_ids"], kept) and np.array_equal(o["edge_ids"].reshape(-1,2), edges[keepe])
    if not ok: fails.setdefault(("ids",),[]).append(it)
    if set(o["node_props"])!=set(nsel) or set(o["edge_props"])!=set(esel) or set(o["metadata"].node_props_metadata)!=set(nsel) or set(o["metadata"].edge_props_metadata)!=set(esel): fails.setdefault(("propsets",),[]).append(it)
    for sel, props, got, keep in ((nsel,np_,o["node_props"],keepn),(esel,ep_,o["edge_props"],keepe)):
        for k in sel:
            v, m = props[k]["values"], props[k]["missing"]
            if not np.array_equal(got[k]["values"], v[keep]) or got[k]["values"].shape != v[keep].shape: fails.setdefault(("values", v.shape[1:]),[]).append((it,k,got[k]["values"].shape, v[keep].shape))
            if (m is None)!=(got[k]["missing"] is None) or (m is not None and not np.array_equal(got[k]["missing"], m[keep])): fails.setdefault(("missing",),[]).append((it,k))
for k,v in fails.items(): print(k, len(v), str(v[:2])[:300]); print("  nonempty-cases:", [x for x in v if isinstance(x,tuple) and len(x)==5 and x[1]>0 and x[2]>0][:3])
print("done")
