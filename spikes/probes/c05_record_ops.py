import warnings, sys, os
warnings.simplefilter("ignore")
import numpy as np, zarr
from zarr.storage import MemoryStore
import geff
from geff.core_io import write_arrays, read_to_memory
from geff import GeffMetadata
class Rec(MemoryStore):
    def __init__(self, fail_at=None):
        super().__init__(); self.log=[]; self.fail_at=fail_at
    def _tick(self, op, key):
        self.log.append((op,key))
        if self.fail_at is not None and len(self.log)-1 == self.fail_at:
            raise OSError("injected")
    async def set(self, key, value, byte_range=None):
        self._tick("set", key); return await super().set(key, value)
    async def set_if_not_exists(self, key, value):
        self._tick("setnx", key); return await super().set_if_not_exists(key, value)
    async def delete(self, key):
        self._tick("del", key); return await super().delete(key)
    async def delete_dir(self, prefix):
        self._tick("deldir", prefix); return await super().delete_dir(prefix)
    def with_read_only(self, read_only=False):
        return self
def md(): return GeffMetadata(directed=True, node_props_metadata={}, edge_props_metadata={})
A = dict(node_ids=np.array([1,2,3],np.uint8), node_props={"a":{"values":np.array([1.,2.,3.]),"missing":np.array([1,0,0],bool)}}, edge_ids=np.array([[1,2]],np.uint8), edge_props={})
for fmt in (2,3):
    s = Rec(); write_arrays(s, metadata=md(), zarr_format=fmt, **A)
    print(fmt, len(s.log)); print(s.log)
    n0 = len(s.log)
    write_arrays(s, metadata=md(), zarr_format=fmt, overwrite=True, **A)
    print("overwrite ops:", s.log[n0:])
    print(sorted(s._store_dict))
