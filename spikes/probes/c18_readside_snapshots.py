import warnings, sys, os, tempfile, pathlib, hashlib, subprocess
warnings.simplefilter("ignore")
import numpy as np, zarr
import geff
from geff.core_io import write_arrays, read_to_memory
from geff import GeffMetadata, GeffReader, validate_structure
from geff.convert import geff_to_dataframes
from geff.testing.data import create_mock_geff
def snap(p):
    out = {}
    for dp, dn, fn in os.walk(p):
        for d in dn: out[os.path.relpath(os.path.join(dp,d),p)+"/"] = None
        for f in fn:
            q = os.path.join(dp,f); out[os.path.relpath(q,p)] = hashlib.md5(open(q,'rb').read()).hexdigest()
    return out
def T(name, f):
    try: return f()
    except BaseException as e: return "EXC "+type(e).__name__
entries = {
 "validate_structure": lambda p: validate_structure(p),
 "GeffMetadata.read": lambda p: GeffMetadata.read(p),
 "GeffReader+build": lambda p: (lambda r: (r.read_node_props(), r.read_edge_props(), r.build()))(GeffReader(p)),
 "read_to_memory": lambda p: read_to_memory(p),
 "geff.read nx": lambda p: geff.read(p),
 "geff.read rx": lambda p: geff.read(p, backend="rustworkx"),
 "geff.read sg": lambda p: geff.read(p, backend="spatial-graph"),
 "geff_to_dataframes": lambda p: geff_to_dataframes(p),
 "cli validate": lambda p: subprocess.run([sys.executable, "-m", "geff._cli", "validate", str(p)], capture_output=True).returncode,
 "cli info": lambda p: subprocess.run([sys.executable, "-m", "geff._cli", "info", str(p)], capture_output=True).returncode,
}
for fmt in (2,3):
    d = pathlib.Path(tempfile.mkdtemp())
    s, g = create_mock_geff("uint8", {"position":"float64","time":"float64"}, True, 5, 4, include_varlength=True)
    write_arrays(d/"g.zarr", zarr_format=fmt, **g)
    # non-geff zarr group
    zarr.open_group(d/"plain.zarr", mode="w", zarr_format=fmt)["a"] = np.arange(3)
    for target in ("g.zarr", "plain.zarr", "missing.zarr"):
        for name, f in entries.items():
            before = snap(d)
            r = T(name, lambda: f(d/target) if not name.startswith("cli") else f(d/target))
            after = snap(d)
            if before != after:
                print(f"fmt{fmt} {target} {name}: MUTATED", sorted(set(after)^set(before))[:5], [k for k in before if k in after and before[k]!=after[k]][:3], "result:", str(r)[:40])
print("done")
