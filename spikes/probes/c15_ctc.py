import warnings, sys, os, tempfile, traceback, shutil, pathlib
warnings.simplefilter("ignore")
import numpy as np, zarr, networkx as nx, tifffile
import geff, geff_spec
from geff.core_io import write_arrays, read_to_memory
from geff import GeffReader, GeffMetadata
from geff.convert import from_ctc_to_geff
from geff.validate.data import ValidationConfig
def T(name, f):
    try:
        print(name, "->", f())
    except BaseException as e:
        print(name, "EXC", type(e).__name__, str(e)[:300]); 
def mkctc(frames, table, name="man_track.txt"):
    d = pathlib.Path(tempfile.mkdtemp())/"TRA"; d.mkdir()
    for t, fr in enumerate(frames):
        tifffile.imwrite(d/f"man_track{t:03d}.tif", fr)
    with open(d/name, "w") as f:
        for row in table: f.write(" ".join(map(str,row))+"\n")
    return d
def conv(frames, table, seg=False, **kw):
    d = mkctc(frames, table)
    out = d.parent/"out.zarr"/"tracks.geff"
    segp = d.parent/"out.zarr"/"seg" if seg else None
    from_ctc_to_geff(d, out, segmentation_store=segp, **kw)
    m = read_to_memory(out, data_validation=ValidationConfig(graph=True, tracklet=True))
    return m["node_ids"].tolist(), m["edge_ids"].tolist(), {k:v["values"].tolist() for k,v in m["node_props"].items()}, [a.name for a in m["metadata"].axes]
f2 = lambda: np.zeros((6,6), np.uint16)
def fr(labels):  # labels: dict label->(y,x)
    a = f2()
    for l,(y,x) in labels.items(): a[y,x]=l
    return a
# single track, one-row table
T("C15 one-row table", lambda: conv([fr({1:(1,1)}), fr({1:(2,2)})], [[1,0,1,0]]))
# two tracks no parents
T("C15 two tracks", lambda: conv([fr({1:(1,1),2:(4,4)}), fr({1:(2,2),2:(4,3)})], [[1,0,1,0],[2,0,1,0]]))
# single-child continuation: 1 (t0) -> 2 (t1)
T("C15 single child", lambda: conv([fr({1:(1,1)}), fr({2:(2,2)})], [[1,0,0,0],[2,1,1,1]]))
# division
T("C15 division", lambda: conv([fr({1:(1,1)}), fr({2:(2,2),3:(4,4)})], [[1,0,0,0],[2,1,1,1],[3,1,1,1]]))
# gap
T("C15 gap", lambda: conv([fr({1:(1,1)}), fr({}), fr({1:(3,3)})], [[1,0,2,0]]))
# 3D no seg
def f3(labels):
    a = np.zeros((3,6,6), np.uint16)
    for l,(z,y,x) in labels.items(): a[z,y,x]=l
    return a
T("C15 3D no seg", lambda: conv([f3({1:(1,1,1)}), f3({1:(2,2,2)})], [[1,0,1,0],[2,0,1,0]]))
T("C15 3D seg", lambda: conv([f3({1:(1,1,1),2:(0,0,0)}), f3({1:(2,2,2),2:(0,0,1)})], [[1,0,1,0],[2,0,1,0]], seg=True))
