import warnings, sys, os
warnings.simplefilter("ignore")
import numpy as np, zarr
from zarr.storage import MemoryStore
import geff
from geff.core_io import write_arrays, read_to_memory
from geff import GeffMetadata, validate_structure
class Rec(MemoryStore):
    def __init__(self):
        super().__init__(); self.n=0; self.fail_at=None; self.log=[]
    def _tick(self, op, key):
        i=self.n; self.n+=1; self.log.append((op,key))
        if self.fail_at is not None and i == self.fail_at:
            raise OSError("injected")
    async def set(self, key, value, byte_range=None):
        self._tick("set", key); return await super().set(key, value)
    async def set_if_not_exists(self, key, value):
        self._tick("setnx", key); return await super().set_if_not_exists(key, value)
    async def delete(self, key):
        self._tick("del", key); return await super().delete(key)
    def with_read_only(self, read_only=False): return self
def md(): return GeffMetadata(directed=True, node_props_metadata={}, edge_props_metadata={})
A = dict(node_ids=np.array([1,2,3],np.uint8), node_props={"a":{"values":np.array([1.,2.,3.]),"missing":np.array([1,0,0],bool)}}, edge_ids=np.array([[1,2]],np.uint8), edge_props={})
B = dict(node_ids=np.array([7,8,9],np.uint8), node_props={"a":{"values":np.array([4.,5.,6.]),"missing":None}}, edge_ids=np.array([[7,8],[8,9]],np.uint8), edge_props={})
def summary(g): return (g["node_ids"].tolist(), g["edge_ids"].tolist(), {k:(v["values"].tolist(), None if v["missing"] is None else v["missing"].tolist()) for k,v in g["node_props"].items()})
def outcome(s):
    s.fail_at=None
    try:
        g = read_to_memory(s)
        return ("READS", summary(g))
    except Exception as e:
        return ("REJECT", type(e).__name__)
for fmt in (2,):
  for overwrite in (False, True):
    # count ops
    s = Rec()
    if overwrite: write_arrays(s, metadata=md(), zarr_format=fmt, **A)
    n0 = s.n
    write_arrays(s, metadata=md(), zarr_format=fmt, overwrite=overwrite, **B)
    total = s.n - n0
    res = {}
    for k in range(total):
        s = Rec()
        if overwrite: write_arrays(s, metadata=md(), zarr_format=fmt, **A)
        s.fail_at = s.n + k
        try:
            write_arrays(s, metadata=md(), zarr_format=fmt, overwrite=overwrite, **B); r="completed"
        except Exception as e:
            r = type(e).__name__
        o = outcome(s)
        key = (r, o[0], str(o[1]))
        res.setdefault(key, []).append(k)
    print("fmt",fmt,"overwrite",overwrite,"total ops",total)
    for k,v in res.items(): print("   ", k, "at", v[:6], "..." if len(v)>6 else "")
