import warnings, json, math
warnings.simplefilter("ignore")
import numpy as np, zarr, jsonschema
from geff_spec import GeffMetadata, Axis, PropMetadata, RelatedObject, DisplayHint
from geff_spec._schema import _formatted_schema_json
pub = json.load(open('/repo/geff-schema.json'))
def T(name, f):
    try: print(name, "->", f())
    except BaseException as e: print(name, "EXC", type(e).__name__, str(e)[:300])
def full():
    return GeffMetadata(geff_version="1.2.3.dev4+gabc", directed=False,
        axes=[Axis(name="t", type="time", unit="second", min=0, max=10.5, scale=2.0, scaled_unit="minute", offset=-1.5), Axis(name="x", type="space", unit="wörld"), Axis(name="c", type="channel")],
        node_props_metadata={"t": PropMetadata(identifier="t", dtype="float64", unit="s", name="T", description="d"), "üñ": PropMetadata(identifier="üñ", dtype="str", varlength=False)},
        edge_props_metadata={"w": PropMetadata(identifier="w", dtype=np.dtype("uint8"), varlength=True)},
        sphere="r", ellipsoid="cov", track_node_props={"lineage":"lin","tracklet":"trk"},
        related_objects=[RelatedObject(type="labels", path="../seg", label_prop="seg_id"), RelatedObject(type="image", path="../raw"), RelatedObject(type="other", path="x")],
        display_hints=DisplayHint(display_horizontal="x", display_vertical="t", display_depth=None, display_time="t"),
        extra={"a":[1,2.5,None,True,{"b":"ü","c":[]}], "": {}, "big": 2**70})
def c08a():
    m = full()
    j = m.model_dump_json(); m2 = GeffMetadata.model_validate_json(j)
    d = m.model_dump(mode="json"); m3 = GeffMetadata.model_validate(json.loads(json.dumps(d)))
    jsonschema.validate({"geff": d}, pub)
    return m2 == m, m3 == m
T("C08 json roundtrip", c08a)
def c08b():
    out = []
    for fmt in (2,3):
        s = zarr.storage.MemoryStore()
        g = zarr.open_group(s, mode="a", zarr_format=fmt); g.attrs["foreign"] = {"k":[1,2]}; g.attrs["other"]=5
        m = full(); m.write(s); m2 = GeffMetadata.read(s)
        g2 = zarr.open_group(s, mode="r")
        out.append((fmt, m2 == m, dict(g2.attrs).keys()))
    return out
T("C08 zarr attrs roundtrip", c08b)
def c08c():
    m = GeffMetadata(directed=True, node_props_metadata={}, edge_props_metadata={}, axes=[Axis(name="x", min=float("nan"), max=float("nan"))])
    return m.model_dump(mode="json")["axes"], m.model_dump_json()
T("C08 NaN axis dump", c08c)
def c08d():
    m = GeffMetadata(directed=True, node_props_metadata={}, edge_props_metadata={}, axes=[Axis(name="x", min=-math.inf, max=math.inf)])
    d = m.model_dump(mode="json"); 
    s = zarr.storage.MemoryStore(); m.write(s); m2 = GeffMetadata.read(s)
    return d["axes"], m2 == m
T("C08 inf axis", c08d)
def c08e():
    m = GeffMetadata(directed=True, node_props_metadata={}, edge_props_metadata={}, extra={"f": float("nan")})
    s = zarr.storage.MemoryStore(); m.write(s); m2 = GeffMetadata.read(s)
    return m2.extra, m.model_dump_json()
T("C08 NaN extra", c08e)
def c08f():
    # tuple / numpy values in extra
    m = GeffMetadata(directed=True, node_props_metadata={}, edge_props_metadata={}, extra={"t": (1,2), "n": np.int64(3)})
    return m.model_dump(mode="json")["extra"]
T("C08 extra tuple/np", c08f)
def c08g():
    # unknown top-level key
    d = full().model_dump(mode="json"); d["unknown"] = 1
    try:
        jsonschema.validate({"geff": d}, pub); sv = "schema-accepts"
    except jsonschema.ValidationError: sv = "schema-rejects"
    try:
        GeffMetadata.model_validate(d); mv="model-accepts"
    except Exception: mv="model-rejects"
    return sv, mv
T("C08 unknown key", c08g)
def c08h():
    d = full().model_dump(mode="json")
    res = {}
    for k in list(d):
        dd = dict(d); del dd[k]
        try: jsonschema.validate({"geff": dd}, pub); sv=True
        except jsonschema.ValidationError: sv=False
        try: GeffMetadata.model_validate(dd); mv=True
        except Exception: mv=False
        res[k]=(sv,mv)
    return res
T("C08 drop each key (schema,model)", c08h)
print(json.dumps(full().model_dump(mode="json"))[:600])
