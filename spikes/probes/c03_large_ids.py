import warnings
warnings.simplefilter("ignore")
import numpy as np, zarr, networkx as nx
import geff
from geff.core_io import read_to_memory
g = nx.DiGraph(); g.add_node(5, x=1.5); g.add_node(2**64-1, x=2.5); g.add_node(7, x=0.0); g.add_edge(5,7,w=1); g.add_edge(7,5)
s = zarr.storage.MemoryStore(); geff.write(g, s)
m = read_to_memory(s); print(m["node_ids"].dtype, m["node_ids"].tolist(), m["edge_ids"].tolist())
a = np.asarray([5, 2**64-1, 7]); print(a.dtype, a)
a = np.asarray([5, 2**63, 7]); print(a.dtype, a, a.astype("uint"))
g = nx.DiGraph(); g.add_node(5); g.add_node(2**63+1); g.add_edge(5, 2**63+1)
s = zarr.storage.MemoryStore(); geff.write(g, s)
m = read_to_memory(s); print(m["node_ids"].dtype, m["node_ids"].tolist(), m["edge_ids"].tolist())
g = nx.DiGraph(); g.add_node(2**64-1); g.add_node(2**63+1)
s = zarr.storage.MemoryStore(); geff.write(g, s)
m = read_to_memory(s); print(m["node_ids"].dtype, m["node_ids"].tolist(), m["edge_ids"].tolist())
