import warnings
warnings.simplefilter("ignore")
from typing import Any
import geff_spec
from geff_spec import GeffMetadata, Axis, PropMetadata, DisplayHint
import copy

class Fixed(GeffMetadata):
    def __setattr__(self, name: str, value: Any) -> None:
        # pydantic applies the assignment before running "after" model validators and does
        # not roll it back when they fail, so restore the previous state ourselves
        old_dict = self.__dict__.copy()
        old_fields_set = self.__pydantic_fields_set__.copy()
        try:
            super().__setattr__(name, value)
        except Exception:
            object.__setattr__(self, "__dict__", old_dict)
            object.__setattr__(self, "__pydantic_fields_set__", old_fields_set)
            raise

m = Fixed(directed=True, node_props_metadata={}, edge_props_metadata={}, axes=[Axis(name="x"), Axis(name="y")])
before = m.model_dump()
for field, val in [("axes", [Axis(name="x"), Axis(name="x")]), ("node_props_metadata", {"a": PropMetadata(identifier="b", dtype="int8")}), ("geff_version", "abc"), ("display_hints", DisplayHint(display_horizontal="q", display_vertical="y"))]:
    try:
        setattr(m, field, val); print(field, "NO ERROR")
    except Exception as e:
        print(field, type(e).__name__, "unchanged" if m.model_dump()==before else "CHANGED")
m.axes = [Axis(name="z")]; print([a.name for a in m.axes], m.model_fields_set)
m2 = m.model_copy(); m2.directed=False; print(m.directed, m2.directed)
m3 = copy.deepcopy(m); print(m3 == m)
