import warnings, random
warnings.simplefilter("ignore")
import numpy as np, zarr, networkx as nx
import geff
rng = random.Random(2)
def kind(v):
    if isinstance(v, bool): return "bool"
    if isinstance(v, int): return "int"
    if isinstance(v, float): return "float"
    if isinstance(v, str): return "str"
    if isinstance(v, (list, np.ndarray)): return "array"
    return type(v).__name__
def val(k):
    if k=="bool": return rng.random()<.5
    if k=="int": return rng.choice([0,1,-5,2**40,-2**62])
    if k=="bigint": return rng.choice([2**63, 2**64-1, 2**63+7])
    if k=="float": return rng.choice([0.0,1.5,-2.5,float("inf"), 1e300])
    if k=="str": return rng.choice(["","a","äö","zz z"])
    if k=="list": return [rng.choice([1,2,3]) for _ in range(3)]
    if k=="flist": return [rng.choice([1.5,2.5]) for _ in range(2)]
    if k=="ragged": return [rng.choice([1,2,3]) for _ in range(rng.choice([0,1,2,3]))]
    if k=="nested": return [[1,2],[3,4]]
def same(a,b):
    if kind(a)!=kind(b): return False
    if kind(a)=="array": return np.array_equal(np.asarray(a), np.asarray(b)) and np.asarray(a).dtype.kind==np.asarray(b).dtype.kind
    return a==b
fails = {}
for it in range(1500):
    directed = rng.random()<.5
    g = nx.DiGraph() if directed else nx.Graph()
    n = rng.choice([0,1,2,3,5])
    ids = rng.sample([0,1,2,3,7,100,2**31,2**62], n)
    props = {f"p{i}": rng.choice(["bool","int","bigint","float","str","list","flist","ragged","nested"]) for i in range(rng.choice([0,1,2,3]))}
    for i in ids:
        g.add_node(i, **{p: val(k) for p,k in props.items() if rng.random()<.7})
    eprops = {f"e{i}": rng.choice(["bool","int","float","str","list","ragged"]) for i in range(rng.choice([0,1,2]))}
    for _ in range(rng.choice([0,1,2,4])):
        if n>=2:
            a,b = rng.sample(ids,2); g.add_edge(a,b, **{p: val(k) for p,k in eprops.items() if rng.random()<.7})
    s = zarr.storage.MemoryStore()
    try:
        geff.write(g, s, zarr_format=rng.choice([2,3])); g2, m = geff.read(s)
    except Exception as e:
        fails.setdefault(("EXC", type(e).__name__, str(e)[:80]), []).append((it, props, eprops)); continue
    if set(g.nodes)!=set(g2.nodes) or g.is_directed()!=g2.is_directed(): fails.setdefault(("nodes",),[]).append(it); continue
    e1 = set(g.edges) if directed else {frozenset(e) for e in g.edges}; e2 = set(g2.edges) if directed else {frozenset(e) for e in g2.edges}
    if e1!=e2: fails.setdefault(("edges",),[]).append(it); continue
    for i in g.nodes:
        a, b = g.nodes[i], g2.nodes[i]
        if set(a)!=set(b): fails.setdefault(("node attr set",),[]).append((it,i,a,b)); continue
        for k in a:
            if not same(a[k], b[k]): fails.setdefault(("node attr", props[k], kind(a[k]), kind(b[k])),[]).append((it,i,a[k],b[k]))
    for u,v in g.edges:
        a, b = g.edges[u,v], g2.edges[u,v]
        if set(a)!=set(b): fails.setdefault(("edge attr set",),[]).append((it,a,b)); continue
        for k in a:
            if not same(a[k], b[k]): fails.setdefault(("edge attr", eprops[k], kind(a[k]), kind(b[k])),[]).append((it,a[k],b[k]))
for k,v in fails.items(): print(k, len(v), str(v[:2])[:300])
print("done")
