import warnings
warnings.simplefilter("ignore")
import numpy as np, zarr
from geff.core_io import write_arrays
from geff import GeffReader, GeffMetadata
def md(): return GeffMetadata(directed=True, node_props_metadata={}, edge_props_metadata={})
s = zarr.storage.MemoryStore()
write_arrays(s, np.array([10,11,12,13],np.uint8), {"p2":{"values":np.arange(12).reshape(4,3),"missing":np.array([0,1,0,0],bool)}, "p3":{"values":np.arange(24).reshape(4,3,2),"missing":None}, "st":{"values":np.array(["a","b","c","d"]),"missing":None}}, np.array([[10,11],[11,12],[12,13],[13,10]],np.uint8), {"w":{"values":np.arange(8).reshape(4,2),"missing":None}}, md())
r = GeffReader(s); r.read_node_props(); r.read_edge_props()
for nm, em in [(np.array([1,1,0,1],bool), None), (None, np.array([1,0,1,0],bool)), (np.array([1,1,0,1],bool), np.array([1,0,1,1],bool)), (np.zeros(4,bool), None), (np.ones(4,bool), np.ones(4,bool))]:
    try:
        o = r.build(nm, em)
        print(o["node_ids"].tolist(), o["edge_ids"].tolist(), {k:(v["values"].tolist(), None if v["missing"] is None else v["missing"].tolist()) for k,v in o["node_props"].items()}, {k:v["values"].tolist() for k,v in o["edge_props"].items()})
    except Exception as e:
        print("EXC", type(e).__name__, str(e)[:200])
r2 = GeffReader(s); r2.read_node_props(["p2"]); o = r2.build(); print(list(o["node_props"]), list(o["metadata"].node_props_metadata), list(o["edge_props"]), list(o["metadata"].edge_props_metadata))
