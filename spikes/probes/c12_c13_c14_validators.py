import warnings, sys, os, tempfile, traceback, shutil
warnings.simplefilter("ignore")
import numpy as np, zarr, networkx as nx
import geff, geff_spec
from geff.core_io import write_arrays, read_to_memory, construct_var_len_props, write_dicts
from geff import GeffReader, GeffMetadata
from geff_spec import Axis, PropMetadata
from geff.validate.data import validate_data, ValidationConfig
from geff.validate.tracks import validate_tracklets, validate_lineages
from geff.validate.graph import *
from geff.validate.shapes import *
def md(directed=True, **kw):
    return GeffMetadata(directed=directed, node_props_metadata={}, edge_props_metadata={}, **kw)
def T(name, f):
    try:
        print(name, "->", f())
    except BaseException as e:
        print(name, "EXC", type(e).__name__, str(e)[:300])

# C12
def c12a():
    mg = dict(metadata=md(directed=False), node_ids=np.array([1,2,3]), edge_ids=np.array([[1,2],[2,1]]), node_props={}, edge_props={})
    validate_data(mg, ValidationConfig(graph=True)); return "passed undirected dup"
T("C12 undirected dup", c12a)
def c12b():
    ax=[Axis(name="x",type="space"),Axis(name="y",type="space"),Axis(name="z",type="space")]
    cov = np.stack([np.eye(3)]*2)
    validate_ellipsoid(cov, ax); return "passed 3D"
T("C12 3D ellipsoid valid", c12b)
def c12c():
    ax=[Axis(name="x",type="space"),Axis(name="y",type="space")]
    cov = np.stack([np.eye(2)]*2)
    validate_ellipsoid(cov, ax); return "passed 2D"
T("C12 2D ellipsoid valid", c12c)
def c12c2():
    ax=[Axis(name="x",type="space"),Axis(name="y",type="space")]
    cov = np.stack([np.eye(3)]*2)
    validate_ellipsoid(cov, ax); return "passed 3x3 with 2 space axes"
T("C12 3x3 in 2D", c12c2)
def c12d():
    m = md(sphere="r"); 
    mg = dict(metadata=m, node_ids=np.array([1,2]), edge_ids=np.zeros((0,2),int), node_props={"r":{"values":np.array([1.0,-1.0]),"missing":np.array([False,True])}}, edge_props={})
    validate_data(mg, ValidationConfig(sphere=True)); return "passed"
T("C12 sphere missing negative", c12d)
def c12e():
    m = md(ellipsoid="c", axes=[Axis(name="x",type="space"),Axis(name="y",type="space")]); 
    mg = dict(metadata=m, node_ids=np.array([1,2]), edge_ids=np.zeros((0,2),int), node_props={"c":{"values":np.stack([np.eye(2),np.zeros((2,2))]),"missing":np.array([False,True])}}, edge_props={})
    validate_data(mg, ValidationConfig(ellipsoid=True)); return "passed"
T("C12 ellipsoid missing zero", c12e)
def c12f():
    big = np.array([2**64-1, 2**63, 0], dtype=np.uint64)
    e = np.array([[2**64-1, 2**63],[0, 2**64-1]], dtype=np.uint64)
    return validate_unique_node_ids(big), validate_nodes_for_edges(big, e), validate_no_self_edges(e), validate_no_repeated_edges(e)
T("C12 uint64 extremes", c12f)
def c12g():
    e = np.zeros((0,2), dtype=np.uint64)
    return validate_nodes_for_edges(np.array([],dtype=np.uint64), e), validate_no_self_edges(e), validate_no_repeated_edges(e), validate_unique_node_ids(np.array([],dtype=np.uint64))
T("C12 empty", c12g)
def c12h():
    m = md(sphere="r"); 
    mg = dict(metadata=m, node_ids=np.array([1,2]), edge_ids=np.zeros((0,2),int), node_props={}, edge_props={})
    validate_data(mg, ValidationConfig(sphere=True)); return "passed"
T("C12 sphere declared but prop not loaded", c12h)

# C13
def c13a():
    # a->b->c, b->d ; labels a,b,c = 1 ; d=2
    return validate_tracklets([1,2,3,4], [[1,2],[2,3],[2,4]], [1,1,1,2])
T("C13 through division", c13a)
def c13b():
    # a->b ; labels a=1, b=2 : single-node tracklets extendable
    return validate_tracklets([1,2], [[1,2]], [1,2])
T("C13 single-node extendable", c13b)
def c13c():
    # a->b->c labels 1,1,2 : tracklet 1 extendable forward to c; tracklet 2 is single
    return validate_tracklets([1,2,3], [[1,2],[2,3]], [1,1,2])
T("C13 extendable", c13c)
def c13d():
    # merge: a->c, b->c, c->d. correct: a:1,b:2,c:3,d:3
    return validate_tracklets([1,2,3,4], [[1,3],[2,3],[3,4]], [1,2,3,3]), validate_tracklets([1,2,3,4], [[1,3],[2,3],[3,4]], [1,2,1,1])
T("C13 merge", c13d)
def c13e():
    # two disjoint single nodes with same id
    return validate_tracklets([1,2], np.zeros((0,2),int), [5,5])
T("C13 same id two isolated", c13e)
def c13f():
    return validate_tracklets([1,2,3,4], [[1,2],[3,4]], [5,5,5,5])
T("C13 same id two chains", c13f)
def c13g():
    return validate_tracklets([1,2,3], [[1,2],[3,2]], [5,5,6]), validate_tracklets([1,2,3], [[1,2],[3,2]], [5,6,7])
T("C13 merge target shares with one parent", c13g)
# C14
def c14a():
    return validate_lineages([1,2,3],[[1,2]],[1,1,2]), validate_lineages([1,2,3],[[1,2]],[1,1,1]), validate_lineages([1,2,3],[[1,2]],[1,2,3]), validate_lineages([1,2],[[1,5]],[1,2])
T("C14 basics", c14a)
def c14b():
    return validate_lineages([1,2,3,4],[[1,2],[3,4]],[1,1,1,1])
T("C14 join", c14b)
