import warnings, sys, os, tempfile, traceback
warnings.simplefilter("ignore")
import numpy as np, zarr
import geff, geff_spec
print(geff.__file__)
from geff.core_io import write_arrays, read_to_memory, construct_var_len_props
from geff import GeffReader, GeffMetadata
from geff_spec import Axis, PropMetadata

def md(**kw):
    return GeffMetadata(directed=True, node_props_metadata={}, edge_props_metadata={}, **kw)

# C09 varlength with mask
store = zarr.storage.MemoryStore()
vl = construct_var_len_props([[1,2,3],[4],[5,6],[7,8,9,10]])
write_arrays(store, np.array([10,11,12,13],dtype=np.uint8), {"v": vl, "s": {"values": np.array([1.,2.,3.,4.]), "missing": np.array([0,1,0,0],bool)}}, np.array([[10,11],[11,12],[12,13]],dtype=np.uint8), {}, md())
r = GeffReader(store); r.read_node_props(); r.read_edge_props()
try:
    out = r.build(node_mask=np.array([False,True,True,False]))
    print("C09 masked varlength:", out["node_ids"], [a.tolist() for a in out["node_props"]["v"]["values"]], out["node_props"]["s"], out["edge_ids"].tolist())
except Exception as e:
    print("C09 masked varlength EXC", type(e), e)
try:
    out = r.build(node_mask=np.array([True,True,True,True]))
    print("C09 all-true varlength:", [a.tolist() for a in out["node_props"]["v"]["values"]])
except Exception as e:
    print("C09 alltrue varlength EXC", type(e), e)
