import warnings, sys, os, tempfile, traceback, shutil, pathlib
warnings.simplefilter("ignore")
import numpy as np, zarr, networkx as nx
import geff, geff_spec
from geff.core_io import write_arrays, read_to_memory, construct_var_len_props, write_dicts
from geff import GeffReader, GeffMetadata
from geff_spec import Axis, PropMetadata
from geff.convert import geff_to_dataframes, geff_to_csv
def md(directed=True, **kw):
    return GeffMetadata(directed=directed, node_props_metadata={}, edge_props_metadata={}, **kw)
def T(name, f):
    try:
        print(name, "->", f())
    except BaseException as e:
        print(name, "EXC", type(e).__name__, str(e)[:300])
def c17a():
    s = zarr.storage.MemoryStore()
    write_arrays(s, np.array([7],np.uint8), {"p":{"values":np.array([[1.,2.,3.]]),"missing":None},"q":{"values":np.array([5]),"missing":None}}, np.zeros((0,2),np.uint8), {}, md())
    n,e = geff_to_dataframes(s); return n.to_dict(), e.to_dict()
T("C17 N=1 (1,3)", c17a)
def c17b():
    s = zarr.storage.MemoryStore()
    write_arrays(s, np.array([7,8],np.uint8), {"p":{"values":np.array([[1.,2.,3.],[4,5,6]]),"missing":np.array([True,False])},"q":{"values":np.array([[5],[6]]),"missing":None},"r":{"values":np.zeros((2,1,3)),"missing":None},"s":{"values":np.zeros((2,2,2)),"missing":None},"st":{"values":np.array(["a",""]),"missing":np.array([False,True])}}, np.array([[7,8]],np.uint8), {"w":{"values":np.array([[1,2]]),"missing":None}}, md())
    n,e = geff_to_dataframes(s); return n.to_dict(), e.to_dict()
T("C17 N=2", c17b)
def c17c():
    s = zarr.storage.MemoryStore()
    write_arrays(s, np.array([],np.uint8), {"p":{"values":np.zeros((0,3)),"missing":None}}, np.zeros((0,2),np.uint8), {}, md())
    n,e = geff_to_dataframes(s); return n.to_dict(), e.to_dict(), list(n.columns), list(e.columns)
T("C17 empty", c17c)
def c17d():
    s = zarr.storage.MemoryStore()
    write_arrays(s, np.array([2**64-1, 3],np.uint64), {"i":{"values":np.array([2**63, 1],np.uint64),"missing":np.array([False,True])}}, np.array([[3,2**64-1]],np.uint64), {}, md())
    d = tempfile.mkdtemp()
    geff_to_csv(s, os.path.join(d,"out.csv"))
    import pandas as pd
    n = pd.read_csv(os.path.join(d,"out-nodes.csv"), index_col=0); e = pd.read_csv(os.path.join(d,"out-edges.csv"), index_col=0)
    r = n.to_dict(), n.dtypes.to_dict(), e.to_dict()
    try:
        geff_to_csv(s, os.path.join(d,"out.csv")); r += ("second write succeeded!",)
    except FileExistsError: r += ("FileExistsError ok",)
    return r
T("C17 csv", c17d)
