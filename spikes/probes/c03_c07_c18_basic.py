import warnings, sys, os, tempfile, traceback, shutil
warnings.simplefilter("ignore")
import numpy as np, zarr, networkx as nx
import geff, geff_spec
from geff.core_io import write_arrays, read_to_memory, construct_var_len_props, write_dicts
from geff import GeffReader, GeffMetadata
from geff_spec import Axis, PropMetadata
def md(directed=True, **kw):
    return GeffMetadata(directed=directed, node_props_metadata={}, edge_props_metadata={}, **kw)
def T(name, f):
    try:
        print(name, "->", f())
    except BaseException as e:
        print(name, "EXC", type(e).__name__, str(e)[:200])

# C03 bool with missing via nx
def c03():
    g = nx.DiGraph(); g.add_node(1, flag=True); g.add_node(2); g.add_node(3, flag=False); g.add_edge(1,2)
    s = zarr.storage.MemoryStore(); geff.write(g, s)
    g2, m = geff.read(s)
    return dict(g2.nodes(data=True)), m.node_props_metadata
T("C03 bool missing", c03)

# C07 rollback
def c07():
    m = md(axes=[Axis(name="x"), Axis(name="y")])
    before = m.model_dump()
    try:
        m.axes = [Axis(name="x"), Axis(name="x")]
        return "no error!"
    except Exception as e:
        return ("raised", type(e).__name__, "unchanged" if m.model_dump()==before else "CHANGED: %s" % [a.name for a in m.axes])
T("C07 rollback dup axes", c07)
def c07b():
    m = md()
    before = m.model_dump()
    try:
        m.node_props_metadata = {"a": PropMetadata(identifier="b", dtype="int8")}
        return "no error!"
    except Exception as e:
        return ("raised", type(e).__name__, "unchanged" if m.model_dump()==before else "CHANGED")
T("C07 rollback key!=identifier", c07b)
def c07c():
    m = md()
    before = m.model_dump()
    try:
        m.geff_version = "abc"
        return "no error!"
    except Exception as e:
        return ("raised", type(e).__name__, "unchanged" if m.model_dump()==before else "CHANGED")
T("C07 rollback version", c07c)
def c07d():
    from geff_spec import DisplayHint
    m = md(axes=[Axis(name="x"), Axis(name="y")], display_hints=DisplayHint(display_horizontal="x", display_vertical="y"))
    before = m.model_dump()
    try:
        m.axes = [Axis(name="x"), Axis(name="z")]
        return "no error!"
    except Exception as e:
        return ("raised", type(e).__name__, "unchanged" if m.model_dump()==before else "CHANGED")
T("C07 rollback display hints", c07d)

# C18 read on missing path
def c18():
    d = tempfile.mkdtemp(); p = os.path.join(d, "nope.zarr")
    try:
        GeffMetadata.read(p)
    except Exception as e:
        r = type(e).__name__
    return r, os.path.exists(p), os.listdir(d)
T("C18 GeffMetadata.read missing path", c18)
def c18b():
    d = tempfile.mkdtemp(); p = os.path.join(d, "nope.zarr")
    try:
        geff.validate_structure(p)
    except Exception as e:
        r = type(e).__name__
    return r, os.path.exists(p)
T("C18 validate_structure missing path", c18b)
def c18c():
    s = zarr.storage.MemoryStore()
    try:
        GeffMetadata.read(s)
    except Exception as e:
        r = type(e).__name__
    return r, dict(s._store_dict)
T("C18 GeffMetadata.read empty memstore", c18c)
def c18d():
    s = zarr.storage.MemoryStore()
    try:
        geff.validate_structure(s)
    except Exception as e:
        r = type(e).__name__, str(e)[:100]
    return r, dict(s._store_dict)
T("C18 validate_structure empty memstore", c18d)
