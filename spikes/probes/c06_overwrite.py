import warnings, sys, os, tempfile, traceback, shutil, pathlib
warnings.simplefilter("ignore")
import numpy as np, zarr, networkx as nx
import geff, geff_spec
from geff.core_io import write_arrays, read_to_memory
from geff import GeffReader, GeffMetadata
from geff_spec import Axis, PropMetadata
def md(directed=True, **kw):
    return GeffMetadata(directed=directed, node_props_metadata={}, edge_props_metadata={}, **kw)
def T(name, f):
    try:
        print(name, "->", f())
    except BaseException as e:
        print(name, "EXC", type(e).__name__, str(e)[:300]); 
def snap(s):
    if isinstance(s, zarr.storage.MemoryStore):
        return {k: bytes(v.to_bytes()) for k,v in s._store_dict.items()}
    out = {}
    for dp, dn, fn in os.walk(s):
        for f in fn:
            p = os.path.join(dp,f); out[os.path.relpath(p,s)] = open(p,'rb').read()
    return out
A = dict(node_ids=np.array([1,2,3],np.uint8), node_props={"a":{"values":np.array([1.,2.,3.]),"missing":None},"b":{"values":np.array([1,2,3]),"missing":np.array([1,0,0],bool)}}, edge_ids=np.array([[1,2]],np.uint8), edge_props={"w":{"values":np.array([.5]),"missing":None}})
B = dict(node_ids=np.array([5],np.uint16), node_props={"c":{"values":np.array([9]),"missing":None}}, edge_ids=np.zeros((0,2),np.uint16), edge_props={})
def c06(kind, fmtA=2, fmtB=2, sib=False):
    d = tempfile.mkdtemp()
    if kind=="mem": s = zarr.storage.MemoryStore()
    elif kind=="str": s = os.path.join(d,"g.zarr")
    elif kind=="path": s = pathlib.Path(d)/"g.zarr"
    elif kind=="local": s = zarr.storage.LocalStore(os.path.join(d,"g.zarr"))
    if sib:
        r = zarr.open_group(s, mode="a", zarr_format=fmtA); r["raw"] = np.arange(4); r.attrs["other"]=1
    write_arrays(s, metadata=md(extra={"k":1}), zarr_format=fmtA, **A)
    s1 = snap(s if kind in("mem",) else os.path.join(d,"g.zarr"))
    try:
        write_arrays(s, metadata=md(), zarr_format=fmtB, **B); r1="NO ERROR"
    except FileExistsError: r1="FEE"
    s2 = snap(s if kind in("mem",) else os.path.join(d,"g.zarr"))
    write_arrays(s, metadata=md(), zarr_format=fmtB, overwrite=True, **B)
    s3 = snap(s if kind in("mem",) else os.path.join(d,"g.zarr"))
    # fresh
    d2 = tempfile.mkdtemp()
    if kind=="mem": f = zarr.storage.MemoryStore()
    elif kind=="str": f = os.path.join(d2,"g.zarr")
    elif kind=="path": f = pathlib.Path(d2)/"g.zarr"
    elif kind=="local": f = zarr.storage.LocalStore(os.path.join(d2,"g.zarr"))
    if sib:
        r = zarr.open_group(f, mode="a", zarr_format=fmtB); r["raw"] = np.arange(4); r.attrs["other"]=1
    write_arrays(f, metadata=md(), zarr_format=fmtB, **B)
    s4 = snap(f if kind in("mem",) else os.path.join(d2,"g.zarr"))
    return r1, "unchanged" if s1==s2 else "CHANGED", "same-as-fresh" if s3==s4 else ("DIFF", sorted(set(s3)^set(s4)), [k for k in s3 if k in s4 and s3[k]!=s4[k]])
for kind in ["mem","str","path","local"]:
    for sib in (False, True):
        T(f"C06 {kind} sib={sib}", lambda: c06(kind, sib=sib))
T("C06 mem fmt 3->2", lambda: c06("mem",3,2))
T("C06 path fmt 3->2", lambda: c06("path",3,2))
T("C06 path fmt 2->3", lambda: c06("path",2,3))
T("C06 mem fmt 2->3 sib", lambda: c06("mem",2,3,True))
