import warnings, os, tempfile, pathlib, hashlib
warnings.simplefilter("ignore")
import numpy as np, zarr, tifffile
from geff.core_io import write_arrays, read_to_memory
from geff import GeffMetadata, validate_structure
from geff_spec import PropMetadata
from geff.convert import from_ctc_to_geff, from_trackmate_xml_to_geff
def T(name, f):
    try: print(name, "->", f())
    except BaseException as e: print(name, "EXC", type(e).__name__, str(e)[:200])
def snapdir(p):
    out = {}
    for dp, dn, fn in os.walk(p):
        for f in fn:
            q = os.path.join(dp,f); out[os.path.relpath(q,p)] = hashlib.md5(open(q,'rb').read()).hexdigest()
    return out
def md(**kw): return GeffMetadata(directed=True, node_props_metadata=kw.pop("npm",{}), edge_props_metadata={}, **kw)
# C05 cleanup with foreign members, memory store, both formats
def cleanup(fmt, kind):
    if kind=="mem": s = zarr.storage.MemoryStore(); snap = lambda: {k: bytes(v.to_bytes()) for k,v in s._store_dict.items()}
    else:
        d = tempfile.mkdtemp(); s = zarr.storage.LocalStore(os.path.join(d,"c.zarr")); snap = lambda: snapdir(os.path.join(d,"c.zarr"))
    r = zarr.open_group(s, mode="a", zarr_format=fmt); r["raw"] = np.arange(5); r.attrs["foreign"] = {"a":1}
    before = snap()
    try:
        write_arrays(s, np.array([1,2],np.uint8), {"p":{"values":np.array([1,2,3]),"missing":None}}, np.zeros((0,2),np.uint8), {}, md(), zarr_format=fmt)  # wrong length -> invalid
        res = "NO ERROR"
    except ValueError as e: res = "ValueError"
    after = snap()
    extra = sorted(set(after)-set(before)); lost = sorted(set(before)-set(after)); changed = [k for k in before if k in after and before[k]!=after[k]]
    return res, "extra:", extra, "lost:", lost, "changed:", changed
for fmt in (2,3):
    for kind in ("mem","local"):
        T(f"C05 cleanup foreign fmt{fmt} {kind}", lambda: cleanup(fmt, kind))
# invalid input: metadata naming absent property; path store (no foreign)
def cleanup_path(fmt):
    d = pathlib.Path(tempfile.mkdtemp())/"g.zarr"
    try:
        write_arrays(d, np.array([1,2],np.uint8), {}, np.zeros((0,2),np.uint8), {}, md(npm={"gone":PropMetadata(identifier="gone",dtype="int8")}), zarr_format=fmt); res="NO ERROR"
    except ValueError: res="ValueError"
    return res, d.exists(), snapdir(d) if d.exists() else None
for fmt in (2,3): T(f"C05 cleanup path fmt{fmt}", lambda: cleanup_path(fmt))
# C06 converters guard
def ctc_guard():
    d = pathlib.Path(tempfile.mkdtemp())/"TRA"; d.mkdir()
    a = np.zeros((5,5),np.uint16); a[1,1]=1
    tifffile.imwrite(d/"man_track000.tif", a); tifffile.imwrite(d/"man_track001.tif", a)
    (d/"man_track.txt").write_text("1 0 1 0\n2 0 1 0\n")
    out = d.parent/"o.geff"
    from_ctc_to_geff(d, out); b = snapdir(out)
    try: from_ctc_to_geff(d, out); r="NO ERROR"
    except FileExistsError: r="FEE"
    same = snapdir(out)==b
    from_ctc_to_geff(d, out, overwrite=True)
    return r, same, snapdir(out)==b
T("C06 ctc guard", ctc_guard)
