import warnings, random, copy, json
warnings.simplefilter("ignore")
import numpy as np, zarr
from geff_spec import GeffMetadata, Axis, PropMetadata, DisplayHint, RelatedObject
from geff_spec.utils import update_metadata_axes, create_or_update_metadata, add_or_update_props_metadata, axes_from_lists, compute_and_add_axis_min_max
import re
from geff_spec._schema import VERSION_PATTERN
from geff_spec._valid_values import VALID_DTYPES
rng = random.Random(6)
def valid(d):
    errs = []
    if not re.match(VERSION_PATTERN, d["geff_version"]): errs.append("version")
    ax = d["axes"]
    if ax is not None:
        names = [a["name"] for a in ax]
        if len(set(names))!=len(names): errs.append("dup axes")
        for a in ax:
            if (a["min"] is None)!=(a["max"] is None): errs.append("minmax")
            elif a["min"] is not None and a["min"]>a["max"]: errs.append("min>max")
            if a["scaled_unit"] and a["scale"] is None: errs.append("scaled_unit")
        h = d["display_hints"]
        if h is not None:
            for k in ("display_horizontal","display_vertical","display_depth","display_time"):
                if h[k] is not None and h[k] not in names: errs.append("hint "+k)
    for grp in ("node_props_metadata","edge_props_metadata"):
        for k,p in d[grp].items():
            if k!=p["identifier"]: errs.append("key!=id")
            if p["dtype"] not in VALID_DTYPES: errs.append("dtype")
    for r in d["related_objects"] or []:
        if r["label_prop"] is not None and r["type"]!="labels": errs.append("label_prop")
    return errs
def rand_axis(name=None):
    name = name or rng.choice(["x","y","z","t"])
    kw = dict(name=name, type=rng.choice([None,"space","time","channel"]), unit=rng.choice([None,"meter","second","foo"]))
    r = rng.random()
    if r<.3: kw.update(min=1.0, max=2.0)
    elif r<.4: kw.update(min=3.0, max=2.0)
    elif r<.5: kw.update(min=1.0)
    if rng.random()<.2: kw.update(scaled_unit="nm", scale=rng.choice([None,2.0]))
    return kw
def rand_value(field):
    if field=="geff_version": return rng.choice(["1.0","0.1.2","1.2.dev3+abc","abc","1","v1.0", 5])
    if field=="directed": return rng.choice([True, False, "maybe", None])
    if field=="axes":
        k = rng.choice([0,1,2,3]); names = [rng.choice(["x","y","z","t"]) for _ in range(k)]
        out = []
        for n in names:
            try: out.append(Axis(**rand_axis(n)))
            except Exception: out.append(rand_axis(n))
        return rng.choice([None, out])
    if field in ("node_props_metadata","edge_props_metadata"):
        d = {}
        for i in range(rng.choice([0,1,2])):
            key = rng.choice(["a","b","c"]); ident = key if rng.random()<.7 else "zz"
            dt = rng.choice(["int8","float64","str","float16","complex64","bool", "uint64"])
            try: d[key] = PropMetadata(identifier=ident, dtype=dt)
            except Exception: d[key] = {"identifier": ident, "dtype": dt}
        return d
    if field=="display_hints":
        return rng.choice([None, {"display_horizontal": rng.choice(["x","y","q"]), "display_vertical": rng.choice(["x","y"]), "display_depth": rng.choice([None,"z","w"]), "display_time": rng.choice([None,"t"])}])
    if field=="related_objects":
        return rng.choice([None, [{"type": rng.choice(["labels","image","other"]), "path":"p", "label_prop": rng.choice([None,"seg"])}]])
    if field in ("sphere","ellipsoid"): return rng.choice([None,"r",5])
    if field=="track_node_props": return rng.choice([None, {"lineage":"l"}, {"tracklet":"t","lineage":"l"}, {"bogus":"x"}])
    if field=="extra": return rng.choice([{}, {"a":1}, None, [1]])
FIELDS = ["geff_version","directed","axes","node_props_metadata","edge_props_metadata","display_hints","related_objects","sphere","ellipsoid","track_node_props","extra"]
stats = {}
def bump(k, ex=None):
    stats.setdefault(k, [0, None]); stats[k][0]+=1
    if ex is not None and stats[k][1] is None: stats[k][1]=ex
for it in range(3000):
    try:
        m = GeffMetadata(directed=True, node_props_metadata={}, edge_props_metadata={}, **{f: rand_value(f) for f in rng.sample(FIELDS[2:], 3)})
    except Exception as e:
        bump(("construct", "rejected")); continue
    e0 = valid(m.model_dump())
    bump(("construct","accepted", "VALID" if not e0 else "INVALID:"+",".join(e0)), m.model_dump() if e0 else None)
    for step in range(4):
        f = rng.choice(FIELDS); v = rand_value(f); before = m.model_dump()
        try:
            setattr(m, f, v); r="ok"
        except Exception as e:
            r="raised"
        after = m.model_dump(); e1 = valid(after)
        if r=="raised":
            bump(("assign", f, "raised", "unchanged" if after==before else "CHANGED", "valid-after" if not e1 else "INVALID-after"), (f, str(v)[:80]))
            if after!=before:  # restore to continue
                m = GeffMetadata.model_validate(before) if not valid(before) else m
        else:
            bump(("assign", f, "ok", "valid-after" if not e1 else "INVALID-after:"+",".join(e1)), (f, str(v)[:80]) if e1 else None)
for k in sorted(stats, key=str):
    if "INVALID" in str(k) or "CHANGED" in str(k): print(k, stats[k][0], str(stats[k][1])[:160])
print({k[:3]: v[0] for k,v in stats.items() if k[0]=="construct"})
print("done")
