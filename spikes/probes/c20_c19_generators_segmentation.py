import warnings, sys, os, tempfile, traceback, shutil
warnings.simplefilter("ignore")
import numpy as np, zarr, networkx as nx
import geff, geff_spec
from geff.core_io import write_arrays, read_to_memory, construct_var_len_props, write_dicts
from geff import GeffReader, GeffMetadata
from geff_spec import Axis, PropMetadata
from geff.testing.data import *
from geff.validate.data import validate_data, ValidationConfig
from geff.validate.segmentation import *
def md(directed=True, **kw):
    return GeffMetadata(directed=directed, node_props_metadata={}, edge_props_metadata={}, **kw)
def T(name, f):
    try:
        print(name, "->", f())
    except BaseException as e:
        print(name, "EXC", type(e).__name__, str(e)[:300])
# C20
def c20(n, m, directed):
    g = create_dummy_in_mem_geff("uint8", {"position":"float64","time":"float64"}, directed, n, m)
    e = g["edge_ids"].tolist()
    maxp = n*(n-1) if directed else n*(n-1)//2
    want = min(m, maxp)
    key = (lambda x: tuple(x)) if directed else (lambda x: tuple(sorted(x)))
    dup = len(set(map(key, e))) != len(e)
    self_ = any(a==b for a,b in e)
    return len(e), want, "DUP" if dup else "", "SELF" if self_ else ""
bad = []
for directed in (False, True):
    for n in range(0, 9):
        for m in range(0, n*(n-1)+3):
            try:
                got, want, dup, s = c20(n, m, directed)
                if got != want or dup or s: bad.append((directed, n, m, got, want, dup, s))
            except Exception as ex:
                bad.append((directed, n, m, type(ex).__name__, str(ex)[:60]))
print("C20 bad count", len(bad)); print(bad[:25])
def c20m():
    s, g = create_mock_geff("uint8", {"position":"float64","time":"float64"}, True, 5, 4, include_missing=True)
    return list(g["node_props"]), list(g["edge_props"])
T("C20 include_missing via create_mock_geff", c20m)
def c20m2():
    g = create_dummy_in_mem_geff("uint8", {"position":"float64","time":"float64"}, True, 5, 4, include_missing=True)
    s = zarr.storage.MemoryStore(); write_arrays(s, **g)
    return "written", {k:(v["values"].shape) for k,v in g["edge_props"].items()}
T("C20 include_missing dummy then write", c20m2)
def c20v():
    s, g = create_mock_geff("uint8", {"position":"float64","time":"float64"}, True, 0, 0, include_varlength=True)
    return "ok"
T("C20 varlength with 0 nodes", c20v)
def c20n1():
    s, g = create_mock_geff("uint8", {"position":"float64","time":"float64"}, False, 1, 3)
    return g["edge_ids"].tolist()
T("C20 n=1", c20n1)
# C19
def c19a():
    seg = np.zeros((1,4,4), int)
    mg = dict(metadata=md(axes=[Axis(name="t",min=0,max=0),Axis(name="y",min=0,max=3),Axis(name="x",min=0,max=3)]), node_ids=np.array([1]), edge_ids=np.zeros((0,2),int), node_props={}, edge_props={})
    return graph_is_in_seg_bounds(mg, seg)
T("C19 max=0", c19a)
def c19b():
    seg = np.zeros((2,4,4), int)
    mg = dict(metadata=md(axes=[Axis(name="t",min=0,max=1),Axis(name="z",min=0,max=1),Axis(name="y",min=0,max=3),Axis(name="x",min=0,max=3)]), node_ids=np.array([1]), edge_ids=np.zeros((0,2),int), node_props={}, edge_props={})
    return graph_is_in_seg_bounds(mg, seg)
T("C19 4 axes 3D seg", c19b)
def c19c():
    seg = np.zeros((2,4,4), int); seg[1,3,3]=7
    return has_seg_ids_at_coords(seg, [[-1,-1,-1]], [7]), has_seg_ids_at_time_points(seg, [-1], [7]), has_seg_ids_at_coords(seg, [[2,0,0]], [0]), has_seg_ids_at_time_points(seg, [2], [0])
T("C19 negative", c19c)
def c19d():
    seg = np.zeros((2,4,4), int)
    mg = dict(metadata=md(axes=[Axis(name="t",min=0,max=2),Axis(name="y",min=0,max=3),Axis(name="x",min=0,max=3)]), node_ids=np.array([1]), edge_ids=np.zeros((0,2),int), node_props={}, edge_props={})
    return graph_is_in_seg_bounds(mg, seg), graph_is_in_seg_bounds(mg, seg, scale=[2,1,1])
T("C19 max on extent", c19d)
def c19e():
    seg = np.zeros((2,4,4), int)
    return has_seg_ids_at_coords(seg, [[0,0]], [0])
T("C19 short coord", c19e)
