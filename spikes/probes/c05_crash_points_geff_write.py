import warnings, sys, os
warnings.simplefilter("ignore")
import numpy as np, zarr, networkx as nx
from zarr.storage import MemoryStore
import geff
from geff.core_io import write_arrays, read_to_memory
from geff import GeffMetadata, validate_structure
class Rec(MemoryStore):
    def __init__(self):
        super().__init__(); self.n=0; self.fail_at=None; self.log=[]
    def _tick(self, op, key):
        i=self.n; self.n+=1; self.log.append((op,key))
        if self.fail_at is not None and i == self.fail_at:
            raise OSError("injected")
    async def set(self, key, value, byte_range=None):
        self._tick("set", key); return await super().set(key, value)
    async def set_if_not_exists(self, key, value):
        self._tick("setnx", key); return await super().set_if_not_exists(key, value)
    async def delete(self, key):
        self._tick("del", key); return await super().delete(key)
    def with_read_only(self, read_only=False): return self
def md(): return GeffMetadata(directed=True, node_props_metadata={}, edge_props_metadata={})
def gA():
    g = nx.DiGraph(); g.add_node(1,a=1.0); g.add_node(2,a=2.0); g.add_node(3); g.add_edge(1,2,w=1); return g
def gB():
    g = nx.DiGraph(); g.add_node(7,a=4.0,b=[1,2]); g.add_node(8,a=5.0,b=[3]); g.add_edge(7,8); return g
def summary(s):
    g, m = geff.read(s); return sorted(g.nodes(data=True), key=str).__repr__(), sorted(g.edges(data=True), key=str).__repr__()
def outcome(s):
    s.fail_at=None
    try: return ("READS", str(summary(s)))
    except Exception as e: return ("REJECT", type(e).__name__)
for fmt in (2,3):
  for overwrite in (False, True):
    s = Rec()
    if overwrite: geff.write(gA(), s, zarr_format=fmt)
    n0 = s.n
    try:
        geff.write(gB(), s, zarr_format=fmt, overwrite=overwrite)
    except Exception as e:
        print("fmt",fmt,"overwrite",overwrite,"BASE WRITE FAILED", type(e).__name__, str(e)[:100]); continue
    total = s.n - n0
    res = {}
    for k in range(total):
        s = Rec()
        if overwrite: geff.write(gA(), s, zarr_format=fmt)
        s.fail_at = s.n + k
        try:
            geff.write(gB(), s, zarr_format=fmt, overwrite=overwrite); r="completed"
        except Exception as e:
            r = type(e).__name__
        o = outcome(s)
        res.setdefault((r, o[0], o[1][:60]), []).append(k)
    print("fmt",fmt,"overwrite",overwrite,"total ops",total)
    for k,v in res.items(): print("   ", k, "at", v[:4], "..." if len(v)>4 else "", len(v))
