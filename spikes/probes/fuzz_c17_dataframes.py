import warnings, random
warnings.simplefilter("ignore")
import numpy as np, zarr, pandas as pd
from geff.core_io import write_arrays, construct_var_len_props
from geff import GeffMetadata
from geff.convert import geff_to_dataframes
rng = random.Random(3)
fails = {}
for it in range(600):
    N = rng.choice([0,2,3,5]); E = rng.choice([0,2,3])
    ids = np.arange(10, 10+N).astype(np.uint16); edges = np.array([[10,11]]*E, np.uint16).reshape(-1,2) if N>=2 else np.zeros((0,2),np.uint16)
    E = len(edges)
    def mk(n):
        props = {}
        for k in range(rng.choice([1,2,3])):
            dt = rng.choice(["bool","int32","uint64","float32","float64","str"]); 
            shape = rng.choice([(n,),(n,1),(n,2),(n,3),(n,1,2),(n,2,2),(n,2,1),(n,1,1),(n,2,2,2)])
            if dt=="str": v = np.array([rng.choice(["a","bc","x y"]) for _ in range(int(np.prod(shape)))]).reshape(shape) if np.prod(shape)>0 else np.zeros(shape,"<U2")
            elif dt=="bool": v = (np.arange(int(np.prod(shape)))%2==0).reshape(shape)
            else: v = (np.arange(int(np.prod(shape)))+1).astype(dt).reshape(shape)
            m = np.array([rng.random()<.4 for _ in range(n)], bool) if rng.random()<.5 else None
            props[f"{dt}{k}"] = {"values": v, "missing": m}
        return props
    np_, ep_ = mk(N), mk(E)
    s = zarr.storage.MemoryStore()
    write_arrays(s, ids, {k:dict(v) for k,v in np_.items()}, edges, {k:dict(v) for k,v in ep_.items()}, GeffMetadata(directed=True,node_props_metadata={},edge_props_metadata={}))
    try:
        ndf, edf = geff_to_dataframes(s)
    except Exception as e:
        fails.setdefault(("EXC", type(e).__name__, str(e)[:60]), []).append(it); continue
    for df, props, n, idcols in ((ndf, np_, N, ["id"]), (edf, ep_, E, ["source","target"])):
        if len(df)!=n: fails.setdefault(("rows",),[]).append(it); continue
        for name,p in props.items():
            v, m = p["values"], p["missing"]
            sq = [d for d in v.shape[1:] if d!=1]
            if len(sq)==0: cols = {name: v.reshape(n)}
            elif len(sq)==1: cols = {f"{name}_{j}": v.reshape(n, sq[0])[:,j] for j in range(sq[0])}
            else: cols = {}
            present = [c for c in df.columns if c==name or c.startswith(name+"_")]
            if set(present)!=set(cols): fails.setdefault(("columns", v.shape),[]).append((it,name,present,list(cols))); continue
            for c,exp in cols.items():
                got = df[c]
                for i in range(n):
                    if m is not None and m[i] and m.any():
                        if not pd.isna(got.iloc[i]): fails.setdefault(("missing cell", v.dtype.name),[]).append((it,c,i,got.iloc[i]))
                    else:
                        if not (got.iloc[i]==exp[i]): fails.setdefault(("cell", v.dtype.name),[]).append((it,c,i,got.iloc[i],exp[i]))
for k,v in fails.items(): print(k, len(v), str(v[:2])[:200])
print("done")
