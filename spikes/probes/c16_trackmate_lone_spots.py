import warnings, sys, os, tempfile, traceback, shutil, pathlib
warnings.simplefilter("ignore")
import numpy as np, zarr, networkx as nx
import geff, geff_spec
from geff.core_io import read_to_memory
from geff.convert import from_trackmate_xml_to_geff
from geff.validate.data import ValidationConfig
def T(name, f):
    try:
        print(name, "->", f())
    except BaseException as e:
        print(name, "EXC", type(e).__name__, str(e)[:400]); 
XML = """<?xml version="1.0" encoding="UTF-8"?>
<TrackMate version="7.11.1">
  <Log>log text</Log>
  <Model spatialunits="micron" timeunits="sec">
    <FeatureDeclarations>
      <SpotFeatures>
        <Feature feature="QUALITY" name="Quality" shortname="Quality" dimension="QUALITY" isint="false" />
        <Feature feature="POSITION_X" name="X" shortname="X" dimension="POSITION" isint="false" />
        <Feature feature="POSITION_Y" name="Y" shortname="Y" dimension="POSITION" isint="false" />
        <Feature feature="POSITION_Z" name="Z" shortname="Z" dimension="POSITION" isint="false" />
        <Feature feature="POSITION_T" name="T" shortname="T" dimension="TIME" isint="false" />
        <Feature feature="FRAME" name="Frame" shortname="Frame" dimension="NONE" isint="true" />
        <Feature feature="COUNT" name="Count" shortname="Count" dimension="NONE" isint="true" />
      </SpotFeatures>
      <EdgeFeatures>
        <Feature feature="SPOT_SOURCE_ID" name="Source spot ID" shortname="Source ID" dimension="NONE" isint="true" />
        <Feature feature="SPOT_TARGET_ID" name="Target spot ID" shortname="Target ID" dimension="NONE" isint="true" />
        <Feature feature="LINK_COST" name="Edge cost" shortname="Cost" dimension="COST" isint="false" />
      </EdgeFeatures>
      <TrackFeatures>
        <Feature feature="TRACK_ID" name="Track ID" shortname="ID" dimension="NONE" isint="true" />
      </TrackFeatures>
    </FeatureDeclarations>
    <AllSpots nspots="5">
      <SpotsInFrame frame="0">
        <Spot ID="10" name="ID10" QUALITY="1.5" POSITION_X="1.0" POSITION_Y="2.0" POSITION_Z="0.0" POSITION_T="0.0" FRAME="0" COUNT="3" />
        <Spot ID="11" name="ID11" QUALITY="NaN" POSITION_X="5.0" POSITION_Y="2.0" POSITION_Z="0.0" POSITION_T="0.0" FRAME="0" />
        <Spot ID="14" name="ID14" QUALITY="2.5" POSITION_X="9.0" POSITION_Y="9.0" POSITION_Z="0.0" POSITION_T="0.0" FRAME="0" />
      </SpotsInFrame>
      <SpotsInFrame frame="1">
        <Spot ID="12" name="ID12" QUALITY="2.5" POSITION_X="1.5" POSITION_Y="2.0" POSITION_Z="0.0" POSITION_T="1.0" FRAME="1" />
        <Spot ID="13" name="ID13" QUALITY="3.5" POSITION_X="5.5" POSITION_Y="2.0" POSITION_Z="0.0" POSITION_T="1.0" FRAME="1" />
      </SpotsInFrame>
    </AllSpots>
    <AllTracks>
      <Track name="Track_0" TRACK_ID="0">
        <Edge SPOT_SOURCE_ID="10" SPOT_TARGET_ID="12" LINK_COST="0.5" />
      </Track>
      <Track name="Track_3" TRACK_ID="3">
        <Edge SPOT_SOURCE_ID="11" SPOT_TARGET_ID="13" />
      </Track>
    </AllTracks>
    <FilteredTracks>
      <TrackID TRACK_ID="3" />
    </FilteredTracks>
  </Model>
  <Settings><ImageData filename="img.tif" folder="/data" /></Settings>
</TrackMate>
"""
def run(ds, dt, cfg):
    d = pathlib.Path(tempfile.mkdtemp()); (d/"a.xml").write_text(XML)
    from_trackmate_xml_to_geff(d/"a.xml", d/"o.geff", discard_filtered_spots=ds, discard_filtered_tracks=dt)
    m = read_to_memory(d/"o.geff", data_validation=cfg)
    return m["node_ids"].tolist(), m["edge_ids"].tolist(), {k:(v["values"].tolist(), None if v["missing"] is None else v["missing"].tolist()) for k,v in m["node_props"].items() if k in ("TRACK_ID","COUNT","QUALITY","name")}, {k:(v["values"].tolist(), None if v["missing"] is None else v["missing"].tolist()) for k,v in m["edge_props"].items()}, m["metadata"].track_node_props
for ds in (False,True):
    for dt in (False,True):
        T(f"C16 ds={ds} dt={dt} graph", lambda: run(ds,dt,ValidationConfig(graph=True)))
        T(f"C16 ds={ds} dt={dt} lineage", lambda: run(ds,dt,ValidationConfig(graph=True,lineage=True))[0])
