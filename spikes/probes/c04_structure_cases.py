import warnings, sys, os, tempfile, traceback, shutil
warnings.simplefilter("ignore")
import numpy as np, zarr, networkx as nx
import geff, geff_spec
from geff.core_io import write_arrays, read_to_memory, construct_var_len_props, write_dicts
from geff import GeffReader, GeffMetadata
from geff_spec import Axis, PropMetadata
from geff.validate.data import validate_data, ValidationConfig
from geff.validate.tracks import validate_tracklets, validate_lineages
from geff.validate.graph import *
from geff.validate.shapes import *
def md(directed=True, **kw):
    return GeffMetadata(directed=directed, node_props_metadata={}, edge_props_metadata={}, **kw)
def T(name, f):
    try:
        print(name, "->", f())
    except BaseException as e:
        print(name, "EXC", type(e).__name__, str(e)[:300])

# C04: conformant store without nodes/props
def c04a():
    s = zarr.storage.MemoryStore()
    root = zarr.open_group(s, mode="a", zarr_format=2)
    root["nodes/ids"] = np.array([1,2,3], dtype=np.int64)
    root["edges/ids"] = np.array([[1,2]], dtype=np.int64)
    root.attrs["geff"] = {"geff_version":"1.0","directed":True,"node_props_metadata":{},"edge_props_metadata":{}}
    geff.validate_structure(s); return "accepted"
T("C04 no nodes/props", c04a)
def mk(mut):
    s = zarr.storage.MemoryStore()
    root = zarr.open_group(s, mode="a", zarr_format=2)
    root["nodes/ids"] = np.array([1,2,3], dtype=np.int64)
    root["edges/ids"] = np.array([[1,2]], dtype=np.int64)
    root.require_group("nodes/props")
    meta = {"geff_version":"1.0","directed":True,"node_props_metadata":{},"edge_props_metadata":{}}
    mut(root, meta)
    root.attrs["geff"] = meta
    return s
def c04b():
    def mut(root, meta):
        del root["nodes/ids"]; root["nodes/ids"] = np.zeros((3,2), dtype=np.int64)
    geff.validate_structure(mk(mut)); return "accepted 2-D node ids"
T("C04 2D node ids", c04b)
def c04c():
    def mut(root, meta):
        del root["edges/ids"]; root["edges/ids"] = np.array([[1,2]], dtype=np.uint8)
    geff.validate_structure(mk(mut)); return "accepted mismatched id dtypes"
T("C04 id dtype mismatch", c04c)
def c04d():
    def mut(root, meta):
        g = root.require_group("nodes/props/p"); g["values"] = np.array(5.0)
        meta["node_props_metadata"]["p"] = {"identifier":"p","dtype":"float64"}
    geff.validate_structure(mk(mut)); return "accepted 0-d values"
T("C04 0-d values", c04d)
def c04e():
    def mut(root, meta):
        g = root.require_group("nodes/props/p"); g["values"] = np.array([1.,2.,3.]); g["missing"] = np.zeros((3,2), dtype=bool)
        meta["node_props_metadata"]["p"] = {"identifier":"p","dtype":"float64"}
    geff.validate_structure(mk(mut)); return "accepted 2-D missing"
T("C04 2-D missing", c04e)
def c04f():
    def mut(root, meta):
        del root["nodes/ids"]; root["nodes/ids"] = np.array(5, dtype=np.int64)
    geff.validate_structure(mk(mut)); return "accepted 0-d node ids"
T("C04 0-d node ids", c04f)
def c04g():
    def mut(root, meta):
        meta["edge_props_metadata"]["w"] = {"identifier":"w","dtype":"float64"}
    geff.validate_structure(mk(mut)); return "accepted metadata edge prop w/o edges/props group"
T("C04 edge prop metadata but no edges/props", c04g)
def c04h():
    def mut(root, meta):
        g = root.require_group("nodes/props/p"); g["values"] = np.array([1.,2.,3.]); g["missing"]=np.zeros(3,dtype=bool)
        meta["node_props_metadata"]["p"] = {"identifier":"p","dtype":"float64"}
        meta["axes"] = [{"name":"p"}]
    geff.validate_structure(mk(mut)); return "accepted axis with missing"
T("C04 axis w/ missing", c04h)
def c04i():
    def mut(root, meta):
        g = root.require_group("nodes/props/p"); g["values"] = np.array(["a","b","c"])
        meta["node_props_metadata"]["p"] = {"identifier":"p","dtype":"str"}
    geff.validate_structure(mk(mut)); return "accepted str"
T("C04 str prop", c04i)
def c04j():
    def mut(root, meta):
        g = root.require_group("nodes/props/p"); g["values"] = np.array([1,2,3],dtype=np.int32)
        meta["node_props_metadata"]["p"] = {"identifier":"p","dtype":"int64"}
    geff.validate_structure(mk(mut)); return "accepted int32 as int64"
T("C04 dtype mismatch", c04j)
def c04k():
    def mut(root, meta):
        g = root.require_group("nodes/props/p"); g.require_group("values")
        meta["node_props_metadata"]["p"] = {"identifier":"p","dtype":"int64"}
    geff.validate_structure(mk(mut)); return "accepted"
T("C04 values is group", c04k)
def c04l():
    def mut(root, meta):
        root["nodes/props/p"] = np.array([1,2,3])
        meta["node_props_metadata"]["p"] = {"identifier":"p","dtype":"int64"}
    geff.validate_structure(mk(mut)); return "accepted"
T("C04 prop is array", c04l)
def c04m():
    def mut(root, meta):
        g = root.require_group("nodes/props/p"); g["values"] = np.array([1,2,3],dtype=np.int64); g["missing"]=np.zeros(3,dtype=np.uint8)
        meta["node_props_metadata"]["p"] = {"identifier":"p","dtype":"int64"}
    geff.validate_structure(mk(mut)); return "accepted"
T("C04 missing uint8", c04m)
def c04n():
    def mut(root, meta):
        meta["geff_version"] = 5
    geff.validate_structure(mk(mut)); return "accepted"
T("C04 bad version", c04n)
def c04o():
    s = mk(lambda r,m: None)
    root = zarr.open_group(s, mode="a"); root.attrs["geff"] = [1,2]
    geff.validate_structure(s); return "accepted"
T("C04 geff attr list", c04o)
def c04p():
    def mut(root, meta):
        g = root.require_group("nodes/props/p"); g["values"] = np.zeros((3,2),dtype=np.uint64); g["data"]=np.zeros(4,dtype=np.float32)
        meta["node_props_metadata"]["p"] = {"identifier":"p","dtype":"float32","varlength":True}
    geff.validate_structure(mk(mut)); return "accepted"
T("C04 varlength ok", c04p)
def c04q():
    def mut(root, meta):
        g = root.require_group("nodes/props/p"); g["values"] = np.zeros((3,),dtype=np.uint64); g["data"]=np.zeros((2,2),dtype=np.float32)
        meta["node_props_metadata"]["p"] = {"identifier":"p","dtype":"float32","varlength":True}
    geff.validate_structure(mk(mut)); return "accepted 1-D varlength values / 2-D data"
T("C04 varlength 1-D values 2-D data", c04q)
