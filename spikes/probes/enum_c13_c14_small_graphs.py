import warnings, itertools
warnings.simplefilter("ignore")
import numpy as np, networkx as nx
from geff.validate.tracks import validate_tracklets, validate_lineages
def partitions(n):
    def rec(i, cur):
        if i==n: yield list(cur); return
        for l in range(max(cur, default=-1)+2):
            cur.append(l); yield from rec(i+1, cur); cur.pop()
    yield from rec(0, [])
def spec_tracklet(n, E, L):
    outd = {u: sum(1 for a,b in E if a==u) for u in range(n)}; ind = {v: sum(1 for a,b in E if b==v) for v in range(n)}
    T = [(u,v) for (u,v) in E if outd[u]==1 and ind[v]==1]
    for (u,v) in E:
        if (L[u]==L[v]) != ((u,v) in T): return False
    G = nx.Graph(); G.add_nodes_from(range(n)); G.add_edges_from(T)
    comp = {}
    for i,c in enumerate(nx.connected_components(G)):
        for x in c: comp[x]=i
    for a in range(n):
        for b in range(n):
            if L[a]==L[b] and comp[a]!=comp[b]: return False
    return True
def spec_lineage(n, E, L):
    G = nx.Graph(); G.add_nodes_from(range(n)); G.add_edges_from(E)
    comp = {}
    for i,c in enumerate(nx.connected_components(G)):
        for x in c: comp[x]=i
    return all((L[a]==L[b]) == (comp[a]==comp[b]) for a in range(n) for b in range(n))
stats = {}
for n in range(1,5):
    pairs = [(a,b) for a in range(n) for b in range(n) if a!=b]
    for mask in range(1<<len(pairs)):
        E = [pairs[i] for i in range(len(pairs)) if mask>>i&1]
        G = nx.DiGraph(); G.add_nodes_from(range(n)); G.add_edges_from(E)
        dag = nx.is_directed_acyclic_graph(G)
        for L in partitions(n):
            ids = np.arange(n); e = np.array(E).reshape(-1,2)
            if dag:
                got = validate_tracklets(ids, e, np.array(L))[0]; exp = spec_tracklet(n,E,L)
                k = ("tracklet", n, "agree" if got==exp else ("code accepts, spec rejects" if got else "code REJECTS, spec accepts"))
                stats[k] = stats.get(k,0)+1
                if got!=exp and not got and ("ex",)+k not in stats: stats[("ex",)+k] = (E,L)
            got = validate_lineages(ids, e, np.array(L))[0]; exp = spec_lineage(n,E,L)
            k = ("lineage", n, "agree" if got==exp else ("code accepts, spec rejects" if got else "code REJECTS, spec accepts"))
            stats[k] = stats.get(k,0)+1
for k in sorted(stats, key=str): print(k, stats[k])
