import warnings
warnings.simplefilter("ignore")
import numpy as np, zarr
from geff.core_io import write_arrays, read_to_memory
from geff import GeffMetadata
def md(): return GeffMetadata(directed=True, node_props_metadata={}, edge_props_metadata={})
for fmt in (2,3):
    s = zarr.storage.MemoryStore()
    write_arrays(s, np.array([1,2],np.uint8), {"s":{"values":np.array(["a","b"],dtype="<U16"),"missing":None}, "e":{"values":np.array(["",""]),"missing":None}}, np.zeros((0,2),np.uint8), {}, md(), zarr_format=fmt)
    o = read_to_memory(s)
    raw = zarr.open_group(s, mode="r")["nodes/props/s/values"]
    print(fmt, o["node_props"]["s"]["values"].dtype, o["node_props"]["e"]["values"].dtype, "raw:", raw.dtype, type(raw.dtype))
