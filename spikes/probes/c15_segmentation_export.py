import warnings, sys, os, tempfile, pathlib
warnings.simplefilter("ignore")
import numpy as np, zarr, tifffile
import geff
from geff.core_io import read_to_memory
from geff.convert import from_ctc_to_geff
from geff import GeffMetadata
def T(name, f):
    try: print(name, "->", f())
    except BaseException as e: print(name, "EXC", type(e).__name__, str(e)[:300])
def mk(frames, table):
    d = pathlib.Path(tempfile.mkdtemp())/"TRA"; d.mkdir()
    for t, fr in enumerate(frames): tifffile.imwrite(d/f"man_track{t:03d}.tif", fr)
    (d/"man_track.txt").write_text("\n".join(" ".join(map(str,r)) for r in table)+"\n")
    return d
def fr2(labels, shape=(5,6)):
    a = np.zeros(shape, np.uint16)
    for l,(y,x) in labels.items(): a[y,x]=l; a[y,x+1]=l
    return a
frames = [fr2({1:(1,1),2:(3,2)}), fr2({1:(2,2),2:(3,3)})]
table = [[1,0,1,0],[2,0,1,0]]
def run(segkind, tczyx, fmt):
    d = mk(frames, table); out = d.parent/"out.zarr"/"tracks.geff"
    segp = d.parent/"out.zarr"/"seg"
    seg = segp if segkind=="path" else (str(segp) if segkind=="str" else zarr.storage.LocalStore(str(segp)))
    from_ctc_to_geff(d, out, segmentation_store=seg, tczyx=tczyx, zarr_format=fmt)
    m = GeffMetadata.read(out)
    ro = m.related_objects
    arr = zarr.open_array(segp, mode="r")
    resolved = os.path.normpath(os.path.join(out, ro[0].path)) if ro else None
    exp = np.stack(frames)
    got = arr[:]
    same = np.array_equal(got.reshape(exp.shape), exp)
    return arr.shape, ro, resolved == os.path.normpath(segp), same
for segkind in ("path","str","store"):
    for tczyx in (False, True):
        for fmt in (2,3):
            T(f"C15 seg {segkind} tczyx={tczyx} fmt{fmt}", lambda: run(segkind, tczyx, fmt))
