import warnings
warnings.simplefilter("ignore")
import numpy as np, zarr, networkx as nx, rustworkx as rx
import geff
from geff import GeffMetadata
from geff._graph_libs._api_wrapper import get_backend
from geff.core_io import read_to_memory
def T(name, f):
    try: print(name, "->", f())
    except BaseException as e: print(name, "EXC", type(e).__name__, str(e)[:300])
def nxrt(g, **kw):
    s = zarr.storage.MemoryStore(); geff.write(g, s, **kw); g2,m = geff.read(s); return sorted(g2.nodes(data=True)), sorted(g2.edges(data=True)), g2.is_directed()
g = nx.DiGraph(); g.add_node(5, x=1.5, lab="a", arr=[1,2]); g.add_node(2**64-1, x=2.5, arr=[3,4]); g.add_node(7, x=0.0, lab="ccc", rag=[1,2,3]); g.add_edge(5,7,w=1); g.add_edge(7,5)
T("nx basic", lambda: nxrt(g))
g = nx.Graph(); g.add_node(0, rag=[1,2,3]); g.add_node(1, rag=[1]); g.add_node(2); g.add_edge(1,0, s="x")
T("nx ragged+missing", lambda: nxrt(g))
g = nx.Graph(); g.add_node(0, v=1); g.add_node(1, v=2.5)
T("nx int/float mix", lambda: nxrt(g))
g = nx.Graph(); g.add_node(0, v=None); g.add_node(1, v=2.5)
T("nx None value", lambda: nxrt(g))
g = nx.Graph(); g.add_node(-1)
T("nx negative id", lambda: nxrt(g))
g = nx.Graph(); g.add_node("a")
T("nx str id", lambda: nxrt(g))
# rx
def rxrt():
    g = rx.PyDiGraph(); a=g.add_node({"x":1.0}); b=g.add_node({"x":2.0,"f":True}); c=g.add_node({"x":3.0}); g.remove_node(b); d=g.add_node({"x":4.0,"f":False}); g.add_edge(a,c,{"w":2}); g.add_edge(c,d,{})
    s = zarr.storage.MemoryStore(); geff.write(g, s)
    m = read_to_memory(s)
    g2, md = geff.read(s, backend="rustworkx")
    return m["node_ids"].tolist(), m["edge_ids"].tolist(), list(g2.node_indices()), g2.nodes(), g2.weighted_edge_list(), g2.attrs["to_rx_id_map"]
T("rx holes", rxrt)
def rxrt2():
    g = rx.PyGraph(); a=g.add_node({"x":1.0}); b=g.add_node({"x":2.0}); g.add_edge(a,b,{"w":2})
    s = zarr.storage.MemoryStore(); geff.write(g, s, node_id_dict={a:100,b:2**63})
    m = read_to_memory(s); g2, md = geff.read(s, backend="rustworkx")
    return m["node_ids"].tolist(), m["edge_ids"].tolist(), g2.attrs["to_rx_id_map"]
T("rx id dict", rxrt2)
# sg
def sgrt():
    import spatial_graph as sg
    s0 = zarr.storage.MemoryStore()
    from geff.core_io import write_arrays
    from geff_spec import Axis
    md = GeffMetadata(directed=True, node_props_metadata={}, edge_props_metadata={}, axes=[Axis(name="y"),Axis(name="x")])
    write_arrays(s0, np.array([3,9,4],np.uint64), {"y":{"values":np.array([1.,2.,3.]),"missing":None},"x":{"values":np.array([4.,5.,6.]),"missing":None},"score":{"values":np.array([.1,.2,.3],np.float32),"missing":None}}, np.array([[3,9],[9,4]],np.uint64), {"w":{"values":np.array([1,2],np.int16),"missing":None}}, md)
    g, m = geff.read(s0, backend="spatial-graph")
    s1 = zarr.storage.MemoryStore(); geff.write(g, s1, metadata=m)
    o = read_to_memory(s1)
    return o["node_ids"].tolist(), o["edge_ids"].tolist(), {k:(v["values"].dtype.name, v["values"].tolist()) for k,v in o["node_props"].items()}, {k:(v["values"].dtype.name, v["values"].tolist()) for k,v in o["edge_props"].items()}, [(a.name,a.min,a.max) for a in o["metadata"].axes]
T("sg rt", sgrt)
