import warnings, itertools, inspect, re
warnings.simplefilter("ignore")
import numpy as np, networkx as nx
import geff.validate.tracks as tr
src = inspect.getsource(tr.validate_tracklets)
# planned minimal repair: (a) do not skip single-node tracklets, (b) every edge inside a tracklet must be
# the only edge leaving its source and the only edge entering its target in the whole graph
src = src.replace("""        if len(t_nodes) < 2:
            continue
""", "")
src = src.replace("""        # Check - No cycles.""", """        if any(G.out_degree(u) != 1 or G.in_degree(v) != 1 for u, v in S.edges):
            errors.append(f"Tracklet {t_id}: Invalid path structure (branch or merge detected).")
            continue

        # Check - No cycles.""")
ns = dict(tr.__dict__); exec("from __future__ import annotations\n" + src, ns); fixed = ns["validate_tracklets"]
exec(open(__file__.replace("enum_c13_planned_fix","enum_c13_c14_small_graphs")).read().split("stats = {}")[0])
stats = {}
for n in range(1,5):
    pairs = [(a,b) for a in range(n) for b in range(n) if a!=b]
    for mask in range(1<<len(pairs)):
        E = [pairs[i] for i in range(len(pairs)) if mask>>i&1]
        G = nx.DiGraph(); G.add_nodes_from(range(n)); G.add_edges_from(E)
        if not nx.is_directed_acyclic_graph(G): continue
        for L in partitions(n):
            got = fixed(np.arange(n), np.array(E).reshape(-1,2), np.array(L))[0]; exp = spec_tracklet(n,E,L)
            k = (n, "agree" if got==exp else ("code accepts, spec rejects" if got else "code REJECTS, spec accepts"))
            stats[k] = stats.get(k,0)+1
            if got!=exp and ("ex",)+k not in stats: stats[("ex",)+k]=(E,L)
for k in sorted(stats, key=str): print(k, stats[k])
# repo tests for tracklets still pass?
import subprocess
