import warnings, traceback
warnings.simplefilter("ignore")
import numpy as np, zarr, networkx as nx
import geff
from geff.core_io._base_write import dict_props_to_arr
g = nx.Graph(); g.add_node(1, p=2**63); g.add_node(2, p=2**64-1)
d = dict_props_to_arr(list(g.nodes(data=True)), ["p"]); print(d["p"]["values"].dtype, d)
s = zarr.storage.MemoryStore()
try:
    geff.write(g, s)
    print(geff.read(s)[0].nodes(data=True))
except Exception as e:
    traceback.print_exc(limit=3)
g = nx.Graph(); g.add_node(1, p=[1,2]); g.add_node(2, p=[2**63, 3, 4])
try:
    s = zarr.storage.MemoryStore(); geff.write(g, s); print(geff.read(s)[0].nodes(data=True))
except Exception as e:
    print(type(e).__name__, str(e)[:200])
print(np.asarray([2**63, 5]).dtype, np.asarray([2**63, 2**64-1]).dtype, np.asarray([[1,2],[2**63,3]]).dtype)
