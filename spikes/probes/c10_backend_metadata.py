import warnings, json
warnings.simplefilter("ignore")
import numpy as np, zarr, networkx as nx, rustworkx as rx, spatial_graph as sg
import geff
from geff import GeffMetadata
from geff_spec import Axis, PropMetadata, DisplayHint, RelatedObject
def T(name, f):
    try: print(name, "->", f())
    except BaseException as e: print(name, "EXC", type(e).__name__, str(e)[:300])
def meta(directed):
    return GeffMetadata(directed=directed, node_props_metadata={"y":PropMetadata(identifier="y",dtype="int8",unit="um",name="Y",description="yy")}, edge_props_metadata={},
      axes=[Axis(name="y",type="space",unit="micrometer",scale=0.5,scaled_unit="nanometer",offset=2.0,min=-9,max=99),Axis(name="x",type="space",unit="pixel")],
      extra={"k":[1]}, sphere="r", related_objects=[RelatedObject(type="image",path="../raw")], display_hints=DisplayHint(display_horizontal="x",display_vertical="y"), track_node_props={"lineage":"lin"})
def show(s):
    m = GeffMetadata.read(s).model_dump(exclude_none=True); return m
def sgw():
    g = sg.create_graph(ndims=2, node_dtype="uint64", node_attr_dtypes={"position":"float64[2]","r":"float32"}, edge_attr_dtypes={"w":"int16"}, position_attr="position", directed=False)
    g.add_nodes(np.array([3,9,4],np.uint64), position=np.array([[1.,4.],[2.,5.],[3.,6.]]), r=np.array([1,2,3],np.float32))
    g.add_edges(np.array([[3,9],[9,4]],np.uint64), w=np.array([1,2],np.int16))
    s = zarr.storage.MemoryStore(); m = meta(True); before = m.model_dump()
    geff.write(g, s, metadata=m)
    return show(s), "caller meta changed" if m.model_dump()!=before else "caller meta same"
T("C10 sg write with metadata axes", sgw)
def nxw():
    g = nx.Graph(); g.add_node(1, y=1.0, x=5.0, r=1.0); g.add_node(2, y=3.0, x=2.0, r=2.0); g.add_edge(1,2,w=3)
    s = zarr.storage.MemoryStore(); m = meta(True); before = m.model_dump()
    geff.write(g, s, metadata=m)
    return show(s), "caller meta changed" if m.model_dump()!=before else "caller meta same"
T("C10 nx write with metadata axes", nxw)
def rxw():
    g = rx.PyDiGraph(); a=g.add_node({"y":1.0,"x":5.0}); b=g.add_node({"y":3.0,"x":2.0}); g.add_edge(a,b,{"w":3})
    s = zarr.storage.MemoryStore(); m = meta(False); before = m.model_dump()
    geff.write(g, s, metadata=m, axis_names=["x","y"], axis_offset=[1.0])
    return show(s)["axes"], "caller meta changed" if m.model_dump()!=before else "caller meta same"
T("C10 rx write with axis overrides, short offset", rxw)
