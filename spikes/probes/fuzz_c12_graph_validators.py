import warnings, random, itertools
warnings.simplefilter("ignore")
import numpy as np
from geff.validate.graph import *
rng = random.Random(4)
fails = {}
DTS = ["int8","int64","uint8","uint64","int32","uint16"]
for it in range(4000):
    dt = rng.choice(DTS); ii = np.iinfo(dt)
    alpha = [ii.min, ii.max, 0, 1, 2, ii.max-1]
    ids = [rng.choice(alpha) for _ in range(rng.choice([0,1,2,3,4]))]
    edges = [[rng.choice(alpha), rng.choice(alpha)] for _ in range(rng.choice([0,1,2,3,4]))]
    a = np.array(ids, dt); e = np.array(edges, dt).reshape(-1,2)
    try:
        ok, off = validate_unique_node_ids(a)
        exp = sorted({x for x in ids if ids.count(x)>1})
        if ok != (len(exp)==0) or sorted(off.tolist())!=exp: fails.setdefault(("unique",dt),[]).append((ids, ok, off.tolist()))
        ok, off = validate_nodes_for_edges(a, e)
        exp = [x for x in edges if x[0] not in ids or x[1] not in ids]
        if ok != (len(exp)==0) or sorted(map(tuple,off.tolist()))!=sorted(map(tuple,exp)): fails.setdefault(("nodes_for_edges",dt),[]).append((ids, edges, ok, off.tolist()))
        ok, off = validate_no_self_edges(e)
        exp = sorted({x[0] for x in edges if x[0]==x[1]})
        if ok != (len(exp)==0) or sorted(off.tolist())!=exp: fails.setdefault(("self",dt),[]).append((edges, ok, off.tolist()))
        ok, off = validate_no_repeated_edges(e)
        exp = sorted({tuple(x) for x in edges if edges.count(x)>1})
        if ok != (len(exp)==0) or sorted(map(tuple,off.tolist()))!=exp: fails.setdefault(("repeated",dt),[]).append((edges, ok, off.tolist()))
    except Exception as ex:
        fails.setdefault(("EXC", type(ex).__name__, str(ex)[:60]),[]).append((ids,edges))
for k,v in fails.items(): print(k, len(v), str(v[:2])[:300])
print("done")
