import warnings, json
warnings.simplefilter("ignore")
import numpy as np, zarr, numcodecs
from geff.core_io import read_to_memory
import geff
def T(name, f):
    try: print(name, "->", f())
    except BaseException as e: print(name, "EXC", type(e).__name__, str(e)[:300])
def summ(o):
    return o["node_ids"].dtype.name, o["node_ids"].tolist(), o["edge_ids"].tolist(), {k:(v["values"].dtype.name, [x.tolist() if isinstance(x,np.ndarray) else x for x in v["values"].tolist()] if v["values"].dtype!=object else [x.tolist() for x in v["values"]], None if v["missing"] is None else v["missing"].tolist()) for k,v in o["node_props"].items()}, {k:v["values"].tolist() for k,v in o["edge_props"].items()}
def indep(fmt, strings="fixed", comp=True, nodeprops=True, edgeprops_group=False, minimal_meta=True):
    s = zarr.storage.MemoryStore()
    root = zarr.create_group(s, zarr_format=fmt, attributes={"foreign": 1})
    kw = {}
    nodes = root.create_group("nodes"); edges = root.create_group("edges")
    a = nodes.create_array("ids", shape=(3,), dtype="int16", chunks=(2,), compressors=None if not comp else "auto"); a[:] = np.array([5,-3,9],dtype=np.int16)
    e = edges.create_array("ids", shape=(2,2), dtype="int16", chunks=(1,2)); e[:] = np.array([[5,-3],[9,5]],dtype=np.int16)
    meta = {"geff_version":"1.0","directed":True,"node_props_metadata":{},"edge_props_metadata":{}}
    if nodeprops:
        props = nodes.create_group("props")
        p = props.create_group("score"); v = p.create_array("values", shape=(3,), dtype="float32", chunks=(1,)); v[:] = np.array([.5,1.5,2.5],dtype=np.float32)
        m = p.create_array("missing", shape=(3,), dtype="bool", chunks=(3,)); m[:] = np.array([0,1,0],bool)
        meta["node_props_metadata"]["score"] = {"identifier":"score","dtype":"float32"}
        # string prop
        p = props.create_group("lab")
        if strings=="fixed":
            v = p.create_array("values", shape=(3,), dtype="<U4"); v[:] = np.array(["a","bcd",""])
        else:
            v = p.create_array("values", shape=(3,), dtype=str); v[:] = np.array(["a","bcd",""], dtype=object)
        meta["node_props_metadata"]["lab"] = {"identifier":"lab","dtype":"str"}
        # varlength
        p = props.create_group("poly")
        v = p.create_array("values", shape=(3,3), dtype="uint64"); v[:] = np.array([[0,1,2],[2,0,2],[2,2,2]],dtype=np.uint64)
        d = p.create_array("data", shape=(6,), dtype="int8"); d[:] = np.array([1,2,3,4,5,6],dtype=np.int8)
        meta["node_props_metadata"]["poly"] = {"identifier":"poly","dtype":"int8","varlength":True}
    if edgeprops_group:
        edges.create_group("props")
    root.attrs["geff"] = meta
    return s
for fmt in (2,3):
    for strings in ("fixed","vlen"):
        T(f"C02 indep fmt{fmt} strings={strings}", lambda: summ(read_to_memory(indep(fmt, strings))))
    T(f"C02 indep fmt{fmt} no node props group", lambda: summ(read_to_memory(indep(fmt, nodeprops=False))))
    T(f"C02 indep fmt{fmt} no node props group, no validation", lambda: summ(read_to_memory(indep(fmt, nodeprops=False), structure_validation=False)))
    T(f"C02 indep fmt{fmt} empty edges/props", lambda: summ(read_to_memory(indep(fmt, edgeprops_group=True))))
print("----")
for fmt in (2,3):
    T(f"vlen strings, no validation fmt{fmt}", lambda: summ(read_to_memory(indep(fmt, "vlen"), structure_validation=False)))
    s = indep(fmt, "vlen"); r = zarr.open_group(s, mode="r")["nodes/props/lab/values"]; print(r.dtype, r.metadata.to_dict().get("data_type", r.metadata.to_dict().get("dtype")), r.metadata.to_dict().get("filters"))
    s = indep(fmt, "fixed"); r = zarr.open_group(s, mode="r")["nodes/props/lab/values"]; print(r.dtype, r.metadata.to_dict().get("data_type", r.metadata.to_dict().get("dtype")))
