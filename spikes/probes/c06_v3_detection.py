import warnings, sys, os, tempfile
warnings.simplefilter("ignore")
import numpy as np, zarr
from zarr.storage import MemoryStore, LocalStore
import geff
from geff.core_io import write_arrays, read_to_memory, check_for_geff
from geff import GeffMetadata
def md(): return GeffMetadata(directed=True, node_props_metadata={}, edge_props_metadata={})
A = dict(node_ids=np.array([1,2,3],np.uint8), node_props={}, edge_ids=np.array([[1,2]],np.uint8), edge_props={})
B = dict(node_ids=np.array([7],np.uint8), node_props={}, edge_ids=np.zeros((0,2),np.uint8), edge_props={})
for mk in (lambda: MemoryStore(), lambda: LocalStore(os.path.join(tempfile.mkdtemp(),"g.zarr"))):
  for fmt in (2,3):
    s = mk()
    write_arrays(s, metadata=md(), zarr_format=fmt, **A)
    print(type(s).__name__, fmt, "check_for_geff default:", check_for_geff(s), "with fmt:", check_for_geff(s, zarr_format=fmt))
    try:
        write_arrays(s, metadata=md(), zarr_format=fmt, **B); print("  second write without overwrite SUCCEEDED; now reads:", read_to_memory(s)["node_ids"].tolist())
    except Exception as e:
        print("  second write:", type(e).__name__, str(e)[:100])
    if isinstance(s, MemoryStore): print("  keys:", sorted(s._store_dict)[:8])
