import warnings, sys, os, tempfile, pathlib
warnings.simplefilter("ignore")
import numpy as np, zarr, tifffile
import geff
from geff.core_io import read_to_memory
from geff.convert import from_trackmate_xml_to_geff, from_ctc_to_geff
from geff.validate.data import ValidationConfig
from geff import GeffMetadata
def T(name, f):
    try: print(name, "->", f())
    except BaseException as e: print(name, "EXC", type(e).__name__, str(e)[:400])
HEAD = """<?xml version="1.0" encoding="UTF-8"?>
<TrackMate version="7.11.1">
  <Model spatialunits="micron" timeunits="sec">
    <FeatureDeclarations>
      <SpotFeatures>
        <Feature feature="POSITION_X" name="X" shortname="X" dimension="POSITION" isint="false" />
        <Feature feature="POSITION_Y" name="Y" shortname="Y" dimension="POSITION" isint="false" />
        <Feature feature="POSITION_Z" name="Z" shortname="Z" dimension="POSITION" isint="false" />
        <Feature feature="POSITION_T" name="T" shortname="T" dimension="TIME" isint="false" />
        <Feature feature="FRAME" name="Frame" shortname="Frame" dimension="NONE" isint="true" />
      </SpotFeatures>
      <EdgeFeatures>
        <Feature feature="SPOT_SOURCE_ID" name="Source spot ID" shortname="Source ID" dimension="NONE" isint="true" />
        <Feature feature="SPOT_TARGET_ID" name="Target spot ID" shortname="Target ID" dimension="NONE" isint="true" />
      </EdgeFeatures>
      <TrackFeatures>
        <Feature feature="TRACK_ID" name="Track ID" shortname="ID" dimension="NONE" isint="true" />
      </TrackFeatures>
    </FeatureDeclarations>
"""
def doc(spots, tracks, filtered=None):
    s = HEAD + f'    <AllSpots nspots="{len(spots)}">\n      <SpotsInFrame frame="0">\n'
    for sid, roi in spots:
        attrs = f'ID="{sid}" name="ID{sid}" POSITION_X="{sid}.0" POSITION_Y="2.0" POSITION_Z="0.0" POSITION_T="0.0" FRAME="0"'
        if roi is None: s += f'        <Spot {attrs} />\n'
        else: s += f'        <Spot {attrs} ROI_N_POINTS="{len(roi)//2}">{" ".join(map(str,roi))}</Spot>\n'
    s += '      </SpotsInFrame>\n    </AllSpots>\n    <AllTracks>\n'
    for tid, edges in tracks:
        s += f'      <Track name="Track_{tid}" TRACK_ID="{tid}">\n'
        for a,b in edges: s += f'        <Edge SPOT_SOURCE_ID="{a}" SPOT_TARGET_ID="{b}" />\n'
        s += '      </Track>\n'
    s += '    </AllTracks>\n'
    if filtered is not None:
        s += '    <FilteredTracks>\n' + "".join(f'      <TrackID TRACK_ID="{t}" />\n' for t in filtered) + '    </FilteredTracks>\n'
    s += '  </Model>\n</TrackMate>\n'
    return s
def run(xml, **kw):
    d = pathlib.Path(tempfile.mkdtemp()); (d/"a.xml").write_text(xml)
    from_trackmate_xml_to_geff(d/"a.xml", d/"o.geff", **kw)
    m = read_to_memory(d/"o.geff", data_validation=ValidationConfig(graph=True))
    def vals(p):
        v = p["values"]; 
        return ([x.tolist() for x in v] if v.dtype==object else v.tolist(), None if p["missing"] is None else p["missing"].tolist())
    return m["node_ids"].tolist(), m["edge_ids"].tolist(), {k:vals(v) for k,v in m["node_props"].items() if k in ("TRACK_ID","ROI_coords","ROI_N_POINTS")}, {k:(v.dtype,v.varlength) for k,v in m["metadata"].node_props_metadata.items() if k.startswith("ROI")}
T("ROI ragged", lambda: run(doc([(1,[0,0,1,0,1,1]),(2,[0,0,2,0,2,2,0,2])],[(0,[(1,2)])])))
T("ROI same n", lambda: run(doc([(1,[0,0,1,0,1,1]),(2,[0,0,2,0,2,2])],[(0,[(1,2)])])))
T("ROI some none", lambda: run(doc([(1,[0,0,1,0,1,1]),(2,None)],[(0,[(1,2)])])))
T("no tracks", lambda: run(doc([(1,None),(2,None)],[])))
T("no spots", lambda: run(doc([],[])))
T("empty filtered + discard", lambda: run(doc([(1,None),(2,None),(3,None)],[(0,[(1,2)])], filtered=[]), discard_filtered_tracks=True))
T("no filtered section + discard", lambda: run(doc([(1,None),(2,None),(3,None)],[(0,[(1,2)])]), discard_filtered_tracks=True))
T("merge", lambda: run(doc([(1,None),(2,None),(3,None)],[(5,[(1,3),(2,3)])])))
