import warnings, sys, os, tempfile, traceback, shutil
warnings.simplefilter("ignore")
import numpy as np, zarr, networkx as nx
import geff, geff_spec
from geff.core_io import write_arrays, read_to_memory, construct_var_len_props, write_dicts
from geff.core_io._serialization import serialize_vlen_property_data, deserialize_vlen_property_data
from geff import GeffReader, GeffMetadata
from geff_spec import Axis, PropMetadata
def md(directed=True, **kw):
    return GeffMetadata(directed=directed, node_props_metadata={}, edge_props_metadata={}, **kw)
def T(name, f):
    try:
        print(name, "->", f())
    except BaseException as e:
        print(name, "EXC", type(e).__name__, str(e)[:300])
def show(p):
    return [ (a.dtype.name, a.shape, a.tolist()) for a in p["values"]], None if p["missing"] is None else p["missing"].tolist()
# C11
T("C11 [int,float]", lambda: show(construct_var_len_props([[1,2],[1.5]])))
T("C11 [float,int]", lambda: show(construct_var_len_props([[1.5],[1,2]])))
T("C11 [int8,uint8,int16]", lambda: show(construct_var_len_props([np.array([1],np.int8),np.array([1],np.uint8),np.array([1],np.int16)])))
T("C11 [int8,int16,uint8]", lambda: show(construct_var_len_props([np.array([1],np.int8),np.array([1],np.int16),np.array([1],np.uint8)])))
T("C11 [uint8,int8]", lambda: show(construct_var_len_props([np.array([1],np.uint8),np.array([1],np.int8)])))
T("C11 [bool,int]", lambda: show(construct_var_len_props([[True],[1,2]])))
T("C11 [int,bool]", lambda: show(construct_var_len_props([[1,2],[True]])))
T("C11 [str,int]", lambda: show(construct_var_len_props([["a"],[1,2]])))
T("C11 [int,str]", lambda: show(construct_var_len_props([[1,2],["a"]])))
T("C11 mixed rank", lambda: show(construct_var_len_props([5, [1,2], [[1,2],[3,4]], None])))
T("C11 all None", lambda: show(construct_var_len_props([None, None])))
T("C11 empty", lambda: show(construct_var_len_props([])))
def rt(seq):
    p = construct_var_len_props(seq)
    v, m, d = serialize_vlen_property_data(p)
    out = deserialize_vlen_property_data(v, m, d)
    return v.tolist(), d.dtype.name, d.tolist(), show(out)
T("C11 roundtrip rank0", lambda: rt([np.float32(3.5), np.float32(1.0)]))
T("C11 roundtrip zero dims", lambda: rt([np.zeros((0,3)), np.ones((2,0)), np.ones((1,2))]))
T("C11 roundtrip empty seq", lambda: rt([]))
T("C11 roundtrip uint8", lambda: rt([np.array([1,2],np.uint8), np.array([],np.uint8)]))
def rt_store(seq, fmt=2):
    p = construct_var_len_props(seq)
    s = zarr.storage.MemoryStore()
    write_arrays(s, np.arange(len(seq),dtype=np.uint8), {"v":p}, np.zeros((0,2),np.uint8), {}, md(), zarr_format=fmt)
    o = read_to_memory(s)
    return show(o["node_props"]["v"]), o["metadata"].node_props_metadata
T("C01 varlength store rank0", lambda: rt_store([np.float32(3.5), np.float32(1.0)]))
T("C01 varlength store empty graph", lambda: rt_store([]))
T("C01 varlength store all missing", lambda: rt_store([None,None]))
T("C01 varlength bool", lambda: rt_store([[True,False],[True]]))
T("C01 varlength str", lambda: rt_store([["a","bc"],["d"]]))
