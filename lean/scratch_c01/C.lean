import Gen.BaseWrite
import GeffProofs.WriteRead
import GeffProofs.SerializationGen
open Geff.Np Geff.Store Geff.WR Geff.PyDoWrite Gen.Paths
set_option pp.proofs false
set_option linter.unusedSimpArgs false

theorem setArray_of_some (s : St) (q : Path) (k : String) (a : NdArr) (e : Entry) (h : get s q = some e) :
    setArray s q k a = set s (q ++ [k]) (.array a) := by
  unfold setArray; rw [ensureGroup_of_some s q e h]

theorem get_set_child (s : St) (q : Path) (k : String) (e : Entry) : get (set s (q ++ [k]) e) q = get s q :=
  get_set_other s (q ++ [k]) q e (append_singleton_ne_self q k).symm

/-- the three `prop_group[...] = ...` assignments after `create_group` are `storeProp` -/
theorem sets_eq_storeProp (s : St) (q : Path) (v : NdArr) (m d : Option NdArr) :
    (do
      let s1 ← groupSetItem (set s q (.group [])) q [VALUES] v
      let s2 ← (match m with | some mv => groupSetItem s1 q [MISSING] mv | none => pure s1)
      match d with | some dv => groupSetItem s2 q [DATA] dv | none => pure s2) = (pure (storeProp s q v m d) : Outcome St) := by
  have h0 : get (set s q (.group [])) q = some (.group []) := get_set_same _ _ _
  have h1 : get (set (set s q (.group [])) (q ++ [VALUES]) (.array v)) q = some (.group []) := by
    rw [get_set_child]; exact h0
  cases m with
  | none =>
    cases d with
    | none => simp [groupSetItem, storeProp, setArray_of_some _ _ _ _ _ h0, bind, Except.bind, pure, Except.pure]
    | some dv => simp [groupSetItem, storeProp, setArray_of_some _ _ _ _ _ h0, setArray_of_some _ _ _ _ _ h1, bind, Except.bind, pure, Except.pure]
  | some mv =>
    have h2 : get (set (set (set s q (.group [])) (q ++ [VALUES]) (.array v)) (q ++ [MISSING]) (.array mv)) q = some (.group []) := by
      rw [get_set_child]; exact h1
    cases d with
    | none => simp [groupSetItem, storeProp, setArray_of_some _ _ _ _ _ h0, setArray_of_some _ _ _ _ _ h1, bind, Except.bind, pure, Except.pure]
    | some dv => simp [groupSetItem, storeProp, setArray_of_some _ _ _ _ _ h0, setArray_of_some _ _ _ _ _ h1, setArray_of_some _ _ _ _ _ h2, bind, Except.bind, pure, Except.pure]

theorem mkPropMeta_varlength (name : String) (dt : Dtype) (b : Bool) (pm : PropMeta)
    (h : mkPropMeta name dt b = .ok pm) : pm.varlength = some b := by
  unfold mkPropMeta at h
  by_cases h1 : name = ""
  · simp [h1, throw, throwThe, MonadExceptOf.throw] at h
  · by_cases h2 : dt ∈ validDtypes ∧ dt ≠ .bytes
    · rw [if_neg h1, if_pos h2] at h
      simp only [pure, Except.pure, Except.ok.injEq] at h
      rw [← h]
    · simp [h1, h2, throw, throwThe, MonadExceptOf.throw] at h

theorem createPropsMetadata_varlength (name : String) (p : PropArr) (pm : PropMeta) (p' : PropArr)
    (h : createPropsMetadata name p = .ok (pm, p')) : p' = upcast p ∧ pm.varlength = some (isVarlen p') := by
  unfold createPropsMetadata at h
  cases h1 : metaDtype (upcast p).values with
  | error e => simp [h1, bind, Except.bind] at h
  | ok dt =>
    simp only [h1, bind, Except.bind] at h
    cases h2 : mkPropMeta name dt (isVarlen (upcast p)) with
    | error e => simp [h2] at h
    | ok pm' =>
      simp only [h2, pure, Except.pure, Except.ok.injEq, Prod.mk.injEq] at h
      obtain ⟨rfl, rfl⟩ := h
      exact ⟨rfl, mkPropMeta_varlength _ _ _ _ h2⟩

theorem ensureGroup_of_isSome (s : St) (q : Path) (h : (get s q).isSome = true) : ensureGroup s q = s := by
  obtain ⟨e, he⟩ := Option.isSome_iff_exists.mp h
  exact ensureGroup_of_some s q e he

theorem get_set_child2 (s : St) (pre : Path) (a b : String) (e : Entry) :
    get (set s (pre ++ [a, b]) e) (pre ++ [a]) = get s (pre ++ [a]) := by
  have : pre ++ [a, b] = (pre ++ [a]) ++ [b] := by simp
  rw [this, get_set_child]

abbrev LSt := MProd St (List PropMeta)

def stepSpec (pre : Path) (x : String × PropArr) (st : LSt) : Outcome (ForInStep LSt) :=
  match writeProp vlenCodec pre st.1 x.1 x.2 with
  | .ok (s1, pm) => .ok (.yield ⟨s1, st.2 ++ [pm]⟩)
  | .error e => .error e

theorem ofVlen_withMissing (m : Option NdArr) (r : Geff.Vlen.Outcome (NdArr × NdArr)) :
    ofVlen (GeffProofs.SerializationGen.withMissing m r) = (ofVlen r).map (fun vd => (vd.1, m, vd.2)) := by
  cases r <;> rfl

example (pre : Path) (x : String × PropArr) (st : LSt) :
    (do
            let t7 ← createPropsMetadata x.fst x.snd
            if Geff.PyDoWrite.isTrue t7.fst.varlength = true then do
                let t8 ← vlenDict t7.snd
                let t9 ← ofVlen (Gen.Serialization.serializeVlenPropertyData t8)
                let t10 ← createGroup st.fst pre x.fst
                let t11 ← groupSetItemVals t10.fst t10.snd [VALUES] (PVals.dense t9.fst)
                match t9.snd.fst with
                  | some missingV => do
                    let t12 ← groupSetItem t11 t10.snd [MISSING] missingV
                    let t13 ← groupSetItem t12 t10.snd [DATA] t9.snd.snd
                    pure (ForInStep.yield (⟨t13, st.snd ++ [t7.fst]⟩ : LSt))
                  | none => do
                    let t13 ← groupSetItem t11 t10.snd [DATA] t9.snd.snd
                    pure (ForInStep.yield ⟨t13, st.snd ++ [t7.fst]⟩)
              else do
                let t10 ← createGroup st.fst pre x.fst
                let t11 ← groupSetItemVals t10.fst t10.snd [VALUES] t7.snd.values
                match t7.snd.missing with
                  | some missingV => do
                    let t13 ← groupSetItem t11 t10.snd [MISSING] missingV
                    pure (ForInStep.yield ⟨t13, st.snd ++ [t7.fst]⟩)
                  | none => pure (ForInStep.yield ⟨t11, st.snd ++ [t7.fst]⟩)) = stepSpec pre x st := by
  obtain ⟨name, p⟩ := x
  obtain ⟨s, md⟩ := st
  simp only [stepSpec]
  unfold writeProp
  cases hcm : createPropsMetadata name p with
  | error e => simp [bind, Except.bind]
  | ok r =>
    obtain ⟨pm, p'⟩ := r
    obtain ⟨hp', hvl⟩ := createPropsMetadata_varlength _ _ _ _ hcm
    obtain ⟨v, m⟩ := p'
    cases v with
    | dense a =>
      simp only [isVarlen] at hvl
      simp only [hvl, Geff.PyDoWrite.isTrue, encodeProp, bind, Except.bind, pure, Except.pure]
      unfold createGroup
      by_cases hdot : name = "." ∨ name = ".."
      · simp [hdot, bind, Except.bind, throw, throwThe, MonadExceptOf.throw]
      · by_cases hvn : validName name = true
        · cases hg : get s (pre ++ [name]) with
          | some e => cases e <;> simp [hdot, hvn, hg, bind, Except.bind, pure, Except.pure, throw, throwThe, MonadExceptOf.throw]
          | none =>
            cases m <;>
            simp [hdot, hvn, hg, bind, Except.bind, pure, Except.pure, throw, throwThe, MonadExceptOf.throw,
              groupSetItemVals, groupSetItem, setArray, storeProp, ensureGroup_of_isSome, get_set_same, get_set_child, get_set_child2]
        · simp [hdot, hvn, bind, Except.bind, pure, Except.pure, throw, throwThe, MonadExceptOf.throw]
    | obj es =>
      simp only [isVarlen] at hvl
      have hser : Gen.Serialization.serializeVlenPropertyData (⟨es.map .arr, m⟩ : Geff.PyDo.PropDict (Option NdArr)) =
          GeffProofs.SerializationGen.withMissing m (Geff.Vlen.serializeVlenPy (es.map .arr)) :=
        GeffProofs.SerializationGen.serialize_eq _
      simp only [hvl, Geff.PyDoWrite.isTrue, encodeProp, vlenDict, vlenCodec, Geff.Vlen.serializeVlen, hser, ofVlen_withMissing,
        bind, Except.bind, pure, Except.pure]
      cases hs : ofVlen (Geff.Vlen.serializeVlenPy (es.map .arr)) with
      | error e => simp [Except.map]
      | ok vd =>
        obtain ⟨v, d⟩ := vd
        simp only [Except.map]
        unfold createGroup
        by_cases hdot : name = "." ∨ name = ".."
        · simp [hdot, bind, Except.bind, throw, throwThe, MonadExceptOf.throw]
        · by_cases hvn : validName name = true
          · cases hg : get s (pre ++ [name]) with
            | some e => cases e <;> simp [hdot, hvn, hg, bind, Except.bind, pure, Except.pure, throw, throwThe, MonadExceptOf.throw]
            | none =>
              cases m <;>
              simp [hdot, hvn, hg, bind, Except.bind, pure, Except.pure, throw, throwThe, MonadExceptOf.throw,
                groupSetItemVals, groupSetItem, setArray, storeProp, ensureGroup_of_isSome, get_set_same, get_set_child, get_set_child2]
          · simp [hdot, hvn, bind, Except.bind, pure, Except.pure, throw, throwThe, MonadExceptOf.throw]
