import Gen.BaseWrite
import GeffProofs.WriteRead
import GeffProofs.SerializationGen
open Geff.Np Geff.Store Geff.WR Geff.PyDoWrite Gen.Paths
set_option pp.proofs false

abbrev LSt := MProd St (List PropMeta)

def stepSpec (pre : Path) (x : String × PropArr) (st : LSt) : Outcome (ForInStep LSt) :=
  match writeProp vlenCodec pre st.1 x.1 x.2 with
  | .ok (s1, pm) => .ok (.yield ⟨s1, st.2 ++ [pm]⟩)
  | .error e => .error e

theorem propLoop_spec (pre : Path) (body : String × PropArr → LSt → Outcome (ForInStep LSt))
    (hstep : ∀ x st, body x st = stepSpec pre x st) (ps : Props) : ∀ (s : St) (md : List PropMeta),
    forIn ps (⟨s, md⟩ : LSt) body =
      match writePropsLoop vlenCodec pre s ps with
      | .ok (s', pms) => .ok ⟨s', md ++ pms⟩
      | .error e => .error e := by
  induction ps with
  | nil => intro s md; simp [writePropsLoop, pure, Except.pure]
  | cons x xs ih =>
    intro s md
    obtain ⟨name, p⟩ := x
    rw [List.forIn_cons, hstep]
    unfold stepSpec writePropsLoop
    cases h : writeProp vlenCodec pre s name p with
    | error e => simp [bind, Except.bind]
    | ok r =>
      obtain ⟨s1, pm⟩ := r
      simp only [bind, Except.bind]
      rw [ih]
      cases h2 : writePropsLoop vlenCodec pre s1 xs with
      | error e => simp
      | ok r2 => obtain ⟨s2, pms⟩ := r2; simp [pure, Except.pure]

theorem x (s : St) (r : StoreRef) (grp : String) (ps : Props) (f : Fmt) (hg : grp = NODES ∨ grp = EDGES) :
    Gen.BaseWrite.writePropsArrays s r grp ps none f =
      (Geff.WR.writePropsArrays vlenCodec s grp ps none).map (fun r => (r.1, ps, r.2)) := by
  have hc : [NODES, EDGES].contains grp = true := by
    rcases hg with rfl | rfl <;> decide
  unfold Gen.BaseWrite.writePropsArrays Geff.WR.writePropsArrays
  simp only [hc, Bool.not_true, Bool.false_eq_true, if_false, setupZarrGroup, requireGroup, ensurePath,
    List.nil_append, List.cons_append, bind, Except.bind, pure, Except.pure]
  trace_state
  sorry
