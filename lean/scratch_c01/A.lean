import Gen.BaseWrite
import GeffProofs.WriteRead
open Geff.Np Geff.Store Geff.WR Geff.PyDoWrite Gen.Paths

theorem writeIdArrays_eq (s : St) (r : StoreRef) (n e : NdArr) (f : Fmt) :
    Gen.BaseWrite.writeIdArrays s r n e f = Geff.WR.writeIdArrays s n e := by
  unfold Gen.BaseWrite.writeIdArrays Geff.WR.writeIdArrays
  by_cases h1 : n.dtype = e.dtype <;> by_cases h2 : n.dtype.isInteger = true <;>
    simp [h1, h2, issubdtypeInteger, setupZarrGroup, groupSetItem, raiseTypeError, bind, Except.bind, pure, Except.pure,
      throw, throwThe, MonadExceptOf.throw]
