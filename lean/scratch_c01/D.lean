import Gen.BaseWrite
import GeffProofs.WriteRead
open Geff.Np Geff.Store Geff.WR Geff.PyDoWrite Gen.Paths
set_option pp.proofs false
set_option linter.unusedSimpArgs false

def innerSpec (p : PropArr) (a : NdArr) (x : Nat × String) (ps : Props) : Outcome (ForInStep Props) :=
  match column a x.1 with
  | some col => .ok (.yield (dictSet ps x.2 ⟨.dense col, p.missing⟩))
  | none => .error .indexError

theorem inner_spec (p : PropArr) (a : NdArr) (body : Nat × String → Props → Outcome (ForInStep Props))
    (hstep : ∀ x ps, body x ps = innerSpec p a x ps) (rs : List String) : ∀ (i : Nat) (ps : Props),
    forIn (enumFrom i rs) ps body = unsquishOne.go p a ps i rs := by
  induction rs with
  | nil => intro i ps; simp [enumFrom, unsquishOne.go, pure, Except.pure]
  | cons r rs ih =>
    intro i ps
    simp only [enumFrom, List.forIn_cons, hstep, innerSpec, unsquishOne.go]
    cases column a i with
    | none => simp [bind, Except.bind, throw, throwThe, MonadExceptOf.throw]
    | some col => simp only [bind, Except.bind]; rw [ih]

theorem any_dictSet (ps : Props) (k r : String) (v : PropArr) (h : ps.any (fun kv => kv.1 = k) = true) :
    (dictSet ps r v).any (fun kv => kv.1 = k) = true := by
  unfold dictSet
  split
  · simp only [List.any_eq_true, decide_eq_true_eq, List.mem_map] at h ⊢
    obtain ⟨kv, hm, hk⟩ := h
    by_cases hr : kv.1 = r
    · exact ⟨(r, v), ⟨kv, hm, by simp [hr]⟩, by rw [← hk, hr]⟩
    · exact ⟨kv, ⟨kv, hm, by simp [hr]⟩, hk⟩
  · simp only [List.any_append, Bool.or_eq_true]; exact Or.inl h

theorem go_keeps_key (p : PropArr) (a : NdArr) (k : String) (rs : List String) : ∀ (i : Nat) (ps ps' : Props),
    unsquishOne.go p a ps i rs = .ok ps' → ps.any (fun kv => kv.1 = k) = true → ps'.any (fun kv => kv.1 = k) = true := by
  induction rs with
  | nil => intro i ps ps' h hk; simp only [unsquishOne.go, pure, Except.pure, Except.ok.injEq] at h; rw [← h]; exact hk
  | cons r rs ih =>
    intro i ps ps' h hk
    simp only [unsquishOne.go] at h
    cases hc : column a i with
    | none => simp [hc, throw, throwThe, MonadExceptOf.throw] at h
    | some col =>
      simp only [hc] at h
      exact ih _ _ _ h (any_dictSet _ _ _ _ hk)

def outerSpec (x : String × List String) (ps : Props) : Outcome (ForInStep Props) :=
  match unsquishOne ps x.1 x.2 with
  | .ok ps' => .ok (.yield ps')
  | .error e => .error e

theorem outer_spec (body : String × List String → Props → Outcome (ForInStep Props))
    (hstep : ∀ x ps, body x ps = outerSpec x ps) (u : List (String × List String)) : ∀ (ps : Props),
    forIn u ps body = unsquish ps u := by
  induction u with
  | nil => intro ps; simp [unsquish, pure, Except.pure]
  | cons x xs ih =>
    intro ps
    obtain ⟨name, news⟩ := x
    simp only [List.forIn_cons, hstep, outerSpec, unsquish]
    cases unsquishOne ps name news with
    | error e => simp [bind, Except.bind]
    | ok ps' => simp only [bind, Except.bind]; rw [ih]

theorem lookupKey_any {β} (k : String) (l : List (String × β)) (v : β) (h : lookupKey k l = some v) :
    l.any (fun kv => kv.1 = k) = true := by
  have := lookupKey_mem k l v h
  simp only [List.any_eq_true, decide_eq_true_eq]
  exact ⟨(k, v), this, rfl⟩

theorem ite_isNone (m : Option NdArr) : (if m.isNone = true then none else m) = m := by cases m <;> rfl

theorem x (s : St) (r : StoreRef) (grp : String) (ps : Props) (u : UnsquishDict) (f : Fmt) :
    Gen.BaseWrite.writePropsArrays s r grp ps (some u) f = .error .valueError := by
  unfold Gen.BaseWrite.writePropsArrays
  simp only [bind, Except.bind, pure, Except.pure]
  trace_state
  sorry
