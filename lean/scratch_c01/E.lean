import GeffProofs.BaseWriteGen
open Geff.Np Geff.Store Geff.WR Geff.PyDoWrite Gen.Paths GeffProofs.BaseWriteGen
set_option pp.proofs false
set_option pp.explicit false
set_option linter.unusedSimpArgs false

theorem hasGeff_ensureGroup (s : St) : hasGeff (ensureGroup s []) = hasGeff s := by
  unfold hasGeff
  cases h : get s [] with
  | none => rw [ensureGroup_of_none s [] h, get_set_same]; rfl
  | some e => rw [ensureGroup_of_some s [] e h, h]

def axSpec (ax : String) (nps : Option Props) : Outcome (ForInStep (Option Props)) :=
  .ok (.yield (nps.map (fun ps => axStep ps ax)))

theorem axLoop_spec (body : String → Option Props → Outcome (ForInStep (Option Props)))
    (hstep : ∀ ax nps, body ax nps = axSpec ax nps) (names : List String) : ∀ nps : Option Props,
    forIn names nps body = .ok (nps.map (fun ps => names.foldl axStep ps)) := by
  induction names with
  | nil => intro nps; cases nps <;> simp [pure, Except.pure]
  | cons a as ih =>
    intro nps
    rw [List.forIn_cons, hstep]
    simp only [axSpec, bind, Except.bind]
    rw [ih]
    cases nps <;> simp

theorem writePropsArrays_NODES (s : St) (r : StoreRef) (ps : Props) (f : Fmt) :
    Gen.BaseWrite.writePropsArrays s r NODES ps none f = writePropsArraysSpec s NODES ps none :=
  writePropsArrays_none s r NODES ps f (Or.inl rfl)
theorem writePropsArrays_EDGES (s : St) (r : StoreRef) (ps : Props) (f : Fmt) :
    Gen.BaseWrite.writePropsArrays s r EDGES ps none f = writePropsArraysSpec s EDGES ps none :=
  writePropsArrays_none s r EDGES ps f (Or.inr rfl)

theorem ensureGroup_idem (s : St) (p : Path) : ensureGroup (ensureGroup s p) p = ensureGroup s p := by
  cases h : get s p with
  | none =>
    rw [ensureGroup_of_none s p h]
    exact ensureGroup_of_some _ _ _ (get_set_same _ _ _)
  | some e => rw [ensureGroup_of_some s p e h, ensureGroup_of_some s p e h]

theorem writeIdArrays_root (s : St) (n e : NdArr) :
    Geff.WR.writeIdArrays (ensureGroup s []) n e = Geff.WR.writeIdArrays s n e := by
  unfold Geff.WR.writeIdArrays; rw [ensureGroup_idem]

/-- closes "generated tail of `write_arrays` on the node properties `nps'` = the model's `writeTail`" -/
local macro "tail_tac" nps:ident eps:ident hax:ident : tactic => `(tactic| (
  (cases $nps:ident <;> cases $eps:ident <;>
    simp only [writePropsArrays_NODES, writePropsArrays_EDGES, writePropsArraysSpec, writePropsOpt, propsAfterUnsquish,
      addOrUpdatePropsMetadata, computeAndAddAxisMinMax, metadataWrite, pure_bind, bind, Except.bind, pure, Except.pure,
      Except.map, checkAxes, if_true, reduceCtorEq, if_false])
  all_goals simp only [show ¬ ("edge" = "node") from by decide, if_false, $hax:ident]
  all_goals (repeat' split)
  all_goals (try simp_all)
  all_goals (try subst_vars)
  all_goals (try rfl)))

theorem x (validate : St → Outcome Unit) (s0 : St) (r : StoreRef) (g : InMem) (md : CallerMeta) (f : Fmt) (ow : Bool)
    (hg : hasGeff s0 = false) :
  (Gen.BaseWrite.writeArrays validate s0 r g.nodeIds g.nodeProps g.edgeIds g.edgeProps md none none f false ow).map (·.1)
    = writeCore vlenCodec s0 g md := by
  unfold Gen.BaseWrite.writeArrays writeCore
  simp only [checkForGeff, pure_bind, hg, hasGeff_ensureGroup, Bool.false_eq_true, if_false, writeIdArrays_eq, writeIdArrays_root]
  cases hid : Geff.WR.writeIdArrays s0 g.nodeIds g.edgeIds with
  | error e => simp [bind, Except.bind, Except.map]
  | ok s1 =>
    simp only [bind, Except.bind, lenArr]
    cases hlen : g.nodeIds.len? with
    | none => simp [throw, throwThe, MonadExceptOf.throw, Except.map]
    | some n =>
      simp only [pure, Except.pure, Option.isNone_some, Bool.false_eq_true, if_false]
      -- the node properties that get written
      obtain ⟨nps, hnps, hgoal⟩ : ∃ nps, nodePropsToWrite g md = nps ∧ nps = nps := ⟨_, rfl, rfl⟩
      unfold writeTail
      by_cases hn : n = 0
      · subst hn
        cases hax : md.axes with
        | none =>
          have h1 : nodePropsToWrite g md = g.nodeProps := by
            unfold nodePropsToWrite; rw [hlen, hax]; cases g.nodeProps <;> rfl
          simp only [beq_self_eq_true, if_true, h1]
          generalize g.nodeProps = nps'
          generalize g.edgeProps = eps'
          tail_tac nps' eps' hax
        | some names =>
          have h1 : nodePropsToWrite g md = g.nodeProps.map (fun ps => names.foldl axStep ps) := by
            unfold nodePropsToWrite; rw [hlen, hax]; rfl
          simp only [beq_self_eq_true, if_true, h1]
          rw [axLoop_spec _ ?hstep names g.nodeProps]
          case hstep =>
            intro ax nps0
            cases nps0 with
            | none => rfl
            | some ps0 =>
              have hdc : dictContains ps0 ax = ps0.any (fun kv => kv.1 = ax) := rfl
              simp only [axSpec, axStep, hdc, dictSetItem, axisName, npEmptyZero, emptyF64, Option.map_some, dictSet, pure, Except.pure]
              cases hb : (ps0.any fun kv => kv.1 = ax) <;> simp_all
              refine ite_eq_right_iff.mpr (fun hc => ?_)
              exfalso
              rw [List.any_eq_true] at hc
              obtain ⟨kv, hm, hk⟩ := hc
              exact hb kv.1 kv.2 hm (by simpa using hk)
          simp only []
          generalize g.nodeProps.map (fun ps => names.foldl axStep ps) = nps'
          generalize g.edgeProps = eps'
          tail_tac nps' eps' hax
      · have h1 : nodePropsToWrite g md = g.nodeProps := by
          unfold nodePropsToWrite; rw [hlen]
          cases n with
          | zero => exact absurd rfl hn
          | succ k => rfl
        have hb : (n == 0) = false := by simpa using hn
        simp only [hb, Bool.false_eq_true, if_false, h1]
        generalize hax : md.axes = axs
        generalize g.nodeProps = nps'
        generalize g.edgeProps = eps'
        tail_tac nps' eps' hax
