import GeffModel.Proto
import GeffModel.Structure
open Lean Geff Geff.Proto Geff.Np Geff.Structure

/-! Driver for C04.  Request:
  {"target": null                                  -- a path that does not exist
           | {"root": NODE|null, "meta": META}}
  NODE = {"a": [dtypeName, [dims…]]} | {"g": [[name, NODE], …]}
  META = {"k": "noKey"|"notMapping"|"invalid"} | {"k":"ok", "node": [[name, dtype, varlen]…],
          "edge": […], "axes": null | [names…]}
Answer: {"out": "ok"|"ValueError"|"FileNotFoundError"|<other exception name>   -- validate_structure
         "reader": outcome of GeffReader(validate=True), "node"/"edge": the property names it offers,
         "reader_nv": outcome of GeffReader(validate=False)} -/

def parseDtype (j : Json) : Except String Dtype := do
  let s ← j.getStr?
  match Dtype.ofName? s with
  | some d => pure d
  | none => throw s!"unknown dtype {s}"

partial def parseNode (j : Json) : Except String Node := do
  match j.getObjVal? "a" with
  | .ok a =>
    let arr ← a.getArr?
    if arr.size != 2 then throw "array: [dtype, shape] expected"
    let d ← parseDtype arr[0]!
    let sh ← (← arr[1]!.getArr?).toList.mapM fun x => x.getNat?
    pure (.array ⟨d, sh⟩)
  | .error _ =>
    let g ← j.getObjVal? "g"
    let ch ← (← g.getArr?).toList.mapM fun p => do
      let q ← p.getArr?
      if q.size != 2 then throw "member: [name, node] expected"
      let name ← q[0]!.getStr?
      let nd ← parseNode q[1]!
      pure (name, nd)
    pure (.group ch)

def parseProps (j : Json) : Except String (List (String × PropMeta)) := do
  (← j.getArr?).toList.mapM fun p => do
    let q ← p.getArr?
    if q.size != 3 then throw "prop: [name, dtype, varlength] expected"
    pure (← q[0]!.getStr?, ⟨← parseDtype q[1]!, ← q[2]!.getBool?⟩)

def parseMeta (j : Json) : Except String MetaRead := do
  let k ← (← j.getObjVal? "k").getStr?
  match k with
  | "noKey" => pure .noGeffKey
  | "notMapping" => pure .notMapping
  | "invalid" => pure .invalid
  | "ok" =>
    let np ← parseProps (← j.getObjVal? "node")
    let ep ← parseProps (← j.getObjVal? "edge")
    let axj ← j.getObjVal? "axes"
    let axes ← (if axj.isNull then pure none else do
      let l ← (← axj.getArr?).toList.mapM fun x => x.getStr?
      pure (some l) : Except String (Option (List String)))
    pure (.ok ⟨np, ep, axes⟩)
  | _ => throw s!"unknown meta kind {k}"

def parseTarget (j : Json) : Except String Target := do
  let t ← j.getObjVal? "target"
  if t.isNull then return .missingPath
  let rj ← t.getObjVal? "root"
  let root ← (if rj.isNull then pure none else do pure (some (← parseNode rj)) :
    Except String (Option Node))
  pure (.store root (← parseMeta (← t.getObjVal? "meta")))

def nameOf {α : Type} : Out α → String
  | .ok _ => "ok"
  | .error .valueError => "ValueError"
  | .error .fileNotFound => "FileNotFoundError"
  | .error (.other n) => n

def sortStrs (l : List String) : List String := (l.toArray.qsort (· < ·)).toList

def handle (j : Json) : Except String Json := do
  let t ← parseTarget j
  let r := readerInit true t
  let (nn, en) := match r with
    | .ok p => p
    | .error _ => ([], [])
  return Json.mkObj [("out", Json.str (outcomeName (validateStructure t))),
    ("reader", Json.str (nameOf r)),
    ("node", Json.arr ((sortStrs nn).map Json.str).toArray),
    ("edge", Json.arr ((sortStrs en).map Json.str).toArray),
    ("reader_nv", Json.str (nameOf (readerInit false t)))]

def main : IO Unit := Proto.run handle
