import GeffModel.Proto
import GeffModel.MockEdges
import GeffModel.MockData
import Gen.MockEdges
import Gen.MockData
open Lean Geff Geff.Proto Geff.MockData

def pairsJson (l : List (Int × Int)) : Json :=
  Json.arr (l.map (fun e => Json.arr #[intJson e.1, intJson e.2])).toArray

def optStr : Option String → Json
  | none => Json.null
  | some s => Json.str s

def valuesJson : Values → Json
  | .ints l => Json.mkObj [("ints", Json.arr (l.map intJson).toArray)]
  | .strs l => Json.mkObj [("strs", Json.arr (l.map Json.str).toArray)]
  | .linspace a b n => Json.mkObj [("linspace", Json.arr #[Json.str a, Json.str b, Json.num (JsonNumber.fromNat n)])]
  | .given t => Json.mkObj [("given", Json.num (JsonNumber.fromNat t))]
  | .cubes n => Json.mkObj [("cubes", Json.num (JsonNumber.fromNat n))]

def propJson (kv : String × PropOut) : Json :=
  Json.mkObj [("name", Json.str kv.1), ("dtype", Json.str kv.2.dtype), ("len", Json.num (JsonNumber.fromNat kv.2.len)),
    ("varlength", Json.bool kv.2.varlength),
    ("missing", match kv.2.missing with
      | none => Json.null
      | some l => Json.arr (l.map Json.bool).toArray),
    ("values", valuesJson kv.2.values)]

def metaJson (kv : String × MetaOut) : Json :=
  Json.arr #[Json.str kv.1, Json.str kv.2.dtype, Json.bool kv.2.varlength, optStr kv.2.unit]

def axisJson (a : AxisOut) : Json :=
  Json.arr #[Json.str a.name, Json.str a.type, Json.str a.unit, Json.bool a.hasMinMax]

def geffJson (g : MockData.Geff) : Json :=
  Json.mkObj [("n", Json.num (JsonNumber.fromNat g.numNodes)), ("id_dtype", Json.str g.idDtype),
    ("edges", pairsJson g.edges), ("directed", Json.bool g.directed),
    ("axes", Json.arr (g.axes.map axisJson).toArray),
    ("node_props", Json.arr (g.nodeProps.map propJson).toArray),
    ("edge_props", Json.arr (g.edgeProps.map propJson).toArray),
    ("node_meta", Json.arr (g.nodeMeta.map metaJson).toArray),
    ("edge_meta", Json.arr (g.edgeMeta.map metaJson).toArray)]

def outcomeJson {α : Type} (f : α → Json) : Outcome α → Json
  | .ok v => Json.mkObj [("ok", f v)]
  | .valueError => Json.mkObj [("exc", Json.str "ValueError")]
  | .other n => Json.mkObj [("exc", Json.str n)]

def getReq (j : Json) : Except String Req := do
  match j with
  | .str s => return .auto s
  | _ =>
    match j.getObjVal? "arr" with
    | .ok d => return .arr (← d.getStr?) (← (← j.getObjVal? "len").getNat?) (← (← j.getObjVal? "tag").getNat?)
    | .error _ => return .bad

def getExtra (j : Json) : Except String Extra := do
  match j with
  | .null => return .none
  | .str _ => return .notDict
  | .arr items =>
    let l ← items.toList.mapM fun it => do
      let kv ← it.getArr?
      if kv.size ≠ 2 then throw "item" else
      let k : Option String := match kv[0]! with
        | .str s => some s
        | _ => none
      return (k, ← getReq kv[1]!)
    return .dict l
  | _ => throw "extra"

def getB (j : Json) (k : String) (dflt : Bool) : Except String Bool :=
  match j.getObjVal? k with
  | .ok v => v.getBool?
  | .error _ => pure dflt

def getParams (j : Json) : Except String Params := do
  return { idDtype := ← (← j.getObjVal? "id").getStr?, timeDtype := ← (← j.getObjVal? "time").getStr?,
           posDtype := ← (← j.getObjVal? "pos").getStr?, directed := ← (← j.getObjVal? "directed").getBool?,
           numNodes := ← (← j.getObjVal? "n").getNat?, numEdges := ← (← j.getObjVal? "m").getNat?,
           extraNode := ← getExtra (j.getObjValD "xn"), extraEdge := ← getExtra (j.getObjValD "xe"),
           t := ← getB j "t" true, z := ← getB j "z" true, y := ← getB j "y" true, x := ← getB j "x" true,
           vl := ← getB j "vl" false, ms := ← getB j "ms" false }

/-- a model result read as a result of the generated code (T24): the store written once, from `w.geff` -/
def embedW : Outcome (Written × MockData.Geff) → Outcome (PyDoMock.MemStore × MockData.Geff)
  | .ok (w, g) => .ok (⟨[w.geff]⟩, g)
  | .valueError => .valueError
  | .other e => .other e

/-- adds `"gen_agrees"`: the SOURCE-TRANSLATED function (Gen.MockData, translator T24) returns exactly
what the hand-written model returns on this request -/
def withAgrees (j : Json) (agrees : Bool) : Json :=
  (j.setObjVal! "gen_agrees" (Json.bool agrees)).setObjVal! "gen_translationOk" (Json.bool Gen.MockData.translationOk)

def mockJson (r : Outcome (Written × MockData.Geff)) (gen : Outcome (PyDoMock.MemStore × MockData.Geff)) : Json :=
  withAgrees (outcomeJson (fun (wg : Written × MockData.Geff) =>
    Json.mkObj [("mem", geffJson wg.2), ("store_is_mem", Json.bool (wg.1.geff == wg.2))]) r)
    (decide (gen = embedW r))

def genDummy (ok : Bool) (p : Params) : Outcome MockData.Geff :=
  Gen.MockData.createDummyInMemGeff ok p.idDtype ⟨p.posDtype, p.timeDtype⟩ p.directed p.numNodes p.numEdges
    p.extraNode p.extraEdge p.t p.z p.y p.x p.vl p.ms

def genMock (ok : Bool) (p : Params) : Outcome (PyDoMock.MemStore × MockData.Geff) :=
  Gen.MockData.createMockGeff ok p.idDtype ⟨p.posDtype, p.timeDtype⟩ p.directed p.numNodes p.numEdges
    p.extraNode p.extraEdge p.t p.z p.y p.x p.vl p.ms

/-- requests
  {"op":"gen","directed":b,"n":N,"m":M}   -> the TRANSLATED generator `Gen.MockEdges.gen` and the reference
  {"op":"spec","directed":b,"n":N,"m":M,"edges":[[u,v],..]} -> the specification decider on an observed edge list
  {"op":"helper","helper":"dummy"|"mock"|"simple_2d"|"simple_3d"|"simple_temporal"|"empty", params…,
   "vlen_ok":b} -> the model of that public helper -/
def handle (j : Json) : Except String Json := do
  let op ← (← j.getObjVal? "op").getStr?
  match op with
  | "gen" =>
    let directed ← (← j.getObjVal? "directed").getBool?
    let n ← (← j.getObjVal? "n").getNat?
    let m ← (← j.getObjVal? "m").getNat?
    let ref := (MockEdges.gen directed n m).map (fun e => ((e.1 : Int), (e.2 : Int)))
    let tr := match Gen.MockEdges.gen directed n m with
      | .ok es => Json.mkObj [("ok", pairsJson es)]
      | .error e => Json.mkObj [("exc", Json.str e)]
    return Json.mkObj [("translated", tr), ("reference", pairsJson ref),
                       ("translationOk", Json.bool Gen.MockEdges.translationOk)]
  | "spec" =>
    let directed ← (← j.getObjVal? "directed").getBool?
    let n ← (← j.getObjVal? "n").getNat?
    let m ← (← j.getObjVal? "m").getNat?
    let es ← getIntPairs (← j.getObjVal? "edges")
    if es.any (fun e => e.1 < 0 || e.2 < 0) then
      return Json.mkObj [("ok", Json.bool false)]
    let es' := es.map (fun e => (e.1.toNat, e.2.toNat))
    return Json.mkObj [("ok", Json.bool (MockEdges.edgesOk directed n m es'))]
  | "helper" =>
    let h ← (← j.getObjVal? "helper").getStr?
    let ok ← getB j "vlen_ok" false
    match h with
    | "dummy" =>
      let p ← getParams j
      let r := createDummyInMemGeff ok p
      return withAgrees (outcomeJson (fun g => Json.mkObj [("mem", geffJson g)]) r) (decide (genDummy ok p = r))
    | "mock" =>
      let p ← getParams j
      return mockJson (createMockGeff ok p) (genMock ok p)
    | "empty" =>
      let d ← getB j "directed" false
      return mockJson (createEmptyGeff ok d) (Gen.MockData.createEmptyGeff ok d)
    | _ =>
      let directed ← getB j "directed" false
      let n ← match j.getObjVal? "n" with
        | .ok v => v.getNat?
        | .error _ => pure 10
      let m ← match j.getObjVal? "m" with
        | .ok v => v.getNat?
        | .error _ => pure 15
      match h with
      | "simple_2d" => return mockJson (createSimple2dGeff ok n m directed) (Gen.MockData.createSimple2dGeff ok n m directed)
      | "simple_3d" => return mockJson (createSimple3dGeff ok n m directed) (Gen.MockData.createSimple3dGeff ok n m directed)
      | "simple_temporal" => return mockJson (createSimpleTemporalGeff ok n m directed) (Gen.MockData.createSimpleTemporalGeff ok n m directed)
      | _ => throw s!"unknown helper {h}"
  | _ => throw s!"unknown op {op}"

def main : IO Unit := Proto.run handle
