import GeffModel.Proto
import GeffModel.Ctc
import GeffModel.CtcDir
import GeffModel.CtcTable
open Lean Geff Geff.Proto Geff.Ctc

/-! request: {"ndim":2|3, "frames":[[{"l":label,"c":[tok,…]},…],…], "table":[[L,B,E,P],…]}
answer : {"consistent":[consistentB, wfB, sortedB] (the Bool deciders of the theorems' hypotheses), "ok":{"ids":[…],"tracklet":[…],"t":[…],"coords":[[name,[tok,…]],…],"edges":[[a,b],…],
                "axes":[[name,type],…]}}  or  {"exc":"ValueError"|"KeyError"|"IndexError"} -/

def getRegion (j : Json) : Except String Region := do
  let l ← getInt? (← j.getObjVal? "l")
  let c ← (← j.getObjVal? "c").getArr?
  let toks ← c.toList.mapM (fun x => x.getStr?)
  return ⟨l, toks⟩

def getRow (j : Json) : Except String Row := do
  let a ← getIntList j
  match a with
  | [l, b, e, p] => return ⟨l, b, e, p⟩
  | _ => throw "row of 4 integers expected"

def natJson (n : Nat) : Json := intJson (Int.ofNat n)

/-- {"op":"seg","n":T,"shape":[…],"tczyx":b} → {"shape":[…],"chunks":[…]} -/
def handleSeg (j : Json) : Except String Json := do
  let n ← (← j.getObjVal? "n").getNat?
  let sh ← (← (← j.getObjVal? "shape").getArr?).toList.mapM (fun x => x.getNat?)
  let tz ← (← j.getObjVal? "tczyx").getBool?
  return Json.mkObj [("shape", Json.arr ((segShape n sh tz).map natJson).toArray),
                     ("chunks", Json.arr ((segChunks sh tz).map natJson).toArray)]

def parseDs (j : Json) : Except String Dataset := do
  let ndim ← (← j.getObjVal? "ndim").getNat?
  let frames ← (← (← j.getObjVal? "frames").getArr?).toList.mapM
    (fun fr => do (← fr.getArr?).toList.mapM getRegion)
  let table ← (← (← j.getObjVal? "table").getArr?).toList.mapM getRow
  return ⟨ndim, frames, table⟩

def render (ds : Dataset) (r : Outcome Out) : Json :=
  let cons := Json.arr #[Json.bool (consistentB ds), Json.bool (wfB ds), Json.bool (sortedB ds)]
  match r with
  | .ok o =>
    Json.mkObj [("consistent", cons), ("ok", Json.mkObj [
      ("ids", Json.arr (o.nodeIds.map natJson).toArray),
      ("tracklet", Json.arr (o.tracklet.map intJson).toArray),
      ("t", Json.arr (o.ts.map natJson).toArray),
      ("coords", Json.arr (o.coords.map (fun c =>
          Json.arr #[Json.str c.1, Json.arr (c.2.map Json.str).toArray])).toArray),
      ("edges", Json.arr (o.edges.map (fun e => Json.arr #[natJson e.1, natJson e.2])).toArray),
      ("axes", Json.arr (o.axes.map (fun a => Json.arr #[Json.str a.1, Json.str a.2])).toArray)])]
  | .valueError => Json.mkObj [("consistent", cons), ("exc", "ValueError")]
  | .keyError => Json.mkObj [("consistent", cons), ("exc", "KeyError")]
  | .indexError => Json.mkObj [("consistent", cons), ("exc", "IndexError")]

/-- {"op":"seq","datasets":[dataset,…]} → {"steps":[answer,…]} : a sequence of conversions in one
process (`convertSeq`) -/
def handleSeq (j : Json) : Except String Json := do
  let dss ← (← (← j.getObjVal? "datasets").getArr?).toList.mapM parseDs
  return Json.mkObj [("steps", Json.arr ((dss.zip (convertSeq dss)).map (fun p => render p.1 p.2)).toArray)]

/-! deepening: directory layer and table text -/
def codes (s : String) : List Nat := s.toList.map Char.toNat
def uncodes (l : List Nat) : String := String.ofList (l.map Char.ofNat)

/-- {"op":"dir","exists":b,"listing":[name,…]} → {"exc":"FileNotFoundError"} | {"track":name,"frames":[name,…]}
(`frames[k]` is the file that gets frame index `k`) -/
def handleDir (j : Json) : Except String Json := do
  let ex ← (← j.getObjVal? "exists").getBool?
  let names ← (← (← j.getObjVal? "listing").getArr?).toList.mapM (fun x => x.getStr?)
  match Geff.CtcDir.discover ex (names.map codes) with
  | .fileNotFound => return Json.mkObj [("exc", "FileNotFoundError")]
  | .ok f =>
    return Json.mkObj [("track", Json.str (uncodes f.trackFile)),
      ("frames", Json.arr (f.frames.map (fun p => Json.str (uncodes p.2))).toArray),
      ("indices", Json.arr (f.frames.map (fun p => natJson p.1)).toArray)]

/-- {"op":"text","text":s} → {"exc":"ValueError"} | {"unsupported":true} | {"rows":[[int,…],…],"table":[[L,B,E,P],…]} -/
def handleText (j : Json) : Except String Json := do
  let t ← (← j.getObjVal? "text").getStr?
  match Geff.CtcTable.parseTable (codes t) with
  | .valueError => return Json.mkObj [("exc", "ValueError")]
  | .unsupported => return Json.mkObj [("unsupported", Json.bool true)]
  | .ok rows =>
    let tab := match Geff.CtcTable.tableOfText (codes t) with
      | .ok rs => Json.arr (rs.map (fun r => Json.arr #[intJson r.L, intJson r.B, intJson r.E, intJson r.P])).toArray
      | _ => Json.null
    return Json.mkObj [("rows", Json.arr (rows.map (fun r => Json.arr (r.map intJson).toArray)).toArray), ("table", tab)]

/-- {"op":"text-e2e","ndim":…,"frames":…,"text":s} → the conversion of the dataset whose table is the
parsed text: answer of the plain request, or {"exc":"ValueError"} / {"unsupported":true} from the parser -/
def handleTextE2E (j : Json) : Except String Json := do
  let t ← (← j.getObjVal? "text").getStr?
  match Geff.CtcTable.tableOfText (codes t) with
  | .valueError =>
    -- the frame loop runs before the table is read: "No nodes found" (also a ValueError) comes first
    return Json.mkObj [("exc", "ValueError")]
  | .unsupported => return Json.mkObj [("unsupported", Json.bool true)]
  | .ok rows =>
    let ndim ← (← j.getObjVal? "ndim").getNat?
    let frames ← (← (← j.getObjVal? "frames").getArr?).toList.mapM
      (fun fr => do (← fr.getArr?).toList.mapM getRegion)
    let ds : Dataset := ⟨ndim, frames, rows⟩
    return render ds (fromCtc ds)

def handle (j : Json) : Except String Json := do
  if let .ok (Json.str "dir") := j.getObjVal? "op" then return ← handleDir j
  if let .ok (Json.str "text") := j.getObjVal? "op" then return ← handleText j
  if let .ok (Json.str "text-e2e") := j.getObjVal? "op" then return ← handleTextE2E j
  if let .ok (Json.str "seg") := j.getObjVal? "op" then return ← handleSeg j
  if let .ok (Json.str "seq") := j.getObjVal? "op" then return ← handleSeq j
  let ds ← parseDs j
  return render ds (fromCtc ds)

def main : IO Unit := Proto.run handle
