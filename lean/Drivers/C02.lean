import GeffModel.WRJson
import GeffModel.GraphOf
import GeffModel.StoreTree
open Lean Geff Geff.Proto Geff.Store Geff.WR Geff.WRJson Geff.Spec

/-- requests:
  {"op":"denote","store":[…]}   → {"graph": graph | null}      the specification's decoder on a store
  {"op":"read","store":[…]}     → outcome (+ geff, graph = graphOf of the model's read result)
  {"op":"write", …}             → as in Drivers/C01 -/
def cellJson : Cell → Json
  | none => Json.null
  | some a => arrToJson a

def propsDJson (l : List (String × PropD)) : Json :=
  Json.arr (l.map (fun kp => Json.arr #[Json.str kp.1, Json.str (if kp.2.varlength then "vlen" else "dense"),
    Json.arr (kp.2.rows.map cellJson).toArray])).toArray

def graphJson (g : Graph) : Json :=
  Json.mkObj [("directed", Json.bool g.directed), ("id_dtype", Json.str g.idDtype.name),
    ("nodes", Json.arr (g.nodes.map valToJson).toArray),
    ("edges", Json.arr (g.edges.map (fun e => Json.arr #[valToJson e.1, valToJson e.2])).toArray),
    ("node_props", propsDJson g.nodeProps), ("edge_props", propsDJson g.edgeProps)]

def noValidate : St → Outcome Unit := fun _ => pure ()

/-- `"validate": true` = `read_to_memory`'s default `structure_validation=True` (C04's model via the bridge) -/
def validatorOf (j : Json) : St → Outcome Unit :=
  match j.getObjVal? "validate" with
  | .ok (.bool true) => Geff.Bridge.validate
  | _ => noValidate

def handle (j : Json) : Except String Json := do
  let op ← (← j.getObjVal? "op").getStr?
  match op with
  | "denote" =>
    let s ← storeOfJson (← j.getObjVal? "store")
    pure (Json.mkObj [("graph", match denote s with | some g => graphJson g | none => Json.null)])
  | "read" =>
    let s ← storeOfJson (← j.getObjVal? "store")
    pure (outcomeJson (readToMemory vlenCodec (validatorOf j) s)
      (fun r => [("geff", readResultToJson r), ("graph", graphJson (graphOf r))]))
  | "write" =>
    let g ← inMemOfJson (← j.getObjVal? "g")
    let md ← callerMetaOfJson (← j.getObjVal? "md")
    pure (outcomeJson (writeArrays vlenCodec noValidate [] g md) (fun s => [("store", storeToJson s),
      ("graph", match denote s with | some g => graphJson g | none => Json.null)]))
  | _ => throw s!"unknown op {op}"

def main : IO Unit := Proto.run handle
