import GeffModel.Proto
import GeffModel.Segmentation
open Lean Geff Geff.Proto Geff.Np Geff.Seg

/-! JSON-lines driver of C19.  `"op"` selects the function:
`valid_seg_id`, `axes_match`, `in_bounds`, `time_points`, `coords`.
A dyadic number is `[m, e]` (= m / 2^e), an axis `{"type": str|null, "max": dy|null}`, a volume
`"shape": [..], "flat": [labels in C order]`. -/

def natOf (j : Json) : Except String Nat := do
  let i ← getInt? j
  if 0 ≤ i then pure i.toNat else throw "negative"

def natListOf (j : Json) : Except String (List Nat) := do
  (← j.getArr?).toList.mapM natOf

def dyOf (j : Json) : Except String Dy := do
  let a ← j.getArr?
  if a.size = 2 then return ⟨← getInt? a[0]!, ← natOf a[1]!⟩ else throw "dyadic [m,e] expected"

def optOf {α} (f : Json → Except String α) (j : Json) : Except String (Option α) :=
  match j with
  | .null => pure none
  | _ => do return some (← f j)

def listOf {α} (f : Json → Except String α) (j : Json) : Except String (List α) := do
  (← j.getArr?).toList.mapM f

def axisOf (j : Json) : Except String Axis := do
  let t ← optOf (fun x => x.getStr?) (← j.getObjVal? "type")
  let m ← optOf dyOf (← j.getObjVal? "max")
  return ⟨t, m⟩

def axesOf (j : Json) : Except String (Option (List Axis)) := do
  optOf (listOf axisOf) (← j.getObjVal? "axes")

def volOf (j : Json) : Except String Vol := do
  let sh ← natListOf (← j.getObjVal? "shape")
  let fl ← getIntList (← j.getObjVal? "flat")
  return Vol.ofFlat sh fl

def msgJson : Msg → Json
  | .missingSegId => Json.arr #["missingSegId"]
  | .nonIntegerDtype => Json.arr #["nonIntegerDtype"]
  | .missingEntries => Json.arr #["missingEntries"]
  | .noAxes => Json.arr #["noAxes"]
  | .scaleLength n nd => Json.arr #["scaleLength", intJson n, intJson nd]
  | .axesLength n nd => Json.arr #["axesLength", intJson n, intJson nd]
  | .axisOutOfBounds i => Json.arr #["axisOutOfBounds", intJson i]
  | .noAxisMax => Json.arr #["noAxisMax"]
  | .timeOutOfBounds t => Json.arr #["timeOutOfBounds", intJson t]
  | .missingLabel i t => Json.arr #["missingLabel", intJson i, intJson t]
  | .lengthMismatch => Json.arr #["lengthMismatch"]
  | .coordLength k => Json.arr #["coordLength", intJson k]
  | .coordOutOfBounds k => Json.arr #["coordOutOfBounds", intJson k]

def outJson : Outcome Result → Json
  | .ok r => Json.mkObj [("ok", Json.bool r.ok), ("errors", Json.arr (r.errors.map msgJson).toArray)]
  | .other n => Json.mkObj [("exc", Json.str n)]

def propOf (j : Json) : Except String (String × PropInfo) := do
  let a ← j.getArr?
  if a.size ≠ 2 then throw "prop pair expected"
  let name ← a[0]!.getStr?
  let dts ← (← a[1]!.getObjVal? "dtype").getStr?
  let dt := (Dtype.ofName? dts).getD .other
  let miss ← optOf (listOf (fun x => x.getBool?)) (← a[1]!.getObjVal? "missing")
  return (name, ⟨dt, miss⟩)

def handle (j : Json) : Except String Json := do
  let op ← (← j.getObjVal? "op").getStr?
  match op with
  | "valid_seg_id" =>
    let props ← listOf propOf (← j.getObjVal? "props")
    let key ← (← j.getObjVal? "key").getStr?
    return outJson (hasValidSegId props key)
  | "axes_match" =>
    return outJson (axesMatchSegDims (← axesOf j) (← natOf (← j.getObjVal? "nd")))
  | "in_bounds" =>
    let sc ← optOf (listOf dyOf) (← j.getObjVal? "scale")
    return outJson (graphIsInSegBounds (← axesOf j) (← natListOf (← j.getObjVal? "shape")) sc)
  | "time_points" =>
    let v ← volOf j
    let tps ← getIntList (← j.getObjVal? "tps")
    let ids ← getIntList (← j.getObjVal? "ids")
    return outJson (hasSegIdsAtTimePoints v tps ids (← axesOf j))
  | "coords" =>
    let v ← volOf j
    let cs ← listOf (listOf dyOf) (← j.getObjVal? "coords")
    let ids ← getIntList (← j.getObjVal? "ids")
    let sc ← optOf (listOf dyOf) (← j.getObjVal? "scale")
    return outJson (hasSegIdsAtCoords v cs ids sc)
  | _ => throw s!"unknown op {op}"

def main : IO Unit := Proto.run handle
