import GeffModel.Proto
import GeffModel.Segmentation
import GeffModel.PyDoSeg
open Lean Geff Geff.Proto Geff.Np Geff.Seg

/-! JSON-lines driver of C19.  `"op"` selects the function:
`valid_seg_id`, `axes_match`, `in_bounds`, `time_points`, `coords`, and `prim` (one primitive of
`GeffModel/PyDoSeg.lean`, selected by `"f"`, evaluated also at the points the guards of the source
exclude — compared with Python / numpy by the primitive stream of the harness).
A dyadic number is `[m, e]` (= m / 2^e), an axis `{"type": str|null, "max": dy|null}`, a volume
`"shape": [..], "flat": [labels in C order]`. -/

def natOf (j : Json) : Except String Nat := do
  let i ← getInt? j
  if 0 ≤ i then pure i.toNat else throw "negative"

def natListOf (j : Json) : Except String (List Nat) := do
  (← j.getArr?).toList.mapM natOf

def dyOf (j : Json) : Except String Dy := do
  let a ← j.getArr?
  if a.size = 2 then return ⟨← getInt? a[0]!, ← natOf a[1]!⟩ else throw "dyadic [m,e] expected"

def optOf {α} (f : Json → Except String α) (j : Json) : Except String (Option α) :=
  match j with
  | .null => pure none
  | _ => do return some (← f j)

def listOf {α} (f : Json → Except String α) (j : Json) : Except String (List α) := do
  (← j.getArr?).toList.mapM f

def axisOf (j : Json) : Except String Axis := do
  let t ← optOf (fun x => x.getStr?) (← j.getObjVal? "type")
  let m ← optOf dyOf (← j.getObjVal? "max")
  return ⟨t, m⟩

def axesOf (j : Json) : Except String (Option (List Axis)) := do
  optOf (listOf axisOf) (← j.getObjVal? "axes")

def volOf (j : Json) : Except String Vol := do
  let sh ← natListOf (← j.getObjVal? "shape")
  let fl ← getIntList (← j.getObjVal? "flat")
  return Vol.ofFlat sh fl

def msgJson : Msg → Json
  | .missingSegId => Json.arr #["missingSegId"]
  | .nonIntegerDtype => Json.arr #["nonIntegerDtype"]
  | .missingEntries => Json.arr #["missingEntries"]
  | .noAxes => Json.arr #["noAxes"]
  | .scaleLength n nd => Json.arr #["scaleLength", intJson n, intJson nd]
  | .axesLength n nd => Json.arr #["axesLength", intJson n, intJson nd]
  | .axisOutOfBounds i => Json.arr #["axisOutOfBounds", intJson i]
  | .noAxisMax => Json.arr #["noAxisMax"]
  | .timeOutOfBounds t => Json.arr #["timeOutOfBounds", intJson t]
  | .missingLabel i t => Json.arr #["missingLabel", intJson i, intJson t]
  | .lengthMismatch => Json.arr #["lengthMismatch"]
  | .coordLength k => Json.arr #["coordLength", intJson k]
  | .coordOutOfBounds k => Json.arr #["coordOutOfBounds", intJson k]

def outJson : Outcome Result → Json
  | .ok r => Json.mkObj [("ok", Json.bool r.ok), ("errors", Json.arr (r.errors.map msgJson).toArray)]
  | .other n => Json.mkObj [("exc", Json.str n)]

def propOf (j : Json) : Except String (String × PropInfo) := do
  let a ← j.getArr?
  if a.size ≠ 2 then throw "prop pair expected"
  let name ← a[0]!.getStr?
  let dts ← (← a[1]!.getObjVal? "dtype").getStr?
  let dt := (Dtype.ofName? dts).getD .other
  let miss ← optOf (listOf (fun x => x.getBool?)) (← a[1]!.getObjVal? "missing")
  return (name, ⟨dt, miss⟩)

/-! ## the primitives of the generated code (`GeffModel/PyDoSeg.lean`), one by one -/

def outOf {α} (f : α → Json) : Outcome α → Json
  | .ok v => Json.mkObj [("ok", f v)]
  | .other n => Json.mkObj [("exc", Json.str n)]

def intsJson (l : List Int) : Json := Json.arr (l.map intJson).toArray
def natJson (n : Nat) : Json := intJson n
def dyJson (a : Dy) : Json := Json.arr #[intJson a.m, natJson a.e]

def handlePrim (j : Json) : Except String Json := do
  let f ← (← j.getObjVal? "f").getStr?
  match f with
  | "npIndex" =>
    return outOf intJson (npIndex (← volOf j) (← getIntList (← j.getObjVal? "idx")))
  | "npUniqueTake" =>
    let r := Geff.PyDoSeg.npUniqueTake (← volOf j) (← getInt? (← j.getObjVal? "t")) (← natOf (← j.getObjVal? "axis"))
    return outOf intsJson r
  | "pyInt" => return intJson (Geff.PyDoSeg.pyInt (← dyOf (← j.getObjVal? "x")))
  | "dyTruthy" => return Json.bool (Geff.PyDoSeg.dyTruthy (← dyOf (← j.getObjVal? "x")))
  | "allZipStrict" =>
    let xs ← listOf dyOf (← j.getObjVal? "xs")
    let sh ← natListOf (← j.getObjVal? "shape")
    return outOf Json.bool (Geff.PyDoSeg.allZipStrict
      (fun (c : Dy) (dim : Nat) => (Dy.le (Dy.ofInt 0) c && Dy.lt c (Dy.ofInt dim))) xs sh)
  | "mapZipStrict" =>
    let a ← listOf dyOf (← j.getObjVal? "a")
    let b ← listOf dyOf (← j.getObjVal? "b")
    return outOf (fun l => Json.arr (l.map dyJson).toArray)
      (Geff.PyDoSeg.mapZipStrict (fun (c : Dy) (s : Dy) => Dy.mul c s) a b)
  | "dd" =>
    -- a defaultdict(list): the appends in order, then the reads
    let apps ← getIntPairs (← j.getObjVal? "appends")
    let reads ← getIntList (← j.getObjVal? "reads")
    let d := apps.foldl (fun d p => Geff.PyDoSeg.ddAppend d p.1 p.2) []
    return Json.mkObj [("len", natJson d.length), ("keys", intsJson (d.map (·.1))),
      ("reads", Json.arr (reads.map (fun k => intsJson (Geff.PyDoSeg.ddGet d k))).toArray)]
  | "dictSetKey" =>
    let ks ← getIntList (← j.getObjVal? "keys")
    let d := ks.foldl Geff.PyDoSeg.dictSetKey []
    return Json.mkObj [("len", natJson d.length), ("keys", intsJson d)]
  | "optlist" =>
    let x ← optOf (listOf (fun b => b.getBool?)) (← j.getObjVal? "x")
    return Json.mkObj [("truthy", Json.bool (Geff.PyDoSeg.truthy x)), ("len", outOf natJson (Geff.PyDoSeg.pyLen x)),
      ("iter", outOf (fun l => Json.arr (l.map Json.bool).toArray) (Geff.PyDoSeg.pyIter x)),
      ("any", outOf Json.bool (Geff.PyDoSeg.pyAny x))]
  | "listGet" =>
    return outOf natJson (Geff.PyDoSeg.listGet (← natListOf (← j.getObjVal? "l")) (← natOf (← j.getObjVal? "i")))
  | "dict" =>
    let keys ← listOf (fun x => x.getStr?) (← j.getObjVal? "keys")
    let k ← (← j.getObjVal? "k").getStr?
    let d := keys.zip (List.range keys.length)
    return Json.mkObj [("contains", Json.bool (Geff.PyDoSeg.dictContains d k)),
      ("get", outOf natJson (Geff.PyDoSeg.dictGet d k))]
  | "pyIndexOf" =>
    let axes ← axesOf j
    let i ← natOf (← j.getObjVal? "i")
    match axes with
    | some l =>
      match l[i]? with
      | some a => return outOf natJson (Geff.PyDoSeg.pyIndexOf axes a)
      | none => throw "axis position out of range"
    | none => return outOf natJson (Geff.PyDoSeg.pyIndexOf none ⟨none, none⟩)
  | _ => throw s!"unknown primitive {f}"

def handle (j : Json) : Except String Json := do
  let op ← (← j.getObjVal? "op").getStr?
  match op with
  | "valid_seg_id" =>
    let props ← listOf propOf (← j.getObjVal? "props")
    let key ← (← j.getObjVal? "key").getStr?
    return outJson (hasValidSegId props key)
  | "axes_match" =>
    return outJson (axesMatchSegDims (← axesOf j) (← natOf (← j.getObjVal? "nd")))
  | "in_bounds" =>
    let sc ← optOf (listOf dyOf) (← j.getObjVal? "scale")
    return outJson (graphIsInSegBounds (← axesOf j) (← natListOf (← j.getObjVal? "shape")) sc)
  | "time_points" =>
    let v ← volOf j
    let tps ← getIntList (← j.getObjVal? "tps")
    let ids ← getIntList (← j.getObjVal? "ids")
    return outJson (hasSegIdsAtTimePoints v tps ids (← axesOf j))
  | "coords" =>
    let v ← volOf j
    let cs ← listOf (listOf dyOf) (← j.getObjVal? "coords")
    let ids ← getIntList (← j.getObjVal? "ids")
    let sc ← optOf (listOf dyOf) (← j.getObjVal? "scale")
    return outJson (hasSegIdsAtCoords v cs ids sc)
  | "prim" => handlePrim j
  | _ => throw s!"unknown op {op}"

def main : IO Unit := Proto.run handle
