import GeffModel.WRJson
import GeffModel.StoreTree
open Lean Geff Geff.Proto Geff.Store Geff.WR Geff.WRJson

/-- requests:
  {"op":"write","g":geff,"md":meta,"node_unsquish":…,"edge_unsquish":…,"store":[…]?}  → outcome (+ store)
  {"op":"read","store":[…]}                                                        → outcome (+ geff, md)
  {"op":"roundtrip","g":…,"md":…}                                                  → outcome of write then read
`"validate": true` runs the structural validator (C04's model through `Geff.Bridge.validate`) where
`write_arrays` / `read_to_memory` call `validate_structure`; default false. -/
def noValidate : St → Outcome Unit := fun _ => pure ()

def validatorOf (j : Json) : St → Outcome Unit :=
  match j.getObjVal? "validate" with
  | .ok (.bool true) => Geff.Bridge.validate
  | _ => noValidate

def handle (j : Json) : Except String Json := do
  let op ← (← j.getObjVal? "op").getStr?
  match op with
  | "write" =>
    let g ← inMemOfJson (← j.getObjVal? "g")
    let md ← callerMetaOfJson (← j.getObjVal? "md")
    let u : Unsquish := ⟨← unsquishOfJson (optField j "node_unsquish"), ← unsquishOfJson (optField j "edge_unsquish")⟩
    let s0 ← match j.getObjVal? "store" with
      | .ok st => storeOfJson st
      | .error _ => pure []
    pure (outcomeJson (writeArrays vlenCodec (validatorOf j) s0 g md u) (fun s => [("store", storeToJson s)]))
  | "read" =>
    let s ← storeOfJson (← j.getObjVal? "store")
    pure (outcomeJson (readToMemory vlenCodec (validatorOf j) s)
      (fun r => [("geff", readResultToJson r), ("md", geffAttrToJson r.md)]))
  | "roundtrip" =>
    let g ← inMemOfJson (← j.getObjVal? "g")
    let md ← callerMetaOfJson (← j.getObjVal? "md")
    let r := do
      let s ← writeArrays vlenCodec noValidate [] g md
      readToMemory vlenCodec noValidate s
    pure (outcomeJson r (fun r => [("geff", readResultToJson r)]))
  | _ => throw s!"unknown op {op}"

def main : IO Unit := Proto.run handle
