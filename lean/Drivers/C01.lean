import GeffModel.WRJson
open Lean Geff Geff.Proto Geff.Store Geff.WR Geff.WRJson

/-- requests:
  {"op":"write","g":geff,"md":meta,"node_unsquish":…,"edge_unsquish":…,"store":[…]?}  → outcome (+ store)
  {"op":"read","store":[…]}                                                        → outcome (+ geff, md)
  {"op":"roundtrip","g":…,"md":…}                                                  → outcome of write then read
Structural validation (C04) is not part of these models: `validate := fun _ => ok`. -/
def noValidate : St → Outcome Unit := fun _ => pure ()

def handle (j : Json) : Except String Json := do
  let op ← (← j.getObjVal? "op").getStr?
  match op with
  | "write" =>
    let g ← inMemOfJson (← j.getObjVal? "g")
    let md ← callerMetaOfJson (← j.getObjVal? "md")
    let u : Unsquish := ⟨← unsquishOfJson (optField j "node_unsquish"), ← unsquishOfJson (optField j "edge_unsquish")⟩
    let s0 ← match j.getObjVal? "store" with
      | .ok st => storeOfJson st
      | .error _ => pure []
    pure (outcomeJson (writeArrays vlenCodec noValidate s0 g md u) (fun s => [("store", storeToJson s)]))
  | "read" =>
    let s ← storeOfJson (← j.getObjVal? "store")
    pure (outcomeJson (readToMemory vlenCodec noValidate s)
      (fun r => [("geff", readResultToJson r), ("md", geffAttrToJson r.md)]))
  | "roundtrip" =>
    let g ← inMemOfJson (← j.getObjVal? "g")
    let md ← callerMetaOfJson (← j.getObjVal? "md")
    let r := do
      let s ← writeArrays vlenCodec noValidate [] g md
      readToMemory vlenCodec noValidate s
    pure (outcomeJson r (fun r => [("geff", readResultToJson r)]))
  | _ => throw s!"unknown op {op}"

def main : IO Unit := Proto.run handle
