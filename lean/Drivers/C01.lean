import GeffModel.WRJson
import GeffModel.StoreTree
import GeffModel.ReadOpts
open Lean Geff Geff.Proto Geff.Store Geff.WR Geff.WRJson

/-- requests:
  {"op":"write","g":geff,"md":meta,"node_unsquish":…,"edge_unsquish":…,"store":[…]?}  → outcome (+ store)
  {"op":"read","store":[…]}                                                        → outcome (+ geff, md)
  {"op":"roundtrip","g":…,"md":…}                                                  → outcome of write then read
  {"op":"read_opts","store":[…],"ds":{"decl":{…},"other":{…}},"reads":[{"entry":…,"sv":b,"np":…,"ep":…,"dv":…}, …]}
                                                                                   → {"answers":[outcome (+ geff, md), …]}
`"validate": true` runs the structural validator (C04's model through `Geff.Bridge.validate`) where
`write_arrays` / `read_to_memory` call `validate_structure`; default false.
`read_opts`: one store, many read configurations (`GeffModel/ReadOpts.lean`): `entry` is `read_to_memory`,
`reader_build` (GeffReader + read_*_props + build, then `validate_data` by hand when `dv` is given) or
`read:<backend>` (Backend.read with `construct` = identity); `sv` = structure_validation; `np` / `ep` = null or
the list of names; `dv` = null or the list of enabled `ValidationConfig` flags. -/
def noValidate : St → Outcome Unit := fun _ => pure ()

def validatorOf (j : Json) : St → Outcome Unit :=
  match j.getObjVal? "validate" with
  | .ok (.bool true) => Geff.Bridge.validate
  | _ => noValidate

def namesOfJson (j : Json) : Except String (Option (List String)) :=
  if j.isNull then pure none else do pure (some (← (← j.getArr?).toList.mapM (·.getStr?)))

def configOfJson (j : Json) : Except String (Option Geff.Validate.Config) :=
  if j.isNull then pure none else do
    let fl ← (← j.getArr?).toList.mapM (·.getStr?)
    if fl.any (fun f => !(["graph", "sphere", "ellipsoid", "lineage", "tracklet"].contains f)) then throw "unknown flag"
    pure (some { graph := fl.contains "graph", sphere := fl.contains "sphere", ellipsoid := fl.contains "ellipsoid",
                 lineage := fl.contains "lineage", tracklet := fl.contains "tracklet" })

def validateOutcomeOfJson (j : Json) : Geff.Validate.Outcome :=
  match j with
  | .str "ok" => .ok
  | .str "ValueError" => .valueError ""
  | .str n => .other n
  | _ => .ok

def dataSideOfJson (j : Json) : Except String DataSide := do
  if j.isNull then return ⟨⟨false, false, none⟩, fun _ => .ok⟩
  let d := optField j "decl"
  let track ← match optField d "track" with
    | .null => pure none
    | t => do
      let a ← t.getArr?
      if a.size = 2 then pure (some ((← a[0]!.getBool?), (← a[1]!.getBool?))) else throw "[tracklet, lineage] expected"
  let b := fun (k : String) => match optField d k with | .bool true => true | _ => false
  let o := optField j "other"
  pure ⟨⟨b "sphere", b "ellipsoid", track⟩, fun call => match call with
    | .sphere => validateOutcomeOfJson (optField o "sphere")
    | .ellipsoid => validateOutcomeOfJson (optField o "ellipsoid")
    | .tracklets => validateOutcomeOfJson (optField o "tracklet")
    | .lineages => validateOutcomeOfJson (optField o "lineage")
    | _ => .ok⟩

def readOne (s : St) (ds : DataSide) (j : Json) : Except String Json := do
  let entry ← (← j.getObjVal? "entry").getStr?
  let sv ← (← j.getObjVal? "sv").getBool?
  let o : ReadOpts := ⟨sv, ← namesOfJson (optField j "np"), ← namesOfJson (optField j "ep"), ← configOfJson (optField j "dv")⟩
  let r : Outcome ReadResult ←
    if entry = "read_to_memory" then pure (readToMemoryOpts vlenCodec Geff.Bridge.validate (validateDataOn ds) o s)
    else if entry = "reader_build" then pure (do
      let r ← readerBuild vlenCodec Geff.Bridge.validate sv o.nodeProps o.edgeProps s
      match o.dataValidation with
      | some cfg => validateDataOn ds cfg r
      | none => pure ()
      pure r)
    else if entry.startsWith "read:" then pure (do
      let gr ← geffRead (γ := ReadResult) pure vlenCodec Geff.Bridge.validate (validateDataOn ds) o s
      pure gr.1)
    else throw s!"unknown entry {entry}"
  pure (outcomeJson r (fun r => [("geff", readResultToJson r), ("md", geffAttrToJson r.md)]))

def handle (j : Json) : Except String Json := do
  let op ← (← j.getObjVal? "op").getStr?
  match op with
  | "write" =>
    let g ← inMemOfJson (← j.getObjVal? "g")
    let md ← callerMetaOfJson (← j.getObjVal? "md")
    let u : Unsquish := ⟨← unsquishOfJson (optField j "node_unsquish"), ← unsquishOfJson (optField j "edge_unsquish")⟩
    let s0 ← match j.getObjVal? "store" with
      | .ok st => storeOfJson st
      | .error _ => pure []
    pure (outcomeJson (writeArrays vlenCodec (validatorOf j) s0 g md u) (fun s => [("store", storeToJson s)]))
  | "read" =>
    let s ← storeOfJson (← j.getObjVal? "store")
    pure (outcomeJson (readToMemory vlenCodec (validatorOf j) s)
      (fun r => [("geff", readResultToJson r), ("md", geffAttrToJson r.md)]))
  | "roundtrip" =>
    let g ← inMemOfJson (← j.getObjVal? "g")
    let md ← callerMetaOfJson (← j.getObjVal? "md")
    let r := do
      let s ← writeArrays vlenCodec noValidate [] g md
      readToMemory vlenCodec noValidate s
    pure (outcomeJson r (fun r => [("geff", readResultToJson r)]))
  | "read_opts" =>
    let s ← storeOfJson (← j.getObjVal? "store")
    let ds ← dataSideOfJson (optField j "ds")
    let reads ← (← j.getObjVal? "reads").getArr?
    let answers ← reads.toList.mapM (readOne s ds)
    pure (Json.mkObj [("answers", Json.arr answers.toArray)])
  | _ => throw s!"unknown op {op}"

def main : IO Unit := Proto.run handle
