import GeffModel.KVTorn
/-! driver of C05: the key-view model of the write path, the verdict of the final validation taken on the
committed store (see GeffModel/KVTorn.lean; protocol as in GeffModel/KVJson.lean) -/
def main : IO Unit := Geff.Proto.run Geff.KVJson.handleT
