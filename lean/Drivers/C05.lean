import GeffModel.KVJson
/-! driver of C05: the key-view model of the write path (see GeffModel/KVJson.lean for the protocol) -/
def main : IO Unit := Geff.Proto.run Geff.KVJson.handle
