import GeffModel.MetaProto
import GeffModel.ValidatorsProto
open Lean Geff Geff.Meta Geff.Meta.Wire

/-- requests
* `{"op":"run","env":…,"init":…,"ops":[…]}` → `{"init":out, "obj"?:obs, "steps":[{"out":…, obs…}]}`
* `{"op":"valid","env":…,"dump":J}` → the specification evaluated on an observed `model_dump()`
* `{"op":"axes","env":…, names/units/types/scales/scaled_units/offset/roi_min/roi_max}` → `axes_from_lists`
* `{"op":"genval","kind":…}` → a source-translated validator body (`GeffModel/ValidatorsProto.lean`) -/
def handle (j : Json) : Except String Json := do
  let op ← (← j.getObjVal? "op").getStr?
  if op = "genval" then return ← handleGenval j
  let env ← toEnv (← j.getObjVal? "env")
  if op = "run" then
    let init ← toInit (← j.getObjVal? "init")
    let ops ← (← (← j.getObjVal? "ops").getArr?).toList.mapM toOp
    match start env init with
    | .error e => return Json.mkObj [("init", .str e.name), ("steps", .arr #[])]
    | .ok o =>
      let steps := (trace env o ops).map fun r =>
        Json.mkObj (("out", Json.str (outName r.1)) :: obsObj env r.2)
      return Json.mkObj [("init", .str "ok"), ("obj", Json.mkObj (obsObj env o)), ("steps", .arr steps.toArray)]
  else if op = "valid" then
    match ofDump (← toJ (← j.getObjVal? "dump")) with
    | none => return Json.mkObj [("decoded", .bool false)]
    | some m =>
      return Json.mkObj [("decoded", .bool true), ("viol", .str (firstViolation env m)),
                         ("valid", .bool (decide (Valid env m))), ("validCode", .bool (decide (ValidCode env m))),
                         ("redump", ofJ (dump m))]
  else if op = "axes" then
    let names ← match optField j "names" with
      | none => pure none
      | some v => do
        let l ← (← v.getArr?).toList.mapM (·.getStr?)
        pure (some l)
    let r := axesFromLists env names (← toOptStrList (optField j "units")) (← toOptStrList (optField j "types"))
      (← toOptNumList (optField j "scales")) (← toOptStrList (optField j "scaled_units"))
      (← toOptNumList (optField j "offset")) (← toOptNumList (optField j "roi_min")) (← toOptNumList (optField j "roi_max"))
    match r with
    | .error e => return Json.mkObj [("out", .str e.name)]
    | .ok l => return Json.mkObj [("out", .str "ok"), ("axes", .arr (l.map (fun a => ofJ (dumpAxis a))).toArray)]
  else throw s!"unknown op {op}"

def main : IO Unit := Proto.run handle
