import GeffModel.MetaProto
import GeffModel.SchemaSpec
import Gen.SchemaPublished
import Gen.SchemaExported
open Lean Geff Geff.Meta Geff.Meta.Wire Geff.Meta.Schema

/-- requests
* `{"op":"roundtrip","env":…,"doc":J,"foreign":J}` → parse the document, then observe the model's
  `dump`, `parse ∘ dump`, attribute write/read with the foreign attributes, and schema validity
* `{"op":"validate","env":…,"which":"published"|"exported"|"spec","inst":J}` → verdict of the Lean
  evaluator on an arbitrary instance (cross-checked against `jsonschema`) -/
def handle (j : Json) : Except String Json := do
  let op ← (← j.getObjVal? "op").getStr?
  let env ← toEnv (← j.getObjVal? "env")
  if op = "roundtrip" then
    let doc ← toJ (← j.getObjVal? "doc")
    let foreign ← match ← toJ (← j.getObjVal? "foreign") with
      | .obj kvs => pure kvs
      | _ => throw "foreign must be an object"
    match parse env doc with
    | .error e => return Json.mkObj [("parse", .str e.name)]
    | .ok o =>
      let d := dump o.val
      let again := parse env d
      let reparse := match again with
        | .ok o2 => decide (o2.val = o.val) && decide (o2.fieldsSet = fieldNames)
        | .error _ => false
      let attrs := writeAttrs foreign o.val
      let back := match readAttrs env attrs with
        | .ok o3 => decide (o3.val = o.val)
        | .error _ => false
      let kept := foreign.all (fun kv => kv.1 = "geff" || decide (lookup attrs kv.1 = lookup foreign kv.1))
      let inst := J.obj [("geff", d)]
      return Json.mkObj [("parse", .str "ok"), ("dump", ofJ d), ("reparse_same", .bool reparse),
        ("attrs_same", .bool back), ("foreign_kept", .bool kept),
        ("valid", .bool (decide (Valid env o.val))),
        ("schema_ok", .bool (validates env.pat Spec.defs evalFuel Spec.root inst)),
        ("schema_ok_published", .bool (verdict env.pat Gen.SchemaPublished.doc inst))]
  else if op = "validate" then
    let inst ← toJ (← j.getObjVal? "inst")
    let which ← (← j.getObjVal? "which").getStr?
    let v :=
      if which = "published" then verdict env.pat Gen.SchemaPublished.doc inst
      else if which = "exported" then verdict env.pat Gen.SchemaExported.doc inst
      else validates env.pat Spec.defs evalFuel Spec.root inst
    return Json.mkObj [("verdict", .bool v)]
  else throw s!"unknown op {op}"

def main : IO Unit := Proto.run handle
