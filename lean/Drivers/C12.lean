import GeffModel.Proto
import GeffModel.ValidateData
import GeffModel.Lineage
import GeffModel.Tracklet
import GeffModel.EllipsoidProto
import GeffModel.NpPrimProto
import GeffModel.ByteOrder
open Lean Geff Geff.Proto Geff.Validate

def pairsJson (l : List (Int × Int)) : Json :=
  Json.arr (l.map fun e => Json.arr #[intJson e.1, intJson e.2]).toArray

def outcomeJson : Outcome → Json
  | .ok => Json.mkObj [("o", "ok")]
  | .valueError m => Json.mkObj [("o", "ValueError"), ("msg", m)]
  | .other n => Json.mkObj [("o", n)]

def getBoolList (j : Json) : Except String (List Bool) := do
  (← j.getArr?).toList.mapM fun b => b.getBool?

def getMissing (j : Json) : Except String (Option (List Bool)) :=
  match j.getObjVal? "missing" with
  | .ok Json.null => pure none
  | .ok m => do pure (some (← getBoolList m))
  | .error _ => pure none

def getNum (j : Json) : Except String Num :=
  match j.getObjVal? "i" with
  | .ok v => do pure (.int (← getInt? v))
  | .error _ => do
    let b ← getInt? (← j.getObjVal? "f")
    pure (.f64 b.toNat)

def callOfName (s : String) : Except String Call :=
  match [Call.uniqueNodeIds, .nodesForEdges, .noSelfEdges, .noRepeatedEdges, .sphere, .ellipsoid,
         .tracklets, .lineages].find? (fun c => c.pyName = s) with
  | some c => pure c
  | none => throw s!"unknown call {s}"

def handle (j : Json) : Except String Json := do
  let op ← (← j.getObjVal? "op").getStr?
  -- numpy primitive library and the GENERATED validators (`Gen.ValidateGraph`, translator T11): ops `np_*`, `gen_*`
  if let some r := Geff.NpPrim.handle op j then return (← r)
  match op with
  | "graph" =>
    let ids ← getIntList (← j.getObjVal? "ids")
    let edges ← getIntPairs (← j.getObjVal? "edges")
    let directed ← (← j.getObjVal? "directed").getBool?
    let u := validateUniqueNodeIds ids
    let n := validateNodesForEdges ids edges
    let s := validateNoSelfEdges edges
    let r := validateNoRepeatedEdges edges
    return Json.mkObj [
      ("unique", Json.mkObj [("valid", u.1), ("off", Json.arr (u.2.map intJson).toArray)]),
      ("nodes_for_edges", Json.mkObj [("valid", n.1), ("off", pairsJson n.2)]),
      ("self", Json.mkObj [("valid", s.1), ("off", Json.arr (s.2.map intJson).toArray)]),
      ("repeated", Json.mkObj [("valid", r.1), ("off", pairsJson r.2)]),
      ("stage", outcomeJson (graphStage directed ids edges))]
  | "sphere" =>
    let ndim ← (← j.getObjVal? "ndim").getNat?
    let flat ← (← (← j.getObjVal? "flat").getArr?).toList.mapM getNum
    return outcomeJson (validateSphere ndim flat (← getMissing j))
  | "ellipsoid_shape" =>
    let axes ← match j.getObjVal? "axes" with
      | .ok Json.null => pure none
      | .ok a => do pure (some (← (← a.getArr?).toList.mapM fun s => s.getStr?))
      | .error e => throw e
    let shape ← (← (← j.getObjVal? "shape").getArr?).toList.mapM fun s => s.getNat?
    return outcomeJson (ellipsoidShapeStage axes shape)
  | "ellipsoid" =>
    let axes ← match j.getObjVal? "axes" with
      | .ok Json.null => pure none
      | .ok a => do pure (some (← (← a.getArr?).toList.mapM fun s => s.getStr?))
      | .error e => throw e
    let shape ← (← (← j.getObjVal? "shape").getArr?).toList.mapM fun s => s.getNat?
    let sym ← getBoolList (← j.getObjVal? "sym")
    let pd ← getBoolList (← j.getObjVal? "pd")
    return outcomeJson (validateEllipsoid axes shape sym pd (← getMissing j))
  | "ellipsoid_exact" => Geff.Validate.EllipsoidProto.handle j   -- exact symmetric / positive-definite stage
  | "lineage_masked" =>
    -- validate_data(lineage=True): `_nodes_with_id` then `validate_lineages` (int64 cast first)
    let nodes ← getIntList (← j.getObjVal? "nodes")
    let labels ← getIntList (← j.getObjVal? "labels")
    let edges ← getIntPairs (← j.getObjVal? "edges")
    match Tracklet.nodesWithId (nodes.map Tracklet.toInt64) (labels.map Tracklet.toInt64) (← getMissing j) with
    | none => return Json.mkObj [("o", "IndexError")]
    | some nl =>
      let es := edges.map fun e => (Tracklet.toInt64 e.1, Tracklet.toInt64 e.2)
      return Json.mkObj [("valid", Json.bool (Lineage.validateLineages nl es)),
                         ("bad", Json.arr ((Lineage.lineageErrors nl es).map intJson).toArray)]
  | "read_bytes" =>
    -- byte order per stored id array (GeffModel/ByteOrder.lean): the raw items read back from the store
    -- under test, each array decoded by ITS OWN recorded byte order, then the graph stage of validate_data
    let getEndian (k : String) : Except String Geff.ByteOrder.Endian := do
      match (← (← j.getObjVal? k).getStr?) with
      | "little" => pure .little
      | "big" => pure .big
      | s => throw s!"unknown byte order {s}"
    let getItems (k : String) : Except String (List (List Nat)) := do
      (← (← j.getObjVal? k).getArr?).toList.mapM fun it => do
        (← it.getArr?).toList.mapM fun b => b.getNat?
    let signed ← (← j.getObjVal? "signed").getBool?
    let directed ← (← j.getObjVal? "directed").getBool?
    let nodes : Geff.ByteOrder.IdArray := { endian := ← getEndian "node_endian", signed := signed, items := ← getItems "node_items" }
    let edges : Geff.ByteOrder.IdArray := { endian := ← getEndian "edge_endian", signed := signed, items := ← getItems "edge_items" }
    return Json.mkObj [("ids", Json.arr (nodes.values.map intJson).toArray),
                       ("edges", pairsJson (Geff.ByteOrder.pairs edges.values)),
                       ("stage", outcomeJson (Geff.ByteOrder.readGraphStage directed nodes edges)),
                       ("stage_view", outcomeJson (Geff.ByteOrder.readGraphStageView directed nodes edges))]
  | "dispatch" =>
    let cfg ← getBoolList (← j.getObjVal? "config")   -- graph, sphere, ellipsoid, lineage, tracklet
    let dec ← getBoolList (← j.getObjVal? "decl")     -- sphere, ellipsoid, trackProps set, "tracklet" key, "lineage" key
    match cfg, dec with
    | [g, s, e, l, t], [ds, de, tp, kt, kl] =>
      let c : Config := { graph := g, sphere := s, ellipsoid := e, lineage := l, tracklet := t }
      let d : Decl := { sphere := ds, ellipsoid := de, trackProps := if tp then some (kt, kl) else none }
      let failing ← (← (← j.getObjVal? "failing").getArr?).toList.mapM fun s => do callOfName (← s.getStr?)
      let result : Call → Outcome := fun call => if call ∈ failing then .valueError call.pyName else .ok
      return Json.mkObj [("called", Json.arr ((called c d).map fun x => Json.str x.pyName).toArray),
                         ("outcome", outcomeJson (validateData c d result))]
    | _, _ => throw "config/decl need 5 booleans each"
  | _ => throw s!"unknown op {op}"

def main : IO Unit := Proto.run handle
