import GeffModel.Proto
import GeffModel.MetaWrite
open Lean Geff Geff.Proto Geff.Np Geff.MetaW

/-! JSON-lines driver for C10 (κ = Int: the harness scales the exact binary fractions of a case to
integers).

request `{"op": "write_arrays"|"write_dicts"|"nx"|"rx"|"sg"|"axes_from_lists"|"minmax", …}` →
`{"ok": Written}` / `{"ok": [Axis…]}` / `{"ok": Meta}` or `{"err": class}`. -/

def fld (j : Json) (k : String) : Except String Json := j.getObjVal? k
def fldD (j : Json) (k : String) : Json := (j.getObjVal? k).toOption.getD Json.null
def arrOf {α} (f : Json → Except String α) (j : Json) : Except String (List α) := do
  (← j.getArr?).toList.mapM f
def optOf {α} (f : Json → Except String α) (j : Json) : Except String (Option α) :=
  if j.isNull then .ok none else (f j).map some
def strOf (j : Json) : Except String String := j.getStr?
def boolOf (j : Json) : Except String Bool := j.getBool?
def natOf (j : Json) : Except String Nat := j.getNat?
def optStr (j : Json) : Except String (Option String) := optOf strOf j
def optJ {α} (f : α → Json) : Option α → Json
  | none => Json.null
  | some a => f a
def strsJ (l : List String) : Json := Json.arr (l.map Json.str).toArray

def dtypeOf (j : Json) : Except String Dtype := do
  return (Dtype.ofName? (← j.getStr?)).getD .other

def propMetaOf (j : Json) : Except String (String × PropMeta) := do
  let ident ← strOf (← fld j "identifier")
  let dt ← strOf (← fld j "dtype")
  let vl ← boolOf (← fld j "varlength")
  let u ← optStr (fldD j "unit")
  let nm ← optStr (fldD j "name")
  let de ← optStr (fldD j "description")
  let key ← optStr (fldD j "key")
  return (key.getD ident, { identifier := ident, dtype := dt, varlength := vl, unit := u, name := nm, description := de })

def propMetaJ (p : String × PropMeta) : Json :=
  Json.mkObj [("key", .str p.1), ("identifier", .str p.2.identifier), ("dtype", .str p.2.dtype),
    ("varlength", .bool p.2.varlength), ("unit", optJ Json.str p.2.unit), ("name", optJ Json.str p.2.name),
    ("description", optJ Json.str p.2.description)]

def axisOf (j : Json) : Except String (Axis Int) := do
  return { name := ← strOf (← fld j "name"), type := ← optStr (fldD j "type"), unit := ← optStr (fldD j "unit"),
           min := ← optOf getInt? (fldD j "min"), max := ← optOf getInt? (fldD j "max"),
           scale := ← optStr (fldD j "scale"), scaledUnit := ← optStr (fldD j "scaled_unit"),
           offset := ← optStr (fldD j "offset") }

def axisJ (a : Axis Int) : Json :=
  Json.mkObj [("name", .str a.name), ("type", optJ Json.str a.type), ("unit", optJ Json.str a.unit),
    ("min", optJ intJson a.min), ("max", optJ intJson a.max), ("scale", optJ Json.str a.scale),
    ("scaled_unit", optJ Json.str a.scaledUnit), ("offset", optJ Json.str a.offset)]

def metaOf (j : Json) : Except String (Meta Int) := do
  return { geffVersion := ← strOf (← fld j "version"), directed := ← boolOf (← fld j "directed"),
           axes := ← optOf (arrOf axisOf) (fldD j "axes"),
           nodeProps := ← arrOf propMetaOf (← fld j "nprops"), edgeProps := ← arrOf propMetaOf (← fld j "eprops"),
           hintNames := ← arrOf strOf (← fld j "hints"), rest := ← strOf (← fld j "rest") }

def metaJ (m : Meta Int) : Json :=
  Json.mkObj [("version", .str m.geffVersion), ("directed", .bool m.directed),
    ("axes", optJ (fun l => Json.arr (l.map axisJ).toArray) m.axes),
    ("nprops", Json.arr (m.nodeProps.map propMetaJ).toArray),
    ("eprops", Json.arr (m.edgeProps.map propMetaJ).toArray),
    ("hints", strsJ m.hintNames), ("rest", .str m.rest)]

def valuesOf (j : Json) : Except String (Values Int) :=
  match j.getObjVal? "dense" with
  | .ok d => do
    return .dense (← dtypeOf (← fld d "dtype")) (← arrOf natOf (← fld d "trail"))
      (← arrOf (arrOf getInt?) (← fld d "rows"))
  | .error _ => do
    return .object (← arrOf (fun e => do
      let a ← e.getArr?
      if a.size = 2 then return (← dtypeOf a[0]!, ← natOf a[1]!) else throw "pair expected") (← fld j "object"))

def propsOf (j : Json) : Except String (List (String × PropData Int)) :=
  arrOf (fun p => do
    return (← strOf (← fld p "name"),
            { values := ← valuesOf (← fld p "values"), missing := ← optOf (arrOf boolOf) (fldD p "missing") })) j

def unsqOf (j : Json) : Except String (List (String × List String)) :=
  arrOf (fun p => do return (← strOf (← fld p "name"), ← arrOf strOf (← fld p "names"))) j

def listsOf (j : Json) : Except String AxisLists :=
  if j.isNull then .ok { names := none, units := none, types := none, scales := none, scaledUnits := none, offset := none }
  else do
    let l := fun k => optOf (arrOf optStr) (fldD j k)
    return { names := ← optOf (arrOf strOf) (fldD j "names"), units := ← l "units", types := ← l "types",
             scales := ← l "scales", scaledUnits := ← l "scaled_units", offset := ← l "offset" }

def storedJ (s : Stored Int) : Json :=
  Json.mkObj [("name", .str s.name), ("dtype", .str s.dtype.name), ("has_data", .bool s.hasData),
    ("has_missing", .bool s.hasMissing), ("len", Json.num (JsonNumber.fromNat s.len)),
    ("ndim", Json.num (JsonNumber.fromNat s.ndim))]

def writtenJ (w : Written Int) : Json :=
  Json.mkObj [("md", metaJ w.md),
    ("nodes", optJ (fun l => Json.arr (l.map storedJ).toArray) w.nodes),
    ("edges", optJ (fun l => Json.arr (l.map storedJ).toArray) w.edges)]

def errName : Err → String
  | .valueError => "ValueError"
  | .typeError => "TypeError"
  | .other n => n
  | .unmodelled w => "unmodelled: " ++ w

def resJ {α} (f : α → Json) : Res α → Json
  | .ok a => Json.mkObj [("ok", f a)]
  | .error e => Json.mkObj [("err", .str (errName e))]

def handle (j : Json) : Except String Json := do
  let op ← strOf (← fld j "op")
  match op with
  | "axes_from_lists" =>
    let ls ← listsOf (fldD j "lists")
    let rmin ← optOf (arrOf (optOf getInt?)) (fldD j "roi_min")
    let rmax ← optOf (arrOf (optOf getInt?)) (fldD j "roi_max")
    return resJ (fun l => Json.arr (l.map axisJ).toArray) (axesFromLists ls rmin rmax)
  | "minmax" =>
    let md ← metaOf (← fld j "md")
    let props ← propsOf (← fld j "nprops")
    return resJ metaJ (computeAndAddAxisMinMax md props)
  | _ =>
    let md ← optOf metaOf (fldD j "md")
    let n ← natOf (← fld j "n")
    let e ← natOf (← fld j "e")
    let nprops ← optOf propsOf (fldD j "nprops")
    let eprops ← optOf propsOf (fldD j "eprops")
    let validate := (fldD j "validate").getBool?.toOption.getD true
    match op with
    | "write_arrays" =>
      let some m := md | throw "write_arrays needs metadata"
      let nunsq ← optOf unsqOf (fldD j "nunsq")
      let eunsq ← optOf unsqOf (fldD j "eunsq")
      return resJ writtenJ (if validate then writeArraysValidated m n e nprops eprops nunsq eunsq
                            else writeArrays m n nprops eprops nunsq eunsq)
    | "write_dicts" =>
      let some m := md | throw "write_dicts needs metadata"
      return resJ writtenJ (writeDicts m n e (nprops.getD []) (eprops.getD []))
    | "nx" | "rx" =>
      return resJ writtenJ (nxWrite (← strOf (← fld j "version")) md (← boolOf (← fld j "directed"))
        (← listsOf (fldD j "lists")) n e (nprops.getD []) (eprops.getD []))
    | "sg" =>
      return resJ writtenJ (sgWrite (← strOf (← fld j "version")) md (← boolOf (← fld j "directed"))
        (← listsOf (fldD j "lists")) (← natOf (← fld j "ndims")) n e
        (← getIntList (← fld j "roi_min")) (← getIntList (← fld j "roi_max")) (← strOf (← fld j "pos"))
        (nprops.getD []) (eprops.getD []))
    | _ => throw s!"unknown op {op}"

def main : IO Unit := Proto.run handle
