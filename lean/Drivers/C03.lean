import GeffModel.DictsJson
import GeffModel.AdaptersJson
open Lean Geff Geff.Proto Geff.Dicts Geff.Backends Geff.DictsJson

/-- the constructs of one in-memory geff through the backends, as JSON -/
def constructs (m : MemGeff) (axes : Option (List String)) (withSg : Bool) : List (String × Json) :=
  [("nx", outcome nxToJson (nxConstruct m)), ("rx", outcome rxToJson (rxConstruct m))] ++
  (if withSg then [("sg", outcome sgToJson (sgConstruct m axes))] else [])

def axesOf (j : Json) : Except String (Option (List String)) :=
  match j.getObjVal? "axes" with
  | .ok Json.null => pure none
  | .ok a => do pure (some (← strList a))
  | .error _ => pure none

/-- requests, by `"op"`:
* `dictProps`  {data, names}                         → dict_props_to_arr
* `writeDicts` {directed, nodes, edges, nnames, enames} → write_dicts up to the store
* `nxWrite` {g} / `rxWrite` {g, node_id_dict} / `sgWrite` {g, axis_names} → the in-memory geff written and,
  with it, every backend's construct (the round trip with the store abstracted)
* `construct` {m, axes}                              → every backend's construct of one in-memory geff
* `adapter` {m, axes, md_axes, nn, ni, en, ee}       → every backend's construct, then every `GraphAdapter` function
* `rxAdapter` {g, nn, ni, en, ee}                    → `RxGraphAdapter` of a graph not built by construct -/
def handle (j : Json) : Except String Json := do
  let op ← (← j.getObjVal? "op").getStr?
  match op with
  | "dictProps" =>
    let data ← nodeDataOfJson (← j.getObjVal? "data")
    let names ← strList (← j.getObjVal? "names")
    return outcome propsToJson (dictPropsToArr data names)
  | "writeDicts" =>
    let directed ← (← j.getObjVal? "directed").getBool?
    let nodes ← nodeDataOfJson (← j.getObjVal? "nodes")
    let edges ← edgeDataOfJson (← j.getObjVal? "edges")
    let nn ← strList (← j.getObjVal? "nnames")
    let en ← strList (← j.getObjVal? "enames")
    return outcome memToJson (writeDicts directed nodes edges nn en)
  | "nxWrite" =>
    let g ← nxOfJson (← j.getObjVal? "g")
    let ax ← axesOf j
    let r := nxWrite g
    match r with
    | .ok m => return Json.mkObj ([("mem", outcome memToJson r)] ++ constructs m ax ax.isSome)
    | .error _ => return Json.mkObj [("mem", outcome memToJson r)]
  | "rxWrite" =>
    let g ← rxOfJson (← j.getObjVal? "g")
    let d ← match j.getObjVal? "node_id_dict" with
      | .ok Json.null => pure none
      | .ok a => do
        let l ← (← a.getArr?).toList.mapM fun p => do
          let q ← p.getArr?
          if q.size ≠ 2 then throw "id dict entry"
          return (← getNat q[0]!, ← getInt? q[1]!)
        pure (some l)
      | .error _ => pure none
    let ax ← axesOf j
    let r := rxWrite g d
    match r with
    | .ok m => return Json.mkObj ([("mem", outcome memToJson r)] ++ constructs m ax ax.isSome)
    | .error _ => return Json.mkObj [("mem", outcome memToJson r)]
  | "sgWrite" =>
    let g ← sgOfJson (← j.getObjVal? "g")
    let ax ← strList (← j.getObjVal? "axis_names")
    let r := sgWrite g ax
    match r with
    | .ok m => return Json.mkObj ([("mem", outcome memToJson r)] ++ constructs m (some ax) true)
    | .error _ => return Json.mkObj [("mem", outcome memToJson r)]
  | "construct" =>
    let m ← memOfJson (← j.getObjVal? "m")
    let ax ← axesOf j
    return Json.mkObj (constructs m ax true)
  | "adapter" => Geff.AdaptersJson.handleAdapter j
  | "rxAdapter" => Geff.AdaptersJson.handleRxAdapter j
  | o => throw s!"unknown op {o}"

def main : IO Unit := Proto.run handle
