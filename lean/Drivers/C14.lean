import GeffModel.Proto
import GeffModel.Lineage
open Lean Geff Geff.Proto

/-- request: {"nodes":[..], "labels":[..], "edges":[[u,v],..]} ; zip is non-strict as in Python -/
def handle (j : Json) : Except String Json := do
  let nodes ← getIntList (← j.getObjVal? "nodes")
  let labels ← getIntList (← j.getObjVal? "labels")
  let edges ← getIntPairs (← j.getObjVal? "edges")
  let nl := nodes.zip labels
  let errs := Lineage.lineageErrors nl edges
  return Json.mkObj [("valid", Json.bool (Lineage.validateLineages nl edges)),
                     ("bad", Json.arr (errs.map intJson).toArray)]

def main : IO Unit := Proto.run handle
