import GeffModel.Proto
import GeffModel.Lineage
import GeffModel.LineageData
open Lean Geff Geff.Proto

def getBoolList (j : Json) : Except String (List Bool) := do
  let arr ← j.getArr?
  arr.toList.mapM fun x => x.getBool?

/-- requests:
* (no "op") {"nodes":[..], "labels":[..], "edges":[[u,v],..]} — the abstract model; zip is non-strict as in Python
* {"op":"arrays", nodes, labels, edges} — `validate_lineages` on integer arrays (int64 cast, rendered messages)
* {"op":"data", nodes, values, missing: null | [bool..], edges} — the lineage branch of `validate_data` -/
def handle (j : Json) : Except String Json := do
  let op := (j.getObjValAs? String "op").toOption.getD ""
  let nodes ← getIntList (← j.getObjVal? "nodes")
  let edges ← getIntPairs (← j.getObjVal? "edges")
  if op == "arrays" then
    let labels ← getIntList (← j.getObjVal? "labels")
    let r := Lineage.validateLineagesArrays nodes labels edges
    return Json.mkObj [("valid", Json.bool r.1), ("messages", Json.arr (r.2.map Json.str).toArray)]
  else if op == "data" then
    let values ← getIntList (← j.getObjVal? "values")
    let mj ← j.getObjVal? "missing"
    let missing ← (if mj.isNull then pure none else do pure (some (← getBoolList mj)))
    match Lineage.validateDataLineage nodes values missing edges with
    | .ok => return Json.mkObj [("outcome", "ok")]
    | .indexError => return Json.mkObj [("outcome", "IndexError")]
    | .valueError a b => return Json.mkObj [("outcome", "ValueError"), ("args", Json.arr #[Json.str a, Json.str b])]
  else if op == "" then
    let labels ← getIntList (← j.getObjVal? "labels")
    let nl := nodes.zip labels
    let errs := Lineage.lineageErrors nl edges
    return Json.mkObj [("valid", Json.bool (Lineage.validateLineages nl edges)),
                       ("bad", Json.arr (errs.map intJson).toArray)]
  else throw s!"unknown op {op}"

def main : IO Unit := Proto.run handle
