import GeffModel.Proto
import GeffModel.ReadOnly
import GeffModel.MetaHeap
import GeffModel.ArrHeap
open Lean Geff Geff.Proto Geff.KV Geff.MetaHeap

/-! Driver for C18.  Request {"op":"open","mode":m,"fmt":0|2|3,"path":[components…],
"keys":[[k, blob]…],"dirs":[d…]}: the store after `zarr.open_group(store, path=p, mode=m,
zarr_format=fmt)` on a store holding `keys`/`dirs` (blob "<array>" marks a v3 array document).
Answer {"keys":[…sorted…],"dirs":[…sorted…]}. -/

def strList (j : Json) : Except String (List String) := do
  (← j.getArr?).toList.mapM fun x => x.getStr?

def sortStrs (l : List String) : List String := (l.toArray.qsort (· < ·)).toList

/-! second op: {"op":"meta","fn":"add_node"|"add_edge"|"compute"|"write_arrays"|"write_arrays_full" (+ "empty": bool),
  "axes": null | [[name, min|null, max|null]…], "node":[[id,dtype,varlen,unit|null]…], "edge":[…],
  "node_md":[[id,dtype,varlen]…], "edge_md":[…], "have": bool,
  "data": [[name, "absent"|"empty"| [lo, hi]]…]}
builds the caller's heap (axis objects, list, two dictionaries, the metadata object), runs the
function and reports the result object and which of its parts are the *same objects* as the
argument's. -/

def optStr (j : Json) : Except String (Option String) :=
  if j.isNull then pure none else do pure (some (← j.getStr?))

def parsePropMds (j : Json) (withUnit : Bool) : Except String (List PropMd) := do
  (← j.getArr?).toList.mapM fun p => do
    let q ← p.getArr?
    if q.size < 3 then throw "prop md: [id, dtype, varlen, unit?]"
    let u ← (if withUnit && q.size > 3 then optStr q[3]! else pure none)
    pure ⟨← q[0]!.getStr?, ← q[1]!.getStr?, ← q[2]!.getBool?, u⟩

def optJ (o : Option String) : Json := match o with | none => Json.null | some s => Json.str s

def dictJson (h : Heap) (d : Addr) : Json :=
  match h[d]? with
  | some (.propsDict items) => Json.arr (items.map fun kv =>
      Json.arr #[Json.str kv.1, Json.str kv.2.dtype, Json.bool kv.2.varlength, optJ kv.2.unit]).toArray
  | _ => Json.null

def axesAddrs (h : Heap) (m : Addr) : Option (List Addr) :=
  match h[m]? with
  | some (.geffMeta (some l) _ _ _) => match h[l]? with
    | some (.axesList items) => some items
    | _ => none
  | _ => none

def axesJson (h : Heap) (m : Addr) : Json :=
  match axesAddrs h m with
  | none => Json.null
  | some items => Json.arr (items.map fun a => match h[a]? with
      | some (.axis nm mn mx) => Json.arr #[Json.str nm, optJ mn, optJ mx]
      | _ => Json.null).toArray

def handleMeta (j : Json) : Except String Json := do
  let fn ← (← j.getObjVal? "fn").getStr?
  let axj ← j.getObjVal? "axes"
  let axes ← (if axj.isNull then pure none else do
    let l ← (← axj.getArr?).toList.mapM fun a => do
      let q ← a.getArr?
      if q.size != 3 then throw "axis: [name, min, max]"
      pure (← q[0]!.getStr?, ← optStr q[1]!, ← optStr q[2]!)
    pure (some l) : Except String (Option (List (String × Option String × Option String))))
  let node ← parsePropMds (← j.getObjVal? "node") true
  let edge ← parsePropMds (← j.getObjVal? "edge") true
  let nodeMd ← parsePropMds (← j.getObjVal? "node_md") false
  let edgeMd ← parsePropMds (← j.getObjVal? "edge_md") false
  let have_ ← (← j.getObjVal? "have").getBool?
  let emptyG := match j.getObjVal? "empty" with
    | .ok (.bool b) => b
    | _ => false
  let dataL ← (← (← j.getObjVal? "data").getArr?).toList.mapM fun p => do
    let q ← p.getArr?
    if q.size != 2 then throw "data: [name, spec]"
    let nm ← q[0]!.getStr?
    let d ← (match q[1]! with
      | .str "absent" => pure AxisData.absent
      | .str "empty" => pure AxisData.empty
      | v => do
        let r ← v.getArr?
        if r.size != 2 then throw "range: [lo, hi]"
        pure (AxisData.range (← r[0]!.getStr?) (← r[1]!.getStr?)) : Except String AxisData)
    pure (nm, d)
  let data : String → AxisData := fun nm => match dataL.find? (·.1 == nm) with
    | some p => p.2
    | none => .absent
  -- the caller's heap
  let axisObjs : List Obj := match axes with
    | none => []
    | some l => l.map fun (nm, mn, mx) => Obj.axis nm mn mx
  let nAx := axisObjs.length
  let h0 : Heap := axisObjs
  let (h1, axesRef) : Heap × Option Addr := match axes with
    | none => (h0, none)
    | some _ => let (h', l) := alloc h0 (.axesList (List.range nAx)); (h', some l)
  let (h2, np) := alloc h1 (.propsDict (node.map fun p => (p.identifier, p)))
  let (h3, ep) := alloc h2 (.propsDict (edge.map fun p => (p.identifier, p)))
  let dirMd := match j.getObjVal? "directed_md" with
    | .ok (.bool b) => b
    | _ => true
  let isDir := match j.getObjVal? "is_directed" with
    | .ok (.bool b) => b
    | _ => true
  let newAxes : Option (List AxisSpec) := match j.getObjVal? "new_axes" with
    | .ok (.arr a) => some (a.toList.map fun x => match x with
        | .arr q => ((q[0]!.getStr?.toOption.getD ""), (optStr q[1]!).toOption.getD none,
                     (optStr q[2]!).toOption.getD none)
        | _ => ("", none, none))
    | _ => none
  let (h4, m) := alloc h3 (.geffMeta axesRef np ep dirMd)
  let (h', res) : Heap × Option Addr := match fn with
    | "add_node" => let r := addOrUpdatePropsMetadata h4 m nodeMd true; (r.1, some r.2)
    | "add_edge" => let r := addOrUpdatePropsMetadata h4 m edgeMd false; (r.1, some r.2)
    | "compute" => computeAndAddAxisMinMax h4 m data
    | "create_or_update" => let r := createOrUpdateMetadata h4 (some m) isDir newAxes; (r.1, some r.2)
    | "update_axes" => let r := updateMetadataAxes h4 m (newAxes.getD []); (r.1, some r.2)
    | "write_arrays_full" => writeArraysFull h4 m nodeMd edgeMd have_ emptyG data
    | _ => writeArraysMeta h4 m nodeMd edgeMd have_ data
  let callerKept := decide (h'.take h4.length = h4)
  match res with
  | none => return Json.mkObj [("raised", Json.bool true), ("caller_kept", Json.bool callerKept)]
  | some r =>
    let (np', ep', dir') : Addr × Addr × Bool := match h'[r]? with
      | some (.geffMeta _ a b d) => (a, b, d)
      | _ => (0, 0, true)
    let oldAx := (axesAddrs h4 m).getD []
    let newAx := (axesAddrs h' r).getD []
    let sameAxes := (newAx.zip oldAx).map fun (a, b) => Json.bool (a == b)
    return Json.mkObj [("raised", Json.bool false), ("caller_kept", Json.bool callerKept),
      ("meta_same", Json.bool (r == m)), ("directed", Json.bool dir'), ("node_dict_same", Json.bool (np' == np)),
      ("edge_dict_same", Json.bool (ep' == ep)), ("axes_same", Json.arr sameAxes.toArray),
      ("axes", axesJson h' r), ("node", dictJson h' np'), ("edge", dictJson h' ep')]

/-! third op: {"op":"heap","bufs":[[…]…],"cells":[[buf,hdr]…],"ops":[["alloc",[…],hdr] | ["view",src,hdr] |
["write",tgt,[…]] | ["hdr",tgt,h]…]}: `Geff.ArrHeap.run` on the given heap; answer {"bufs","cells","safe"}
(`safe` = `safeRun` relative to the entry sizes). -/
def natList (j : Json) : Except String (List Nat) := do
  (← j.getArr?).toList.mapM fun x => x.getNat?

def handleHeap (j : Json) : Except String Json := do
  let bufs ← (← (← j.getObjVal? "bufs").getArr?).toList.mapM natList
  let cells ← (← (← j.getObjVal? "cells").getArr?).toList.mapM fun c => do
    let q ← natList c
    match q with
    | [b, h] => pure (⟨b, h⟩ : Geff.ArrHeap.Cell)
    | _ => throw "cell: [buf, hdr]"
  let ops ← (← (← j.getObjVal? "ops").getArr?).toList.mapM fun o => do
    let q ← o.getArr?
    if q.size != 3 then throw "op: [kind, a, b]"
    match ← q[0]!.getStr? with
    | "alloc" => pure (Geff.ArrHeap.Op.alloc (← natList q[1]!) (← q[2]!.getNat?))
    | "view" => pure (Geff.ArrHeap.Op.view (← q[1]!.getNat?) (← q[2]!.getNat?))
    | "write" => pure (Geff.ArrHeap.Op.writeInto (← q[1]!.getNat?) (← natList q[2]!))
    | "hdr" => pure (Geff.ArrHeap.Op.setHdr (← q[1]!.getNat?) (← q[2]!.getNat?))
    | k => throw s!"unknown heap op {k}"
  let h0 : Geff.ArrHeap.Heap := ⟨bufs, cells⟩
  let h := Geff.ArrHeap.run h0 ops
  let nl (l : List Nat) : Json := Json.arr (l.map fun (n : Nat) => Json.num (JsonNumber.fromNat n)).toArray
  return Json.mkObj [("bufs", Json.arr (h.bufs.map nl).toArray),
    ("cells", Json.arr (h.cells.map fun c => nl [c.buf, c.hdr]).toArray),
    ("safe", Json.bool (Geff.ArrHeap.safeRun bufs.length cells.length h0 ops))]

def handle (j : Json) : Except String Json := do
  let op ← (← j.getObjVal? "op").getStr?
  match op with
  | "open" =>
    let mode ← (← j.getObjVal? "mode").getStr?
    let fmt ← (← j.getObjVal? "fmt").getNat?
    let path ← strList (← j.getObjVal? "path")
    let keys ← (← (← j.getObjVal? "keys").getArr?).toList.mapM fun p => do
      let q ← p.getArr?
      if q.size != 2 then throw "key: [name, blob] expected"
      pure (← q[0]!.getStr?, ← q[1]!.getStr?)
    let dirs ← strList (← j.getObjVal? "dirs")
    let fs : FS := ⟨keys, dirs⟩
    let fs' := run [.openAt mode fmt path] fs
    return Json.mkObj [("keys", Json.arr ((sortStrs (fs'.keys.map (·.1))).map Json.str).toArray),
                       ("dirs", Json.arr ((sortStrs fs'.dirs).map Json.str).toArray)]
  | "meta" => handleMeta j
  | "heap" => handleHeap j
  | _ => throw s!"unknown op {op}"

def main : IO Unit := Proto.run handle
