import GeffModel.Proto
import GeffModel.ReadOnly
open Lean Geff Geff.Proto Geff.KV

/-! Driver for C18.  Request {"op":"open","mode":m,"fmt":0|2|3,"path":[components…],
"keys":[[k, blob]…],"dirs":[d…]}: the store after `zarr.open_group(store, path=p, mode=m,
zarr_format=fmt)` on a store holding `keys`/`dirs` (blob "<array>" marks a v3 array document).
Answer {"keys":[…sorted…],"dirs":[…sorted…]}. -/

def strList (j : Json) : Except String (List String) := do
  (← j.getArr?).toList.mapM fun x => x.getStr?

def sortStrs (l : List String) : List String := (l.toArray.qsort (· < ·)).toList

def handle (j : Json) : Except String Json := do
  let op ← (← j.getObjVal? "op").getStr?
  match op with
  | "open" =>
    let mode ← (← j.getObjVal? "mode").getStr?
    let fmt ← (← j.getObjVal? "fmt").getNat?
    let path ← strList (← j.getObjVal? "path")
    let keys ← (← (← j.getObjVal? "keys").getArr?).toList.mapM fun p => do
      let q ← p.getArr?
      if q.size != 2 then throw "key: [name, blob] expected"
      pure (← q[0]!.getStr?, ← q[1]!.getStr?)
    let dirs ← strList (← j.getObjVal? "dirs")
    let fs : FS := ⟨keys, dirs⟩
    let fs' := run [.openAt mode fmt path] fs
    return Json.mkObj [("keys", Json.arr ((sortStrs (fs'.keys.map (·.1))).map Json.str).toArray),
                       ("dirs", Json.arr ((sortStrs fs'.dirs).map Json.str).toArray)]
  | _ => throw s!"unknown op {op}"

def main : IO Unit := Proto.run handle
