import GeffModel.Proto
import GeffModel.PartialRead
open Lean Geff Geff.Proto Geff.Np Geff.PRead

/-! JSON-lines driver for C09.

request `{"op":"build", "store":…, "calls":[{"k":"n"|"e","names":[…]|null}], "queries":[{"nm":…,"em":…}]}`
  → `{"nsel":[…], "esel":[…], "errs":[…], "full":R, "answers":[R…], "spec":[R…]}` where `R` is
  `{"ok":InMem}` or `{"err":class}`; `answers` = the model's `build`, `spec` = `restrict` applied to
  the model's full read.
request `{"op":"restrict", "full":InMem, "nsel":[…], "esel":[…], "queries":[…]}`
  → `{"spec":[InMem…]}`: the specification evaluated on a full read observed on the implementation.

scalars: JSON bool → `Val.b`, JSON integer → `Val.i`, `"i:<dec>"` → `Val.i`, `"f:<hex>"` → `Val.f`,
`"s:<text>"` → `Val.s`. -/

def valOf (j : Json) : Except String Val :=
  match j with
  | .bool b => .ok (.b b)
  | .str s =>
    if s.startsWith "f:" then .ok (.f (s.drop 2).toString)
    else if s.startsWith "s:" then .ok (.s (s.drop 2).toString)
    else if s.startsWith "i:" then
      match (s.drop 2).toString.toInt? with
      | some i => .ok (.i i)
      | none => .error s!"bad int token {s}"
    else .error s!"bad token {s}"
  | _ => do return .i (← j.getInt?)

def valJson : Val → Json
  | .b b => .bool b
  | .i i => if i.natAbs < 9007199254740992 then Json.num (JsonNumber.fromInt i) else .str s!"i:{i}"
  | .f h => .str ("f:" ++ h)
  | .s s => .str ("s:" ++ s)

def arrOf {α} (f : Json → Except String α) (j : Json) : Except String (List α) := do
  (← j.getArr?).toList.mapM f

def optOf {α} (f : Json → Except String α) (j : Json) : Except String (Option α) :=
  if j.isNull then .ok none else (f j).map some

def field (j : Json) (k : String) : Except String Json := j.getObjVal? k
def fieldD (j : Json) (k : String) : Json := (j.getObjVal? k).toOption.getD Json.null

def natOf (j : Json) : Except String Nat := j.getNat?
def boolOf (j : Json) : Except String Bool := j.getBool?
def strOf (j : Json) : Except String String := j.getStr?

def dtypeOf (j : Json) : Except String Dtype := do
  return (Dtype.ofName? (← j.getStr?)).getD .other

def zarrPropOf (j : Json) : Except String (String × ZarrProp) := do
  let name ← strOf (← field j "name")
  let trail ← arrOf natOf (← field j "trail")
  let rows ← arrOf (arrOf valOf) (← field j "rows")
  let missing ← optOf (arrOf boolOf) (fieldD j "missing")
  let data ← optOf (arrOf valOf) (fieldD j "data")
  return (name, { values := { trail := trail, rows := rows }, missing := missing, data := data })

def propMetaOf (j : Json) : Except String (String × PropMeta) := do
  return (← strOf (← field j "name"),
          { dtype := ← dtypeOf (← field j "dtype"), varlength := ← boolOf (← field j "varlength"),
            rest := ← strOf (← field j "rest") })

def storeOf (j : Json) : Except String Store := do
  return { ids := ← getIntList (← field j "ids"),
           edges := ← getIntPairs (← field j "edges"),
           nodeProps := ← arrOf zarrPropOf (← field j "nprops"),
           edgeProps := ← arrOf zarrPropOf (← field j "eprops"),
           nodeMeta := ← arrOf propMetaOf (← field j "nmeta"),
           edgeMeta := ← arrOf propMetaOf (← field j "emeta"),
           metaRest := ← strOf (← field j "rest") }

def callOf (j : Json) : Except String Call := do
  let names ← optOf (arrOf strOf) (fieldD j "names")
  match ← strOf (← field j "k") with
  | "n" => return .nodes names
  | "e" => return .edges names
  | k => throw s!"bad call kind {k}"

def maskOf (j : Json) : Except String (Option (List Bool)) := optOf (arrOf boolOf) j

def natsJson (l : List Nat) : Json := Json.arr (l.map (fun n => Json.num (JsonNumber.fromNat n))).toArray
def valsJson (l : List Val) : Json := Json.arr (l.map valJson).toArray
def boolsJson (l : List Bool) : Json := Json.arr (l.map Json.bool).toArray
def optJson {α} (f : α → Json) : Option α → Json
  | none => Json.null
  | some a => f a

def ndarrJson (a : NdArr) : Json :=
  Json.mkObj [("dtype", .str a.dtype.name), ("shape", natsJson a.shape), ("flat", valsJson a.flat)]

def ndarrOf (j : Json) : Except String NdArr := do
  return { dtype := ← dtypeOf (← field j "dtype"), shape := ← arrOf natOf (← field j "shape"),
           flat := ← arrOf valOf (← field j "flat") }

def valuesJson : Values → Json
  | .dense dt tr rows => Json.mkObj [("dense", Json.mkObj [("dtype", .str dt.name), ("trail", natsJson tr),
      ("rows", Json.arr (rows.map valsJson).toArray)])]
  | .object es => Json.mkObj [("object", Json.arr (es.map ndarrJson).toArray)]

def valuesOf (j : Json) : Except String Values :=
  match j.getObjVal? "dense" with
  | .ok d => do
    return .dense (← dtypeOf (← field d "dtype")) (← arrOf natOf (← field d "trail"))
      (← arrOf (arrOf valOf) (← field d "rows"))
  | .error _ => do return .object (← arrOf ndarrOf (← field j "object"))

def memPropJson (p : String × MemProp) : Json :=
  Json.mkObj [("name", .str p.1), ("values", valuesJson p.2.values), ("missing", optJson boolsJson p.2.missing)]

def memPropOf (j : Json) : Except String (String × MemProp) := do
  return (← strOf (← field j "name"),
          { values := ← valuesOf (← field j "values"), missing := ← optOf (arrOf boolOf) (fieldD j "missing") })

def propMetaJson (p : String × PropMeta) : Json :=
  Json.mkObj [("name", .str p.1), ("dtype", .str p.2.dtype.name), ("varlength", .bool p.2.varlength),
              ("rest", .str p.2.rest)]

def inMemJson (g : InMem) : Json :=
  Json.mkObj [("node_ids", Json.arr (g.nodeIds.map intJson).toArray),
              ("edge_ids", Json.arr (g.edgeIds.map (fun e => Json.arr #[intJson e.1, intJson e.2])).toArray),
              ("node_props", Json.arr (g.nodeProps.map memPropJson).toArray),
              ("edge_props", Json.arr (g.edgeProps.map memPropJson).toArray),
              ("nmeta", Json.arr (g.nodeMeta.map propMetaJson).toArray),
              ("emeta", Json.arr (g.edgeMeta.map propMetaJson).toArray),
              ("rest", .str g.metaRest)]

def inMemOf (j : Json) : Except String InMem := do
  return { nodeIds := ← getIntList (← field j "node_ids"),
           edgeIds := ← getIntPairs (← field j "edge_ids"),
           nodeProps := ← arrOf memPropOf (← field j "node_props"),
           edgeProps := ← arrOf memPropOf (← field j "edge_props"),
           nodeMeta := ← arrOf propMetaOf (← field j "nmeta"),
           edgeMeta := ← arrOf propMetaOf (← field j "emeta"),
           metaRest := ← strOf (← field j "rest") }

def errName : Err → String
  | .valueError => "ValueError"
  | .typeError => "TypeError"
  | .other n => n
  | .unmodelled w => "unmodelled: " ++ w

def resJson : Res InMem → Json
  | .ok g => Json.mkObj [("ok", inMemJson g)]
  | .error e => Json.mkObj [("err", .str (errName e))]

def castId : Dtype → Val → Val := fun _ v => v

/-- run the calls, remembering the exception of each call -/
def runCallsErrs (r : Reader) : List Call → Reader × List (Option Err)
  | [] => (r, [])
  | c :: t =>
    let step := match c with
      | .nodes ns => readNodeProps r ns
      | .edges ns => readEdgeProps r ns
    let rest := runCallsErrs step.1 t
    (rest.1, step.2 :: rest.2)

def handle (j : Json) : Except String Json := do
  let op ← strOf (← field j "op")
  let queries ← arrOf (fun q => do return (← maskOf (fieldD q "nm"), ← maskOf (fieldD q "em"))) (← field j "queries")
  match op with
  | "build" =>
    let store ← storeOf (← field j "store")
    let calls ← arrOf callOf (← field j "calls")
    let (r, errs) := runCallsErrs (Reader.init store) calls
    let full := readToMemory castId store
    let nsel := keys r.nodeProps
    let esel := keys r.edgeProps
    let answers := queries.map (fun q => resJson (build castId r q.1 q.2))
    let spec := queries.map (fun q => resJson (full.map (restrict nsel esel q.1 q.2)))
    return Json.mkObj [("nsel", Json.arr (nsel.map Json.str).toArray),
                       ("esel", Json.arr (esel.map Json.str).toArray),
                       ("errs", Json.arr (errs.map (optJson (fun e => Json.str (errName e)))).toArray),
                       ("wf", .bool store.WF), ("closed", .bool store.edgesClosed),
                       ("full", resJson full),
                       ("answers", Json.arr answers.toArray), ("spec", Json.arr spec.toArray)]
  | "restrict" =>
    let full ← inMemOf (← field j "full")
    let nsel ← arrOf strOf (← field j "nsel")
    let esel ← arrOf strOf (← field j "esel")
    let spec := queries.map (fun q => inMemJson (restrict nsel esel q.1 q.2 full))
    return Json.mkObj [("spec", Json.arr spec.toArray)]
  | _ => throw s!"unknown op {op}"

def main : IO Unit := Proto.run handle
