import GeffModel.Proto
import GeffModel.TrackMate
import GeffModel.TrackMateSpec
import GeffModel.TrackMateXmlJson
open Lean Geff Geff.Proto Geff.TrackMate

def optStrJ : Option String → Json
  | none => Json.null
  | some s => Json.str s

def getOptStr (j : Json) : Except String (Option String) :=
  match j with
  | .null => pure none
  | .str s => pure (some s)
  | _ => throw "string or null expected"

def getTxt (j : Json) : Except String Txt := do
  match j.getObjVal? "i" with
  | .ok n => return .int (← getInt? n) (← (← j.getObjVal? "t").getStr?)
  | .error _ =>
    match j.getObjVal? "f" with
    | .ok s => return .flt (← s.getStr?)
    | .error _ => return .str (← (← j.getObjVal? "s").getStr?)

def getFeats (j : Json) : Except String (List (String × Txt)) := do
  (← j.getArr?).toList.mapM fun kv => do
    let a ← kv.getArr?
    if a.size ≠ 2 then throw "pair" else
    return (← a[0]!.getStr?, ← getTxt a[1]!)

def getFeat (j : Json) : Except String Feat := do
  let a ← j.getArr?
  if a.size ≠ 3 then throw "feature triple" else
  let isint ← match a[1]! with
    | .null => pure none
    | .bool b => pure (some b)
    | _ => throw "isint"
  return { name := ← a[0]!.getStr?, isint := isint, dim := ← getOptStr a[2]! }

def getPts (j : Json) : Except String (Option (List (List String))) :=
  match j with
  | .null => pure none
  | _ => do
    let rows ← j.getArr?
    let l ← rows.toList.mapM fun r => do (← r.getArr?).toList.mapM (·.getStr?)
    return some l

def getSpot (j : Json) : Except String Spot := do
  let id ← match j.getObjValD "id" with
    | .null => pure none
    | v => do pure (some (← getInt? v).toNat)
  let roi ← match j.getObjValD "roi" with
    | .null => pure none
    | r => do pure (some { nPoints := ← getInt? (← r.getObjVal? "n"), pts := ← getPts (r.getObjValD "pts") : Roi })
  return { id := id, name := ← getOptStr (j.getObjValD "name"), feats := ← getFeats (← j.getObjVal? "f"), roi := roi }

def getEdge (j : Json) : Except String Edge := do
  return { s := (← getInt? (← j.getObjVal? "s")).toNat, t := (← getInt? (← j.getObjVal? "t")).toNat,
           feats := ← getFeats (← j.getObjVal? "f") }

def getTrack (j : Json) : Except String Track := do
  let id ← match j.getObjValD "id" with
    | .null => pure none
    | v => do pure (some (← getTxt v))
  return { id := id, feats := ← getFeats (← j.getObjVal? "f"),
           edges := ← (← (← j.getObjVal? "edges").getArr?).toList.mapM getEdge }

def getDoc (j : Json) : Except String Doc := do
  let feats (k : String) : Except String (List Feat) := do (← (← j.getObjVal? k).getArr?).toList.mapM getFeat
  let filtered ← match j.getObjValD "filtered" with
    | .null => pure none
    | v => do pure (some (← getIntList v))
  return { space := ← getOptStr (j.getObjValD "space"), time := ← getOptStr (j.getObjValD "time"),
           sf := ← feats "sf", ef := ← feats "ef", tf := ← feats "tf",
           spots := ← (← (← j.getObjVal? "spots").getArr?).toList.mapM getSpot,
           tracks := ← (← (← j.getObjVal? "tracks").getArr?).toList.mapM getTrack,
           filtered := filtered }

def valJson : Val → Json
  | .i n => Json.mkObj [("i", Json.str (toString n))]
  | .f (.ofInt n) => Json.mkObj [("fi", Json.str (toString n))]
  | .f (.ofText s) => Json.mkObj [("ft", Json.str s)]
  | .s s => Json.mkObj [("s", Json.str s)]
  | .roi pts => Json.mkObj [("roi", Json.arr (pts.map (fun p => Json.arr (p.map Json.str).toArray)).toArray)]
  | .none => Json.mkObj [("none", Json.bool true)]

def kindStr : Kind → String
  | .int64 => "int64" | .uint64 => "uint64" | .float64 => "float64" | .str => "str" | .roiRegular => "roi-regular"
  | .roiVarlen => "roi-varlen" | .unmodelled => "unmodelled"

def propsJson (ps : List PropOut) : Json :=
  Json.mkObj (ps.map fun p =>
    (p.name, Json.mkObj [("kind", Json.str (kindStr p.col.kind)),
      ("cells", Json.arr (p.col.cells.map (fun c => match c with
        | none => Json.null
        | some v => valJson v)).toArray),
      ("decl", match p.declared with
        | none => Json.null
        | some m => Json.arr #[Json.str m.dtype, optStrJ m.unit, Json.bool m.varlength])]))

def outJson (o : Out) : Json :=
  Json.mkObj [("nodes", Json.arr (o.nodes.map (fun n => Json.str (toString n))).toArray),
    ("edges", Json.arr (o.edges.map (fun e => Json.arr #[Json.str (toString e.1), Json.str (toString e.2)])).toArray),
    ("node_props", propsJson o.nodeProps), ("edge_props", propsJson o.edgeProps),
    ("space", Json.str o.spaceUnit), ("time", Json.str o.timeUnit),
    ("lineage", Json.bool o.lineageDeclared), ("seg", Json.bool o.segmentation)]

/-- request: the abstract document (see harness/corr/C16.py `model_request`) + "ds", "dt" -/
def handle (j : Json) : Except String Json := do
  -- requests of the XML layer (`"op": "xml"`): GeffModel/TrackMateXmlJson.lean
  if (j.getObjValD "op") == Json.str "xml" then return ← Geff.TrackMate.Xml.J.handle j
  let d ← getDoc j
  let ds ← (← j.getObjVal? "ds").getBool?
  let dt ← (← j.getObjVal? "dt").getBool?
  -- the specification vocabulary of GeffProps.C16 evaluated on the document (S-oracle side)
  let ids := d.spots.map spotId
  let spec := Json.mkObj [
    ("wf", Json.bool (wfB d)), ("meta_ok", Json.bool (metaOkB d)), ("connected", Json.bool (tracksConnectedB d)),
    ("keep", Json.arr ((ids.filter (keepSpot d ds dt)).map (fun n => Json.str (toString n))).toArray),
    ("track_id", Json.arr (ids.map (fun n => match trackIdOf d n with
      | some v => valJson v
      | none => Json.null)).toArray),
    ("lone", Json.arr (ids.map (fun n => Json.bool (lone d n))).toArray)]
  match convert d ds dt with
  | .exc e => return Json.mkObj [("exc", Json.str e), ("spec", spec)]
  | .ok o => return Json.mkObj [("ok", outJson o), ("spec", spec)]

def main : IO Unit := Proto.run handle
