import GeffModel.Proto
import GeffModel.Tracklet
import GeffModel.TrackletData
open Lean Geff Geff.Proto Geff.Tracklet

def verdictJson : Verdict Int → Json
  | .ok => Json.mkObj [("k", "ok")]
  | .branchMerge => Json.mkObj [("k", "branch")]
  | .cycle => Json.mkObj [("k", "cycle")]
  | .notConnected => Json.mkObj [("k", "disconnected")]
  | .extendBack p => Json.mkObj [("k", "backward"), ("n", intJson p)]
  | .extendFwd s => Json.mkObj [("k", "forward"), ("n", intJson s)]
  | .exc n => Json.mkObj [("k", "exc"), ("name", n)]

def getBoolList (j : Json) : Except String (List Bool) := do
  let a ← j.getArr?
  a.toList.mapM fun b => b.getBool?

def getOptBoolList (j : Json) (k : String) : Except String (Option (List Bool)) :=
  match j.getObjVal? k with
  | .ok Json.null => pure none
  | .ok m => do pure (some (← getBoolList m))
  | .error _ => pure none

def getStrPairs (j : Json) : Except String (List (String × String)) := do
  let a ← j.getArr?
  a.toList.mapM fun p => do
    let q ← p.getArr?
    if q.size = 2 then return (← q[0]!.getStr?, ← q[1]!.getStr?) else throw "pair expected"

def getProps (j : Json) : Except String (List (String × IdProp)) := do
  let a ← j.getArr?
  a.toList.mapM fun p => do
    let q ← p.getArr?
    if q.size = 2 then
      let vals ← getIntList (← q[1]!.getObjVal? "values")
      return (← q[0]!.getStr?, { values := vals, missing := ← getOptBoolList q[1]! "missing" })
    else throw "pair expected"

def dataJson : DataOutcome → Json
  | .ok => Json.mkObj [("outcome", "ok")]
  | .valueError a b => Json.mkObj [("outcome", "ValueError"), ("args", Json.arr #[Json.str a, Json.str b])]
  | .keyError k => Json.mkObj [("outcome", "KeyError"), ("args", Json.arr #[Json.str k])]
  | .indexError => Json.mkObj [("outcome", "IndexError")]
  | .raised n => Json.mkObj [("outcome", n)]

/-- requests:
* (no "op") {"nodes":[..], "labels":[..], "edges":[[u,v],..], "missing": null | [bool..]}
  (`zip` is non-strict as in Python; "missing" present = through validate_data's node selection)
* {"op":"arrays", nodes, labels, edges} — `validate_tracklets` on integer arrays: int64 cast, rendered messages
* {"op":"data", cfg:{tracklet,lineage}, tnp: null | [[key,prop]..], props:[[name,{values,missing}]..], nodes, edges}
  — the tracklet / lineage block of `validate_data` -/
def handle (j : Json) : Except String Json := do
  let op := (j.getObjValAs? String "op").toOption.getD ""
  if op == "arrays" then
    let nodes ← getIntList (← j.getObjVal? "nodes")
    let labels ← getIntList (← j.getObjVal? "labels")
    let edges ← getIntPairs (← j.getObjVal? "edges")
    match validateTrackletsArrays nodes labels edges with
    | .raised n => return Json.mkObj [("exc", n)]
    | .result v msgs =>
      return Json.mkObj [("valid", Json.bool v), ("messages", Json.arr (msgs.map Json.str).toArray)]
  if op == "data" then
    let nodes ← getIntList (← j.getObjVal? "nodes")
    let edges ← getIntPairs (← j.getObjVal? "edges")
    let cj ← j.getObjVal? "cfg"
    let cfg : TrackCfg := { tracklet := ← (← cj.getObjVal? "tracklet").getBool?,
                            lineage := ← (← cj.getObjVal? "lineage").getBool? }
    let tj ← j.getObjVal? "tnp"
    let tnp ← (if tj.isNull then pure none else do pure (some (← getStrPairs tj)))
    let props ← getProps (← j.getObjVal? "props")
    return dataJson (validateDataTracks cfg tnp props nodes edges)
  if op != "" then throw s!"unknown op {op}"
  let nodes ← getIntList (← j.getObjVal? "nodes")
  let labels ← getIntList (← j.getObjVal? "labels")
  let edges ← getIntPairs (← j.getObjVal? "edges")
  let missing ← match j.getObjVal? "missing" with
    | .ok Json.null => pure none
    | .ok m => do pure (some (← getBoolList m))
    | .error _ => pure none
  match nodesWithId (nodes.map toInt64) (labels.map toInt64) missing with
  | none => return Json.mkObj [("exc", "IndexError")]
  | some nl =>
    let edges := edges.map fun e => (toInt64 e.1, toInt64 e.2)
    let errs := trackletErrors nl edges
    match errs.find? (fun p => match p.2 with | .exc _ => true | _ => false) with
    | some (_, .exc n) => return Json.mkObj [("exc", n)]
    | _ =>
      return Json.mkObj [("valid", Json.bool (validateTracklets nl edges)),
        ("errors", Json.arr (errs.map fun p => (verdictJson p.2).setObjVal! "t" (intJson p.1)).toArray)]

def main : IO Unit := Proto.run handle
