import GeffModel.Proto
import GeffModel.Tracklet
import GeffModel.TrackletData
import GeffModel.TrackletHist
open Lean Geff Geff.Proto Geff.Tracklet

def verdictJson : Verdict Int → Json
  | .ok => Json.mkObj [("k", "ok")]
  | .branchMerge => Json.mkObj [("k", "branch")]
  | .cycle => Json.mkObj [("k", "cycle")]
  | .notConnected => Json.mkObj [("k", "disconnected")]
  | .extendBack p => Json.mkObj [("k", "backward"), ("n", intJson p)]
  | .extendFwd s => Json.mkObj [("k", "forward"), ("n", intJson s)]
  | .exc n => Json.mkObj [("k", "exc"), ("name", n)]

def getBoolList (j : Json) : Except String (List Bool) := do
  let a ← j.getArr?
  a.toList.mapM fun b => b.getBool?

def getOptBoolList (j : Json) (k : String) : Except String (Option (List Bool)) :=
  match j.getObjVal? k with
  | .ok Json.null => pure none
  | .ok m => do pure (some (← getBoolList m))
  | .error _ => pure none

def getStrPairs (j : Json) : Except String (List (String × String)) := do
  let a ← j.getArr?
  a.toList.mapM fun p => do
    let q ← p.getArr?
    if q.size = 2 then return (← q[0]!.getStr?, ← q[1]!.getStr?) else throw "pair expected"

def getProps (j : Json) : Except String (List (String × IdProp)) := do
  let a ← j.getArr?
  a.toList.mapM fun p => do
    let q ← p.getArr?
    if q.size = 2 then
      let vals ← getIntList (← q[1]!.getObjVal? "values")
      return (← q[0]!.getStr?, { values := vals, missing := ← getOptBoolList q[1]! "missing" })
    else throw "pair expected"

def dataJson : DataOutcome → Json
  | .ok => Json.mkObj [("outcome", "ok")]
  | .valueError a b => Json.mkObj [("outcome", "ValueError"), ("args", Json.arr #[Json.str a, Json.str b])]
  | .keyError k => Json.mkObj [("outcome", "KeyError"), ("args", Json.arr #[Json.str k])]
  | .indexError => Json.mkObj [("outcome", "IndexError")]
  | .raised n => Json.mkObj [("outcome", n)]

def arraysJson : ArraysOutcome → Json
  | .raised n => Json.mkObj [("exc", n)]
  | .result v msgs => Json.mkObj [("valid", Json.bool v), ("messages", Json.arr (msgs.map Json.str).toArray)]

def getNatField (j : Json) (k : String) : Except String Nat := do
  (← j.getObjVal? k).getNat?

def getPropRefs (j : Json) : Except String (List (String × PropRef)) := do
  let a ← j.getArr?
  a.toList.mapM fun p => do
    let q ← p.getArr?
    if q.size = 2 then
      return (← q[0]!.getStr?, { values := ← getNatField q[1]! "values", missing := ← getOptBoolList q[1]! "missing" })
    else throw "pair expected"

def getPair (j : Json) : Except String (Int × Int) := do
  let q ← j.getArr?
  if q.size = 2 then return (← getInt? q[0]!, ← getInt? q[1]!) else throw "pair expected"

def getHOp (j : Json) : Except String HOp := do
  let k ← j.getObjValAs? String "k"
  if k == "setInt" then
    return .setInt (← getNatField j "a") (← getNatField j "i") (← getInt? (← j.getObjVal? "x"))
  if k == "setPair" then
    return .setPair (← getNatField j "a") (← getNatField j "i") (← getPair (← j.getObjVal? "e"))
  if k == "loadInt" then return .loadInt (← getNatField j "a") (← getIntList (← j.getObjVal? "xs"))
  if k == "loadPair" then return .loadPair (← getNatField j "a") (← getIntPairs (← j.getObjVal? "es"))
  if k == "trk" then return .callTracklets (← getNatField j "n") (← getNatField j "e") (← getNatField j "l")
  if k == "lin" then return .callLineages (← getNatField j "n") (← getNatField j "e") (← getNatField j "l")
  if k == "data" then
    let cj ← j.getObjVal? "cfg"
    let cfg : TrackCfg := { tracklet := ← (← cj.getObjVal? "tracklet").getBool?,
                            lineage := ← (← cj.getObjVal? "lineage").getBool? }
    let tj ← j.getObjVal? "tnp"
    let tnp ← (if tj.isNull then pure none else do pure (some (← getStrPairs tj)))
    return .callData (← getNatField j "n") (← getNatField j "e") cfg tnp (← getPropRefs (← j.getObjVal? "props"))
  throw s!"unknown history op {k}"

def hresJson : HRes → Json
  | .tracklets o => arraysJson o
  | .lineages v msgs => Json.mkObj [("valid", Json.bool v), ("messages", Json.arr (msgs.map Json.str).toArray)]
  | .data o => dataJson o
  | .badRef => Json.mkObj [("err", "address not in the heap")]

/-- requests:
* (no "op") {"nodes":[..], "labels":[..], "edges":[[u,v],..], "missing": null | [bool..]}
  (`zip` is non-strict as in Python; "missing" present = through validate_data's node selection)
* {"op":"arrays", nodes, labels, edges} — `validate_tracklets` on integer arrays: int64 cast, rendered messages
* {"op":"data", cfg:{tracklet,lineage}, tnp: null | [[key,prop]..], props:[[name,{values,missing}]..], nodes, edges}
  — the tracklet / lineage block of `validate_data`
* {"op":"hist", ints:[[..]..], pairs:[[[u,v]..]..], ops:[{"k":"setInt"|"setPair"|"loadInt"|"loadPair"|"trk"|"lin"|"data", ..}..]}
  — `runHist`: a history of calls and in-place edits on a heap of array objects; answer {"trace":[one result per call]} -/
def handle (j : Json) : Except String Json := do
  let op := (j.getObjValAs? String "op").toOption.getD ""
  if op == "hist" then
    let ints ← (← (← j.getObjVal? "ints").getArr?).toList.mapM getIntList
    let pairs ← (← (← j.getObjVal? "pairs").getArr?).toList.mapM getIntPairs
    let ops ← (← (← j.getObjVal? "ops").getArr?).toList.mapM getHOp
    return Json.mkObj [("trace", Json.arr ((runHist ⟨ints, pairs⟩ ops).map hresJson).toArray)]
  if op == "arrays" then
    let nodes ← getIntList (← j.getObjVal? "nodes")
    let labels ← getIntList (← j.getObjVal? "labels")
    let edges ← getIntPairs (← j.getObjVal? "edges")
    match validateTrackletsArrays nodes labels edges with
    | .raised n => return Json.mkObj [("exc", n)]
    | .result v msgs =>
      return Json.mkObj [("valid", Json.bool v), ("messages", Json.arr (msgs.map Json.str).toArray)]
  if op == "data" then
    let nodes ← getIntList (← j.getObjVal? "nodes")
    let edges ← getIntPairs (← j.getObjVal? "edges")
    let cj ← j.getObjVal? "cfg"
    let cfg : TrackCfg := { tracklet := ← (← cj.getObjVal? "tracklet").getBool?,
                            lineage := ← (← cj.getObjVal? "lineage").getBool? }
    let tj ← j.getObjVal? "tnp"
    let tnp ← (if tj.isNull then pure none else do pure (some (← getStrPairs tj)))
    let props ← getProps (← j.getObjVal? "props")
    return dataJson (validateDataTracks cfg tnp props nodes edges)
  if op != "" then throw s!"unknown op {op}"
  let nodes ← getIntList (← j.getObjVal? "nodes")
  let labels ← getIntList (← j.getObjVal? "labels")
  let edges ← getIntPairs (← j.getObjVal? "edges")
  let missing ← match j.getObjVal? "missing" with
    | .ok Json.null => pure none
    | .ok m => do pure (some (← getBoolList m))
    | .error _ => pure none
  match nodesWithId (nodes.map toInt64) (labels.map toInt64) missing with
  | none => return Json.mkObj [("exc", "IndexError")]
  | some nl =>
    let edges := edges.map fun e => (toInt64 e.1, toInt64 e.2)
    let errs := trackletErrors nl edges
    match errs.find? (fun p => match p.2 with | .exc _ => true | _ => false) with
    | some (_, .exc n) => return Json.mkObj [("exc", n)]
    | _ =>
      return Json.mkObj [("valid", Json.bool (validateTracklets nl edges)),
        ("errors", Json.arr (errs.map fun p => (verdictJson p.2).setObjVal! "t" (intJson p.1)).toArray)]

def main : IO Unit := Proto.run handle
