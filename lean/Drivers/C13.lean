import GeffModel.Proto
import GeffModel.Tracklet
open Lean Geff Geff.Proto Geff.Tracklet

def verdictJson : Verdict Int → Json
  | .ok => Json.mkObj [("k", "ok")]
  | .branchMerge => Json.mkObj [("k", "branch")]
  | .cycle => Json.mkObj [("k", "cycle")]
  | .notConnected => Json.mkObj [("k", "disconnected")]
  | .extendBack p => Json.mkObj [("k", "backward"), ("n", intJson p)]
  | .extendFwd s => Json.mkObj [("k", "forward"), ("n", intJson s)]
  | .exc n => Json.mkObj [("k", "exc"), ("name", n)]

def getBoolList (j : Json) : Except String (List Bool) := do
  let a ← j.getArr?
  a.toList.mapM fun b => b.getBool?

/-- request: {"nodes":[..], "labels":[..], "edges":[[u,v],..], "missing": null | [bool..]}
(`zip` is non-strict as in Python; "missing" present = through validate_data's node selection) -/
def handle (j : Json) : Except String Json := do
  let nodes ← getIntList (← j.getObjVal? "nodes")
  let labels ← getIntList (← j.getObjVal? "labels")
  let edges ← getIntPairs (← j.getObjVal? "edges")
  let missing ← match j.getObjVal? "missing" with
    | .ok Json.null => pure none
    | .ok m => do pure (some (← getBoolList m))
    | .error _ => pure none
  match nodesWithId (nodes.map toInt64) (labels.map toInt64) missing with
  | none => return Json.mkObj [("exc", "IndexError")]
  | some nl =>
    let edges := edges.map fun e => (toInt64 e.1, toInt64 e.2)
    let errs := trackletErrors nl edges
    match errs.find? (fun p => match p.2 with | .exc _ => true | _ => false) with
    | some (_, .exc n) => return Json.mkObj [("exc", n)]
    | _ =>
      return Json.mkObj [("valid", Json.bool (validateTracklets nl edges)),
        ("errors", Json.arr (errs.map fun p => (verdictJson p.2).setObjVal! "t" (intJson p.1)).toArray)]

def main : IO Unit := Proto.run handle
