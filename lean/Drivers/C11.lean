import GeffModel.Proto
import GeffModel.Vlen
open Lean Geff Geff.Proto Geff.Np Geff.Vlen

/-! JSON-lines driver of C11.  Requests carry an `"op"`:
* `tables`    → the `canCastSafe` / `promote` tables over `Dtype.tabulated`
* `result`    `{ds:[name..]}` → `np.result_type`
* `ser`       `{elems:[arr|null..]}` → `serialize_vlen_property_data`
* `de`        `{values:arr, data:arr}` → `deserialize_vlen_property_data`
* `common`    `{items:[arr|null|"inhomogeneous"..]}` → `_get_common_type_dims`
* `construct` `{items:[..]}` → `construct_var_len_props`
* `roundtrip` `{items:[..]}` → construct, then serialize, then deserialize
An array is `{"dtype":name,"shape":[..],"flat":[v..]}`; a scalar is a JSON bool, an integer
(number or decimal string), `{"f":hex16}` or `{"s":string}`. -/

def valOfJson (j : Json) : Except String Val :=
  match j with
  | .bool b => .ok (.b b)
  | .obj _ =>
    match j.getObjVal? "f" with
    | .ok (.str h) => .ok (.f h)
    | _ => match j.getObjVal? "s" with
      | .ok (.str s) => .ok (.s s)
      | _ => .error "bad scalar object"
  | _ => do return .i (← getInt? j)

def valToJson : Val → Json
  | .b b => .bool b
  | .i v => intJson v
  | .f h => Json.mkObj [("f", .str h)]
  | .s s => Json.mkObj [("s", .str s)]

def dtypeOfJson (j : Json) : Except String Dtype := do
  let s ← j.getStr?
  match Dtype.ofName? s with
  | some d => return d
  | none => throw s!"unknown dtype {s}"

def natList (j : Json) : Except String (List Nat) := do
  let l ← getIntList j
  l.mapM fun i => if 0 ≤ i then pure i.toNat else throw "negative extent"

def arrOfJson (j : Json) : Except String NdArr := do
  let dt ← dtypeOfJson (← j.getObjVal? "dtype")
  let sh ← natList (← j.getObjVal? "shape")
  let fl ← (← (← j.getObjVal? "flat").getArr?).toList.mapM valOfJson
  return { dtype := dt, shape := sh, flat := fl }

def arrToJson (a : NdArr) : Json :=
  Json.mkObj [("dtype", .str a.dtype.name), ("shape", Json.arr (a.shape.map (fun (n : Nat) => intJson (Int.ofNat n))).toArray),
              ("flat", Json.arr (a.flat.map valToJson).toArray)]

def outToJson {α} (f : α → Json) : Outcome α → Json
  | .ok v => Json.mkObj [("ok", f v)]
  | .valueError => Json.mkObj [("exc", .str "ValueError")]
  | .typeError => Json.mkObj [("exc", .str "TypeError")]
  | .other n => Json.mkObj [("exc", .str n)]
  | .unmodelled w => Json.mkObj [("unmodelled", .str w)]

def pyElemOfJson (j : Json) : Except String PyElem :=
  match j with
  | .null => .ok .notArray
  | _ => do return .arr (← arrOfJson j)

def itemOfJson (j : Json) : Except String Item :=
  match j with
  | .null => .ok .none
  | .str _ => .ok .inhomogeneous
  | _ => do return .arr (← arrOfJson j)

def optName : Option Dtype → Json
  | some d => .str d.name
  | none => .null

def constructJson (r : List NdArr × List Bool) : Json :=
  Json.mkObj [("values", Json.arr (r.1.map arrToJson).toArray),
              ("flags", Json.arr (r.2.map Json.bool).toArray),
              ("missing", match missingOut r.2 with
                          | some m => Json.arr (m.map Json.bool).toArray
                          | none => .null)]

def handle (j : Json) : Except String Json := do
  let op ← (← j.getObjVal? "op").getStr?
  match op with
  | "tables" =>
    let T := Dtype.tabulated
    return Json.mkObj [
      ("names", Json.arr (T.map (fun d => Json.str d.name)).toArray),
      ("cancast", Json.arr (T.map (fun a => Json.arr (T.map (fun b => Json.bool (Dtype.canCastSafe a b))).toArray)).toArray),
      ("promote", Json.arr (T.map (fun a => Json.arr (T.map (fun b => optName (Dtype.promote a b))).toArray)).toArray)]
  | "result" =>
    let ds ← (← (← j.getObjVal? "ds").getArr?).toList.mapM dtypeOfJson
    return Json.mkObj [("r", optName (Dtype.resultType ds))]
  | "ser" =>
    let es ← (← (← j.getObjVal? "elems").getArr?).toList.mapM pyElemOfJson
    return outToJson (fun (v, d) => Json.mkObj [("values", arrToJson v), ("data", arrToJson d)]) (serializeVlenPy es)
  | "de" =>
    let v ← arrOfJson (← j.getObjVal? "values")
    let d ← arrOfJson (← j.getObjVal? "data")
    return outToJson (fun l => Json.arr (l.map arrToJson).toArray) (deserializeVlen v d)
  | "common" =>
    let xs ← (← (← j.getObjVal? "items").getArr?).toList.mapM itemOfJson
    return outToJson (fun (d, n) => Json.arr #[.str d.name, intJson (Int.ofNat n)]) (getCommonTypeDims xs)
  | "construct" =>
    let xs ← (← (← j.getObjVal? "items").getArr?).toList.mapM itemOfJson
    return outToJson constructJson (constructVarLenProps xs)
  | "roundtrip" =>
    let xs ← (← (← j.getObjVal? "items").getArr?).toList.mapM itemOfJson
    match constructVarLenProps xs with
    | .ok (vals, _) =>
      match serializeVlen vals with
      | .ok (v, d) =>
        return Json.mkObj [("values", arrToJson v), ("data", arrToJson d),
                           ("back", outToJson (fun l => Json.arr (l.map arrToJson).toArray) (deserializeVlen v d))]
      | o => return outToJson (fun _ => Json.null) o
    | o => return outToJson (fun _ => Json.null) o
  | _ => throw s!"unknown op {op}"

def main : IO Unit := Proto.run handle
