import GeffModel.Proto
import GeffModel.Dataframe
open Lean Geff Geff.Proto Geff.Dataframe

/-! request: {"node_ids":[tok,…], "edges":[[tok,tok],…],
             "node_props":[{"name":s,"trail":[k,…],"rows":[[tok,…],…],"missing":null|[bool,…]},…],
             "edge_props":[…]}                      (tok = any string)
answer : {"ok":{"nodes":[[col,[tok|null,…]],…],"node_warn":[[name,ndim],…],"edges":…,"edge_warn":…}}
         or {"exc":"ValueError"|"IndexError"};  "collision":[nodes?,edges?] = ¬ the theorems' NoCollision -/

def getStrList (j : Json) : Except String (List String) := do
  (← j.getArr?).toList.mapM (fun x => x.getStr?)

def getProp (j : Json) : Except String (PropArr String) := do
  let name ← (← j.getObjVal? "name").getStr?
  let trail ← (← (← j.getObjVal? "trail").getArr?).toList.mapM (fun x => x.getNat?)
  let rows ← (← (← j.getObjVal? "rows").getArr?).toList.mapM getStrList
  let mj ← j.getObjVal? "missing"
  let missing ← match mj with
    | .null => pure none
    | _ => do
      let l ← (← mj.getArr?).toList.mapM (fun x => x.getBool?)
      pure (some l)
  return ⟨name, trail, rows, missing⟩

def cellJson : Cell String → Json
  | .val a => Json.str a
  | .nan => Json.null

def dictJson (d : Dict String) : Json :=
  Json.arr (d.map (fun c => Json.arr #[Json.str c.1, Json.arr (c.2.map cellJson).toArray])).toArray

def warnJson (w : List Warning) : Json :=
  Json.arr (w.map (fun x => Json.arr #[Json.str x.1, Json.num (JsonNumber.fromNat x.2)])).toArray

/-- {"op":"csv","exists":[nodes?,edges?],"overwrite":b} → {"raised":b,"nodes":"old"|"new"|"absent","edges":…} -/
def handleCsv (j : Json) : Except String Json := do
  let ex ← (← j.getObjVal? "exists").getArr?
  let en ← ex[0]!.getBool?
  let ee ← ex[1]!.getBool?
  let ow ← (← j.getObjVal? "overwrite").getBool?
  let fs : FS := (if en then [("out-nodes.csv", "old")] else []) ++ (if ee then [("out-edges.csv", "old")] else [])
  let (raised, fs') := geffToCsv fs "out" "new" "new" ow
  let st (p : String) : String := match fsGet fs' p with | some c => c | none => "absent"
  return Json.mkObj [("raised", Json.bool raised), ("nodes", Json.str (st "out-nodes.csv")),
                     ("edges", Json.str (st "out-edges.csv"))]

def parseGeff (j : Json) : Except String (InMemGeff String) := do
  let nodeIds ← getStrList (← j.getObjVal? "node_ids")
  let edges ← (← (← j.getObjVal? "edges").getArr?).toList.mapM (fun p => do
    let q ← getStrList p
    match q with
    | [a, b] => pure (a, b)
    | _ => throw "pair expected")
  let nps ← (← (← j.getObjVal? "node_props").getArr?).toList.mapM getProp
  let eps ← (← (← j.getObjVal? "edge_props").getArr?).toList.mapM getProp
  return ⟨nodeIds, edges, nps, eps⟩

def render (g : InMemGeff String) (r : Outcome (Tables String)) : Json :=
  let coll := Json.arr #[Json.bool (!noCollisionB ["id"] g.nodeProps), Json.bool (!noCollisionB ["source", "target"] g.edgeProps)]
  match r with
  | .ok t => Json.mkObj [("collision", coll), ("ok", Json.mkObj [("nodes", dictJson t.nodes), ("node_warn", warnJson t.nodeWarnings),
                                                   ("edges", dictJson t.edges), ("edge_warn", warnJson t.edgeWarnings)])]
  | .valueError => Json.mkObj [("exc", "ValueError")]
  | .indexError => Json.mkObj [("exc", "IndexError")]

/-- {"op":"seq","stores":[store,…]} → {"steps":[answer,…]} : a sequence of exports in one process (`exportSeq`) -/
def handleSeq (j : Json) : Except String Json := do
  let gs ← (← (← j.getObjVal? "stores").getArr?).toList.mapM parseGeff
  return Json.mkObj [("steps", Json.arr ((gs.zip (exportSeq gs)).map (fun p => render p.1 p.2)).toArray)]

def handle (j : Json) : Except String Json := do
  if let .ok (Json.str "csv") := j.getObjVal? "op" then return ← handleCsv j
  if let .ok (Json.str "seq") := j.getObjVal? "op" then return ← handleSeq j
  let g ← parseGeff j
  return render g (geffToDataframes g)

def main : IO Unit := Proto.run handle
