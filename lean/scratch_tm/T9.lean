import GeffProofs.TrackMate6

namespace Geff.TrackMate

theorem aget_aset_ne (a : Attrs) (k k' : String) (v : Val) (h : k ≠ k') : aget? (aset a k' v) k = aget? a k := by
  unfold aset
  have h2 : (k' == k) = false := by simpa using fun hh => h hh.symm
  split
  · rename_i hh
    clear hh
    unfold aget?
    congr 1
    induction a with
    | nil => rfl
    | cons x rest ih =>
      simp only [List.map_cons, List.find?_cons]
      by_cases hx : x.1 = k'
      · have h1 : (x.1 == k') = true := by simpa using hx
        have h3 : (x.1 == k) = false := by rw [hx]; exact h2
        simp only [h1, if_true, h2, h3]; exact ih
      · have h1 : (x.1 == k') = false := by simpa using hx
        simp only [h1, Bool.false_eq_true, if_false]
        cases x.1 == k
        · exact ih
        · rfl
  · unfold aget?
    rw [List.find?_append]
    simp [h2]

theorem aget_aset_self (a : Attrs) (k : String) (v : Val) : aget? (aset a k v) k = some v := by
  unfold aset
  split
  · rename_i hh
    unfold aget?
    induction a with
    | nil => simp [ahas] at hh
    | cons x rest ih =>
      simp only [List.map_cons, List.find?_cons]
      by_cases hx : x.1 = k
      · have h1 : (x.1 == k) = true := by simpa using hx
        simp [h1]
      · have h1 : (x.1 == k) = false := by simpa using hx
        simp only [h1, Bool.false_eq_true, if_false]
        apply ih
        simpa [ahas, h1] using hh
  · rename_i hh
    have : k ∉ a.map (·.1) := fun hm => hh ((ahas_iff a _).2 hm)
    rw [aget_append_right _ _ _ this, aget_singleton]

theorem aset_keys (a : Attrs) (k : String) (v : Val) (k' : String) :
    k' ∈ (aset a k v).map (·.1) ↔ k' = k ∨ k' ∈ a.map (·.1) := by
  constructor
  · intro h
    by_cases hk : k' = k
    · exact Or.inl hk
    · right
      by_contra hn
      have h1 := aget_none a k' hn
      rw [← aget_aset_ne a k' k v hk] at h1
      exact ((aget_none_iff _ _).1 h1) h
  · rintro (rfl | h)
    · by_contra hn
      have := aget_none _ _ hn
      rw [aget_aset_self] at this; cases this
    · by_cases hk : k' = k
      · subst hk
        by_contra hn
        have := aget_none _ _ hn
        rw [aget_aset_self] at this; cases this
      · by_contra hn
        have h1 := aget_none _ _ hn
        rw [aget_aset_ne a k' k v hk] at h1
        exact ((aget_none_iff _ _).1 h1) h

end Geff.TrackMate
