import GeffModel.TrackMate
import Mathlib.Data.List.Nodup

namespace Geff.TrackMate

/-! ### attribute dicts -/

theorem ahas_iff (a : Attrs) (k : String) : ahas a k = true ↔ k ∈ a.map (·.1) := by
  unfold ahas
  simp only [List.any_eq_true, beq_iff_eq, List.mem_map]

theorem aset_fresh (a : Attrs) (k : String) (v : Val) (h : k ∉ a.map (·.1)) : aset a k v = a ++ [(k, v)] := by
  unfold aset
  have : ahas a k = false := by
    cases hh : ahas a k
    · rfl
    · exact absurd ((ahas_iff a k).1 hh) h
  simp [this]

theorem aget_none (a : Attrs) (k : String) (h : k ∉ a.map (·.1)) : aget? a k = none := by
  unfold aget?
  rw [List.find?_eq_none.2]
  · rfl
  · intro x hx hk
    exact h (List.mem_map.2 ⟨x, hx, by simpa using hk⟩)

theorem aget_append_right (a b : Attrs) (k : String) (h : k ∉ a.map (·.1)) : aget? (a ++ b) k = aget? b k := by
  unfold aget?
  rw [List.find?_append]
  rw [List.find?_eq_none.2]
  · rfl
  · intro x hx hk
    exact h (List.mem_map.2 ⟨x, hx, by simpa using hk⟩)

theorem aget_append_left (a b : Attrs) (k : String) (h : k ∈ a.map (·.1)) : aget? (a ++ b) k = aget? a k := by
  unfold aget?
  rw [List.find?_append]
  obtain ⟨x, hx, rfl⟩ := List.mem_map.1 h
  cases hf : List.find? (fun kv => kv.1 == x.1) a with
  | none =>
    have := List.find?_eq_none.1 hf x hx
    simp at this
  | some y => rfl

theorem aget_singleton (k : String) (v : Val) : aget? [(k, v)] k = some v := by
  simp [aget?]

theorem aupdate_nil (a : Attrs) : aupdate a [] = a := rfl

/-- with distinct keys, `aget?` returns the value listed under the key -/
theorem aget_of_mem (a : Attrs) (k : String) (v : Val) (hn : (a.map (·.1)).Nodup) (h : (k, v) ∈ a) :
    aget? a k = some v := by
  induction a with
  | nil => cases h
  | cons x rest ih =>
    simp only [List.map_cons, List.nodup_cons] at hn
    rcases List.mem_cons.1 h with rfl | h
    · simp [aget?]
    · have hne : x.1 ≠ k := by
        intro heq
        exact hn.1 (List.mem_map.2 ⟨(k, v), h, heq.symm⟩)
      have : aget? (x :: rest) k = aget? rest k := by
        simp [aget?, hne]
      rw [this]; exact ih hn.2 h

/-! ### `_convert_attributes` -/

theorem convertAttributes_keys {md : List Feat} {texts : List (String × Txt)} {a : Attrs}
    (h : convertAttributes md texts = .ok a) : a.map (·.1) = texts.map (·.1) := by
  induction texts generalizing a with
  | nil => simp only [convertAttributes] at h; cases h; rfl
  | cons kt rest ih =>
    obtain ⟨k, t⟩ := kt
    simp only [convertAttributes] at h
    cases hc : convertOne md k t with
    | exc e => rw [hc] at h; cases h
    | ok v =>
      rw [hc] at h
      cases hr : convertAttributes md rest with
      | exc e => rw [hr] at h; cases h
      | ok a' =>
        rw [hr] at h; cases h
        simp [ih hr]

/-- every attribute of the element is kept under its name with its converted value -/
theorem convertAttributes_mem {md : List Feat} {texts : List (String × Txt)} {a : Attrs}
    (h : convertAttributes md texts = .ok a) {k : String} {t : Txt} (hk : (k, t) ∈ texts) :
    ∃ v, convertOne md k t = .ok v ∧ (k, v) ∈ a := by
  induction texts generalizing a with
  | nil => cases hk
  | cons kt rest ih =>
    obtain ⟨k', t'⟩ := kt
    simp only [convertAttributes] at h
    cases hc : convertOne md k' t' with
    | exc e => rw [hc] at h; cases h
    | ok v =>
      rw [hc] at h
      cases hr : convertAttributes md rest with
      | exc e => rw [hr] at h; cases h
      | ok a' =>
        rw [hr] at h; cases h
        rcases List.mem_cons.1 hk with heq | hk
        · cases heq; exact ⟨v, hc, by simp⟩
        · obtain ⟨v', hv', hm⟩ := ih hr hk
          exact ⟨v', hv', by simp [hm]⟩

/-- … and nothing else is in the dict -/
theorem convertAttributes_mem' {md : List Feat} {texts : List (String × Txt)} {a : Attrs}
    (h : convertAttributes md texts = .ok a) {k : String} {v : Val} (hk : (k, v) ∈ a) :
    ∃ t, (k, t) ∈ texts ∧ convertOne md k t = .ok v := by
  induction texts generalizing a with
  | nil => simp only [convertAttributes] at h; cases h; cases hk
  | cons kt rest ih =>
    obtain ⟨k', t'⟩ := kt
    simp only [convertAttributes] at h
    cases hc : convertOne md k' t' with
    | exc e => rw [hc] at h; cases h
    | ok v' =>
      rw [hc] at h
      cases hr : convertAttributes md rest with
      | exc e => rw [hr] at h; cases h
      | ok a' =>
        rw [hr] at h; cases h
        rcases List.mem_cons.1 hk with heq | hk
        · cases heq; exact ⟨t', by simp, hc⟩
        · obtain ⟨t, ht, hv⟩ := ih hr hk
          exact ⟨t, by simp [ht], hv⟩

/-- the typing rule of `_convert_attributes` for a declared feature: `isint` ⇒ an integer, otherwise a
float (of an integer or float text) — or the text itself when it is not a number -/
theorem convertOne_declared {md : List Feat} {k : String} {t : Txt} {v : Val} {f : Feat}
    (hf : mdLookup md k = some f) (h : convertOne md k t = .ok v) :
    (f.isint = some true ∧ ∃ n txt, t = .int n txt ∧ v = .i n) ∨
    (f.isint = some false ∧
      ((∃ n txt, t = .int n txt ∧ v = .f (.ofInt n)) ∨ (∃ s, t = .flt s ∧ v = .f (.ofText s)) ∨
       (∃ s, t = .str s ∧ v = .s s))) := by
  unfold convertOne at h
  rw [hf] at h
  simp only at h
  cases hi : f.isint with
  | none => rw [hi] at h; cases h
  | some b =>
    rw [hi] at h
    cases b
    · cases t with
      | int n txt => cases h; exact Or.inr ⟨rfl, Or.inl ⟨n, txt, rfl, rfl⟩⟩
      | flt s => cases h; exact Or.inr ⟨rfl, Or.inr (Or.inl ⟨s, rfl, rfl⟩)⟩
      | str s => cases h; exact Or.inr ⟨rfl, Or.inr (Or.inr ⟨s, rfl, rfl⟩)⟩
    · cases t with
      | int n txt => cases h; exact Or.inl ⟨rfl, n, txt, rfl, rfl⟩
      | flt s => cases h
      | str s => cases h

end Geff.TrackMate
