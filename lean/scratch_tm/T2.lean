import GeffModel.TrackMate
import Mathlib.Data.List.Nodup
import Mathlib.Tactic.ByContra

namespace Geff.TrackMate

/-- the attribute dict `_add_all_nodes` stores for a spot (closed form) -/
def spotAttrs (md : List Feat) (s : Spot) : Attrs :=
  let a := match convertAttributes md (spotTexts s) with
    | .ok a => a
    | .exc _ => []
  match s.roi with
  | some r => aset a "ROI_coords" (match r.pts with
    | some p => .roi p
    | none => .none)
  | none => a

/-- what makes one `Spot` element well-formed for `_add_all_nodes` -/
structure SpotOk (md : List Feat) (s : Spot) : Prop where
  conv : ∃ a, convertAttributes md (spotTexts s) = .ok a
  roi : ∀ r, s.roi = some r → r.pts.isSome = true → r.nPoints ≠ 0

def spotId (s : Spot) : Nat := s.id.getD 0

theorem hasNode_iff (g : Graph) (n : Nat) : g.hasNode n = true ↔ n ∈ g.nodes.map (·.1) := by
  unfold Graph.hasNode
  simp only [List.any_eq_true, beq_iff_eq, List.mem_map]

theorem addNode_fresh (g : Graph) (n : Nat) (a : Attrs) (h : n ∉ g.nodes.map (·.1)) :
    g.addNode n a = { g with nodes := g.nodes ++ [(n, a)] } := by
  unfold Graph.addNode
  have : g.hasNode n = false := by
    cases hh : g.hasNode n
    · rfl
    · exact absurd ((hasNode_iff g n).1 hh) h
  simp [this]

theorem addAllNodes_closed (md : List Feat) (spots : List Spot) (g : Graph) (seg : Bool)
    (hok : ∀ s ∈ spots, SpotOk md s) (hid : ∀ s ∈ spots, s.id.isSome = true)
    (hnd : (g.nodes.map (·.1) ++ spots.map spotId).Nodup)
    (huni : (∀ s ∈ spots, s.roi = none) ∨ (∀ s ∈ spots, s.roi.isSome = true))
    (hseg : seg = true → ∀ s ∈ spots, s.roi.isSome = true) :
    addAllNodes md spots g seg =
      .ok ({ g with nodes := g.nodes ++ spots.map (fun s => (spotId s, spotAttrs md s)) },
           seg || spots.any (fun s => s.roi.isSome)) := by
  induction spots generalizing g seg with
  | nil => simp [addAllNodes]
  | cons s rest ih =>
    obtain ⟨a, ha⟩ := (hok s (by simp)).conv
    have hroi := (hok s (by simp)).roi
    obtain ⟨i, hi⟩ : ∃ i, s.id = some i := by
      have := hid s (by simp)
      cases hs : s.id with
      | none => rw [hs] at this; cases this
      | some i => exact ⟨i, rfl⟩
    have hsid : spotId s = i := by simp [spotId, hi]
    have hfresh : i ∉ g.nodes.map (·.1) := by
      intro hm
      rw [List.nodup_append] at hnd
      exact hnd.2.2 _ hm _ (by simp [hsid]) rfl
    have hrest_ok : ∀ s' ∈ rest, SpotOk md s' := fun s' h' => hok s' (by simp [h'])
    have hrest_id : ∀ s' ∈ rest, s'.id.isSome = true := fun s' h' => hid s' (by simp [h'])
    have hnd' : ∀ a', (({ g with nodes := g.nodes ++ [(i, a')] } : Graph).nodes.map (·.1) ++ rest.map spotId).Nodup := by
      intro a'
      simp only [List.map_append, List.map_cons, List.map_nil, List.append_assoc, List.singleton_append]
      simpa [hsid] using hnd
    simp only [addAllNodes, ha]
    cases hr : s.roi with
    | none =>
      have hsegf : seg = false := by
        cases hs : seg
        · rfl
        · have := hseg hs s (by simp); rw [hr] at this; cases this
      subst hsegf
      have huni' : (∀ s' ∈ rest, s'.roi = none) ∨ (∀ s' ∈ rest, s'.roi.isSome = true) := by
        rcases huni with h | h
        · exact Or.inl (fun s' h' => h s' (by simp [h']))
        · have := h s (by simp); rw [hr] at this; cases this
      simp only [Bool.false_eq_true, if_false, hi, Bool.or_false]
      rw [addNode_fresh _ _ _ hfresh, ih _ false hrest_ok hrest_id (hnd' a) huni' (by intro h; cases h)]
      simp [spotAttrs, ha, hr, hsid, List.any_cons]
    | some r =>
      have hall : ∀ s' ∈ rest, s'.roi.isSome = true := by
        rcases huni with h | h
        · have := h s (by simp); rw [hr] at this; cases this
        · exact fun s' h' => h s' (by simp [h'])
      have hconv : convertRoi r a = .ok (aset a "ROI_coords" (match r.pts with
          | some p => .roi p
          | none => .none)) := by
        unfold convertRoi
        cases hp : r.pts with
        | none => rfl
        | some pts =>
          have := hroi r hr (by simp [hp])
          simp [this]
      simp only [hconv, hi, Bool.or_true]
      rw [addNode_fresh _ _ _ hfresh, ih _ true hrest_ok hrest_id (hnd' _) (Or.inr hall) (fun _ => hall)]
      simp [spotAttrs, ha, hr, hsid, List.any_cons]

end Geff.TrackMate
