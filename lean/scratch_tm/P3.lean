import GeffProofs.MockData
import GeffProofs.MockEdges

namespace Geff.MockData
open Geff.MockEdges

theorem forall₂_names {len : Nat} {items : List (Option String × Req)} {ts : List Triple}
    (h : List.Forall₂ (fun it t => stepOut len it = .ok t) items ts) :
    ts.map (·.1) = items.filterMap (·.1) := by
  induction h with
  | nil => rfl
  | cons hs _ ih =>
    have := (stepOut_ok hs).1
    simp [List.filterMap_cons, this, ih]

/-- a metadata entry describes a property -/
def DescribesOne (m : String × MetaOut) (kv : String × PropOut) : Prop :=
  m.1 = kv.1 ∧ m.2.varlength = kv.2.varlength ∧ (kv.2.varlength = false → m.2.dtype = kv.2.dtype)

theorem describes_map (ts : List Triple)
    (h : ∀ t ∈ ts, DescribesOne (tripleMeta t) (tripleProp t)) :
    List.Forall₂ DescribesOne (ts.map tripleMeta) (ts.map tripleProp) := by
  induction ts with
  | nil => exact List.Forall₂.nil
  | cons t rest ih =>
    exact List.Forall₂.cons (h t (by simp)) (ih (fun t' ht' => h t' (by simp [ht'])))

end Geff.MockData
