#!/bin/sh
# regenerate Gen/MockEdges.lean from the repaired worktree
cd /verif && /venv/bin/python -c "
import sys; sys.path.insert(0,'/verif')
from pathlib import Path
from harness.translators import t9_mock_edges as t
r=t.run(Path('${1:-/tmp/wt-tm}'), Path('/verif/lean/Gen'))
print('T9', r['ok'], r.get('error',''))
"
