#!/bin/sh
# regenerate my Gen files (MockEdges, MockForward, TrackMateTables) from the repaired worktree
cd /verif && /venv/bin/python -c "
import sys; sys.path.insert(0,'/verif')
from pathlib import Path
from harness.translators import t9_mock_edges as t, t8b_trackmate_tables as u
r=t.run(Path('${1:-/tmp/wt-tm}'), Path('/verif/lean/Gen'))
print('T9', r['ok'], r.get('error',''))
r=u.run(Path('${1:-/tmp/wt-tm}'), Path('/verif/lean/Gen'))
print('T8b', r['ok'], r.get('error',''))
"
