import sys, os, collections
sys.path.insert(0,'/verif')
from harness import common
common.setup_impl()
from harness.corr import C20
import random
rng=random.Random(0)
cases=list(C20.edge_grid(9))+list(C20.flag_grid())+list(C20.dtype_grid())+[C20.random_case(rng) for _ in range(400)]
obs=common.pmap(C20.observe,cases,chunksize=32)
cnt=collections.Counter(); ex={}
for c,o in zip(cases,obs):
    for k,w,e in C20.oracle(c,o):
        cnt[k]+=1; ex.setdefault(k,(c,w))
for k,v in cnt.most_common(): print(v,k,ex[k])
