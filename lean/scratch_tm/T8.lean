import GeffProofs.TrackMate5

namespace Geff.TrackMate

theorem inner_names_mem (a : Attrs) (acc : List String) (k : String) :
    k ∈ a.foldl (fun acc kv => if acc.contains kv.1 then acc else acc ++ [kv.1]) acc ↔ k ∈ acc ∨ k ∈ a.map (·.1) := by
  induction a generalizing acc with
  | nil => simp
  | cons kv rest ih =>
    simp only [List.foldl_cons, List.map_cons, List.mem_cons]
    rw [ih]
    by_cases hc : acc.contains kv.1 = true
    · simp only [hc, if_true]
      have : kv.1 ∈ acc := by simpa using hc
      constructor
      · rintro (h | h)
        · exact Or.inl h
        · exact Or.inr (Or.inr h)
      · rintro (h | h | h)
        · exact Or.inl h
        · exact Or.inl (h ▸ this)
        · exact Or.inr h
    · simp only [hc, Bool.false_eq_true, if_false, List.mem_append, List.mem_singleton]
      tauto

theorem propNames_mem (data : List Attrs) (k : String) : k ∈ propNames data ↔ ∃ a ∈ data, k ∈ a.map (·.1) := by
  unfold propNames
  have aux : ∀ (data : List Attrs) (acc : List String),
      k ∈ data.foldl (fun acc a => a.foldl (fun acc kv => if acc.contains kv.1 then acc else acc ++ [kv.1]) acc) acc ↔
        k ∈ acc ∨ ∃ a ∈ data, k ∈ a.map (·.1) := by
    intro data
    induction data with
    | nil => intro acc; simp
    | cons a rest ih =>
      intro acc
      simp only [List.foldl_cons]
      rw [ih, inner_names_mem]
      simp only [List.mem_cons, exists_eq_or_imp]
      tauto
  simpa using aux data []

theorem find_named {β : Type} (l : List String) (F : String → β) (k : String) :
    (l.map (fun k' => (k', F k'))).find? (fun c => c.1 == k) = if k ∈ l then some (k, F k) else none := by
  induction l with
  | nil => rfl
  | cons x rest ih =>
    simp only [List.map_cons, List.find?_cons, List.mem_cons]
    by_cases hx : x = k
    · subst hx; simp
    · have : (x == k) = false := by simpa using hx
      simp only [this, ih]
      have hne : ¬ k = x := fun h => hx h.symm
      simp [hne]

/-- the value stored for element `n` under property `k`; `none` = flagged missing, or no such property -/
def cellOf {α : Type} [DecidableEq α] (ids : List α) (props : List PropOut) (k : String) (n : α) : Option Val :=
  match props.find? (fun p => p.name == k) with
  | none => none
  | some p => ((ids.zip p.col.cells).find? (fun x => x.1 == n)).bind (·.2)

theorem aget_none_iff (a : Attrs) (k : String) : aget? a k = none ↔ k ∉ a.map (·.1) := by
  constructor
  · intro h hk
    obtain ⟨x, hx, rfl⟩ := List.mem_map.1 hk
    unfold aget? at h
    cases hf : List.find? (fun kv => kv.1 == x.1) a with
    | none => have := List.find?_eq_none.1 hf x hx; simp at this
    | some y => rw [hf] at h; cases h
  · exact aget_none a k

/-- **columns are the attribute dicts read column-wise**: for items with pairwise distinct ids, the
cell of item `p` under `k` is `p`'s own attribute `k` (missing iff `p` has no such attribute) -/
theorem cellOf_columns {α : Type} [DecidableEq α] (items : List (α × Attrs)) (props : List PropOut)
    (hp : props.map (fun p => (p.name, p.col)) = columns (items.map (·.2)))
    (hn : (items.map (·.1)).Nodup) (k : String) (p : α × Attrs) (hmem : p ∈ items) :
    cellOf (items.map (·.1)) props k p.1 = aget? p.2 k := by
  unfold cellOf
  have hfind : (props.find? (fun q => q.name == k)).map (fun q => (q.name, q.col)) =
      if k ∈ propNames (items.map (·.2)) then
        some (k, { kind := columnKind ((items.map (·.2)).map (fun a => aget? a k)),
                   cells := (items.map (·.2)).map (fun a => aget? a k) }) else none := by
    have := find_named (propNames (items.map (·.2)))
      (fun k => ({ kind := columnKind ((items.map (·.2)).map (fun a => aget? a k)),
                   cells := (items.map (·.2)).map (fun a => aget? a k) } : Column)) k
    rw [← this]
    have hcol : columns (items.map (·.2)) = (propNames (items.map (·.2))).map (fun k' =>
        (k', ({ kind := columnKind ((items.map (·.2)).map (fun a => aget? a k')),
                cells := (items.map (·.2)).map (fun a => aget? a k') } : Column))) := rfl
    rw [← hcol, ← hp, List.find?_map]
    rfl
  by_cases hk : k ∈ propNames (items.map (·.2))
  · rw [if_pos hk] at hfind
    cases hq : props.find? (fun q => q.name == k) with
    | none => rw [hq] at hfind; cases hfind
    | some q =>
      rw [hq] at hfind
      simp only [Option.map_some, Option.some.injEq, Prod.mk.injEq] at hfind
      simp only
      rw [hfind.2]
      simp only [List.map_map]
      rw [List.zip_map']
      -- find the item with id p.1
      clear hfind hq hp hk
      induction items with
      | nil => cases hmem
      | cons x rest ih =>
        simp only [List.map_cons, List.nodup_cons] at hn
        rcases List.mem_cons.1 hmem with rfl | hm
        · simp
        · have hne : x.1 ≠ p.1 := by
            intro heq
            exact hn.1 (List.mem_map.2 ⟨p, hm, heq.symm⟩)
          have : (x.1 == p.1) = false := by simpa using hne
          simp only [List.map_cons, List.find?_cons, this]
          exact ih hn.2 hm
  · rw [if_neg hk] at hfind
    cases hq : props.find? (fun q => q.name == k) with
    | some q => rw [hq] at hfind; cases hfind
    | none =>
      simp only
      symm
      rw [aget_none_iff]
      intro hkk
      exact hk ((propNames_mem _ _).2 ⟨p.2, List.mem_map.2 ⟨p, hmem, rfl⟩, hkk⟩)

end Geff.TrackMate
