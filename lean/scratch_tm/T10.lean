import GeffModel.TrackMate
import Gen.TrackMateTables
open Geff.TrackMate Gen.TrackMateTables

def renderUnit (space time : String) : List Piece → String
  | [] => ""
  | .lit s :: rest => s ++ renderUnit space time rest
  | .space :: rest => space ++ renderUnit space time rest
  | .time :: rest => time ++ renderUnit space time rest

theorem unitOf_listed : ∀ kv ∈ unitTemplates, ∀ space time : String,
    unitOf kv.1 space time = some (renderUnit space time kv.2) := by
  intro kv hkv space time
  simp only [unitTemplates, List.mem_cons, List.not_mem_nil, or_false] at hkv
  rcases hkv with rfl | rfl | rfl | rfl | rfl | rfl | rfl | rfl | rfl | rfl | rfl | rfl | rfl | rfl <;>
    simp [unitOf, renderUnit, String.append_assoc]

theorem unitOf_unlisted (dim space time : String) (h : dim ∉ unitTemplates.map (·.1)) :
    unitOf dim space time = none := by
  simp only [unitTemplates, List.map_cons, List.map_nil, List.mem_cons, List.not_mem_nil, or_false, not_or] at h
  unfold unitOf
  split <;> simp_all
