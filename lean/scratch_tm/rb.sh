#!/bin/sh
# atomically (under the shared lake lock) regenerate Gen/MockEdges.lean from my worktree and build targets
cd /verif/lean && exec flock /verif/.locks/lake.lock sh -c "/verif/lean/scratch_tm/regen.sh >/dev/null && lake build $*"
