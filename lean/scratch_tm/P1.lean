import GeffModel.MockEdges
import Gen.MockEdges
import Mathlib.Data.List.Nodup

namespace Geff.MockEdges

def cast (e : Nat × Nat) : Int × Int := ((e.1 : Int), (e.2 : Int))

/-- inner loop: appending `f i` for every `i` of a list -/
theorem foldl_append_singleton {α β : Type} (f : β → α) (l : List β) (es : List α) :
    l.foldl (fun es i => es ++ [f i]) es = es ++ l.map f := by
  induction l generalizing es with
  | nil => simp
  | cons x t ih => simp [ih]

/-- outer loop: every row contributes at most what is still missing -/
theorem foldl_rows {α : Type} (A : Nat) (rows : List (List α)) (es : List α) :
    rows.foldl (fun es r => es ++ r.take (A - es.length)) es
      = es ++ rows.flatten.take (A - es.length) := by
  induction rows generalizing es with
  | nil => simp
  | cons r t ih =>
    simp only [List.foldl_cons, List.flatten_cons]
    rw [ih, List.take_append, List.append_assoc]
    congr 2
    simp only [List.length_append, List.length_take]
    congr 1
    omega

theorem range_zero (k : Int) : Geff.Py.range 0 k = (List.range k.toNat).map (fun (i : Nat) => (i : Int)) := by
  simp [Geff.Py.range]

theorem range_one (n : Nat) : Geff.Py.range 1 (n : Int) = (List.range (n - 1)).map (fun (d' : Nat) => ((d' : Int) + 1)) := by
  simp only [Geff.Py.range]
  have : ((n : Int) - 1).toNat = n - 1 := by omega
  rw [this]
  apply List.map_congr_left
  intro a _; omega

end Geff.MockEdges

namespace Geff.MockEdges

theorem foldl_congr' {α β : Type} (f g : α → β → α) (l : List β) (a : α)
    (h : ∀ a b, b ∈ l → f a b = g a b) : l.foldl f a = l.foldl g a := by
  induction l generalizing a with
  | nil => rfl
  | cons x t ih =>
    simp only [List.foldl_cons]
    rw [h a x (List.mem_cons_self), ih]
    intro a b hb; exact h a b (List.mem_cons_of_mem _ hb)

/-- one pass of the generated double loop = append what is still missing of the row-wise
enumeration -/
theorem phase (n A : Nat) (mk : Int → Int → Int × Int) (mkN : Nat → Nat → Nat × Nat)
    (hmk : ∀ i d : Nat, mk i d = cast (mkN i d)) (es : List (Int × Int)) :
    (Geff.Py.range 1 (n : Int)).foldl (fun es offset =>
        (Geff.Py.range 0 (min ((n : Int) - offset) ((A : Int) - ((es.length : Nat) : Int)))).foldl
          (fun es i => es ++ [mk i offset]) es) es
    = es ++ (((List.range (n - 1)).flatMap (fun d' =>
        (List.range (n - (d' + 1))).map (fun i => mkN i (d' + 1)))).map cast).take (A - es.length) := by
  rw [range_one, List.foldl_map]
  rw [foldl_congr' _ (fun es d' => es ++ (((List.range (n - (d' + 1))).map (fun i => mkN i (d' + 1))).map cast).take (A - es.length))]
  · rw [List.flatMap_def, List.map_flatten, List.map_map, ← foldl_rows, List.foldl_map]
    rfl
  · intro es d' _
    rw [foldl_append_singleton, range_zero]
    congr 1
    have : (min ((n : Int) - ((d' : Int) + 1)) ((A : Int) - ((es.length : Nat) : Int))).toNat
        = min (A - es.length) (n - (d' + 1)) := by omega
    rw [this, ← List.take_range, List.map_take, List.map_take, List.map_map, List.map_map]
    congr 1
    apply List.map_congr_left
    intro i _
    simp only [Function.comp]
    have := hmk i (d' + 1)
    push_cast at this
    exact this

end Geff.MockEdges

namespace Geff.MockEdges

theorem maxPossible_cast (d : Bool) (n : Nat) :
    (if (!d) = true then ((n : Int) * ((n : Int) - 1)) / 2 else (n : Int) * ((n : Int) - 1))
      = ((maxPossible d n : Nat) : Int) := by
  cases n with
  | zero => cases d <;> simp [maxPossible]
  | succ k =>
    have h : ((k + 1 : Nat) : Int) - 1 = ((k + 1 - 1 : Nat) : Int) := by omega
    cases d
    · simp only [maxPossible, Bool.not_false, if_true, Bool.false_eq_true, if_false]
      rw [h]; norm_cast
    · simp only [maxPossible, Bool.not_true, Bool.false_eq_true, if_false, if_true]
      rw [h]; norm_cast

theorem fwd_eq (n : Nat) : fwd n = (List.range (n - 1)).flatMap (fun d' =>
    (List.range (n - (d' + 1))).map (fun i => (i, i + (d' + 1)))) := rfl

theorem genCore_eq (d : Bool) (n m : Nat) :
    Gen.MockEdges.genCore d n m = (gen d n m).map cast := by
  unfold Gen.MockEdges.genCore gen
  simp only [maxPossible_cast]
  have hA : min (m : Int) ((maxPossible d n : Nat) : Int) = ((min m (maxPossible d n) : Nat) : Int) := by
    omega
  rw [hA]
  generalize min m (maxPossible d n) = A
  rw [phase n A (fun i o => (i, i + o)) (fun i o => (i, i + o)) (by intro i d; simp [cast])]
  simp only [List.nil_append, List.length_nil, Nat.sub_zero, ← fwd_eq]
  cases d
  · simp [all, List.map_take]
  · simp only [if_true]
    rw [phase n A (fun i o => (i + o, i)) (fun i o => (i + o, i)) (by intro i d; simp [cast])]
    simp only [all, if_true, List.map_take, List.map_append, List.length_take, List.length_map]
    rw [List.take_append]
    congr 2
    · simp only [List.length_map]; omega
    · rw [fwd_eq]
      simp [swap, Function.comp_def, List.map_flatMap]

end Geff.MockEdges
