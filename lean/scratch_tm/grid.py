import sys, json, subprocess, os, warnings
warnings.simplefilter("ignore")
repo=sys.argv[1]
sys.path[:0]=[repo+"/packages/geff/src", repo+"/packages/geff-spec/src"]
from geff.testing.data import create_dummy_in_mem_geff
import geff; assert geff.__file__.startswith(repo)
reqs=[]; py=[]
for d in (False,True):
    for n in range(0,12):
        for m in range(0,n*(n-1)+3):
            reqs.append({"op":"gen","directed":d,"n":n,"m":m})
            try:
                g=create_dummy_in_mem_geff("uint8",{"position":"float64","time":"float64"},d,n,m)
                py.append({"ok":g["edge_ids"].tolist()})
            except Exception as e:
                py.append({"exc":type(e).__name__})
p=subprocess.run(["/verif/lean/.lake/build/bin/drv_C20"],input="\n".join(json.dumps(r) for r in reqs)+"\n",capture_output=True,text=True)
ans=[json.loads(l) for l in p.stdout.splitlines()]
bad=0; refbad=0
for r,a,b in zip(reqs,ans,py):
    if a["translated"]!=b:
        bad+=1
        if bad<5: print(r,a["translated"],b)
    if a["reference"]!=b.get("ok"): refbad+=1
print(len(reqs),"translated-vs-python mismatches",bad,"reference-vs-python mismatches",refbad)
