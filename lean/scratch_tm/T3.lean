import GeffModel.TrackMate
import Mathlib.Data.List.Nodup
import Mathlib.Tactic.ByContra

namespace Geff.TrackMate

-- (copied from T1 for the scratch file)
theorem ahas_iff (a : Attrs) (k : String) : ahas a k = true ↔ k ∈ a.map (·.1) := by
  unfold ahas
  simp only [List.any_eq_true, beq_iff_eq, List.mem_map]

theorem aset_fresh (a : Attrs) (k : String) (v : Val) (h : k ∉ a.map (·.1)) : aset a k v = a ++ [(k, v)] := by
  unfold aset
  have : ahas a k = false := by
    cases hh : ahas a k
    · rfl
    · exact absurd ((ahas_iff a k).1 hh) h
  simp [this]

theorem aget_none (a : Attrs) (k : String) (h : k ∉ a.map (·.1)) : aget? a k = none := by
  unfold aget?
  rw [List.find?_eq_none.2]
  · rfl
  · intro x hx hk
    exact h (List.mem_map.2 ⟨x, hx, by simpa using hk⟩)

theorem aget_append_right (a b : Attrs) (k : String) (h : k ∉ a.map (·.1)) : aget? (a ++ b) k = aget? b k := by
  unfold aget?
  rw [List.find?_append]
  rw [List.find?_eq_none.2]
  · rfl
  · intro x hx hk
    exact h (List.mem_map.2 ⟨x, hx, by simpa using hk⟩)

theorem hasNode_iff (g : Graph) (n : Nat) : g.hasNode n = true ↔ n ∈ g.nodes.map (·.1) := by
  unfold Graph.hasNode
  simp only [List.any_eq_true, beq_iff_eq, List.mem_map]

/-! ### `_build_tracks` -/

def touches (e : Edge) (n : Nat) : Bool := e.s == n || e.t == n

/-- the `TRACK_ID` entry a node carries after the (edge, track id) pairs `L` have been processed -/
def stampOf (L : List (Edge × Val)) (n : Nat) : Attrs :=
  match L.find? (fun x => touches x.1 n) with
  | some x => [("TRACK_ID", x.2)]
  | none => []

def edgeAttrs (md : List Feat) (e : Edge) : Attrs :=
  match convertAttributes md (edgeTexts e) with
  | .ok a => a
  | .exc _ => []

def edgeEntry (md : List Feat) (x : Edge × Val) : (Nat × Nat) × Attrs := ((x.1.s, x.1.t), edgeAttrs md x.1)

/-- the graph after `_add_all_nodes` (`base`) and the processing of `L` -/
def stamped (md : List Feat) (base : List (Nat × Attrs)) (L : List (Edge × Val)) : Graph :=
  { nodes := base.map (fun p => (p.1, p.2 ++ stampOf L p.1)), edges := L.map (edgeEntry md) }

def addTagged (md : List Feat) : List (Edge × Val) → Graph → Outcome Graph
  | [], g => .ok g
  | x :: rest, g => match addEdge md x.1 g x.2 with
    | .exc e => .exc e
    | .ok g' => addTagged md rest g'

theorem addNode_existing_nil (g : Graph) (n : Nat) (h : n ∈ g.nodes.map (·.1)) : g.addNode n [] = g := by
  unfold Graph.addNode
  rw [(hasNode_iff g n).2 h]
  simp only [if_true]
  have : g.nodes.map (fun p => if (p.1 == n) = true then (n, aupdate p.2 []) else p) = g.nodes := by
    conv => rhs; rw [← List.map_id g.nodes]
    apply List.map_congr_left
    intro p _
    split
    · rename_i hp
      have : p.1 = n := by simpa using hp
      cases p; simp_all [aupdate]
    · rfl
  rw [this]

theorem nodeAttrs_of_mem (nodes : List (Nat × Attrs)) (edges : List ((Nat × Nat) × Attrs)) (n : Nat) (a : Attrs)
    (hn : (nodes.map (·.1)).Nodup) (h : (n, a) ∈ nodes) :
    ({ nodes := nodes, edges := edges } : Graph).nodeAttrs n = a := by
  unfold Graph.nodeAttrs
  simp only
  induction nodes with
  | nil => cases h
  | cons p rest ih =>
    simp only [List.map_cons, List.nodup_cons] at hn
    rcases List.mem_cons.1 h with rfl | h
    · simp
    · have hne : p.1 ≠ n := by
        intro heq
        exact hn.1 (List.mem_map.2 ⟨(n, a), h, heq.symm⟩)
      have : (p.1 == n) = false := by simpa using hne
      simp only [List.find?_cons, this]
      exact ih hn.2 h

/-- one `TRACK_ID` stamping on a graph of the shape `base + S` -/
theorem stamp_closed (base : List (Nat × Attrs)) (edges : List ((Nat × Nat) × Attrs)) (S : Nat → Attrs)
    (n : Nat) (tid : Val) (a : Attrs)
    (hbn : (base.map (·.1)).Nodup) (hmem : (n, a) ∈ base)
    (hfree : ∀ p ∈ base, "TRACK_ID" ∉ p.2.map (·.1))
    (hS : S n = [] ∨ S n = [("TRACK_ID", tid)]) :
    stamp { nodes := base.map (fun p => (p.1, p.2 ++ S p.1)), edges := edges } n tid =
      .ok { nodes := base.map (fun p => (p.1, p.2 ++ (if p.1 = n then [("TRACK_ID", tid)] else S p.1))),
            edges := edges } := by
  have hkeys : (base.map (fun p => (p.1, p.2 ++ S p.1))).map (·.1) = base.map (·.1) := by
    simp [List.map_map, Function.comp_def]
  have hattrs : ({ nodes := base.map (fun p => (p.1, p.2 ++ S p.1)), edges := edges } : Graph).nodeAttrs n = a ++ S n :=
    nodeAttrs_of_mem _ _ n _ (by rw [hkeys]; exact hbn) (List.mem_map.2 ⟨(n, a), hmem, rfl⟩)
  unfold stamp
  rw [hattrs, aget_append_right _ _ _ (hfree _ hmem)]
  rcases hS with h0 | h1
  · rw [h0]
    simp only [aget?, List.find?_nil, Option.map_none]
    congr 1
    unfold Graph.setNodeAttr
    simp only [List.map_map]
    congr 1
    apply List.map_congr_left
    intro p hp
    simp only [Function.comp]
    by_cases hpn : p.1 = n
    · have hpair : p = (n, a) := List.inj_on_of_nodup_map hbn hp hmem hpn
      subst hpair
      simp only [beq_self_eq_true, if_true, h0, List.append_nil, aset_fresh _ _ _ (hfree _ hmem)]
    · have : (p.1 == n) = false := by simpa using hpn
      simp [this, hpn]
  · rw [h1]
    simp only [aget?, List.find?_cons, beq_self_eq_true, Option.map_some, if_true]
    congr 2
    apply List.map_congr_left
    intro p _
    by_cases hpn : p.1 = n
    · simp [hpn, h1]
    · simp [hpn]

structure TaggedOk (md : List Feat) (base : List (Nat × Attrs)) (L : List (Edge × Val)) : Prop where
  conv : ∀ x ∈ L, ∃ a, convertAttributes md (edgeTexts x.1) = .ok a
  ends : ∀ x ∈ L, x.1.s ∈ base.map (·.1) ∧ x.1.t ∈ base.map (·.1)
  distinct : (L.map (fun x => (x.1.s, x.1.t))).Nodup
  consistent : ∀ x ∈ L, ∀ y ∈ L, ∀ n, touches x.1 n = true → touches y.1 n = true → x.2 = y.2

theorem stampOf_cases (L : List (Edge × Val)) (n : Nat) :
    (stampOf L n = [] ∧ ∀ y ∈ L, touches y.1 n = false) ∨
    (∃ y ∈ L, touches y.1 n = true ∧ stampOf L n = [("TRACK_ID", y.2)]) := by
  unfold stampOf
  cases hf : L.find? (fun x => touches x.1 n) with
  | none =>
    refine Or.inl ⟨rfl, fun y hy => ?_⟩
    have := List.find?_eq_none.1 hf y hy
    simpa using this
  | some y =>
    exact Or.inr ⟨y, List.mem_of_find?_eq_some hf, by simpa using List.find?_some hf, rfl⟩

theorem stampOf_append_singleton (done : List (Edge × Val)) (x : Edge × Val) (n : Nat)
    (hc : ∀ y ∈ done, touches y.1 n = true → touches x.1 n = true → y.2 = x.2) :
    stampOf (done ++ [x]) n =
      if n = x.1.t then [("TRACK_ID", x.2)] else if n = x.1.s then [("TRACK_ID", x.2)] else stampOf done n := by
  have htouch : touches x.1 n = true ↔ (n = x.1.s ∨ n = x.1.t) := by
    unfold touches
    simp only [Bool.or_eq_true, beq_iff_eq]
    constructor
    · rintro (h | h)
      · exact Or.inl h.symm
      · exact Or.inr h.symm
    · rintro (h | h)
      · exact Or.inl h.symm
      · exact Or.inr h.symm
  rcases stampOf_cases done n with ⟨h0, hnone⟩ | ⟨y, hy, hty, hst⟩
  · have : stampOf (done ++ [x]) n = if touches x.1 n then [("TRACK_ID", x.2)] else [] := by
      unfold stampOf
      rw [List.find?_append]
      have : done.find? (fun x => touches x.1 n) = none := by
        apply List.find?_eq_none.2
        intro y hy
        simp [hnone y hy]
      rw [this]
      simp only [Option.none_or, List.find?_cons, List.find?_nil]
      cases touches x.1 n <;> rfl
    rw [this, h0]
    by_cases ht : n = x.1.t
    · rw [if_pos ht, if_pos (htouch.2 (Or.inr ht))]
    · by_cases hs : n = x.1.s
      · rw [if_neg ht, if_pos hs, if_pos (htouch.2 (Or.inl hs))]
      · have : touches x.1 n = false := by
          cases h : touches x.1 n
          · rfl
          · rcases htouch.1 h with h | h
            · exact absurd h hs
            · exact absurd h ht
        simp [ht, hs, this]
  · have : stampOf (done ++ [x]) n = stampOf done n := by
      unfold stampOf
      rw [List.find?_append]
      cases hf : done.find? (fun x => touches x.1 n) with
      | none =>
        have := List.find?_eq_none.1 hf y hy
        simp [hty] at this
      | some z => rfl
    rw [this]
    by_cases ht : n = x.1.t
    · rw [if_pos ht, hst, hc y hy hty (htouch.2 (Or.inr ht))]
    · by_cases hs : n = x.1.s
      · rw [if_neg ht, if_pos hs, hst, hc y hy hty (htouch.2 (Or.inl hs))]
      · rw [if_neg ht, if_neg hs]

theorem addTagged_closed (md : List Feat) (base : List (Nat × Attrs))
    (hbn : (base.map (·.1)).Nodup) (hfree : ∀ p ∈ base, "TRACK_ID" ∉ p.2.map (·.1))
    (L done : List (Edge × Val)) (h : TaggedOk md base (done ++ L)) :
    addTagged md L (stamped md base done) = .ok (stamped md base (done ++ L)) := by
  induction L generalizing done with
  | nil => simp [addTagged]
  | cons x rest ih =>
    have hx : x ∈ done ++ x :: rest := by simp
    obtain ⟨a, ha⟩ := h.conv x hx
    obtain ⟨hs, ht⟩ := h.ends x hx
    obtain ⟨as, has⟩ : ∃ as, (x.1.s, as) ∈ base := by
      obtain ⟨p, hp, hps⟩ := List.mem_map.1 hs
      exact ⟨p.2, by rw [← hps]; exact hp⟩
    obtain ⟨at', hat⟩ : ∃ at', (x.1.t, at') ∈ base := by
      obtain ⟨p, hp, hpt⟩ := List.mem_map.1 ht
      exact ⟨p.2, by rw [← hpt]; exact hp⟩
    have hkeys : (stamped md base done).nodes.map (·.1) = base.map (·.1) := by
      simp [stamped, List.map_map, Function.comp_def]
    -- the edge is new
    have hnew : ((stamped md base done).edges.any (fun e => e.1 == (x.1.s, x.1.t))) = false := by
      cases hh : (stamped md base done).edges.any (fun e => e.1 == (x.1.s, x.1.t))
      · rfl
      · simp only [stamped, List.any_eq_true, List.mem_map, beq_iff_eq] at hh
        obtain ⟨e, ⟨y, hy, rfl⟩, he⟩ := hh
        have hd := h.distinct
        rw [List.map_append, List.map_cons, List.nodup_append] at hd
        exact (hd.2.2 _ (List.mem_map.2 ⟨y, hy, rfl⟩) _ (List.mem_cons_self) (by simpa [edgeEntry] using he)).elim
    have hadd : (stamped md base done).addEdge x.1.s x.1.t a =
        { nodes := base.map (fun p => (p.1, p.2 ++ stampOf done p.1)), edges := (done ++ [x]).map (edgeEntry md) } := by
      unfold Graph.addEdge
      have h1 : (stamped md base done).addNode x.1.s [] = stamped md base done :=
        addNode_existing_nil _ _ (by rw [hkeys]; exact hs)
      have h2 : (stamped md base done).addNode x.1.t [] = stamped md base done :=
        addNode_existing_nil _ _ (by rw [hkeys]; exact ht)
      simp only [h1, h2]
      simp only [hnew, Bool.false_eq_true, if_false]
      simp [stamped, edgeEntry, edgeAttrs, ha]
    have hcons : ∀ n, ∀ y ∈ done, touches y.1 n = true → touches x.1 n = true → y.2 = x.2 :=
      fun n y hy h1 h2 => h.consistent y (by simp [hy]) x hx n h1 h2
    have htouch_s : touches x.1 x.1.s = true := by simp [touches]
    have htouch_t : touches x.1 x.1.t = true := by simp [touches]
    have hS1 : stampOf done x.1.s = [] ∨ stampOf done x.1.s = [("TRACK_ID", x.2)] := by
      rcases stampOf_cases done x.1.s with ⟨h0, _⟩ | ⟨y, hy, hty, hst⟩
      · exact Or.inl h0
      · exact Or.inr (by rw [hst, hcons _ y hy hty htouch_s])
    have hS2 : (fun n => if n = x.1.s then [("TRACK_ID", x.2)] else stampOf done n) x.1.t = [] ∨
        (fun n => if n = x.1.s then [("TRACK_ID", x.2)] else stampOf done n) x.1.t = [("TRACK_ID", x.2)] := by
      simp only
      split
      · exact Or.inr rfl
      · rcases stampOf_cases done x.1.t with ⟨h0, _⟩ | ⟨y, hy, hty, hst⟩
        · exact Or.inl h0
        · exact Or.inr (by rw [hst, hcons _ y hy hty htouch_t])
    have hstep : addEdge md x.1 (stamped md base done) x.2 = .ok (stamped md base (done ++ [x])) := by
      unfold addEdge
      simp only [ha, hadd]
      rw [stamp_closed base _ (stampOf done) x.1.s x.2 as hbn has hfree hS1]
      simp only
      rw [stamp_closed base _ (fun n => if n = x.1.s then [("TRACK_ID", x.2)] else stampOf done n) x.1.t x.2 at' hbn hat hfree hS2]
      congr 1
      unfold stamped
      congr 1
      apply List.map_congr_left
      intro p _
      rw [stampOf_append_singleton done x p.1 (hcons p.1)]
    simp only [addTagged, hstep]
    have := ih (done ++ [x]) (by simpa using h)
    simpa using this

end Geff.TrackMate
