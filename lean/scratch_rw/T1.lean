import GeffModel.WriteRead
open Gen.Paths
example : NODES ≠ EDGES := by decide
example : [NODES, IDS] ≠ [EDGES, IDS] := by decide
example (k : String) (suf : List String) : [NODES, IDS] ≠ [NODES, PROPS] ++ k :: suf := by
  simp [NODES, IDS, PROPS]
example (k : String) (suf : List String) : [EDGES, PROPS, k] ≠ [NODES, PROPS] ++ k :: suf := by
  simp [NODES, EDGES]
example (k : String) (suf : List String) : ([] : List String) ≠ [NODES, PROPS] ++ k :: suf := by
  simp
