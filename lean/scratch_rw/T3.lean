import GeffProofs.WriteRead
open Geff.Np Geff.Store Geff.WR
example : validName "values" = true := by decide
example : validName "a/b" = false := by decide
def exNodeIds : NdArr := ⟨.u64, [2], [.i 18446744073709551615, .i 0]⟩
def exEdgeIds : NdArr := ⟨.u64, [1, 2], [.i 0, .i 18446744073709551615]⟩
def exVlen : PropArr := ⟨.obj [⟨.i8, [0, 2], []⟩, ⟨.i8, [1, 2], [.i (-128), .i 127]⟩], none⟩
def exT : PropArr := ⟨.dense ⟨.f64, [2], [.f "7ff8000000000000", .f "8000000000000000"]⟩, none⟩
def exG : InMem := ⟨exNodeIds, exEdgeIds, some [("poly", exVlen), ("t", exT)], some []⟩
def exMd : CallerMeta := ⟨true, some ["t"], [("t", ⟨"t", "int8", some true⟩)], []⟩
def exS0 : St := [([], .group [("foreign", .other)]), (["raw"], .array ⟨.u8, [1], [.i 7]⟩)]
def isOkWith {α} (r : Outcome α) (p : α → Bool) : Bool := match r with | .ok v => p v | .error _ => false
example : isOkWith (do let s ← writeArrays vlenCodec (fun _ => pure ()) exS0 exG exMd
                       let r ← readToMemory vlenCodec (fun _ => pure ()) s
                       pure (r.nodeIds, r.edgeIds, lookupKey "t" r.nodeProps, lookupKey "poly" r.nodeProps, Geff.Store.get s ["raw"]))
    (fun x => x = (exNodeIds, exEdgeIds, some exT, some exVlen, some (.array ⟨.u8, [1], [.i 7]⟩))) = true := by decide
