import GeffModel.WriteRead
open Geff.Store
example {α} (f : α → Outcome Unit) (a : α) (t : List α) : (a :: t).forM f = (do f a; t.forM f) := by
  simp [List.forM]
#check @List.forM_cons
