import sys, warnings
warnings.simplefilter("ignore")
sys.path[:0]=["/tmp/wt-vlen/packages/geff/src","/tmp/wt-vlen/packages/geff-spec/src"]
import numpy as np
import geff_spec
from geff.validate.segmentation import *
md = geff_spec.GeffMetadata(geff_version="1.0.0", directed=True, node_props_metadata={}, edge_props_metadata={},
   axes=[geff_spec.Axis(name="a0", type="time", min=0, max=0), geff_spec.Axis(name="a1", type="space", min=0, max=2)])
print(md.axes)
md2 = geff_spec.GeffMetadata(geff_version="1.0.0", directed=True, node_props_metadata={}, edge_props_metadata={}, axes=[])
print(md2.axes)
seg=np.arange(6).reshape(2,3)
print(graph_is_in_seg_bounds({"metadata":md}, seg))
print(has_seg_ids_at_time_points(seg,[0,-1,2],[1,4,1],md))
print(has_seg_ids_at_coords(seg,[[0,1],[1,2,3]],[1,5]))
print(has_seg_ids_at_coords(seg,[[0,1],[-1,2]],[1,5]))
print(has_seg_ids_at_coords(seg,[[0,1],[1,2]],[1,5],scale=[0.5,1]))
print(axes_match_seg_dims({"metadata":md}, seg), axes_match_seg_dims({"metadata":md2}, seg))
print(has_valid_seg_id({"node_props":{"seg_id":{"values":np.array([1,2],dtype=np.uint8),"missing":np.array([False,False])}}}))
