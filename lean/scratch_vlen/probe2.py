import numpy as np, itertools, warnings
warnings.simplefilter("ignore")
L = ["bool","i8","i16","i32","i64","u8","u16","u32","u64","f16","f32","f64","str","bytes","obj"]
REP = {"bool":"bool","i8":"int8","i16":"int16","i32":"int32","i64":"int64","u8":"uint8","u16":"uint16","u32":"uint32","u64":"uint64","f16":"float16","f32":"float32","f64":"float64","str":"<U64","bytes":"S64","obj":"O"}
def back(dt):
    if dt.kind=="U": return "str"
    if dt.kind=="S": return "bytes"
    if dt.kind=="O": return "obj"
    for k,v in REP.items():
        if np.dtype(v)==dt: return k
    return "other"
print("cancast")
for a in L:
    print(a, "".join("1" if np.can_cast(np.dtype(REP[a]),np.dtype(REP[b])) else "0" for b in L))
print("promote")
for a in L:
    row=[]
    for b in L:
        try: row.append(back(np.promote_types(REP[a],REP[b])))
        except Exception as e: row.append("-")
    print(a, " ".join(row))
# width dependence
for w in (1,5,20,21,22,31,32,64):
    print(w, [a for a in L[:12] if np.can_cast(np.dtype(REP[a]), np.dtype(f"<U{w}"))])
print(np.result_type(np.dtype("S3"),np.dtype("int64"),np.dtype("<U2")))
print(np.result_type(np.dtype("O"),np.dtype("int64"),np.dtype("<U2")))
