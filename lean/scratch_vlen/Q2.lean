import GeffModel.NpCast
namespace Geff.Np.Dtype

def lvls : List Nat := [0, 8, 16, 32, 64]
def bools : List Bool := [false, true]

def safeAt (d : Dtype) (T : Summ) : Bool :=
  match ((summ d).join T).result with
  | some r => canCastSafe d r
  | none => true

set_option maxRecDepth 100000 in
theorem safe_table :
    ∀ s ∈ lvls, ∀ u ∈ lvls, ∀ f ∈ lvls, ∀ b1 ∈ bools, ∀ b2 ∈ bools, ∀ b3 ∈ bools, ∀ b4 ∈ bools, ∀ b5 ∈ bools,
    ∀ d ∈ Dtype.all, safeAt d ⟨b1, s, u, f, b2, b3, b4, b5⟩ = true := by
  decide +kernel

end Geff.Np.Dtype
