import GeffProofs.VlenNorm
namespace Geff.Vlen
open Geff.Np

theorem ranks_length (xs : List Item) : (Item.ranks xs).length = (Item.dtypes xs).length := by
  induction xs with
  | nil => rfl
  | cons x t ih => cases x <;> simp [Item.ranks, Item.dtypes, ih]

theorem getCommonTypeDims_ok {xs : List Item} {dt : Dtype} {nd : Nat}
    (h : getCommonTypeDims xs = .ok (dt, nd)) :
    Item.inhomogeneous ∉ xs ∧
    ((Item.dtypes xs = [] ∧ dt = .i64 ∧ nd = 1) ∨
     (Item.dtypes xs ≠ [] ∧ Dtype.resultType (Item.dtypes xs) = some dt ∧
       nd = maxRank (Item.ranks xs) ∧ nd ∈ Item.ranks xs)) := by
  unfold getCommonTypeDims at h
  by_cases hi : xs.contains .inhomogeneous = true
  · rw [if_pos hi] at h; cases h
  · rw [if_neg hi] at h
    have hni : Item.inhomogeneous ∉ xs := by simpa using hi
    refine ⟨hni, ?_⟩
    by_cases he : (Item.dtypes xs).isEmpty = true
    · rw [if_pos he] at h
      simp only [Outcome.ok.injEq, Prod.mk.injEq] at h
      exact .inl ⟨List.isEmpty_iff.1 he, h.1.symm, h.2.symm⟩
    · rw [if_neg he] at h
      have hne : Item.dtypes xs ≠ [] := fun hn => he (List.isEmpty_iff.2 hn)
      cases hr : Dtype.resultType (Item.dtypes xs) with
      | none => rw [hr] at h; cases h
      | some r =>
        rw [hr] at h
        simp only [Outcome.ok.injEq, Prod.mk.injEq] at h
        obtain ⟨rfl, rfl⟩ := h
        refine .inr ⟨hne, rfl, rfl, maxRank_mem ?_⟩
        intro hnil
        have := ranks_length xs
        rw [hnil] at this
        exact hne (List.length_eq_zero_iff.1 this.symm)

theorem construct_ok_inv {xs : List Item} {vals : List NdArr} {miss : List Bool}
    (h : constructVarLenProps xs = .ok (vals, miss)) :
    ∃ dt nd l, getCommonTypeDims xs = .ok (dt, nd) ∧ normAll dt nd xs = some l ∧
      vals = l.map (·.1) ∧ miss = l.map (·.2) := by
  unfold constructVarLenProps at h
  cases hc : getCommonTypeDims xs with
  | ok p =>
    obtain ⟨dt, nd⟩ := p
    rw [hc] at h
    simp only at h
    cases hn : normAll dt nd xs with
    | none => rw [hn] at h; cases h
    | some l =>
      rw [hn] at h
      simp only [Outcome.ok.injEq, Prod.mk.injEq] at h
      exact ⟨dt, nd, l, rfl, hn, h.1.symm, h.2.symm⟩
  | valueError => rw [hc] at h; cases h
  | typeError => rw [hc] at h; cases h
  | other n => rw [hc] at h; cases h
  | unmodelled w => rw [hc] at h; cases h

theorem construct_of {xs : List Item} {dt nd l} (hc : getCommonTypeDims xs = .ok (dt, nd))
    (hn : normAll dt nd xs = some l) : constructVarLenProps xs = .ok (l.map (·.1), l.map (·.2)) := by
  unfold constructVarLenProps; rw [hc]; simp only [hn]

theorem sizes_take_succ (es : List NdArr) (i : Nat) (h : i < es.length) :
    (sizes (es.take (i + 1))).sum = (sizes (es.take i)).sum + prod es[i].shape := by
  induction es generalizing i with
  | nil => simp at h
  | cons e es ih =>
    cases i with
    | zero => simp [sizes]
    | succ i =>
      have := ih i (by simpa using h)
      simp only [sizes, List.take_succ_cons, List.map_cons, List.sum_cons, List.getElem_cons_succ] at this ⊢
      omega

end Geff.Vlen
