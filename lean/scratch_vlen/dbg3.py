import numpy as np, itertools
for combo in [("float16","<U3","O"),("float16","S3","O"),("float16","float64","S3","O"),("int8","float16","<U2","O"),("float16","<U3","S2","O")]:
    for p in itertools.permutations(combo):
        try: r=np.result_type(*[np.dtype(x) for x in p])
        except TypeError as e: r="ERR"
        print(p, r)
    s=sorted(set(np.dtype(x) for x in combo), key=str)
    print("sorted", s)
