import GeffModel.Segmentation
namespace Geff.Seg
open Geff.Np

theorem wrapIndex_inrange {n : Nat} {t : Int} (h0 : 0 ≤ t) (h1 : t < n) : wrapIndex n t = some t.toNat := by
  simp [wrapIndex, h0, h1]

theorem scaleCoord_eq : ∀ (coord scale : List Dy), coord.length = scale.length →
    scaleCoord coord scale = .ok (List.zipWith Dy.mul coord scale)
  | [], [], _ => rfl
  | c :: cs, s :: ss, h => by
    simp only [scaleCoord, scaleCoord_eq cs ss (by simpa using h), List.zipWith_cons_cons]
  | [], _ :: _, h => by simp at h
  | _ :: _, [], h => by simp at h

/-- every scaled coordinate lies inside its axis: `0 ≤ x < extent` -/
def CoordIn : List Dy → List Nat → Prop
  | [], [] => True
  | c :: cs, n :: ns => (Dy.ofInt 0).Le c ∧ c.Lt (Dy.ofInt n) ∧ CoordIn cs ns
  | _, _ => False

theorem allInRange_iff : ∀ (sc : List Dy) (shape : List Nat), allInRange sc shape = true ↔ CoordIn sc shape
  | [], [] => by simp [allInRange, CoordIn]
  | c :: cs, n :: ns => by
    simp only [allInRange, CoordIn, Bool.and_eq_true, allInRange_iff cs ns, Dy.le, Dy.lt, Dy.Le, Dy.Lt,
      decide_eq_true_eq, and_assoc]
  | [], _ :: _ => by simp [allInRange, CoordIn]
  | _ :: _, [] => by simp [allInRange, CoordIn]

theorem floor_inrange {c : Dy} {n : Nat} (h0 : (Dy.ofInt 0).Le c) (h1 : c.Lt (Dy.ofInt n)) :
    0 ≤ c.floor ∧ c.floor < n := by
  have hp : (0 : Int) < 2 ^ c.e := Int.pow_pos (by decide)
  simp only [Dy.Le, Dy.Lt, Dy.ofInt, Int.pow_zero, Int.mul_one, Int.zero_mul] at h0 h1
  exact ⟨Int.ediv_nonneg h0 (Int.le_of_lt hp), Int.ediv_lt_of_lt_mul hp h1⟩

theorem wrapAll_inrange : ∀ (sc : List Dy) (shape : List Nat), CoordIn sc shape →
    wrapAll shape (sc.map Dy.floor) = some (sc.map (fun x => x.floor.toNat)) ∧
    inShape (sc.map (fun x => x.floor.toNat)) shape = true
  | [], [], _ => by simp [wrapAll, inShape]
  | c :: cs, n :: ns, h => by
    obtain ⟨h0, h1, h2⟩ := h
    obtain ⟨f0, f1⟩ := floor_inrange h0 h1
    obtain ⟨ih1, ih2⟩ := wrapAll_inrange cs ns h2
    simp only [List.map_cons, wrapAll, wrapIndex_inrange f0 f1, ih1, inShape, ih2, Bool.and_true,
      decide_eq_true_eq, true_and]
    omega
  | [], _ :: _, h => by simp [CoordIn] at h
  | _ :: _, [], h => by simp [CoordIn] at h

theorem CoordIn_length : ∀ (sc : List Dy) (shape : List Nat), CoordIn sc shape → sc.length = shape.length
  | [], [], _ => rfl
  | _ :: cs, _ :: ns, h => by simp [CoordIn_length cs ns h.2.2]
  | [], _ :: _, h => by simp [CoordIn] at h
  | _ :: _, [], h => by simp [CoordIn] at h

theorem lookup_of_mem {α β : Type} [BEq α] [LawfulBEq α] (l : List (α × β)) (a : α) (h : ∃ b, (a, b) ∈ l) :
    ∃ b, l.lookup a = some b ∧ (a, b) ∈ l := by
  induction l with
  | nil => obtain ⟨b, hb⟩ := h; simp at hb
  | cons p t ih =>
    obtain ⟨k, x⟩ := p
    by_cases hk : a == k
    · have : a = k := by simpa using hk
      subst this
      exact ⟨x, by simp [List.lookup], by simp⟩
    · have hne : a ≠ k := by simpa using hk
      obtain ⟨b, hb⟩ := h
      have : (a, b) ∈ t := by
        rcases List.mem_cons.1 hb with h' | h'
        · cases h'; exact absurd rfl hne
        · exact h'
      obtain ⟨b', h1, h2⟩ := ih ⟨b, this⟩
      refine ⟨b', ?_, List.mem_cons_of_mem _ h2⟩
      simp only [List.lookup]
      have : (a == k) = false := by simpa using hne
      rw [this]; exact h1

/-- indexing a well-formed volume inside its shape returns the label of that cell -/
theorem npIndex_inrange {v : Vol} (hwf : v.WF) {sc : List Dy} (h : CoordIn sc v.shape) :
    ∃ l, npIndex v (sc.map Dy.floor) = .ok l ∧ (sc.map (fun x => x.floor.toNat), l) ∈ v.cells ∧
      ∀ l', (sc.map (fun x => x.floor.toNat), l') ∈ v.cells → l' = l := by
  obtain ⟨hw, hin⟩ := wrapAll_inrange sc v.shape h
  obtain ⟨l, hl, hm⟩ := lookup_of_mem v.cells _ ((hwf.1 _).2 hin)
  refine ⟨l, ?_, hm, fun l' hl' => hwf.2 _ _ _ hl' hm⟩
  simp [npIndex, Vol.ndim, CoordIn_length sc v.shape h, hw, hl]

/-- the documented condition for one `(coordinate, seg id)` pair -/
def PixelHas (v : Vol) (scale : List Dy) (coord : List Dy) (id : Int) : Prop :=
  coord.length = v.ndim ∧ CoordIn (List.zipWith Dy.mul coord scale) v.shape ∧
  ((List.zipWith Dy.mul coord scale).map (fun x => x.floor.toNat), id) ∈ v.cells

/-- the pair is well formed: right number of values, every scaled value inside its axis -/
def CoordOK (v : Vol) (scale : List Dy) (coord : List Dy) : Prop :=
  coord.length = v.ndim ∧ CoordIn (List.zipWith Dy.mul coord scale) v.shape

theorem coordLoop_spec (v : Vol) (hwf : v.WF) (scale : List Dy) (hs : scale.length = v.ndim)
    (pairs : List (List Dy × Int)) (k : Nat) (am : Bool) :
    ∃ r, coordLoop v scale k pairs am = .ok r ∧
      (r.ok = true ↔ am = false ∧ ∀ p ∈ pairs, PixelHas v scale p.1 p.2) ∧
      ((∃ p ∈ pairs, ¬ CoordOK v scale p.1) → r.ok = false ∧ r.errors ≠ []) ∧
      ((∀ p ∈ pairs, CoordOK v scale p.1) → r.errors = []) := by
  induction pairs generalizing k am with
  | nil => exact ⟨⟨!am, []⟩, rfl, by cases am <;> simp, by simp, by simp⟩
  | cons p rest ih =>
    obtain ⟨coord, id⟩ := p
    simp only [coordLoop]
    by_cases hlen : coord.length = v.ndim
    · simp only [hlen, ne_eq, not_true_eq_false, ↓reduceIte, scaleCoord_eq coord scale (hlen.trans hs.symm)]
      cases hr : allInRange (List.zipWith Dy.mul coord scale) v.shape with
      | false =>
        have hnot : ¬ CoordIn (List.zipWith Dy.mul coord scale) v.shape := by
          rw [← allInRange_iff, hr]; simp
        refine ⟨⟨false, [.coordOutOfBounds k]⟩, by simp, ?_, by simp, ?_⟩
        · simp only [Bool.false_eq_true, List.mem_cons, forall_eq_or_imp, false_iff]
          rintro ⟨-, h, -⟩; exact hnot h.2.1
        · intro h; exact absurd (h (coord, id) (by simp)).2 hnot
      | true =>
        have hin := (allInRange_iff _ _).1 hr
        obtain ⟨l, hl, hm, huniq⟩ := npIndex_inrange hwf hin
        obtain ⟨r, hr', hiff, hbad, hgood⟩ := ih (k + 1) (am || l != id)
        refine ⟨r, by simp only [Bool.not_true, Bool.false_eq_true, ↓reduceIte, hl, hr'], ?_, ?_, ?_⟩
        · rw [hiff]
          simp only [Bool.or_eq_false_iff, bne_eq_false_iff_eq, List.mem_cons, forall_eq_or_imp, PixelHas]
          constructor
          · rintro ⟨⟨h1, rfl⟩, h2⟩; exact ⟨h1, ⟨hlen, hin, hm⟩, h2⟩
          · rintro ⟨h1, ⟨_, _, h3⟩, h2⟩; exact ⟨⟨h1, (huniq _ h3).symm⟩, h2⟩
        · rintro ⟨q, hq, hnq⟩
          rcases List.mem_cons.1 hq with rfl | hq
          · exact absurd ⟨hlen, hin⟩ hnq
          · exact hbad ⟨q, hq, hnq⟩
        · intro h; exact hgood (fun q hq => h q (List.mem_cons_of_mem _ hq))
    · refine ⟨⟨false, [.coordLength k]⟩, by simp [hlen], ?_, by simp, ?_⟩
      · simp only [Bool.false_eq_true, List.mem_cons, forall_eq_or_imp, false_iff]
        rintro ⟨-, h, -⟩; exact hlen h.1
      · intro h; exact absurd (h (coord, id) (by simp)).1 hlen

end Geff.Seg
