import GeffModel.Segmentation
namespace Geff.Seg
open Geff.Np

theorem Dy.not_le_iff (a b : Dy) : a.le b = false ↔ b.Lt a := by
  simp [Dy.le, Dy.Lt]

/-- axis `j` of the list handled from position `i` on is in bounds -/
def AxisIn (shape : List Nat) (scale : List Dy) (i : Nat) (a : Axis) : Prop :=
  ∃ mx n s, a.max = some mx ∧ shape[i]? = some n ∧ scale[i]? = some s ∧ mx.Lt (Dy.mul (Dy.ofInt n) s)

theorem boundsLoop_spec (shape : List Nat) (scale : List Dy) (ax : List Axis) (i : Nat)
    (h1 : i + ax.length ≤ shape.length) (h2 : i + ax.length ≤ scale.length) :
    ∃ r, boundsLoop shape scale i ax = .ok r ∧
      (r.ok = true ↔ ∀ j (h : j < ax.length), AxisIn shape scale (i + j) ax[j]) ∧
      (r.ok = false → r.errors ≠ []) := by
  induction ax generalizing i with
  | nil => exact ⟨⟨true, []⟩, rfl, by simp, by simp⟩
  | cons a rest ih =>
    simp only [List.length_cons] at h1 h2
    have hi1 : i < shape.length := by omega
    have hi2 : i < scale.length := by omega
    simp only [boundsLoop]
    cases hm : a.max with
    | none =>
      refine ⟨⟨false, [.noAxisMax]⟩, rfl, ?_, by simp⟩
      simp only [Bool.false_eq_true, false_iff]
      intro h
      obtain ⟨mx, _, _, hmx, _⟩ := h 0 (by simp)
      simp [hm] at hmx
    | some mx =>
      simp only [List.getElem?_eq_getElem hi1, List.getElem?_eq_getElem hi2]
      cases hle : (Dy.mul (Dy.ofInt shape[i]) scale[i]).le mx with
      | true =>
        refine ⟨⟨false, [.axisOutOfBounds i]⟩, by simp, ?_, by simp⟩
        simp only [Bool.false_eq_true, false_iff]
        intro h
        obtain ⟨mx', n, s, hmx, hn, hs, hlt⟩ := h 0 (by simp)
        simp only [List.getElem_cons_zero, Nat.add_zero, hm, Option.some.injEq,
          List.getElem?_eq_getElem hi1, List.getElem?_eq_getElem hi2] at hmx hn hs
        subst hmx hn hs
        have := (Dy.not_le_iff _ _).2 hlt
        rw [hle] at this; cases this
      | false =>
        obtain ⟨r, hr, hiff, herr⟩ := ih (i + 1) (by omega) (by omega)
        refine ⟨r, by simpa using hr, ?_, herr⟩
        rw [hiff]
        constructor
        · intro h j hj
          cases j with
          | zero =>
            exact ⟨mx, shape[i], scale[i], by simpa using hm, by simp [hi1], by simp [hi2],
              (Dy.not_le_iff _ _).1 hle⟩
          | succ j =>
            have := h j (by simpa using hj)
            simpa [Nat.add_assoc, Nat.add_comm 1 j] using this
        · intro h j hj
          have := h (j + 1) (by simpa using hj)
          simpa [Nat.add_assoc, Nat.add_comm 1 j] using this

end Geff.Seg
