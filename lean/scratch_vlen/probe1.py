import numpy as np, itertools, warnings
warnings.simplefilter("ignore")
names = ["bool","int8","int16","int32","int64","uint8","uint16","uint32","uint64","float16","float32","float64"]
dts=[np.dtype(n) for n in names]
# non-assoc
print(np.result_type(np.int8,np.uint8,np.float16), np.result_type(np.int8,np.float16,np.uint8), np.result_type(np.float16,np.int8,np.uint8))
print(np.promote_types(np.promote_types(np.int8,np.uint8),np.float16))
# order independence of result_type over all seqs len<=3
bad=0
for k in (2,3,4):
    for combo in itertools.combinations_with_replacement(dts,k):
        rs=set()
        for p in set(itertools.permutations(combo)):
            rs.add(np.result_type(*p))
        if len(rs)>1:
            bad+=1
            if bad<10: print("orderdep",combo,rs)
print("bad",bad)
# depends only on set?
bad=0
for k in (1,2,3,4):
    for combo in itertools.combinations(dts,k):
        r=np.result_type(*combo)
        # duplicates
        for d in combo:
            if np.result_type(*combo,d)!=r: bad+=1
        # all castable
        for d in combo:
            if not np.can_cast(d,r): print("notcast",combo,r)
print("bad2",bad)
for a,b in [("int64","<U3"),("int64","<U30"),("bool","<U5"),("<U3","<U5"),("S3","<U2"),("int64","O"),("<U3","O"),("float64","complex128"),("int64","datetime64[s]"),("int64","S30")]:
    a=np.dtype(a);b=np.dtype(b)
    try: r=np.promote_types(a,b)
    except Exception as e: r=type(e).__name__
    try: r2=np.result_type(a,b)
    except Exception as e: r2=type(e).__name__
    print(a,b,"cast",np.can_cast(a,b),np.can_cast(b,a),"prom",r,r2)
