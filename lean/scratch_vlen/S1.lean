import GeffModel.Segmentation
namespace Geff.Seg
open Geff.Np

theorem Dy.lt_iff (a b : Dy) : a.lt b = true ↔ a.Lt b := by simp [Dy.lt, Dy.Lt]
theorem Dy.le_iff (a b : Dy) : a.le b = true ↔ a.Le b := by simp [Dy.le, Dy.Le]
theorem Dy.not_le_iff (a b : Dy) : a.le b = false ↔ b.Lt a := by
  simp [Dy.le, Dy.Lt]

/-- `floor a = k` iff `k ≤ a < k + 1` -/
theorem Dy.floor_spec (a : Dy) (k : Int) :
    a.floor = k ↔ (Dy.ofInt k).Le a ∧ a.Lt (Dy.ofInt (k + 1)) := by
  have hp : (0 : Int) < 2 ^ a.e := Int.pow_pos (by decide)
  simp only [Dy.floor, Dy.Le, Dy.Lt, Dy.ofInt, Int.pow_zero, Int.mul_one]
  constructor
  · rintro rfl
    constructor
    · exact Int.ediv_mul_le _ (Int.ne_of_gt hp)
    · have := Int.lt_ediv_add_one_mul_self a.m hp
      simpa [Int.add_mul] using this
  · rintro ⟨h1, h2⟩
    apply Int.le_antisymm
    · have : a.m / 2 ^ a.e < k + 1 := Int.ediv_lt_of_lt_mul hp h2
      omega
    · exact Int.le_ediv_of_mul_le hp h1

theorem truthyAxes_some {axes : Option (List Axis)} {ax : List Axis} :
    truthyAxes axes = some ax ↔ axes = some ax ∧ ax ≠ [] := by
  cases axes with
  | none => simp [truthyAxes]
  | some l =>
    cases l with
    | nil => simp [truthyAxes]
    | cons a t => simp only [truthyAxes, Option.some.injEq]; constructor
                  · rintro rfl; exact ⟨rfl, by simp⟩
                  · rintro ⟨h, -⟩; exact h

theorem truthyAxes_none {axes : Option (List Axis)} :
    truthyAxes axes = none ↔ ¬ ∃ ax, axes = some ax ∧ ax ≠ [] := by
  cases axes with
  | none => simp [truthyAxes]
  | some l => cases l <;> simp [truthyAxes]

end Geff.Seg
