import GeffModel.Vlen
namespace Geff.Vlen
open Geff.Np

def Homogeneous (es : List NdArr) : Prop := ∀ a ∈ es, ∀ b ∈ es, a.dtype = b.dtype ∧ a.ndim = b.ndim

theorem encodeAux_rows_length (off : Nat) (es : List NdArr) : (encodeAux off es).1.length = es.length := by
  induction es generalizing off with
  | nil => simp [encodeAux]
  | cons e es ih => simp [encodeAux, ih]

theorem encodeAux_data_length (off : Nat) (es : List NdArr) (h : ∀ e ∈ es, e.WF) :
    (encodeAux off es).2.length = (es.map (fun e => prod e.shape)).sum := by
  induction es generalizing off with
  | nil => simp [encodeAux]
  | cons e es ih =>
    have he : e.WF := h e (by simp)
    have := ih (off + prod e.shape) (fun x hx => h x (by simp [hx]))
    unfold NdArr.WF at he
    simp [encodeAux, this, he]

/-- generalised round trip: decoding against `pre ++ data ++ post` where `pre.length = off` -/
theorem decodeRows_encodeAux (dt : Dtype) (pre : List Val) (es : List NdArr) (h : ∀ e ∈ es, e.WF)
    (hd : ∀ e ∈ es, e.dtype = dt) (post : List Val) :
    decodeRows dt (pre ++ (encodeAux pre.length es).2 ++ post) (encodeAux pre.length es).1 = .ok es := by
  induction es generalizing pre with
  | nil => simp [encodeAux, decodeRows]
  | cons e es ih =>
    have he : e.WF := h e (by simp)
    have hde : e.dtype = dt := hd e (by simp)
    have ih' := ih (pre ++ e.flat) (fun x hx => h x (by simp [hx])) (fun x hx => hd x (by simp [hx]))
    unfold NdArr.WF at he
    simp only [List.length_append, he] at ih'
    simp only [encodeAux, decodeRows]
    have hrow : decodeRow dt (pre ++ (e.flat ++ (encodeAux (pre.length + prod e.shape) es).2) ++ post)
        (pre.length, e.shape) = .ok e := by
      simp only [decodeRow]
      have : (List.take (prod e.shape) (List.drop pre.length (pre ++ (e.flat ++ (encodeAux (pre.length + prod e.shape) es).2) ++ post))) = e.flat := by
        simp [List.drop_append, ← he, List.take_append]
      rw [this]
      simp [he, ← hde]
    rw [hrow]
    have : pre ++ (e.flat ++ (encodeAux (pre.length + prod e.shape) es).2) ++ post =
        pre ++ e.flat ++ (encodeAux (pre.length + prod e.shape) es).2 ++ post := by simp [List.append_assoc]
    rw [this, ih']

def sizes (es : List NdArr) : List Nat := es.map (fun e => prod e.shape)

theorem encodeAux_data_length (off : Nat) (es : List NdArr) (h : ∀ e ∈ es, e.WF) :
    (encodeAux off es).2.length = (sizes es).sum := by
  induction es generalizing off with
  | nil => simp [encodeAux, sizes]
  | cons e es ih =>
    have he : e.WF := h e (by simp)
    have := ih (off + prod e.shape) (fun x hx => h x (by simp [hx]))
    unfold NdArr.WF at he
    simp [encodeAux, this, he, sizes] at *

/-- row `i` is `(off + Σ_{j<i} size j, shape i)` -/
theorem encodeAux_row (off : Nat) (es : List NdArr) (i : Nat) (hi : i < es.length) :
    (encodeAux off es).1[i]'(by rw [encodeAux_rows_length]; exact hi) =
      (off + (sizes (es.take i)).sum, es[i].shape) := by
  induction es generalizing off i with
  | nil => simp at hi
  | cons e es ih =>
    cases i with
    | zero => simp [encodeAux, sizes]
    | succ i =>
      simp only [encodeAux, List.getElem_cons_succ, List.take_succ_cons]
      rw [ih _ _ (by simpa using hi)]
      simp [sizes]; omega

theorem sizes_take_le (es : List NdArr) (i : Nat) (hi : i < es.length) :
    (sizes (es.take i)).sum + prod es[i].shape ≤ (sizes es).sum := by
  induction es generalizing i with
  | nil => simp at hi
  | cons e es ih =>
    cases i with
    | zero => simp [sizes]
    | succ i =>
      have := ih i (by simpa using hi)
      simp [sizes] at *
      omega
theorem checkElems_some_ok (nd : Nat) (dt : Dtype) (es : List NdArr)
    (h : ∀ a ∈ es, a.ndim = nd ∧ a.dtype = dt) :
    checkElems (some (nd, dt)) (es.map .arr) = .ok es := by
  induction es with
  | nil => simp [checkElems]
  | cons e es ih =>
    have he := h e (by simp)
    simp [checkElems, he.1, he.2, ih (fun a ha => h a (by simp [ha]))]

theorem checkElems_some_err (nd : Nat) (dt : Dtype) (es : List PyElem)
    (h : ¬ ∃ l : List NdArr, es = l.map .arr ∧ ∀ a ∈ l, a.ndim = nd ∧ a.dtype = dt) :
    checkElems (some (nd, dt)) es = .valueError := by
  induction es with
  | nil => exact absurd ⟨[], by simp⟩ h
  | cons e es ih =>
    cases e with
    | notArray => simp [checkElems]
    | arr a =>
      simp only [checkElems]
      by_cases h1 : a.ndim = nd
      · by_cases h2 : a.dtype = dt
        · have : ¬ ∃ l : List NdArr, es = l.map .arr ∧ ∀ a ∈ l, a.ndim = nd ∧ a.dtype = dt := by
            rintro ⟨l, rfl, hl⟩
            exact h ⟨a :: l, by simp, by
              intro b hb
              rcases List.mem_cons.1 hb with rfl | hb
              · exact ⟨h1, h2⟩
              · exact hl b hb⟩
          simp [h1, h2, ih this]
        · simp [h1, h2]
      · simp [h1]

theorem homogeneous_cons (e : NdArr) (es : List NdArr) :
    Homogeneous (e :: es) ↔ ∀ a ∈ es, a.ndim = e.ndim ∧ a.dtype = e.dtype := by
  constructor
  · intro h a ha
    have := h a (by simp [ha]) e (by simp)
    exact ⟨this.2, this.1⟩
  · intro h a ha b hb
    have key : ∀ x ∈ e :: es, x.ndim = e.ndim ∧ x.dtype = e.dtype := by
      intro x hx
      rcases List.mem_cons.1 hx with rfl | hx
      · exact ⟨rfl, rfl⟩
      · exact h x hx
    have ha' := key a ha
    have hb' := key b hb
    exact ⟨ha'.2.trans hb'.2.symm, ha'.1.trans hb'.1.symm⟩

/-- the checking loop accepts exactly the homogeneous lists of arrays, and fails with `ValueError`
on everything else -/
theorem checkElems_none (es : List PyElem) :
    (∃ l : List NdArr, es = l.map .arr ∧ Homogeneous l ∧ checkElems none es = .ok l) ∨
    ((¬ ∃ l : List NdArr, es = l.map .arr ∧ Homogeneous l) ∧ checkElems none es = .valueError) := by
  cases es with
  | nil => exact .inl ⟨[], by simp [Homogeneous, checkElems]⟩
  | cons e es =>
    cases e with
    | notArray =>
      refine .inr ⟨?_, by simp [checkElems]⟩
      rintro ⟨l, hl, -⟩
      cases l <;> simp at hl
    | arr a =>
      by_cases h : ∃ l : List NdArr, es = l.map .arr ∧ ∀ x ∈ l, x.ndim = a.ndim ∧ x.dtype = a.dtype
      · obtain ⟨l, rfl, hl⟩ := h
        refine .inl ⟨a :: l, by simp, (homogeneous_cons a l).2 hl, ?_⟩
        simp [checkElems, checkElems_some_ok _ _ l hl]
      · refine .inr ⟨?_, by simp [checkElems, checkElems_some_err _ _ es h]⟩
        rintro ⟨l, hl, hh⟩
        cases l with
        | nil => simp at hl
        | cons b l =>
          simp only [List.map_cons, List.cons.injEq, PyElem.arr.injEq] at hl
          obtain ⟨rfl, rfl⟩ := hl
          exact h ⟨l, rfl, (homogeneous_cons _ l).1 hh⟩

theorem mapM_valNat_natVal (l : List Nat) : (l.map natVal).mapM valNat? = some l := by
  induction l with
  | nil => rfl
  | cons a l ih => simp [List.mapM_cons, natVal, valNat?, ih] at *

theorem parseRows_flat (k : Nat) (rows : List (Nat × List Nat)) (h : ∀ r ∈ rows, r.2.length = k) :
    parseRows (k + 1) rows.length (rows.flatMap (fun row => (row.1 :: row.2).map natVal)) = some rows := by
  induction rows with
  | nil => simp [parseRows]
  | cons r rows ih =>
    have hr := h r (by simp)
    have ih' := ih (fun x hx => h x (by simp [hx]))
    simp only [List.length_cons, parseRows, List.flatMap_cons]
    have hlen : ((r.1 :: r.2).map natVal).length = k + 1 := by simp [hr]
    rw [List.take_left' hlen, List.drop_left' hlen, mapM_valNat_natVal, ih']


theorem encodeAux_shapes (off : Nat) (es : List NdArr) :
    (encodeAux off es).1.map (·.2) = es.map (·.shape) := by
  induction es generalizing off with
  | nil => simp [encodeAux]
  | cons e es ih => simp [encodeAux, ih]

theorem serializeVlenPy_cases (es : List PyElem) :
    (∃ l : List NdArr, es = l.map .arr ∧ Homogeneous l ∧
        serializeVlenPy es = .ok ((encode l).valuesArr, (encode l).dataArr)) ∨
    ((¬ ∃ l : List NdArr, es = l.map .arr ∧ Homogeneous l) ∧ serializeVlenPy es = .valueError) := by
  rcases checkElems_none es with ⟨l, h1, h2, h3⟩ | ⟨h1, h2⟩
  · exact .inl ⟨l, h1, h2, by simp [serializeVlenPy, h3]⟩
  · exact .inr ⟨h1, by simp [serializeVlenPy, h2]⟩

theorem map_arr_injective {l l' : List NdArr} (h : l.map PyElem.arr = l'.map PyElem.arr) : l = l' := by
  induction l generalizing l' with
  | nil => cases l' <;> simp at h ⊢
  | cons a l ih =>
    cases l' with
    | nil => simp at h
    | cons b l' =>
      simp only [List.map_cons, List.cons.injEq, PyElem.arr.injEq] at h
      rw [h.1, ih h.2]

theorem serializeVlen_ok_iff (es : List NdArr) :
    (∃ v, serializeVlen es = .ok v) ↔ Homogeneous es := by
  unfold serializeVlen
  rcases serializeVlenPy_cases (es.map .arr) with ⟨l, h1, h2, h3⟩ | ⟨h1, h2⟩
  · have := map_arr_injective h1
    subst this
    exact ⟨fun _ => h2, fun _ => ⟨_, h3⟩⟩
  · constructor
    · rintro ⟨v, hv⟩; rw [h2] at hv; cases hv
    · intro hh; exact absurd ⟨es, rfl, hh⟩ h1

theorem serializeVlen_eq (es : List NdArr) (h : Homogeneous es) :
    serializeVlen es = .ok ((encode es).valuesArr, (encode es).dataArr) := by
  unfold serializeVlen
  rcases serializeVlenPy_cases (es.map .arr) with ⟨l, h1, _, h3⟩ | ⟨h1, _⟩
  · have := map_arr_injective h1
    subst this
    exact h3
  · exact absurd ⟨es, rfl, h⟩ h1

theorem decodeRows_encode (es : List NdArr) (hwf : ∀ e ∈ es, e.WF) (hh : Homogeneous es) :
    decodeRows (encode es).dtype (encode es).data (encode es).rows = .ok es := by
  have hd : ∀ e ∈ es, e.dtype = dataDtype es := by
    cases es with
    | nil => simp
    | cons a l => intro e he; exact (hh e he a (by simp)).1
  have := decodeRows_encodeAux (dataDtype es) [] es hwf hd []
  simpa [encode] using this

theorem deserialize_encode (es : List NdArr) (hwf : ∀ e ∈ es, e.WF) (hh : Homogeneous es) :
    deserializeVlen (encode es).valuesArr (encode es).dataArr = .ok es := by
  cases es with
  | nil => simp [deserializeVlen, encode, encodeAux, Encoded.valuesArr, Encoded.dataArr]
  | cons a l =>
    have hrows : (encode (a :: l)).rows = (0, a.shape) :: (encodeAux (0 + prod a.shape) l).1 := by
      simp [encode, encodeAux]
    have hk : ∀ r ∈ (encode (a :: l)).rows, r.2.length = a.shape.length := by
      intro r hr
      have hm : r.2 ∈ (encode (a :: l)).rows.map (·.2) := List.mem_map.2 ⟨r, hr, rfl⟩
      rw [show (encode (a :: l)).rows = (encodeAux 0 (a :: l)).1 from rfl, encodeAux_shapes] at hm
      obtain ⟨e, he, rfl⟩ := List.mem_map.1 hm
      exact (hh e he a (by simp)).2
    have hp := parseRows_flat a.shape.length (encode (a :: l)).rows hk
    have hdec := decodeRows_encode (a :: l) hwf hh
    unfold deserializeVlen
    simp only [Encoded.dataArr, List.length_singleton, ne_eq, not_true_eq_false, ↓reduceIte]
    simp only [Encoded.valuesArr, hrows]
    rw [hrows] at hp
    simp only [List.length_cons] at hp ⊢
    simp only [Nat.add_eq_zero_iff, Nat.succ_ne_zero, and_false, ↓reduceIte, hp]
    rw [hrows] at hdec
    exact hdec

theorem deserialize_serialize (es : List NdArr) (hwf : ∀ e ∈ es, e.WF) {values data : NdArr}
    (h : serializeVlen es = .ok (values, data)) : deserializeVlen values data = .ok es := by
  have hh := (serializeVlen_ok_iff es).1 ⟨_, h⟩
  rw [serializeVlen_eq es hh] at h
  cases h
  exact deserialize_encode es hwf hh

end Geff.Vlen
