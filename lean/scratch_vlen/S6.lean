import GeffProofs.Segmentation
namespace Geff.Seg
open Geff.Np

/-- the message of `has_seg_ids_at_coords` names the *first* offending pair, and says whether its
rank or its range is wrong -/
theorem coordLoop_first_bad (v : Vol) (hwf : v.WF) (scale : List Dy) (hs : scale.length = v.ndim)
    (pairs : List (List Dy × Int)) (k : Nat) (am : Bool)
    (hbad : ∃ p ∈ pairs, ¬ CoordOK v scale p.1) :
    ∃ j, ∃ hj : j < pairs.length, ¬ CoordOK v scale pairs[j].1 ∧
      (∀ i (hi : i < pairs.length), i < j → CoordOK v scale pairs[i].1) ∧
      coordLoop v scale k pairs am = .ok ⟨false,
        [if pairs[j].1.length ≠ v.ndim then Msg.coordLength (k + j) else Msg.coordOutOfBounds (k + j)]⟩ := by
  induction pairs generalizing k am with
  | nil => obtain ⟨p, hp, -⟩ := hbad; simp at hp
  | cons p rest ih =>
    obtain ⟨coord, id⟩ := p
    by_cases hok : CoordOK v scale coord
    · -- this pair is fine: the loop continues
      have hbad' : ∃ p ∈ rest, ¬ CoordOK v scale p.1 := by
        obtain ⟨q, hq, hnq⟩ := hbad
        rcases List.mem_cons.1 hq with rfl | hq
        · exact absurd hok hnq
        · exact ⟨q, hq, hnq⟩
      obtain ⟨hlen, hin⟩ := hok
      obtain ⟨l, hl, -, -⟩ := npIndex_inrange hwf hin
      obtain ⟨j, hj, hnj, hbefore, hres⟩ := ih (k + 1) (am || l != id) hbad'
      refine ⟨j + 1, by simpa using hj, by simpa using hnj, ?_, ?_⟩
      · intro i hi hij
        cases i with
        | zero => exact ⟨hlen, hin⟩
        | succ i => simpa using hbefore i (by simpa using hi) (by omega)
      · simp only [coordLoop, hlen, ne_eq, not_true_eq_false, ↓reduceIte,
          scaleCoord_eq coord scale (hlen.trans hs.symm), (allInRange_iff _ _).2 hin, Bool.not_true,
          Bool.false_eq_true, hl, hres, List.getElem_cons_succ]
        have : k + 1 + j = k + (j + 1) := by omega
        rw [this]
    · refine ⟨0, by simp, by simpa using hok, by intro i _ hi; omega, ?_⟩
      simp only [coordLoop, List.getElem_cons_zero, Nat.add_zero]
      by_cases hlen : coord.length = v.ndim
      · have hnin : ¬ CoordIn (List.zipWith Dy.mul coord scale) v.shape := fun h => hok ⟨hlen, h⟩
        have : allInRange (List.zipWith Dy.mul coord scale) v.shape = false := by
          cases h : allInRange (List.zipWith Dy.mul coord scale) v.shape with
          | false => rfl
          | true => exact absurd ((allInRange_iff _ _).1 h) hnin
        simp only [hlen, ne_eq, not_true_eq_false, ↓reduceIte,
          scaleCoord_eq coord scale (hlen.trans hs.symm), this, Bool.not_false]
      · simp only [hlen, ne_eq, not_false_eq_true, ↓reduceIte]

end Geff.Seg
