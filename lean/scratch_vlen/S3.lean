import GeffModel.Segmentation
namespace Geff.Seg
open Geff.Np

theorem wrapIndex_inrange {n : Nat} {t : Int} (h0 : 0 ≤ t) (h1 : t < n) : wrapIndex n t = some t.toNat := by
  simp [wrapIndex, h0, h1]

/-- time point `t` is inside the time axis `ti` of the volume -/
def TimeIn (v : Vol) (ti : Nat) (t : Int) : Prop := ∃ n : Nat, v.shape[ti]? = some n ∧ 0 ≤ t ∧ t < n

/-- label `id` occurs in the volume at time point `t` -/
def LabelAt (v : Vol) (ti : Nat) (t id : Int) : Prop :=
  ∃ idx, (idx, id) ∈ v.cells ∧ idx[ti]? = some t.toNat

instance (v : Vol) (ti : Nat) (t : Int) : Decidable (TimeIn v ti t) := by
  unfold TimeIn
  cases h : v.shape[ti]? with
  | none => exact isFalse (by simp)
  | some n =>
    by_cases h' : 0 ≤ t ∧ t < n
    · exact isTrue ⟨n, rfl, h'.1, h'.2⟩
    · exact isFalse (by rintro ⟨m, hm, h0, h1⟩; cases hm; exact h' ⟨h0, h1⟩)

theorem npTakeLabels_inrange {v : Vol} {ti : Nat} {t : Int} {n : Nat} (hn : v.shape[ti]? = some n)
    (h0 : 0 ≤ t) (h1 : t < n) :
    ∃ labels, npTakeLabels v ti t = .ok labels ∧ ∀ id, id ∈ labels ↔ LabelAt v ti t id := by
  refine ⟨(v.cells.filter (fun c => c.1[ti]? == some t.toNat)).map (·.2),
    by simp [npTakeLabels, hn, wrapIndex_inrange h0 h1], ?_⟩
  intro id
  simp only [List.mem_map, List.mem_filter, beq_iff_eq, LabelAt]
  constructor
  · rintro ⟨⟨idx, l⟩, ⟨hm, hi⟩, rfl⟩; exact ⟨idx, hm, hi⟩
  · rintro ⟨idx, hm, hi⟩; exact ⟨(idx, id), ⟨hm, hi⟩, rfl⟩

theorem timeLoop_spec (v : Vol) (ti : Nat) (pairs : List (Int × Int)) (rest : List Int)
    (errs : List Msg) (am : Bool) :
    ∃ r suffix, timeLoop v ti pairs rest errs am = .ok r ∧ r.errors = errs ++ suffix ∧
      (r.ok = true ↔ am = false ∧ (∀ t ∈ rest, TimeIn v ti t) ∧
        ∀ t ∈ rest, ∀ id ∈ groupAt pairs t, LabelAt v ti t id) ∧
      ((∃ t ∈ rest, ¬ TimeIn v ti t) → ∃ t ∈ rest, ¬ TimeIn v ti t ∧ Msg.timeOutOfBounds t ∈ suffix) ∧
      (r.ok = false → am = true ∨ suffix ≠ []) := by
  induction rest generalizing errs am with
  | nil =>
    refine ⟨⟨!am, errs⟩, [], rfl, by simp, by cases am <;> simp, by simp, by cases am <;> simp⟩
  | cons t rest ih =>
    simp only [timeLoop]
    by_cases hin : TimeIn v ti t
    · obtain ⟨n, hn, h0, h1⟩ := hin
      obtain ⟨labels, hl, hmem⟩ := npTakeLabels_inrange hn h0 h1
      simp only [hn, h0, h1, and_self, not_true_eq_false, ↓reduceIte, hl]
      obtain ⟨r, suffix, hr, herr, hiff, hoob, hmsg⟩ := ih
        (errs ++ ((groupAt pairs t).filter (fun id => !labels.contains id)).map (fun id => Msg.missingLabel id t))
        (am || !((groupAt pairs t).filter (fun id => !labels.contains id)).isEmpty)
      have hmiss : ((groupAt pairs t).filter (fun id => !labels.contains id)) = [] ↔
          ∀ id ∈ groupAt pairs t, LabelAt v ti t id := by
        rw [List.filter_eq_nil_iff]
        constructor
        · intro h id hid
          have := h id hid
          simp only [Bool.not_eq_eq_eq_not, Bool.not_true, Bool.not_eq_false, List.contains_iff_mem] at this
          exact (hmem id).1 this
        · intro h id hid
          simp only [Bool.not_eq_eq_eq_not, Bool.not_true, Bool.not_eq_false, List.contains_iff_mem]
          exact (hmem id).2 (h id hid)
      refine ⟨r, (((groupAt pairs t).filter (fun id => !labels.contains id)).map
          (fun id => Msg.missingLabel id t)) ++ suffix, hr, by rw [herr, List.append_assoc], ?_, ?_, ?_⟩
      · rw [hiff]
        simp only [Bool.or_eq_false_iff, Bool.not_eq_eq_eq_not, Bool.not_false, List.isEmpty_iff,
          List.mem_cons, forall_eq_or_imp, hmiss]
        constructor
        · rintro ⟨⟨h1', h2'⟩, h3, h4⟩; exact ⟨h1', ⟨⟨n, hn, h0, h1⟩, h3⟩, h2', h4⟩
        · rintro ⟨h1', ⟨_, h3⟩, h2', h4⟩; exact ⟨⟨h1', h2'⟩, h3, h4⟩
      · rintro ⟨t', ht', hnot⟩
        rcases List.mem_cons.1 ht' with rfl | ht'
        · exact absurd ⟨n, hn, h0, h1⟩ hnot
        · obtain ⟨t'', h1'', h2'', h3''⟩ := hoob ⟨t', ht', hnot⟩
          exact ⟨t'', List.mem_cons_of_mem _ h1'', h2'', List.mem_append_right _ h3''⟩
      · intro hf
        rcases hmsg hf with h | h
        · simp only [Bool.or_eq_true, Bool.not_eq_eq_eq_not, Bool.not_true, List.isEmpty_eq_false_iff] at h
          rcases h with h | h
          · exact .inl h
          · right; intro hnil
            simp only [List.append_eq_nil_iff, List.map_eq_nil_iff] at hnil
            exact h hnil.1
        · right; intro hnil
          simp only [List.append_eq_nil_iff] at hnil
          exact h hnil.2
    · have hout : ∃ r, (match v.shape[ti]? with
          | none => Outcome.ok (⟨false, errs ++ [Msg.timeOutOfBounds t]⟩ : Result)
          | some n =>
            if ¬(0 ≤ t ∧ t < (n : Int)) then Outcome.ok ⟨false, errs ++ [Msg.timeOutOfBounds t]⟩
            else match npTakeLabels v ti t with
              | .other e => .other e
              | .ok labels =>
                timeLoop v ti pairs rest
                  (errs ++ ((groupAt pairs t).filter (fun id => !labels.contains id)).map (fun id => Msg.missingLabel id t))
                  (am || !((groupAt pairs t).filter (fun id => !labels.contains id)).isEmpty)) = .ok r ∧
          r = ⟨false, errs ++ [Msg.timeOutOfBounds t]⟩ := by
        cases hn : v.shape[ti]? with
        | none => exact ⟨_, rfl, rfl⟩
        | some n =>
          have : ¬ (0 ≤ t ∧ t < (n : Int)) := fun h => hin ⟨n, hn, h.1, h.2⟩
          simp only [this, not_false_eq_true, ↓reduceIte]
          exact ⟨_, rfl, rfl⟩
      obtain ⟨r, hr, rfl⟩ := hout
      refine ⟨_, [Msg.timeOutOfBounds t], hr, rfl, ?_, ?_, by simp⟩
      · simp only [Bool.false_eq_true, List.mem_cons, forall_eq_or_imp, false_iff]
        rintro ⟨-, ⟨h, -⟩, -⟩; exact hin h
      · intro _; exact ⟨t, by simp, hin, by simp⟩

end Geff.Seg
