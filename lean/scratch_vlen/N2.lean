import GeffProofs.Vlen
import GeffProofs.NpCast
namespace Geff.Vlen
open Geff.Np

theorem mem_dtypes {a : NdArr} {xs : List Item} (h : Item.arr a ∈ xs) : a.dtype ∈ Item.dtypes xs := by
  induction xs with
  | nil => simp at h
  | cons x t ih =>
    rcases List.mem_cons.1 h with rfl | h'
    · simp [Item.dtypes]
    · cases x <;> simp [Item.dtypes, ih h']

theorem mem_ranks {a : NdArr} {xs : List Item} (h : Item.arr a ∈ xs) : a.ndim ∈ Item.ranks xs := by
  induction xs with
  | nil => simp at h
  | cons x t ih =>
    rcases List.mem_cons.1 h with rfl | h'
    · simp [Item.ranks]
    · cases x <;> simp [Item.ranks, ih h']

theorem foldl_max_ge (rs : List Nat) (b : Nat) : b ≤ rs.foldl max b ∧ ∀ r ∈ rs, r ≤ rs.foldl max b := by
  induction rs generalizing b with
  | nil => simp
  | cons a t ih =>
    simp only [List.foldl_cons, List.mem_cons, forall_eq_or_imp]
    have := ih (max b a)
    refine ⟨by omega, by omega, this.2⟩

theorem le_maxRank {rs : List Nat} {r : Nat} (h : r ∈ rs) : r ≤ maxRank rs := (foldl_max_ge rs 0).2 r h

theorem foldl_max_mem (rs : List Nat) (b : Nat) : rs.foldl max b = b ∨ rs.foldl max b ∈ rs := by
  induction rs generalizing b with
  | nil => simp
  | cons a t ih =>
    simp only [List.foldl_cons, List.mem_cons]
    rcases ih (max b a) with h | h
    · rw [h]; rcases Nat.le_total b a with h' | h'
      · rw [Nat.max_eq_right h']; simp
      · rw [Nat.max_eq_left h']; simp
    · exact .inr (.inr h)

/-- the maximum is attained -/
theorem maxRank_mem {rs : List Nat} (h : rs ≠ []) : maxRank rs ∈ rs := by
  rcases foldl_max_mem rs 0 with h0 | h0
  · cases rs with
    | nil => exact absurd rfl h
    | cons a t =>
      have := (foldl_max_ge (a :: t) 0).2 a (by simp)
      unfold maxRank
      rw [h0] at this ⊢
      have : a = 0 := by omega
      simp [this]
  · exact h0

theorem normAll_length {dt nd} : ∀ {xs l}, normAll dt nd xs = some l → l.length = xs.length := by
  intro xs
  induction xs with
  | nil => intro l h; simp [normAll] at h; simp [← h]
  | cons x t ih =>
    intro l h
    simp only [normAll] at h
    cases hx : normItem dt nd x <;> cases ht : normAll dt nd t <;> simp [hx, ht] at h
    subst h; simp [ih ht]

theorem normAll_get {dt nd} : ∀ {xs l}, normAll dt nd xs = some l → ∀ i (h1 : i < xs.length) (h2 : i < l.length),
    normItem dt nd xs[i] = some l[i] := by
  intro xs
  induction xs with
  | nil => intro l _ i h1; simp at h1
  | cons x t ih =>
    intro l h i h1 h2
    simp only [normAll] at h
    cases hx : normItem dt nd x <;> cases ht : normAll dt nd t <;> simp [hx, ht] at h
    subst h
    cases i with
    | zero => simpa using hx
    | succ i => simpa using ih ht i (by simpa using h1) (by simpa using h2)

theorem prod_foldl (sh : List Nat) (b : Nat) : sh.foldl (· * ·) b = b * prod sh := by
  induction sh generalizing b with
  | nil => simp [prod]
  | cons a t ih => simp only [prod, List.foldl_cons]; rw [ih, ih (1 * a)]; simp [prod, Nat.mul_assoc]

theorem prod_cons (a : Nat) (sh : List Nat) : prod (a :: sh) = a * prod sh := by
  simp only [prod, List.foldl_cons]; rw [prod_foldl]; simp [prod]

theorem prod_ones_append (k : Nat) (sh : List Nat) : prod (List.replicate k 1 ++ sh) = prod sh := by
  induction k with
  | zero => simp
  | succ k ih => simp [List.replicate_succ, prod_cons, ih]

theorem mapM_length {α β : Type} (f : α → Option β) : ∀ {l : List α} {l' : List β}, l.mapM f = some l' → l'.length = l.length := by
  intro l
  induction l with
  | nil => intro l' h; simp at h; simp [← h]
  | cons a t ih =>
    intro l' h
    simp only [List.mapM_cons] at h
    cases ha : f a <;> simp [ha] at h
    cases ht : t.mapM f <;> simp [ht] at h
    subst h; simp [ih ht]

end Geff.Vlen
