import json,glob,collections,subprocess,sys,itertools
sys.path.insert(0,"/verif")
import numpy as np
from harness.corr import C11
names=list(C11.REP)
seqs=list(itertools.product(names,repeat=2))+list(itertools.combinations(names,3))
reqs="\n".join(json.dumps({"op":"result","ds":list(s)}) for s in seqs)+"\n"
out=subprocess.run(["/verif/lean/.lake/build/bin/drv_C11"],input=reqs,capture_output=True,text=True).stdout.splitlines()
n=0
for s,o in zip(seqs,out):
    r=C11.dname(np.result_type(*[np.dtype(C11.REP[x]) for x in s]))
    if json.loads(o)["r"]!=r:
        n+=1
        if n<15: print(s,r,o)
print(n)
