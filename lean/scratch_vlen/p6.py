import sys, warnings
warnings.simplefilter("ignore")
sys.path[:0]=["/repo/packages/geff/src","/repo/packages/geff-spec/src"]
import numpy as np
from geff.validate.segmentation import *
def tryf(f,*a,**k):
    try: return f(*a,**k)
    except Exception as e: return type(e).__name__+": "+str(e)[:80]
for dt in ["bool","int8","uint8","uint16","int64","uint64"]:
    info = None if dt=="bool" else np.iinfo(dt)
    labs = [0,1,1,0] if dt=="bool" else [1, info.max, info.min, 2]
    seg = np.asarray(labs, dtype=dt).reshape(2,1,2)
    print(dt, seg.ravel().tolist())
    for ids in ([1],[257],[-255],[labs[1]],[labs[1]+256],[labs[1]-2**64],[2**64-1],[-1],[2**63],[np.int64(1)],[np.uint64(1)],np.array([1],dtype=np.uint8),np.array([1],dtype=np.int64)):
        r1=tryf(has_seg_ids_at_time_points, seg, [0]*len(ids), ids)
        r2=tryf(has_seg_ids_at_coords, seg, [[0,0,0]]*len(ids), ids)
        print("   ", repr(ids), "time:", r1, "| coords:", r2)
# flavours
seg=np.arange(1,13).reshape(2,2,3)
c=np.array([[0,0,0],[1,1,2]],dtype=np.float64)
print(tryf(has_seg_ids_at_coords, seg, c, [1,12], scale=(1,1,1)))
print(tryf(has_seg_ids_at_coords, seg, c.astype(np.float32), np.array([1,12]), scale=np.array([1.0,1,1])))
print(tryf(has_seg_ids_at_coords, seg, tuple(c), (1,12)))
print(tryf(has_seg_ids_at_coords, seg, [(0,0,0),(1,1,5)], (1,12)))
print(tryf(has_seg_ids_at_coords, seg, c[:, :2], (1,12)))
print(tryf(has_seg_ids_at_time_points, seg, np.array([0,1]), np.array([1,12])))
print(tryf(has_seg_ids_at_time_points, seg, (np.int64(0),np.int64(5)), np.array([1,12])))
print(tryf(has_seg_ids_at_time_points, seg, np.array([0,1],dtype=np.uint8), np.array([1,99],dtype=np.uint8)))
