import json,sys,itertools
sys.path.insert(0,"/verif")
import numpy as np
from harness.corr import C11
names=list(C11.REP)
fails=collections=None
bad=[]
for k in range(1,5):
    for s in itertools.combinations(names,k):
        rs=set()
        for p in itertools.permutations(s):
            try: rs.add(C11.dname(np.result_type(*[np.dtype(C11.REP[x]) for x in p])))
            except TypeError: rs.add(None)
        if None in rs or len(rs)>1: bad.append((s,rs))
print(len(bad))
for b in bad[:60]: print(b)
