import GeffModel.NpCast
namespace Geff.Np.Dtype

theorem Summ.join_comm (x y : Summ) : x.join y = y.join x := by
  simp only [Summ.join, Nat.max_comm, Bool.or_comm]

theorem Summ.join_assoc (x y z : Summ) : (x.join y).join z = x.join (y.join z) := by
  simp only [Summ.join, Nat.max_assoc, Bool.or_assoc]

theorem Summ.join_idem (x : Summ) : x.join x = x := by
  cases x; simp [Summ.join]

theorem Summ.join_right_comm (a x y : Summ) : (a.join x).join y = (a.join y).join x := by
  rw [Summ.join_assoc, Summ.join_comm x y, ← Summ.join_assoc]

theorem foldl_perm {α β : Type} (f : β → α → β) (hc : ∀ b x y, f (f b x) y = f (f b y) x)
    {l₁ l₂ : List α} (p : l₁.Perm l₂) : ∀ b, l₁.foldl f b = l₂.foldl f b := by
  induction p with
  | nil => intro b; rfl
  | cons x _ ih => intro b; simp [ih]
  | swap x y l => intro b; simp [hc]
  | trans _ _ ih1 ih2 => intro b; rw [ih1, ih2]

theorem summAll_perm {ds ds' : List Dtype} (p : ds.Perm ds') : summAll ds = summAll ds' :=
  foldl_perm _ (fun b x y => Summ.join_right_comm b (summ x) (summ y)) p _

theorem resultType_perm {ds ds' : List Dtype} (p : ds.Perm ds') : resultType ds = resultType ds' := by
  unfold resultType; rw [summAll_perm p]

theorem Summ.empty_join (x : Summ) : ({} : Summ).join x = x := by
  cases x; simp [Summ.join]

theorem summAll_cons (d : Dtype) (ds : List Dtype) : summAll (d :: ds) = (summ d).join (summAll ds) := by
  have : ∀ (b : Summ), ds.foldl (fun acc d => acc.join (summ d)) b = b.join (summAll ds) := by
    induction ds with
    | nil => intro b; cases b; simp [summAll, Summ.join]
    | cons e es ih =>
      intro b
      simp only [summAll, List.foldl_cons]
      rw [ih, ih ((({} : Summ)).join (summ e)), Summ.empty_join, ← Summ.join_assoc]
  simp only [summAll, List.foldl_cons]
  rw [this, Summ.empty_join]
  rfl

theorem summAll_absorb (d : Dtype) (ds : List Dtype) (h : d ∈ ds) :
    (summ d).join (summAll ds) = summAll ds := by
  induction ds with
  | nil => simp at h
  | cons e es ih =>
    rw [summAll_cons]
    rcases List.mem_cons.1 h with rfl | h
    · rw [← Summ.join_assoc, Summ.join_idem]
    · rw [← Summ.join_assoc, Summ.join_comm (summ d), Summ.join_assoc, ih h]



def lvls : List Nat := [0, 8, 16, 32, 64]
def numeric : List Dtype := [bool, i8, i16, i32, i64, u8, u16, u32, u64, f16, f32, f64]

def Summ.Ok (x : Summ) : Prop := x.s ∈ lvls ∧ x.u ∈ lvls ∧ x.f ∈ lvls

theorem max_mem_lvls {a b : Nat} (ha : a ∈ lvls) (hb : b ∈ lvls) : max a b ∈ lvls := by
  rcases Nat.le_total a b with h | h
  · rw [Nat.max_eq_right h]; exact hb
  · rw [Nat.max_eq_left h]; exact ha

theorem summ_ok (d : Dtype) : (summ d).Ok := by cases d <;> (unfold Summ.Ok; decide)

theorem Summ.join_ok {x y : Summ} (hx : x.Ok) (hy : y.Ok) : (x.join y).Ok :=
  ⟨max_mem_lvls hx.1 hy.1, max_mem_lvls hx.2.1 hy.2.1, max_mem_lvls hx.2.2 hy.2.2⟩

theorem summAll_ok (ds : List Dtype) : (summAll ds).Ok := by
  induction ds with
  | nil => unfold Summ.Ok; decide
  | cons d ds ih => rw [summAll_cons]; exact Summ.join_ok (summ_ok d) ih

theorem num_safe_table : ∀ s ∈ lvls, ∀ u ∈ lvls, ∀ f ∈ lvls, ∀ d ∈ numeric,
    canCastSafe d (numResult (max (summ d).s s) (max (summ d).u u) (max (summ d).f f)) = true := by
  decide +kernel

/-- the common dtype is an upper bound in numpy's safe-cast order -/
theorem result_join_safe (d : Dtype) (S : Summ) (hS : S.Ok) (r : Dtype)
    (h : ((summ d).join S).result = some r) : canCastSafe d r = true := by
  obtain ⟨an, s, u, f, by_, st, ob, ot⟩ := S
  obtain ⟨hs, hu, hf⟩ := hS
  simp only at hs hu hf
  by_cases hnum : d ∈ numeric
  · have key := num_safe_table s hs u hu f hf d hnum
    cases ot <;> cases ob <;> cases st <;> cases by_ <;>
      simp only [numeric, List.mem_cons, List.not_mem_nil, or_false] at hnum <;>
      rcases hnum with rfl | rfl | rfl | rfl | rfl | rfl | rfl | rfl | rfl | rfl | rfl | rfl <;>
      simp [summ, Summ.join, Summ.result] at h <;> (try subst h) <;> first | rfl | exact key
  · have : d = str ∨ d = bytes ∨ d = obj ∨ d = other := by
      cases d <;> simp [numeric] at hnum ⊢
    rcases this with rfl | rfl | rfl | rfl <;>
      cases ot <;> cases ob <;> cases st <;> cases by_ <;>
      simp [summ, Summ.join, Summ.result] at h <;> (try subst h) <;> rfl

theorem resultType_safe (ds : List Dtype) (r : Dtype) (h : resultType ds = some r) :
    ∀ d ∈ ds, canCastSafe d r = true := by
  intro d hd
  unfold resultType at h
  rw [← summAll_absorb d ds hd] at h
  exact result_join_safe d _ (summAll_ok ds) r h

end Geff.Np.Dtype
