import Mathlib.Data.List.Nodup
import GeffProofs.Segmentation
namespace Geff.Seg
open Geff.Np

theorem mem_indices : ∀ (shape idx : List Nat), idx ∈ indices shape ↔ inShape idx shape = true
  | [], idx => by cases idx <;> simp [indices, inShape]
  | n :: ns, [] => by simp [indices, inShape]
  | n :: ns, i :: is => by
    simp only [indices, List.mem_flatMap, List.mem_range, List.mem_map, List.cons.injEq, inShape,
      Bool.and_eq_true, decide_eq_true_eq, ← mem_indices ns is]
    constructor
    · rintro ⟨a, ha, b, hb, rfl, rfl⟩; exact ⟨ha, hb⟩
    · rintro ⟨h1, h2⟩; exact ⟨i, h1, is, h2, rfl, rfl⟩

theorem indices_nodup : ∀ (shape : List Nat), (indices shape).Nodup
  | [] => by simp [indices]
  | n :: ns => by
    simp only [indices]
    rw [List.nodup_flatMap]
    constructor
    · intro i _
      exact (indices_nodup ns).map (by intro a b h; simpa using h)
    · apply List.Pairwise.imp _ (List.nodup_range (n := n))
      intro a b hab x hx hy
      simp only [List.mem_map] at hx hy
      obtain ⟨_, _, rfl⟩ := hx
      obtain ⟨_, _, h⟩ := hy
      simp only [List.cons.injEq] at h
      exact hab h.1.symm

theorem indices_length : ∀ (shape : List Nat), (indices shape).length = prod shape
  | [] => by simp [indices, prod]
  | n :: ns => by
    have hp : prod (n :: ns) = n * prod ns := by
      simp only [prod, List.foldl_cons]
      have : ∀ (l : List Nat) (b : Nat), l.foldl (· * ·) b = b * l.foldl (· * ·) 1 := by
        intro l; induction l with
        | nil => simp
        | cons a t ih => intro b; simp only [List.foldl_cons]; rw [ih, ih (1 * a)]; simp [Nat.mul_assoc]
      rw [this]; simp
    simp only [indices, List.length_flatMap, List.length_map, indices_length ns, hp]
    simp

theorem zip_fst_unique {α β : Type} : ∀ (l : List α) (m : List β), l.Nodup → ∀ a b b', (a, b) ∈ l.zip m → (a, b') ∈ l.zip m → b = b'
  | [], _, _, _, _, _, h, _ => by simp at h
  | _ :: _, [], _, _, _, _, h, _ => by simp at h
  | x :: l, y :: m, hnd, a, b, b', h1, h2 => by
    simp only [List.zip_cons_cons, List.mem_cons, Prod.mk.injEq] at h1 h2
    have hx : x ∉ l := (List.nodup_cons.1 hnd).1
    rcases h1 with ⟨rfl, rfl⟩ | h1 <;> rcases h2 with ⟨h2a, rfl⟩ | h2
    · rfl
    · exact absurd (List.of_mem_zip h2).1 hx
    · subst h2a; exact absurd (List.of_mem_zip h1).1 hx
    · exact zip_fst_unique l m (List.nodup_cons.1 hnd).2 a b b' h1 h2

theorem zip_fst_exists {α β : Type} : ∀ (l : List α) (m : List β), l.length ≤ m.length → ∀ a ∈ l, ∃ b, (a, b) ∈ l.zip m
  | [], _, _, _, h => by simp at h
  | _ :: _, [], hl, _, _ => by simp at hl
  | x :: l, y :: m, hl, a, h => by
    rcases List.mem_cons.1 h with rfl | h
    · exact ⟨y, by simp⟩
    · obtain ⟨b, hb⟩ := zip_fst_exists l m (by simpa using hl) a h
      exact ⟨b, by simp [hb]⟩

/-- the volume built from a C-ordered flat label list with `prod shape` entries is well formed -/
theorem Vol.ofFlat_wf (shape : List Nat) (flat : List Int) (h : flat.length = prod shape) :
    (Vol.ofFlat shape flat).WF := by
  constructor
  · intro idx
    simp only [Vol.ofFlat]
    rw [← mem_indices]
    constructor
    · rintro ⟨l, hl⟩; exact (List.of_mem_zip hl).1
    · intro hm; exact zip_fst_exists _ _ (by rw [indices_length, h]; exact Nat.le_refl _) idx hm
  · intro idx l l' h1 h2
    exact zip_fst_unique _ _ (indices_nodup shape) idx l l' h1 h2

end Geff.Seg
