import numpy as np, warnings
warnings.simplefilter("ignore")
try:
    print(np.result_type(*[np.dtype('int64')]*100000))
except Exception as e: print(type(e).__name__, e)
import sys
sys.path[:0]=["/repo/packages/geff/src","/repo/packages/geff-spec/src"]
from geff.core_io._serialization import serialize_vlen_property_data as ser, deserialize_vlen_property_data as de
from geff.core_io._utils import construct_var_len_props as cv, _get_common_type_dims as gc
p = cv([1, 2.5, None])
print(p)
v,m,d = ser(p); print(v, v.shape, m, d, d.dtype)
print(de(v,m,d))
p = cv([])
print(p, ser(p))
v,m,d=ser(p); print(v.shape, de(v,m,d))
for seq in ([[1],[2.5]], [[2.5],[1]], [["abc"],["abcde"]], [["abcde"],["abc"]], [[True],[1]], [[1],[True]],[np.int8(1),np.uint8(2)],[[1],["a"*30]],[[1.5],["a"*40]]):
    try: print(seq, gc(seq))
    except Exception as e: print(seq, type(e).__name__, e)
# 1-D nonempty table
try: de(np.array([1,2],dtype=np.uint64), None, np.arange(5))
except Exception as e: print(type(e).__name__, e)
try: print(de(np.array([[0,3],[3,5]],dtype=np.uint64), None, np.arange(5)))
except Exception as e: print(type(e).__name__, e)
print(de(np.array([[9,0,3],[3,2,1]],dtype=np.uint64), None, np.arange(5)))
