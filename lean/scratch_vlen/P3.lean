import GeffModel.Vlen
namespace Geff.Vlen
open Geff.Np

def Homogeneous (es : List NdArr) : Prop := ∀ a ∈ es, ∀ b ∈ es, a.dtype = b.dtype ∧ a.ndim = b.ndim

theorem checkElems_some_ok (nd : Nat) (dt : Dtype) (es : List NdArr)
    (h : ∀ a ∈ es, a.ndim = nd ∧ a.dtype = dt) :
    checkElems (some (nd, dt)) (es.map .arr) = .ok es := by
  induction es with
  | nil => simp [checkElems]
  | cons e es ih =>
    have he := h e (by simp)
    simp [checkElems, he.1, he.2, ih (fun a ha => h a (by simp [ha]))]

theorem checkElems_some_err (nd : Nat) (dt : Dtype) (es : List PyElem)
    (h : ¬ ∃ l : List NdArr, es = l.map .arr ∧ ∀ a ∈ l, a.ndim = nd ∧ a.dtype = dt) :
    checkElems (some (nd, dt)) es = .valueError := by
  induction es with
  | nil => exact absurd ⟨[], by simp⟩ h
  | cons e es ih =>
    cases e with
    | notArray => simp [checkElems]
    | arr a =>
      simp only [checkElems]
      by_cases h1 : a.ndim = nd
      · by_cases h2 : a.dtype = dt
        · have : ¬ ∃ l : List NdArr, es = l.map .arr ∧ ∀ a ∈ l, a.ndim = nd ∧ a.dtype = dt := by
            rintro ⟨l, rfl, hl⟩
            exact h ⟨a :: l, by simp, by
              intro b hb
              rcases List.mem_cons.1 hb with rfl | hb
              · exact ⟨h1, h2⟩
              · exact hl b hb⟩
          simp [h1, h2, ih this]
        · simp [h1, h2]
      · simp [h1]

theorem homogeneous_cons (e : NdArr) (es : List NdArr) :
    Homogeneous (e :: es) ↔ ∀ a ∈ es, a.ndim = e.ndim ∧ a.dtype = e.dtype := by
  constructor
  · intro h a ha
    have := h a (by simp [ha]) e (by simp)
    exact ⟨this.2, this.1⟩
  · intro h a ha b hb
    have key : ∀ x ∈ e :: es, x.ndim = e.ndim ∧ x.dtype = e.dtype := by
      intro x hx
      rcases List.mem_cons.1 hx with rfl | hx
      · exact ⟨rfl, rfl⟩
      · exact h x hx
    have ha' := key a ha
    have hb' := key b hb
    exact ⟨ha'.2.trans hb'.2.symm, ha'.1.trans hb'.1.symm⟩

/-- the checking loop accepts exactly the homogeneous lists of arrays, and fails with `ValueError`
on everything else -/
theorem checkElems_none (es : List PyElem) :
    (∃ l : List NdArr, es = l.map .arr ∧ Homogeneous l ∧ checkElems none es = .ok l) ∨
    ((¬ ∃ l : List NdArr, es = l.map .arr ∧ Homogeneous l) ∧ checkElems none es = .valueError) := by
  cases es with
  | nil => exact .inl ⟨[], by simp [Homogeneous, checkElems]⟩
  | cons e es =>
    cases e with
    | notArray =>
      refine .inr ⟨?_, by simp [checkElems]⟩
      rintro ⟨l, hl, -⟩
      cases l <;> simp at hl
    | arr a =>
      by_cases h : ∃ l : List NdArr, es = l.map .arr ∧ ∀ x ∈ l, x.ndim = a.ndim ∧ x.dtype = a.dtype
      · obtain ⟨l, rfl, hl⟩ := h
        refine .inl ⟨a :: l, by simp, (homogeneous_cons a l).2 hl, ?_⟩
        simp [checkElems, checkElems_some_ok _ _ l hl]
      · refine .inr ⟨?_, by simp [checkElems, checkElems_some_err _ _ es h]⟩
        rintro ⟨l, hl, hh⟩
        cases l with
        | nil => simp at hl
        | cons b l =>
          simp only [List.map_cons, List.cons.injEq, PyElem.arr.injEq] at hl
          obtain ⟨rfl, rfl⟩ := hl
          exact h ⟨l, rfl, (homogeneous_cons _ l).1 hh⟩

theorem mapM_valNat_natVal (l : List Nat) : (l.map natVal).mapM valNat? = some l := by
  induction l with
  | nil => rfl
  | cons a l ih => simp [List.mapM_cons, natVal, valNat?, ih] at *

theorem parseRows_flat (k : Nat) (rows : List (Nat × List Nat)) (h : ∀ r ∈ rows, r.2.length = k) :
    parseRows (k + 1) rows.length (rows.flatMap (fun row => (row.1 :: row.2).map natVal)) = some rows := by
  induction rows with
  | nil => simp [parseRows]
  | cons r rows ih =>
    have hr := h r (by simp)
    have ih' := ih (fun x hx => h x (by simp [hx]))
    simp only [List.length_cons, parseRows, List.flatMap_cons]
    have hlen : ((r.1 :: r.2).map natVal).length = k + 1 := by simp [hr]
    rw [List.take_left' hlen, List.drop_left' hlen, mapM_valNat_natVal, ih']

end Geff.Vlen
