#!/bin/bash
# usage: mut.sh PROP FILE 'python-replace-old' 'new'
PROP=$1; FILE=$2; OLD=$3; NEW=$4
cd /tmp/wt-vlen
python3 - "$FILE" "$OLD" "$NEW" <<'PY'
import sys
p,old,new=sys.argv[1:4]
s=open(p).read()
assert old in s, "pattern not found"
s=s.replace(old,new,1)
open(p,'w').write(s)
PY
[ $? -ne 0 ] && { echo "PATTERN NOT FOUND"; exit; }
cd /verif
out=$(GEFF_REPO=/tmp/wt-vlen ./check $PROP 2>&1)
echo "exit=$? :: $(echo "$out" | grep -c VIOLATION) violation lines"
echo "$out" | grep -E "failing input|no longer checks" | sort | uniq -c | head -6
cd /tmp/wt-vlen && git checkout -q -- $FILE
rm -f /verif/replays/$PROP-*.json
