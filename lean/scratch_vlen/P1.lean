import GeffModel.Vlen
namespace Geff.Vlen
open Geff.Np

def Homogeneous (es : List NdArr) : Prop := ∀ a ∈ es, ∀ b ∈ es, a.dtype = b.dtype ∧ a.ndim = b.ndim

theorem encodeAux_rows_length (off : Nat) (es : List NdArr) : (encodeAux off es).1.length = es.length := by
  induction es generalizing off with
  | nil => simp [encodeAux]
  | cons e es ih => simp [encodeAux, ih]

theorem encodeAux_data_length (off : Nat) (es : List NdArr) (h : ∀ e ∈ es, e.WF) :
    (encodeAux off es).2.length = (es.map (fun e => prod e.shape)).sum := by
  induction es generalizing off with
  | nil => simp [encodeAux]
  | cons e es ih =>
    have he : e.WF := h e (by simp)
    have := ih (off + prod e.shape) (fun x hx => h x (by simp [hx]))
    unfold NdArr.WF at he
    simp [encodeAux, this, he]

/-- generalised round trip: decoding against `pre ++ data ++ post` where `pre.length = off` -/
theorem decodeRows_encodeAux (dt : Dtype) (pre : List Val) (es : List NdArr) (h : ∀ e ∈ es, e.WF)
    (hd : ∀ e ∈ es, e.dtype = dt) (post : List Val) :
    decodeRows dt (pre ++ (encodeAux pre.length es).2 ++ post) (encodeAux pre.length es).1 = .ok es := by
  induction es generalizing pre with
  | nil => simp [encodeAux, decodeRows]
  | cons e es ih =>
    have he : e.WF := h e (by simp)
    have hde : e.dtype = dt := hd e (by simp)
    have ih' := ih (pre ++ e.flat) (fun x hx => h x (by simp [hx])) (fun x hx => hd x (by simp [hx]))
    unfold NdArr.WF at he
    simp only [List.length_append, he] at ih'
    simp only [encodeAux, decodeRows]
    have hrow : decodeRow dt (pre ++ (e.flat ++ (encodeAux (pre.length + prod e.shape) es).2) ++ post)
        (pre.length, e.shape) = .ok e := by
      simp only [decodeRow]
      have : (List.take (prod e.shape) (List.drop pre.length (pre ++ (e.flat ++ (encodeAux (pre.length + prod e.shape) es).2) ++ post))) = e.flat := by
        simp [List.drop_append, ← he, List.take_append]
      rw [this]
      simp [he, ← hde]
    rw [hrow]
    have : pre ++ (e.flat ++ (encodeAux (pre.length + prod e.shape) es).2) ++ post =
        pre ++ e.flat ++ (encodeAux (pre.length + prod e.shape) es).2 ++ post := by simp [List.append_assoc]
    rw [this, ih']

end Geff.Vlen
