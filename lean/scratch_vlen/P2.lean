import GeffModel.Vlen
namespace Geff.Vlen
open Geff.Np

theorem encodeAux_rows_length (off : Nat) (es : List NdArr) : (encodeAux off es).1.length = es.length := by
  induction es generalizing off with
  | nil => simp [encodeAux]
  | cons e es ih => simp [encodeAux, ih]

def sizes (es : List NdArr) : List Nat := es.map (fun e => prod e.shape)

theorem encodeAux_data_length (off : Nat) (es : List NdArr) (h : ∀ e ∈ es, e.WF) :
    (encodeAux off es).2.length = (sizes es).sum := by
  induction es generalizing off with
  | nil => simp [encodeAux, sizes]
  | cons e es ih =>
    have he : e.WF := h e (by simp)
    have := ih (off + prod e.shape) (fun x hx => h x (by simp [hx]))
    unfold NdArr.WF at he
    simp [encodeAux, this, he, sizes] at *

/-- row `i` is `(off + Σ_{j<i} size j, shape i)` -/
theorem encodeAux_row (off : Nat) (es : List NdArr) (i : Nat) (hi : i < es.length) :
    (encodeAux off es).1[i]'(by rw [encodeAux_rows_length]; exact hi) =
      (off + (sizes (es.take i)).sum, es[i].shape) := by
  induction es generalizing off i with
  | nil => simp at hi
  | cons e es ih =>
    cases i with
    | zero => simp [encodeAux, sizes]
    | succ i =>
      simp only [encodeAux, List.getElem_cons_succ, List.take_succ_cons]
      rw [ih _ _ (by simpa using hi)]
      simp [sizes]; omega

theorem sizes_take_le (es : List NdArr) (i : Nat) (hi : i < es.length) :
    (sizes (es.take i)).sum + prod es[i].shape ≤ (sizes es).sum := by
  induction es generalizing i with
  | nil => simp at hi
  | cons e es ih =>
    cases i with
    | zero => simp [sizes]
    | succ i =>
      have := ih i (by simpa using hi)
      simp [sizes] at *
      omega
end Geff.Vlen
