import sys, warnings
warnings.simplefilter("ignore")
sys.path[:0]=["/tmp/wt-vlen/packages/geff/src","/tmp/wt-vlen/packages/geff-spec/src"]
import numpy as np, zarr
from geff.core_io import write_arrays, construct_var_len_props
from geff.core_io._base_read import GeffReader
import geff_spec
for fmt in (2,3):
  for seq in ([[1,2,3],[4.5],None,[[1,2],[3,4]]], [np.float16(1.5), None], [["ab"],["abcd","c"]], [[True],[False,True]]):
    store = zarr.storage.MemoryStore()
    prop = construct_var_len_props(seq)
    n=len(seq)
    md = geff_spec.GeffMetadata(geff_version="1.0.0", directed=True, node_props_metadata={}, edge_props_metadata={})
    try:
        write_arrays(store, np.arange(n,dtype=np.int64), {"v":prop}, np.zeros((0,2),dtype=np.int64), None, md, zarr_format=fmt)
        g = zarr.open_group(store, mode="r")
        print(fmt, dict(g["nodes/props/v"].arrays()).keys(), g["nodes/props/v/values"][...].tolist(), g["nodes/props/v/data"][...], g["nodes/props/v/data"].dtype)
        r = GeffReader(store); r.read_node_props()
        m = r.build()
        print(m["node_props"]["v"], m["metadata"].node_props_metadata["v"])
    except Exception as e:
        import traceback; traceback.print_exc()
