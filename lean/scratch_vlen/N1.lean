import GeffProofs.Vlen
import GeffProofs.NpCast
namespace Geff.Vlen
open Geff.Np

theorem dtypes_perm {xs ys : List Item} (p : xs.Perm ys) : (Item.dtypes xs).Perm (Item.dtypes ys) := by
  induction p with
  | nil => exact .nil
  | cons x _ ih => cases x <;> simp [Item.dtypes, ih]
  | swap x y l => cases x <;> cases y <;> simp [Item.dtypes, List.Perm.swap]
  | trans _ _ ih1 ih2 => exact ih1.trans ih2

theorem ranks_perm {xs ys : List Item} (p : xs.Perm ys) : (Item.ranks xs).Perm (Item.ranks ys) := by
  induction p with
  | nil => exact .nil
  | cons x _ ih => cases x <;> simp [Item.ranks, ih]
  | swap x y l => cases x <;> cases y <;> simp [Item.ranks, List.Perm.swap]
  | trans _ _ ih1 ih2 => exact ih1.trans ih2

theorem maxRank_perm {rs rs' : List Nat} (p : rs.Perm rs') : maxRank rs = maxRank rs' :=
  Dtype.foldl_perm _ (fun b x y => by omega) p _

theorem getCommonTypeDims_perm {xs ys : List Item} (p : xs.Perm ys) :
    getCommonTypeDims xs = getCommonTypeDims ys := by
  unfold getCommonTypeDims
  have h1 : xs.contains .inhomogeneous = ys.contains .inhomogeneous := by
    rw [Bool.eq_iff_iff]; simp [p.mem_iff]
  have h2 := dtypes_perm p
  have h3 : (Item.dtypes xs).isEmpty = (Item.dtypes ys).isEmpty := by
    have hl := h2.length_eq
    cases hx : Item.dtypes xs <;> cases hy : Item.dtypes ys <;> simp_all
  rw [h1, h3, Dtype.resultType_perm h2, maxRank_perm (ranks_perm p)]

theorem normAll_perm (dt : Dtype) (nd : Nat) {xs ys : List Item} (p : xs.Perm ys) :
    ∀ l, normAll dt nd xs = some l → ∃ l', normAll dt nd ys = some l' ∧ (xs.zip l).Perm (ys.zip l') := by
  induction p with
  | nil => intro l h; exact ⟨[], by simp [normAll], by simp⟩
  | @cons x t t' _ ih =>
    intro l h
    simp only [normAll] at h
    cases hx : normItem dt nd x with
    | none => simp [hx] at h
    | some y =>
      cases ht : normAll dt nd t with
      | none => simp [hx, ht] at h
      | some l0 =>
        simp [hx, ht] at h
        subst h
        obtain ⟨l0', h1, h2⟩ := ih l0 ht
        exact ⟨y :: l0', by simp [normAll, hx, h1], by simpa using h2⟩
  | swap x y t =>
    intro l h
    simp only [normAll] at h
    cases hx : normItem dt nd x <;> cases hy : normItem dt nd y <;> cases ht : normAll dt nd t <;>
      simp [hx, hy, ht] at h
    subst h
    rename_i a b l0
    exact ⟨a :: b :: l0, by simp [normAll, hx, hy, ht], by simpa using List.Perm.swap _ _ _⟩
  | trans _ _ ih1 ih2 =>
    intro l h
    obtain ⟨l1, h1, p1⟩ := ih1 l h
    obtain ⟨l2, h2, p2⟩ := ih2 l1 h1
    exact ⟨l2, h2, p1.trans p2⟩

theorem normAll_none_perm (dt : Dtype) (nd : Nat) {xs ys : List Item} (p : xs.Perm ys)
    (h : normAll dt nd xs = none) : normAll dt nd ys = none := by
  cases hy : normAll dt nd ys with
  | none => rfl
  | some l =>
    obtain ⟨l', h', _⟩ := normAll_perm dt nd p.symm l hy
    rw [h] at h'; cases h'

theorem zip_map_fst_snd {α β : Type} (l : List (α × β)) : (l.map (·.1)).zip (l.map (·.2)) = l := by
  induction l with
  | nil => rfl
  | cons a l ih => simp [ih]

end Geff.Vlen
