import GeffProofs.Segmentation
namespace Geff.Seg
open Geff.Np

/-- the last message of `has_seg_ids_at_time_points` names the *first* out-of-range time point;
everything before it is a "missing label" message -/
theorem timeLoop_first_bad (v : Vol) (ti : Nat) (pairs : List (Int × Int)) (rest : List Int)
    (errs : List Msg) (am : Bool) (hbad : ∃ t ∈ rest, ¬ TimeIn v ti t) :
    ∃ j, ∃ hj : j < rest.length, ¬ TimeIn v ti rest[j] ∧
      (∀ i (hi : i < rest.length), i < j → TimeIn v ti rest[i]) ∧
      ∃ mid, timeLoop v ti pairs rest errs am = .ok ⟨false, errs ++ mid ++ [Msg.timeOutOfBounds rest[j]]⟩ ∧
        ∀ m ∈ mid, ∃ id t, m = Msg.missingLabel id t := by
  induction rest generalizing errs am with
  | nil => obtain ⟨t, ht, -⟩ := hbad; simp at ht
  | cons t rest ih =>
    by_cases hin : TimeIn v ti t
    · have hbad' : ∃ t ∈ rest, ¬ TimeIn v ti t := by
        obtain ⟨q, hq, hnq⟩ := hbad
        rcases List.mem_cons.1 hq with rfl | hq
        · exact absurd hin hnq
        · exact ⟨q, hq, hnq⟩
      obtain ⟨n, hn, h0, h1⟩ := hin
      obtain ⟨labels, hl, -⟩ := npTakeLabels_inrange hn h0 h1
      obtain ⟨j, hj, hnj, hbefore, mid, hres, hmid⟩ := ih
        (errs ++ ((groupAt pairs t).filter (fun id => !labels.contains id)).map (fun id => Msg.missingLabel id t))
        (am || !((groupAt pairs t).filter (fun id => !labels.contains id)).isEmpty) hbad'
      refine ⟨j + 1, by simpa using hj, by simpa using hnj, ?_,
        ((groupAt pairs t).filter (fun id => !labels.contains id)).map (fun id => Msg.missingLabel id t) ++ mid,
        ?_, ?_⟩
      · intro i hi hij
        cases i with
        | zero => exact ⟨n, hn, h0, h1⟩
        | succ i => simpa using hbefore i (by simpa using hi) (by omega)
      · simp only [timeLoop, hn, h0, h1, and_self, not_true_eq_false, ↓reduceIte, hl, hres,
          List.getElem_cons_succ, List.append_assoc]
      · intro m hm
        rcases List.mem_append.1 hm with hm | hm
        · obtain ⟨id, -, rfl⟩ := List.mem_map.1 hm
          exact ⟨id, t, rfl⟩
        · exact hmid m hm
    · refine ⟨0, by simp, by simpa using hin, by intro i _ hi; omega, [], ?_, by simp⟩
      simp only [timeLoop, List.getElem_cons_zero, List.append_nil]
      cases hn : v.shape[ti]? with
      | none => rfl
      | some n =>
        have : ¬ (0 ≤ t ∧ t < (n : Int)) := fun h => hin ⟨n, hn, h.1, h.2⟩
        simp only [this, not_false_eq_true, ↓reduceIte]

end Geff.Seg
