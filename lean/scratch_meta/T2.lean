import GeffModel.SchemaSpec
import Gen.SchemaPublished
import Gen.SchemaExported
open Geff.Meta Geff.Meta.Schema

theorem published_parses_to_spec : parseRoot parseFuel Gen.SchemaPublished.doc = some Spec.doc := by rfl
theorem exported_parses_to_spec : parseRoot parseFuel Gen.SchemaExported.doc = some Spec.doc := by rfl
