import GeffModel.Meta
set_option autoImplicit false
open Geff.Meta
set_option maxHeartbeats 50000
example (a b c d : J) : (["display_horizontal", "display_vertical"].all (fun k => (lookup [("display_horizontal", a), ("display_vertical", b), ("display_depth", c), ("display_time", d)] k).isSome)) = true := by
  simp only [lookup, String.reduceBEq, Bool.false_eq_true, ↓reduceIte, List.all_cons, List.all_nil, Option.isSome]
  trace_state
example (a b c d : J) : lookup [("display_horizontal", a), ("display_vertical", b), ("display_depth", c), ("display_time", d)] "display_time" = some d := by
  simp only [lookup, String.reduceBEq, Bool.false_eq_true, ↓reduceIte]
example (a b c d : J) : lookup [("display_horizontal", a), ("display_vertical", b), ("display_depth", c), ("display_time", d)] "display_time" = some d := by
  simp only [lookup]
  trace_state
  sorry
