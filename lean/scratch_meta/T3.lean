import GeffModel.SchemaSpec
import Gen.SchemaPublished
open Geff.Meta Geff.Meta.Schema
theorem bad1 : parseRoot parseFuel Gen.SchemaPublished.doc = some { Spec.doc with defs := [] } := by rfl
theorem bad2 : parseRoot parseFuel Gen.SchemaPublished.doc = none := by rfl
