set_option autoImplicit false
def lookup' {α : Type} (kvs : List (String × α)) (k : String) : Option α :=
  match kvs with
  | [] => none
  | (k', v) :: rest => if k' == k then some v else lookup' rest k
example (a b : Nat) : lookup' [("display_horizontal", a), ("display_vertical", b)] "display_vertical" = some b := by
  simp only [lookup', String.reduceBEq, ↓reduceIte, Bool.false_eq_true]
example (a b : Nat) : lookup' [("display_horizontal", a), ("display_depth", a), ("display_time", a),("display_vertical", b)] "display_vertical" = some b := by
  simp [lookup']
