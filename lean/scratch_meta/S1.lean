import GeffProofs.Meta
import GeffModel.SchemaSpec
set_option autoImplicit false
namespace Geff.Meta.Schema
open Geff.Meta
variable (mp : String → String → Bool) (defs : List (String × Sch))

theorem t1 (n : Nat) (h : DisplayHint) (rec_ : Sch → J → Bool):
    objOk rec_ ["display_horizontal", "display_vertical"] [("display_depth", Spec.optString), ("display_horizontal", Spec.str), ("display_time", Spec.optString),
                    ("display_vertical", Spec.str)] none none (dumpHint h) = true := by
  simp only [dumpHint, objOk, lookup, String.reduceBEq, Bool.false_eq_true, ↓reduceIte, List.all_cons, List.all_nil, Option.isSome]
  trace_state
  sorry
theorem t2 (n : Nat) (h : DisplayHint) :
    validates mp defs (n + 3) Spec.displayHint (dumpHint h) = true := by
  simp only [Spec.displayHint, Spec.S, dumpHint, validates, refOk, scalarOk, typeOk, anyOfOk, itemsOk]
  trace_state
  sorry
end Geff.Meta.Schema
