inductive F where
  | fin (num : Int) (k : Nat) | nzero | pinf | ninf | nan
deriving DecidableEq, Repr, Inhabited

inductive J where
  | null | bool (b : Bool) | int (i : Int) | flt (f : F) | str (s : String)
  | arr (xs : List J) | obj (kvs : List (String × J))
deriving DecidableEq, Repr, Inhabited

example : J.arr [J.int 1, J.obj [("a", J.null)]] = J.arr [J.int 1, J.obj [("a", J.null)]] := by decide
#eval decide (J.arr [J.int 1] = J.arr [J.int 2])
