import GeffModel.Meta
set_option autoImplicit false
open Geff.Meta
example (a b : J) : lookup [("display_horizontal", a), ("display_vertical", b)] "display_vertical" = some b := by
  simp only [lookup, String.reduceEq, ↓reduceIte]
example (a b : J) : lookup [("display_horizontal", a), ("display_vertical", b)] "display_vertical" = some b := by
  simp only [lookup]
  trace_state
  simp only [String.reduceEq, ↓reduceIte]
