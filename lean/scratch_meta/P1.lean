import GeffModel.MetaOps
set_option autoImplicit false
namespace Geff.Meta

theorem Axis.validateModel_ok {a0 a : Axis} (h : a0.validateModel = .ok a) :
    a = a0 ∧ a0.min.isSome = a0.max.isSome ∧
    (∀ lo ∈ a0.min, ∀ hi ∈ a0.max, ordCode lo hi = true) ∧
    (∀ u ∈ a0.scaled_unit, u ≠ "" → a0.scale.isSome = true) := by
  obtain ⟨name, type, unit, min, max, scale, su, offset⟩ := a0
  unfold Axis.validateModel at h
  cases min <;> cases max <;> cases su <;> cases scale <;>
    simp_all [truthy, ordCode] <;> (try split at h) <;> simp_all <;> (try split at h) <;> simp_all
  all_goals (subst_vars; simp_all)

end Geff.Meta
