import GeffProofs.KVWrite
namespace Geff.KV
open Gen.Paths Prog

/-! ### staged traces -/

/-- when the program succeeds its trace is `a ++ o :: r` with `a` satisfying `S` and `r` satisfying `R` -/
def Staged {α} (S R : Op → Bool) (o : Op) (Pre : KV → Prop) (p : Prog α) : Prop :=
  ∀ s, Pre s → ∀ u, (p s).val = .ok u →
    ∃ a r, (p s).ops = a ++ o :: r ∧ (∀ x ∈ a, S x = true) ∧ (∀ x ∈ r, R x = true)

theorem Staged.bind_right {α β} {S R : Op → Bool} {o : Op} {Pre : KV → Prop} {p : Prog α}
    {f : α → Prog β} (hp : Staged S R o Pre p) (hf : ∀ a, All R (f a)) :
    Staged S R o Pre (p >>= f) := by
  intro s hs u hu
  change (Prog.bind p f s).val = .ok u at hu
  change ∃ a r, (Prog.bind p f s).ops = _ ∧ _
  rw [val_bind] at hu
  rw [ops_bind]
  cases hv : (p s).val with
  | error e => rw [hv] at hu; simp at hu
  | ok x =>
    obtain ⟨a, r, h1, h2, h3⟩ := hp s hs x hv
    refine ⟨a, r ++ (f x (run s (p s).ops)).ops, by simp [h1], h2, ?_⟩
    intro y hy
    rcases List.mem_append.1 hy with hy | hy
    · exact h3 y hy
    · exact hf x _ y hy

theorem Staged.bind_left {α β} {S R : Op → Bool} {o : Op} {Pre Pre' : KV → Prop} {p : Prog α}
    {f : α → Prog β} (hp : All S p) (hpre : ∀ s, Pre s → Pre' (run s (p s).ops))
    (hf : ∀ a, Staged S R o Pre' (f a)) : Staged S R o Pre (p >>= f) := by
  intro s hs u hu
  change (Prog.bind p f s).val = .ok u at hu
  change ∃ a r, (Prog.bind p f s).ops = _ ∧ _
  rw [val_bind] at hu
  rw [ops_bind]
  cases hv : (p s).val with
  | error e => rw [hv] at hu; simp at hu
  | ok x =>
    rw [hv] at hu
    obtain ⟨a, r, h1, h2, h3⟩ := hf x _ (hpre s hs) u hu
    refine ⟨(p s).ops ++ a, r, by simp [h1], ?_, h3⟩
    intro y hy
    rcases List.mem_append.1 hy with hy | hy
    · exact hp s y hy
    · exact h2 y hy

/-- what a program establishes when it succeeds -/
def Ensures {α} (K : KV → Prop) (p : Prog α) : Prop :=
  ∀ s u, (p s).val = .ok u → K (run s (p s).ops)

theorem Ensures.bind_right {α β} {K : KV → Prop} {A : Op → Bool} {p : Prog α} {f : α → Prog β}
    (hp : Ensures K p) (hf : ∀ a, All A (f a)) (hstep : ∀ s op, K s → A op = true → K (step s op)) :
    Ensures K (p >>= f) := by
  intro s u hu
  change (Prog.bind p f s).val = .ok u at hu
  change K (run s (Prog.bind p f s).ops)
  rw [val_bind] at hu
  rw [ops_bind]
  cases hv : (p s).val with
  | error e => rw [hv] at hu; simp at hu
  | ok x =>
    simp only [run_append]
    have h0 := hp s x hv
    exact (Crash.of_inv (I := K) (A := A) hstep _ _ h0 (hf x _)).final

end Geff.KV

namespace Geff.KV
open Gen.Paths Prog

theorem has_step_keeps {s : KV} {K : Key} {op : Op} (h : has s K = true)
    (ho : keepsKey (some K) op = true) : has (step s op) K = true := by
  unfold has at h ⊢
  rw [get_step]
  cases op with
  | set k b => by_cases hk : K = k <;> simp [hk]; simpa [hk] using h
  | setnx k b =>
    by_cases hk : K = k
    · subst hk; simp [has, h]
    · simpa [hk] using h
  | del k =>
    have : K ≠ k := by intro hh; subst hh; simp [keepsKey] at ho
    simpa [this] using h
  | delPrefix p =>
    have : under p K = false := by simpa [keepsKey] using ho
    simpa [this] using h
  | clear => simp [keepsKey] at ho

theorem dataOp_keepsRoot (f : Fmt) (prot : Option Key) (l : Leaf) (op : Op)
    (h : dataOp f prot op = true) : keepsKey (some ⟨[], l⟩) op = true := by
  cases op with
  | set k b => rfl
  | setnx k b => rfl
  | del k =>
    simp only [dataOp, Bool.and_eq_true, decide_eq_true_eq] at h
    have : k.path ≠ [] := by intro hh; have := h.1.2; rw [hh] at this; simp at this
    simp only [keepsKey, ne_eq, decide_eq_true_eq, Option.some.injEq]
    intro hh; apply this; rw [← hh]
  | delPrefix p =>
    simp only [dataOp, Bool.and_eq_true, decide_eq_true_eq] at h
    have hp : p ≠ [] := by intro hh; have := h.1.2; rw [hh] at this; simp at this
    cases p with
    | nil => exact absurd rfl hp
    | cons x xs => simp [keepsKey, under, List.isPrefixOf]
  | clear => simp [dataOp] at h

theorem dataOp_keeps (f : Fmt) (k1 : Key) (op : Op) (h : dataOp f (some k1) op = true) :
    keepsKey (some k1) op = true := by
  simp only [dataOp, Bool.and_eq_true] at h; exact h.2

theorem metadataWrite_sets (d : Docs) (geff : String) (prot : Option Key) :
    All (keepsKey prot) (metadataWrite d geff) := by
  unfold metadataWrite
  apply All.bind All.look; intro kv
  have : ∀ f doc, ∀ op ∈ rootMetaOps d f doc, keepsKey prot op = true := by
    intro f doc op hop
    cases f <;> simp [rootMetaOps] at hop
    · rcases hop with rfl | rfl <;> rfl
    · subst hop; rfl
  split
  · exact All.emit (this _ _)
  · exact All.emit (this _ _)

theorem Ensures.setup (d : Docs) (f : Fmt) : Ensures (fun s => has s (groupKey f []) = true) (setupZarrGroup d f) := by
  intro s u _
  unfold setupZarrGroup
  simp only [bind_def, ops_bind, ops_look, val_look, run_nil, List.nil_append]
  by_cases h : has s (groupKey f []) = true
  · simp [h, run_nil]
  · simp only [h]
    cases f <;> simp [groupDocs, run_cons, run_nil, step, groupKey, has, get_put_same, get_put_ne]

/-- **H1**: a completed body leaves the root group of format `f` in place -/
theorem writeBody_root (d : Docs) (kind : Kind) (f : Fmt) (g : G) :
    Ensures (fun s => has s (groupKey f []) = true) (writeBody d kind f g) := by
  have hstep : ∀ s op, has s (groupKey f []) = true → keepsKey (some (groupKey f [])) op = true →
      has (step s op) (groupKey f []) = true := fun s op h ho => has_step_keeps h ho
  have hk : ∀ prot op, dataOp f prot op = true → keepsKey (some (groupKey f [])) op = true := by
    intro prot op h; cases f <;> exact dataOp_keepsRoot _ prot _ op h
  unfold writeBody
  refine Ensures.bind_right ?_ (fun _ => metadataWrite_sets d g.geff _) hstep
  unfold writeData
  refine Ensures.bind_right ?_ (fun _ => All.bind
      ((All.writeOptProps_dataOp d kind f (prot := none) (Or.inl rfl) (Or.inl rfl) _).mono (hk none))
      (fun _ => (All.writeOptProps_dataOp d kind f (prot := none) (Or.inl rfl) (Or.inr rfl) _).mono (hk none))) hstep
  unfold writeIdArrays
  split
  · intro s u hu; simp at hu
  · refine Ensures.bind_right (Ensures.setup d f) (fun _ => All.bind
      ((All.createArray_dataOp d kind f pathOk_nodeIds _).mono (hk none))
      (fun _ => (All.createArray_dataOp d kind f (pathOk_edgeIds (Or.inl rfl)) _).mono (hk none))) hstep

end Geff.KV

namespace Geff.KV
open Gen.Paths Prog

theorem under_nodes_of_ids {k : Key} (h : under [NODES, IDS] k = true) : under [NODES] k = true := by
  obtain ⟨t, ht⟩ := under_prefix h
  simp [under, ← ht, List.isPrefixOf]

theorem deleteDir_noop_of_noneUnder (kind : Kind) (s : KV) (h : NoneUnder [NODES] s) :
    (deleteDir kind [NODES, IDS] s).ops = [] := by
  have hk : keysUnder [NODES, IDS] s = [] := by
    apply List.eq_nil_iff_forall_not_mem.2
    intro k hk
    obtain ⟨hu, b, hb⟩ := mem_keysUnder.1 hk
    have : k ∈ keysUnder [NODES] s := mem_keysUnder.2 ⟨under_nodes_of_ids hu, b, hb⟩
    rw [h] at this; simp at this
  cases kind with
  | mem => rw [deleteDir_mem_ops, hk]; rfl
  | loc =>
    simp only [deleteDir, bind_def, ops_bind, ops_look, val_look, run_nil, List.nil_append]
    have : (s.any fun e => under [NODES, IDS] e.1) = false := by
      apply Bool.eq_false_iff.2
      intro ha
      obtain ⟨e, he, hu⟩ := List.any_eq_true.1 ha
      have : e.1 ∈ keysUnder [NODES, IDS] s := mem_keysUnder.2 ⟨hu, e.2, he⟩
      rw [hk] at this; simp at this
    simp [this]
  | path =>
    simp only [deleteDir, bind_def, ops_bind, ops_look, val_look, run_nil, List.nil_append]
    have : (s.any fun e => under [NODES, IDS] e.1) = false := by
      apply Bool.eq_false_iff.2
      intro ha
      obtain ⟨e, he, hu⟩ := List.any_eq_true.1 ha
      have : e.1 ∈ keysUnder [NODES, IDS] s := mem_keysUnder.2 ⟨hu, e.2, he⟩
      rw [hk] at this; simp at this
    simp [this]

theorem ancestorsNx_keeps (d : Docs) (f : Fmt) (p : List String) (prot : Option Key) :
    ∀ x ∈ ancestorsNx d f p, keepsKey prot x = true := by
  intro x hx
  simp only [ancestorsNx, List.mem_flatMap, List.mem_map] at hx
  obtain ⟨_, _, e, _, rfl⟩ := hx
  rfl

theorem createArray_ok (d : Docs) (kind : Kind) (f : Fmt) (p : List String) (a : Arr) (s : KV)
    (hw : a.writable = true) :
    (createArray d kind f p a s).ops =
      (deleteDir kind p s).ops ++ (arrayMetaOps d f p a ++ (ancestorsNx d f p ++ chunkOps p a)) ∧
    (createArray d kind f p a s).val = .ok () := by
  unfold createArray
  simp [hw, bind_def, ops_bind, val_bind, deleteDir_val]

theorem createArray_err (d : Docs) (kind : Kind) (f : Fmt) (p : List String) (a : Arr) (s : KV)
    (hw : a.writable = false) :
    (createArray d kind f p a s).ops = [] ∧ ∃ e, (createArray d kind f p a s).val = .error e := by
  unfold createArray
  simp [hw]

/-- the trace of creating `nodes/ids` in a store with nothing below `nodes/` -/
theorem Staged.nodeIds (d : Docs) (kind : Kind) (f : Fmt) (a : Arr) :
    Staged (notInto [NODES]) (keepsKey (some (arrayKey f [NODES, IDS])))
      (.set (arrayKey f [NODES, IDS]) (.raw a.mdoc)) (NoneUnder [NODES])
      (createArray d kind f [NODES, IDS] a) := by
  intro s hs u hu
  cases hw : a.writable with
  | false =>
    obtain ⟨_, e, he⟩ := createArray_err d kind f [NODES, IDS] a s hw
    rw [he] at hu; simp at hu
  | true =>
    obtain ⟨hops, _⟩ := createArray_ok d kind f [NODES, IDS] a s hw
    rw [hops, deleteDir_noop_of_noneUnder kind s hs, List.nil_append]
    have hch : ∀ x ∈ chunkOps [NODES, IDS] a,
        keepsKey (some (arrayKey f [NODES, IDS])) x = true := by
      intro x hx
      simp only [chunkOps, List.mem_map] at hx
      obtain ⟨c, _, rfl⟩ := hx
      cases c.2 with
      | some b => rfl
      | none => cases f <;> simp [keepsKey, arrayKey]
    cases f with
    | v2 =>
      refine ⟨[], Op.set ⟨[NODES, IDS], .zattrs⟩ (.raw d.zattrs) ::
        (ancestorsNx d .v2 [NODES, IDS] ++ chunkOps [NODES, IDS] a), rfl, by simp, ?_⟩
      intro x hx
      simp only [List.mem_cons, List.mem_append] at hx
      rcases hx with rfl | hx | hx
      · rfl
      · exact ancestorsNx_keeps d _ _ _ x hx
      · exact hch x hx
    | v3 =>
      refine ⟨[], ancestorsNx d .v3 [NODES, IDS] ++ chunkOps [NODES, IDS] a, rfl, by simp, ?_⟩
      intro x hx
      simp only [List.mem_append] at hx
      rcases hx with hx | hx
      · exact ancestorsNx_keeps d _ _ _ x hx
      · exact hch x hx

theorem All.setup_notInto (d : Docs) (f : Fmt) (p : List String) (hp : p ≠ []) :
    All (notInto p) (setupZarrGroup d f) := by
  unfold setupZarrGroup
  apply All.bind All.look; intro kv
  split
  · exact All.pure ()
  · apply All.emit
    intro op hop
    simp only [List.mem_map] at hop
    obtain ⟨e, he, rfl⟩ := hop
    rcases groupDocs_spec d f [] e he with ⟨_, h2, _, _⟩ | ⟨h1, _, _⟩
    · cases p with
      | nil => exact absurd rfl hp
      | cons x xs => simp [notInto, under, h2, List.isPrefixOf]
    · exact absurd rfl h1

/-- the trace of a completed body started with nothing below `nodes/` -/
theorem Staged.writeBody (d : Docs) (kind : Kind) (f : Fmt) (g : G) :
    Staged (notInto [NODES]) (keepsKey (some (arrayKey f [NODES, IDS])))
      (.set (arrayKey f [NODES, IDS]) (.raw g.nodeIds.mdoc)) (NoneUnder [NODES])
      (writeBody d kind f g) := by
  have hprot : ProtOk (some (arrayKey f [NODES, IDS])) := by
    right; cases f <;> exact ⟨_, rfl⟩
  unfold Geff.KV.writeBody
  refine Staged.bind_right ?_ (fun _ => metadataWrite_sets d g.geff _)
  unfold writeData
  refine Staged.bind_right ?_ (fun _ => All.bind
      ((All.writeOptProps_dataOp d kind f hprot (Or.inl rfl) _).mono (dataOp_keeps f _))
      (fun _ => (All.writeOptProps_dataOp d kind f hprot (Or.inr rfl) _).mono (dataOp_keeps f _)))
  unfold writeIdArrays
  split
  · intro s _ u hu; simp at hu
  · refine Staged.bind_left (Pre' := NoneUnder [NODES]) (All.setup_notInto d f [NODES] (by simp))
      (fun s hs => noneUnder_run _ s hs (All.setup_notInto d f [NODES] (by simp) s)) (fun _ => ?_)
    exact Staged.bind_right (Staged.nodeIds d kind f g.nodeIds)
      (fun _ => (All.createArray_dataOp d kind f (pathOk_edgeIds hprot) _).mono (dataOp_keeps f _))

/-- **H2**: the store a completed body leaves behind is `DeleteSafe`: the first key of `nodes/` is
the metadata document of `nodes/ids` -/
theorem writeBody_deleteSafe (d : Docs) (kind : Kind) (f : Fmt) (g : G) (s : KV)
    (hs : NoneUnder [NODES] s) (u : Unit) (hu : (writeBody d kind f g s).val = .ok u) :
    DeleteSafe f (run s (writeBody d kind f g s).ops) := by
  obtain ⟨a, r, h1, h2, h3⟩ := Staged.writeBody d kind f g s hs u hu
  have hk : under [NODES] (arrayKey f [NODES, IDS]) = true := by cases f <;> simp [under, arrayKey, List.isPrefixOf]
  have := first_of_staged (b := .raw g.nodeIds.mdoc) hs hk h2 h3
  rw [← h1] at this
  intro k hk'
  rw [this] at hk'
  right
  exact (Option.some.inj hk').symm

end Geff.KV
