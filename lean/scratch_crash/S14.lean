import GeffProofs.KVConcurrent
namespace Geff.KV
open Gen.Paths Prog

/-! ### the geff-owned part of the store evolves on its own -/

/-- the mutation touches only geff-owned keys, or only the root group's documents -/
def classified : Op → Bool
  | .set k _ => owned k || k.path.isEmpty
  | .setnx k _ => owned k || k.path.isEmpty
  | .del k => owned k
  | .delPrefix p => geffTop p
  | .clear => false

/-- the effect of a classified mutation on the owned part -/
def stepO (o : KV) : Op → KV
  | .set k b => if owned k then put o k b else o
  | .setnx k b => if owned k then (if has o k then o else put o k b) else o
  | .del k => erase o k
  | .delPrefix p => o.filter (fun e => !under p e.1)
  | .clear => []

def runO (o : KV) (ops : List Op) : KV := ops.foldl stepO o

theorem filter_put_yes (q : Key → Bool) (s : KV) (k : Key) (b : Blob) (h : q k = true) :
    (put s k b).filter (fun e => q e.1) = put (s.filter (fun e => q e.1)) k b := by
  induction s with
  | nil => simp [put, h]
  | cons e r ih =>
    obtain ⟨k₀, b₀⟩ := e
    by_cases h0 : k₀ = k
    · subst h0; simp [put, List.filter, h]
    · simp only [put, h0, if_false, List.filter]
      cases hq : q k₀
      · simp [ih]
      · simp [put, h0, ih]

theorem has_ownedPart (s : KV) (k : Key) (h : owned k = true) : has (ownedPart s) k = has s k := by
  unfold has ownedPart
  rw [get_filter s owned k, h]; rfl

theorem ownedPart_step (s : KV) (op : Op) (h : classified op = true) :
    ownedPart (step s op) = stepO (ownedPart s) op := by
  cases op with
  | set k b =>
    by_cases ho : owned k = true
    · simp only [step, stepO, ho, if_true]; exact filter_put_yes owned s k b ho
    · have ho' : owned k = false := by simpa using ho
      simp only [step, stepO, ho', Bool.false_eq_true, if_false]; exact filter_put_not owned s k b ho'
  | setnx k b =>
    by_cases ho : owned k = true
    · simp only [step, stepO, ho, if_true, has_ownedPart s k ho]
      split
      · rfl
      · exact filter_put_yes owned s k b ho
    · have ho' : owned k = false := by simpa using ho
      simp only [step, stepO, ho', Bool.false_eq_true, if_false]
      split
      · rfl
      · exact filter_put_not owned s k b ho'
  | del k =>
    simp only [step, stepO, erase, ownedPart, List.filter_filter]
    congr 1; funext e; exact Bool.and_comm _ _
  | delPrefix p =>
    simp only [step, stepO, ownedPart, List.filter_filter]
    congr 1; funext e; exact Bool.and_comm _ _
  | clear => simp [classified] at h

theorem ownedPart_run (ops : List Op) (s : KV) (h : ∀ op ∈ ops, classified op = true) :
    ownedPart (run s ops) = runO (ownedPart s) ops := by
  induction ops generalizing s with
  | nil => rfl
  | cons o os ih =>
    rw [run_cons, ih _ (fun op hop => h op (by simp [hop])), ownedPart_step s o (h o (by simp))]
    rfl

theorem dataOp_classified (f : Fmt) (prot : Option Key) (op : Op) (h : dataOp f prot op = true) :
    classified op = true := by
  cases op with
  | set k b =>
    simp only [dataOp, Bool.and_eq_true, Bool.or_eq_true] at h
    rcases h.1 with h1 | h1
    · simp [classified, h1.1]
    · simp [classified, h1.1.1]
  | setnx k b =>
    simp only [dataOp, Bool.and_eq_true, Bool.or_eq_true] at h
    rcases h.1 with h1 | h1
    · simp [classified, h1.1]
    · simp [classified, h1.1.1]
  | del k => simp only [dataOp, Bool.and_eq_true] at h; simp [classified, h.1.1]
  | delPrefix p => simp only [dataOp, Bool.and_eq_true] at h; simp [classified, h.1.1]
  | clear => simp [dataOp] at h

theorem rootSet_classified (op : Op) (h : rootSet op = true) : classified op = true := by
  cases op with
  | set k b => simp [rootSet] at h; simp [classified, h]
  | setnx k b => simp [rootSet] at h
  | del k => simp [rootSet] at h
  | delPrefix p => simp [rootSet] at h
  | clear => simp [rootSet] at h

end Geff.KV

namespace Geff.KV
open Gen.Paths Prog

/-- result and effect on the owned part depend only on the owned part the program starts from -/
def Sim {α} (p : Prog α) : Prop :=
  ∀ a b, ownedPart a = ownedPart b →
    (p a).val = (p b).val ∧ ownedPart (run a (p a).ops) = ownedPart (run b (p b).ops)

theorem Sim.pure {α} (x : α) : Sim (Prog.pure x) := fun a b h => ⟨rfl, by simpa [run_nil] using h⟩
theorem Sim.raise {α} (e : Outcome) : Sim (Prog.raise e : Prog α) := fun a b h => ⟨rfl, by simpa [run_nil] using h⟩

theorem Sim.emit {l : List Op} (hl : ∀ op ∈ l, classified op = true) : Sim (Prog.emit l) := by
  intro a b h
  refine ⟨rfl, ?_⟩
  simp only [ops_emit]
  rw [ownedPart_run l a hl, ownedPart_run l b hl, h]

theorem Sim.bind {α β} {p : Prog α} {f : α → Prog β} (hp : Sim p) (hf : ∀ x, Sim (f x)) : Sim (p >>= f) := by
  intro a b h
  obtain ⟨hv, ho⟩ := hp a b h
  change (Prog.bind p f a).val = (Prog.bind p f b).val ∧
    ownedPart (run a (Prog.bind p f a).ops) = ownedPart (run b (Prog.bind p f b).ops)
  cases hva : (p a).val with
  | error e =>
    have hvb : (p b).val = .error e := by rw [← hv, hva]
    rw [val_bind_err hva, val_bind_err hvb, ops_bind_err hva, ops_bind_err hvb]
    exact ⟨rfl, ho⟩
  | ok x =>
    have hvb : (p b).val = .ok x := by rw [← hv, hva]
    rw [val_bind_ok hva, val_bind_ok hvb, ops_bind_ok hva, ops_bind_ok hvb, run_append, run_append]
    exact hf x _ _ ho

theorem Sim.forEach {α} {f : α → Prog Unit} (h : ∀ x, Sim (f x)) (l : List α) : Sim (Prog.forEach f l) := by
  induction l with
  | nil => exact Sim.pure ()
  | cons x xs ih => exact Sim.bind (h x) (fun _ => ih)

/-- `delete_dir` leaves exactly the keys outside the directory, on every kind of store -/
theorem run_dels (ks : List Key) (s : KV) : run s (ks.map Op.del) = s.filter (fun e => !ks.contains e.1) := by
  induction ks generalizing s with
  | nil =>
    simp only [List.map_nil, run_nil, List.contains_nil, Bool.not_false]
    exact (List.filter_eq_self.2 (fun _ _ => rfl)).symm
  | cons k rest ih =>
    simp only [List.map_cons, run_cons, step, ih, erase, List.filter_filter]
    congr 1; funext e
    by_cases h : e.1 = k
    · simp [h]
    · have h' : ¬ k = e.1 := fun hh => h hh.symm
      simp [h, h', List.contains_cons]

theorem deleteDir_final (kind : Kind) (p : List String) (s : KV) :
    run s (deleteDir kind p s).ops = s.filter (fun e => !under p e.1) := by
  cases kind with
  | mem =>
    rw [deleteDir_mem_ops, run_dels]
    apply List.filter_congr
    intro e he
    by_cases hu : under p e.1 = true
    · have : e.1 ∈ keysUnder p s := mem_keysUnder.2 ⟨hu, e.2, he⟩
      simp [hu, this]
    · have : e.1 ∉ keysUnder p s := fun hk => hu (mem_keysUnder.1 hk).1
      simp [hu, this]
  | loc =>
    simp only [deleteDir, bind_def, ops_bind, ops_look, val_look, run_nil, List.nil_append]
    by_cases ha : (s.any fun e => under p e.1) = true
    · simp [ha, run_cons, run_nil, step]
    · simp only [ha, Bool.false_eq_true, if_false, ops_pure, run_nil]
      symm; apply List.filter_eq_self.2
      intro e he
      have : ¬ under p e.1 = true := fun hu => ha (List.any_eq_true.2 ⟨e, he, hu⟩)
      simpa using this
  | path =>
    simp only [deleteDir, bind_def, ops_bind, ops_look, val_look, run_nil, List.nil_append]
    by_cases ha : (s.any fun e => under p e.1) = true
    · simp [ha, run_cons, run_nil, step]
    · simp only [ha, Bool.false_eq_true, if_false, ops_pure, run_nil]
      symm; apply List.filter_eq_self.2
      intro e he
      have : ¬ under p e.1 = true := fun hu => ha (List.any_eq_true.2 ⟨e, he, hu⟩)
      simpa using this

theorem Sim.deleteDir (kind : Kind) (p : List String) : Sim (deleteDir kind p) := by
  intro a b h
  refine ⟨by rw [deleteDir_val, deleteDir_val], ?_⟩
  rw [deleteDir_final, deleteDir_final]
  unfold ownedPart at h ⊢
  rw [List.filter_filter, List.filter_filter]
  have : ∀ s : KV, s.filter (fun e => owned e.1 && !under p e.1) =
      (s.filter (fun e => owned e.1)).filter (fun e => !under p e.1) := by
    intro s; rw [List.filter_filter]; congr 1; funext e; exact Bool.and_comm _ _
  rw [this a, this b, h]

end Geff.KV

namespace Geff.KV
open Gen.Paths Prog

theorem Sim.rootSets {α} (p : Prog α) (hv : ∀ a b, (p a).val = (p b).val)
    (h : ∀ s, ∀ op ∈ (p s).ops, rootSet op = true) : Sim p := by
  intro a b hab
  refine ⟨hv a b, ?_⟩
  rw [ownedPart_run_rootSets _ a (h a), ownedPart_run_rootSets _ b (h b), hab]

theorem setup_val (d : Docs) (f : Fmt) (s : KV) : (setupZarrGroup d f s).val = .ok () := by
  unfold setupZarrGroup; rw [look_bind]; split <;> rfl

theorem setup_rootSets (d : Docs) (f : Fmt) (s : KV) : ∀ op ∈ (setupZarrGroup d f s).ops, rootSet op = true := by
  unfold setupZarrGroup; rw [look_bind]
  split
  · intro op h; simp at h
  · intro op hop
    simp only [ops_emit, List.mem_map] at hop
    obtain ⟨e, he, rfl⟩ := hop
    rcases groupDocs_spec d f [] e he with ⟨_, h2, _, _⟩ | ⟨h1, _, _⟩
    · simp [rootSet, h2]
    · exact absurd rfl h1

theorem Sim.setup (d : Docs) (f : Fmt) : Sim (setupZarrGroup d f) :=
  Sim.rootSets _ (fun a b => by rw [setup_val, setup_val]) (setup_rootSets d f)

theorem Sim.metadataWrite (d : Docs) (geff : String) : Sim (metadataWrite d geff) :=
  Sim.rootSets _ (fun a b => by rw [metadataWrite_val, metadataWrite_val]) (metadataWrite_rootSets d geff)

theorem has_eq_of_owned {a b : KV} (h : ownedPart a = ownedPart b) (k : Key) (hk : owned k = true) :
    has a k = has b k := by
  rw [← has_ownedPart a k hk, ← has_ownedPart b k hk, h]

theorem groupDocs_classified (d : Docs) (f : Fmt) {p : List String} (hp : geffTop p = true) :
    ∀ op ∈ (groupDocs d f p).map (fun e => Op.set e.1 e.2), classified op = true := by
  intro op hop
  simp only [List.mem_map] at hop
  obtain ⟨e, he, rfl⟩ := hop
  rcases groupDocs_spec d f p e he with ⟨h1, _, _, _⟩ | ⟨_, h2, _⟩
  · subst h1; simp [geffTop] at hp
  · obtain ⟨⟨pp, ll⟩, bb⟩ := e
    simp at h2; subst h2
    simp [classified, owned_of_top hp]

theorem Sim.createGroup (d : Docs) (f : Fmt) {p : List String} (hp : geffTop p = true) (ex : Bool) :
    Sim (createGroup d f p ex) := by
  intro a b h
  have hg : has a (groupKey f p) = has b (groupKey f p) :=
    has_eq_of_owned h _ (by cases f <;> exact owned_of_top hp)
  have ha : has a (arrayKey f p) = has b (arrayKey f p) :=
    has_eq_of_owned h _ (by cases f <;> exact owned_of_top hp)
  unfold Geff.KV.createGroup
  rw [look_bind, look_bind, hg, ha]
  split
  · cases ex
    · exact Sim.pure () a b h
    · exact Sim.raise _ a b h
  · exact Sim.bind (Sim.emit (groupDocs_classified d f hp))
      (fun _ => Sim.emit (fun op hop => dataOp_classified f none op (ancestorsNx_dataOp d f none hp op hop))) a b h

theorem Sim.createArray (d : Docs) (kind : Kind) (f : Fmt) {p : List String} (hp : PathOk none p) (a : Arr) :
    Sim (createArray d kind f p a) := by
  have hall := All.createArray_dataOp d kind f hp a
  unfold Geff.KV.createArray at hall ⊢
  split
  · exact Sim.raise _
  · rename_i hw
    simp only [hw] at hall
    have ho : ∀ l, owned ⟨p, l⟩ = true := fun l => owned_of_top hp.top
    refine Sim.bind (Sim.deleteDir kind p) (fun _ => Sim.bind (Sim.emit ?_) (fun _ =>
      Sim.bind (Sim.emit (fun op hop => dataOp_classified f none op (ancestorsNx_dataOp d f none hp.top op hop)))
        (fun _ => Sim.emit ?_)))
    · intro op hop
      cases f <;> simp [arrayMetaOps] at hop
      · rcases hop with rfl | rfl <;> simp [classified, ho]
      · subst hop; simp [classified, ho]
    · intro op hop
      simp only [chunkOps, List.mem_map] at hop
      obtain ⟨c, _, rfl⟩ := hop
      cases c.2 <;> simp [classified, ho]

theorem Sim.createOptArray (d : Docs) (kind : Kind) (f : Fmt) {p : List String} (hp : PathOk none p)
    (a : Option Arr) : Sim (createOptArray d kind f p a) := by
  cases a with
  | none => exact Sim.pure ()
  | some a => exact Sim.createArray d kind f hp a

theorem Sim.writeProp (d : Docs) (kind : Kind) (f : Fmt) {grp : String} (hg : grp = NODES ∨ grp = EDGES)
    (p : PropA) : Sim (writeProp d kind f grp p) := by
  have htop : ∀ l : List String, geffTop (grp :: l) = true := by
    intro l; rcases hg with rfl | rfl <;> simp [geffTop]
  unfold Geff.KV.writeProp
  split
  · exact Sim.raise _
  · exact Sim.bind (Sim.createGroup d f (htop _) true) (fun _ =>
      Sim.bind (Sim.createArray d kind f (pathOk_prop (Or.inl rfl) hg _ _) _) (fun _ =>
      Sim.bind (Sim.createOptArray d kind f (pathOk_prop (Or.inl rfl) hg _ _) _) (fun _ =>
      Sim.createOptArray d kind f (pathOk_prop (Or.inl rfl) hg _ _) _)))

theorem Sim.writeOptProps (d : Docs) (kind : Kind) (f : Fmt) {grp : String} (hg : grp = NODES ∨ grp = EDGES)
    (ps : Option (List PropA)) : Sim (writeOptProps d kind f grp ps) := by
  have htop : ∀ l : List String, geffTop (grp :: l) = true := by
    intro l; rcases hg with rfl | rfl <;> simp [geffTop]
  cases ps with
  | none => exact Sim.pure ()
  | some ps =>
    show Sim (writePropsArrays d kind f grp ps)
    unfold writePropsArrays
    exact Sim.bind (Sim.setup d f) (fun _ => Sim.bind (Sim.createGroup d f (htop _) false)
      (fun _ => Sim.forEach (fun p => Sim.writeProp d kind f hg p) ps))

/-- **the geff-owned outcome of the body of a write depends only on the geff-owned part of the
store it starts from** — not on foreign members, root attributes, or how the store got there -/
theorem Sim.writeBody (d : Docs) (kind : Kind) (f : Fmt) (g : G) : Sim (writeBody d kind f g) := by
  unfold Geff.KV.writeBody writeData writeIdArrays
  refine Sim.bind (Sim.bind ?_ (fun _ => Sim.bind (Sim.writeOptProps d kind f (Or.inl rfl) _)
    (fun _ => Sim.writeOptProps d kind f (Or.inr rfl) _))) (fun _ => Sim.metadataWrite d g.geff)
  split
  · exact Sim.raise _
  · exact Sim.bind (Sim.setup d f) (fun _ => Sim.bind (Sim.createArray d kind f pathOk_nodeIds _)
      (fun _ => Sim.createArray d kind f (pathOk_edgeIds (Or.inl rfl)) _))

end Geff.KV
