import GeffProofs.KVSim
namespace Geff.KV
open Gen.Paths Prog

/-- the store holds a geff written in zarr format `f` (and no root document of the other format) -/
structure HoldsGeff (f : Fmt) (kv : KV) : Prop where
  root : has kv (groupKey f []) = true
  attr : ∃ m o, get kv (rootDocKey f) = some (.root (some m) o)
  clean : FmtClean f kv

/-- every foreign key lies inside a member of the root group that zarr sees in format `f`
(needed only where `delete_geff` may remove a whole str/Path root) -/
def ForeignVisible (f : Fmt) (kv : KV) : Prop :=
  ∀ e ∈ foreignPart kv, ∃ n, e.1.path.head? = some n ∧ memberIn f kv n = true

theorem get_filter_notUnder (s : KV) (p : List String) (k : Key) (h : under p k = false) :
    get (s.filter (fun e => !under p e.1)) k = get s k := by
  have := get_filter s (fun x => !under p x) k
  simpa [h] using this

theorem rootKey_not_under (p : List String) (hp : p ≠ []) (l : Leaf) : under p ⟨[], l⟩ = false := by
  cases p with
  | nil => exact absurd rfl hp
  | cons x xs => simp [under, List.isPrefixOf]

/-- the store between the two `del root[…]` and the removal of the root / attribute -/
def afterDirs (kind : Kind) (s : KV) : KV :=
  run (run s (deleteDir kind [NODES] s).ops) (deleteDir kind [EDGES] (run s (deleteDir kind [NODES] s).ops)).ops

theorem afterDirs_eq (kind : Kind) (s : KV) :
    afterDirs kind s = (s.filter (fun e => !under [NODES] e.1)).filter (fun e => !under [EDGES] e.1) := by
  unfold afterDirs; rw [deleteDir_final, deleteDir_final]

theorem get_afterDirs (kind : Kind) (s : KV) (k : Key) (h1 : under [NODES] k = false)
    (h2 : under [EDGES] k = false) : get (afterDirs kind s) k = get s k := by
  rw [afterDirs_eq, get_filter_notUnder _ _ _ h2, get_filter_notUnder _ _ _ h1]

theorem deleteGeff_eq (d : Docs) (kind : Kind) (f : Fmt) (s : KV) (hroot : has s (groupKey f []) = true) :
    (deleteGeff d kind f s).ops = (deleteDir kind [NODES] s).ops ++
      ((deleteDir kind [EDGES] (run s (deleteDir kind [NODES] s).ops)).ops ++
        (deleteRoot d kind f (afterDirs kind s)).ops) ∧
    (deleteGeff d kind f s).val = (deleteRoot d kind f (afterDirs kind s)).val := by
  obtain ⟨hs1, hs2⟩ := setup_noop d f s hroot
  unfold deleteGeff afterDirs
  simp only [bind_def, ops_bind, val_bind, hs1, hs2, run_nil, List.nil_append, deleteDir_val]
  exact ⟨trivial, trivial⟩

/-- **what a successful `delete_geff` leaves** of a store holding a geff: no geff-owned key, no geff
attribute, every foreign member (byte for byte, in place) -/
theorem deleteGeff_spec (d : Docs) (kind : Kind) (f : Fmt) (s : KV) (h : HoldsGeff f s)
    (hvis : kind = .path → ForeignVisible f s) :
    (deleteGeff d kind f s).val = .ok () ∧
    ownedPart (run s (deleteGeff d kind f s).ops) = [] ∧
    geffAttrIn f (run s (deleteGeff d kind f s).ops) = none ∧
    foreignPart (run s (deleteGeff d kind f s).ops) = foreignPart s ∧
    FmtClean f (run s (deleteGeff d kind f s).ops) ∧
    (run s (deleteGeff d kind f s).ops = [] ∨ has (run s (deleteGeff d kind f s).ops) (groupKey f []) = true) := by
  obtain ⟨hops, hval⟩ := deleteGeff_eq d kind f s h.root
  obtain ⟨m, o, hattr⟩ := h.attr
  have hrk : under [NODES] (rootDocKey f) = false ∧ under [EDGES] (rootDocKey f) = false := by
    cases f <;> exact ⟨rootKey_not_under _ (by simp) _, rootKey_not_under _ (by simp) _⟩
  have hattr' : get (afterDirs kind s) (rootDocKey f) = some (.root (some m) o) := by
    rw [get_afterDirs kind s _ hrk.1 hrk.2, hattr]
  have hown : ownedPart (afterDirs kind s) = [] := ownedPart_after_deleteDirs kind s
  have hfor : foreignPart (afterDirs kind s) = foreignPart s := foreignPart_after_deleteDirs kind s
  have hclean : FmtClean f (afterDirs kind s) := by
    intro hf
    have := h.clean hf
    unfold has at this ⊢
    rw [get_afterDirs kind s _ (rootKey_not_under _ (by simp) _) (rootKey_not_under _ (by simp) _)]
    exact this
  have hrun : run s (deleteGeff d kind f s).ops = run (afterDirs kind s) (deleteRoot d kind f (afterDirs kind s)).ops := by
    rw [hops, run_append, run_append]; rfl
  rw [hval, hrun, deleteRoot_eq]
  by_cases hc : (members f (afterDirs kind s)).isEmpty = true ∧ kind = Kind.path
  · -- the whole root is removed: there was no foreign member
    rw [if_pos hc]
    simp only [run_cons, run_nil, step]
    refine ⟨trivial, rfl, rfl, ?_, fun _ => rfl, Or.inl trivial⟩
    have hv := hvis hc.2
    symm
    apply List.eq_nil_iff_forall_not_mem.2
    intro e he
    obtain ⟨n, hn, hmem⟩ := hv e he
    -- the member is still there after the two deletions, so `members` is not empty
    have hef : (!owned e.1 && !isRootKey e.1) = true := (List.mem_filter.1 he).2
    have heo : owned e.1 = false := by simp at hef; exact hef.1
    have hnn : n ≠ NODES ∧ n ≠ EDGES := by
      constructor <;> intro hh <;> simp [owned, hn, hh] at heo
    have hkeep : ∀ l, get (afterDirs kind s) ⟨[n], l⟩ = get s ⟨[n], l⟩ := by
      intro l
      apply get_afterDirs <;> simp [under, List.isPrefixOf, Ne.symm hnn.1, Ne.symm hnn.2]
    have hmem' : memberIn f (afterDirs kind s) n = true := by
      unfold memberIn has at hmem ⊢
      cases f <;> simp only [groupKey, arrayKey] at hmem ⊢ <;> simp only [hkeep] <;> exact hmem
    have hein : e ∈ afterDirs kind s := by
      have : e ∈ foreignPart (afterDirs kind s) := by rw [hfor]; exact he
      exact (List.mem_filter.1 this).1
    have : n ∈ members f (afterDirs kind s) := by
      unfold members
      rw [List.mem_filter]
      exact ⟨List.mem_filterMap.2 ⟨e, hein, hn⟩, hmem'⟩
    have hemp := hc.1
    rw [List.isEmpty_iff] at hemp
    rw [hemp] at this
    simp at this
  · rw [if_neg hc]
    rw [delGeffAttr_some d f _ m o hattr']
    have hrs := rootMetaOps_rootSet d f (.root none o)
    refine ⟨rfl, ?_, rootMetaOps_noGeff_final d f _ o, ?_, ?_, Or.inr ?_⟩
    · rw [ownedPart_run_rootSets _ _ hrs, hown]
    · rw [foreignPart_run_rootSets _ _ hrs, hfor]
    · exact (Crash.of_inv (I := FmtClean f) (A := fmtOK f) (fun _ _ hh ho => fmtClean_step hh ho) _ _ hclean
        (rootOnly_rootMeta_fmtOK d f _)).final
    · cases f <;> simp [rootMetaOps, run_cons, run_nil, step, groupKey, has, get_put_same, get_put_ne]

end Geff.KV

namespace Geff.KV
open Gen.Paths Prog

theorem writeBody_classified (d : Docs) (kind : Kind) (f : Fmt) (g : G) (s : KV) :
    ∀ op ∈ (writeBody d kind f g s).ops, classified op = true := by
  intro op hop
  unfold writeBody at hop
  simp only [bind_def] at hop
  rw [ops_bind] at hop
  rcases List.mem_append.1 hop with h | h
  · exact dataOp_classified f none op (All.writeData_dataOp d kind f g s op h)
  · split at h
    · exact rootSet_classified op (metadataWrite_rootSets d g.geff _ op h)
    · simp at h

theorem check_of_holds (kind : Kind) (f : Fmt) (kv : KV) (h : HoldsGeff f kv) : checkForGeff kind kv = true := by
  obtain ⟨m, o, hattr⟩ := h.attr
  have hfmt := rootGroupFmt_of f kv h.root h.clean
  unfold checkForGeff
  simp [hfmt, geffAttrIn, hattr]

theorem check_nil (kind : Kind) : checkForGeff kind [] = false := by
  cases kind <;> simp [checkForGeff, rootGroupFmt, has]

/-- **overwrite = fresh**: overwriting a store that holds a geff gives the same result, the same
geff-owned keys and documents and the same geff attribute as writing the graph into an empty
store, and keeps every foreign member byte for byte -/
theorem overwrite_eq_fresh (d : Docs) (kind : Kind) (f : Fmt) (g : G) (kv₀ : KV) (h : HoldsGeff f kv₀)
    (hvis : kind = .path → ForeignVisible f kv₀) :
    (writeCommitted d kind f g true kv₀).val = (writeCommitted d kind f g false []).val ∧
    ownedPart (run kv₀ (writeCommitted d kind f g true kv₀).ops) =
      ownedPart (run [] (writeCommitted d kind f g false []).ops) ∧
    ((writeCommitted d kind f g true kv₀).val = .ok () →
      geffAttrIn f (run kv₀ (writeCommitted d kind f g true kv₀).ops) = some g.geff ∧
      geffAttrIn f (run [] (writeCommitted d kind f g false []).ops) = some g.geff) ∧
    foreignPart (run kv₀ (writeCommitted d kind f g true kv₀).ops) = foreignPart kv₀ := by
  obtain ⟨hdv, hdo, _, hdf, hdc, _⟩ := deleteGeff_spec d kind f kv₀ h hvis
  have hg1 := guard_eq d kind f true kv₀
  simp only [check_of_holds kind f kv₀ h, if_true] at hg1
  have hg0 := guard_eq d kind f false []
  simp only [check_nil, Bool.false_eq_true, if_false] at hg0
  have hv1 : (guard d kind f true kv₀).val = .ok () := by rw [hg1]; exact hdv
  have hv0 : (guard d kind f false []).val = .ok () := by rw [hg0]
  have ho0 : (guard d kind f false []).ops = [] := by rw [hg0]
  unfold writeCommitted
  simp only [bind_def]
  rw [ops_bind_ok hv1, val_bind_ok hv1, ops_bind_ok hv0, val_bind_ok hv0, ho0, hg1]
  simp only [List.nil_append, run_nil, run_append]
  obtain ⟨sv, so⟩ := Sim.writeBody d kind f g (run kv₀ (deleteGeff d kind f kv₀).ops) [] (by rw [hdo]; rfl)
  refine ⟨sv, so, ?_, ?_⟩
  · intro hok
    have hok0 : (writeBody d kind f g []).val = .ok () := by rw [← sv]; exact hok
    exact ⟨(writeBody_commit d kind f g _ hdc () hok).1,
      (writeBody_commit d kind f g [] (fun _ => rfl) () hok0).1⟩
  · rw [foreignPart_run _ _ (writeBody_classified d kind f g _), hdf]

end Geff.KV

namespace Geff.KV
open Gen.Paths Prog

/-- a store without any geff-owned key and without geff attribute is not a geff for the guard,
provided its root is a group of format `f` or there is nothing at all -/
theorem check_of_clean (kind : Kind) (f : Fmt) (s : KV) (ho : ownedPart s = []) (ha : geffAttrIn f s = none)
    (hc : FmtClean f s) (hr : s = [] ∨ has s (groupKey f []) = true) : checkForGeff kind s = false := by
  rcases hr with rfl | hr
  · exact check_nil kind
  · have hfmt := rootGroupFmt_of f s hr hc
    have hmem : ∀ n, (n = NODES ∨ n = EDGES) → memberIn f s n = false := by
      intro n hn
      have hown : ∀ l, owned ⟨[n], l⟩ = true := by
        intro l; rcases hn with rfl | rfl <;> simp [owned]
      unfold memberIn
      rw [← has_ownedPart s _ (by cases f <;> exact hown _), ← has_ownedPart s _ (by cases f <;> exact hown _), ho]
      simp [has]
    unfold checkForGeff
    simp [hfmt, ha, hmem NODES (Or.inl rfl), hmem EDGES (Or.inr rfl)]

/-- `geff.write` / the converters perform exactly the mutations of `write_arrays(overwrite=True)`:
after their own deletion the nested guard finds nothing -/
theorem apiCommitted_eq (d : Docs) (kind : Kind) (f : Fmt) (g : G) (kv₀ : KV) (h : HoldsGeff f kv₀)
    (hvis : kind = .path → ForeignVisible f kv₀) :
    (apiCommitted d kind f g true kv₀).ops = (writeCommitted d kind f g true kv₀).ops ∧
    (apiCommitted d kind f g true kv₀).val = (writeCommitted d kind f g true kv₀).val := by
  obtain ⟨hdv, hdo, hda, _, hdc, hdr⟩ := deleteGeff_spec d kind f kv₀ h hvis
  have hg1 := guard_eq d kind f true kv₀
  simp only [check_of_holds kind f kv₀ h, if_true] at hg1
  have hv1 : (guard d kind f true kv₀).val = .ok () := by rw [hg1]; exact hdv
  have hchk := check_of_clean kind f _ hdo hda hdc hdr
  have hg2 := guard_eq d kind f false (run kv₀ (deleteGeff d kind f kv₀).ops)
  simp only [hchk, Bool.false_eq_true, if_false] at hg2
  have hv2 : (guard d kind f false (run kv₀ (deleteGeff d kind f kv₀).ops)).val = .ok () := by rw [hg2]
  have ho2 : (guard d kind f false (run kv₀ (deleteGeff d kind f kv₀).ops)).ops = [] := by rw [hg2]
  unfold apiCommitted writeCommitted
  simp only [bind_def]
  rw [ops_bind_ok hv1, val_bind_ok hv1, ops_bind_ok hv1, val_bind_ok hv1, hg1]
  rw [ops_bind_ok hv2, val_bind_ok hv2, ho2]
  simp [run_nil]

theorem apiCommitted_fresh (d : Docs) (kind : Kind) (f : Fmt) (g : G) :
    (apiCommitted d kind f g false []).ops = (writeCommitted d kind f g false []).ops ∧
    (apiCommitted d kind f g false []).val = (writeCommitted d kind f g false []).val := by
  have hg0 := guard_eq d kind f false []
  simp only [check_nil, Bool.false_eq_true, if_false] at hg0
  have hv0 : (guard d kind f false []).val = .ok () := by rw [hg0]
  have ho0 : (guard d kind f false []).ops = [] := by rw [hg0]
  unfold apiCommitted
  simp only [bind_def]
  rw [ops_bind_ok hv0, val_bind_ok hv0, ho0]
  simp [run_nil]

end Geff.KV

namespace Geff.KV
open Gen.Paths Prog

/-! ### histories -/

theorem holds_after_body (d : Docs) (kind : Kind) (f : Fmt) (g : G) (s : KV) (hs : FmtClean f s)
    (hok : (writeBody d kind f g s).val = .ok ()) :
    HoldsGeff f (run s (writeBody d kind f g s).ops) ∧
    geffAttrIn f (run s (writeBody d kind f g s).ops) = some g.geff := by
  obtain ⟨ha, _, hc⟩ := writeBody_commit d kind f g s hs () hok
  refine ⟨⟨writeBody_root d kind f g s () hok, ?_, hc⟩, ha⟩
  unfold geffAttrIn at ha
  cases hget : get (run s (writeBody d kind f g s).ops) (rootDocKey f) with
  | none => rw [hget] at ha; simp at ha
  | some b =>
    rw [hget] at ha
    cases b with
    | raw _ => simp at ha
    | root m o =>
      simp at ha; subst ha
      exact ⟨_, _, rfl⟩

/-- the empty-store reference: what writing `g` into nothing leaves -/
def fresh (d : Docs) (kind : Kind) (f : Fmt) (g : G) : KV := run [] (writeCommitted d kind f g false []).ops

/-- a graph that can be written and passes validation -/
def Good (d : Docs) (kind : Kind) (f : Fmt) (g : G) : Prop :=
  (writeBody d kind f g []).val = .ok () ∧ g.valid = true

/-- a store without geff: nothing geff-owned, no geff attribute, root absent or of format `f` -/
structure CleanS (f : Fmt) (s : KV) : Prop where
  owned : ownedPart s = []
  attr : geffAttrIn f s = none
  fmt : FmtClean f s
  root : s = [] ∨ has s (groupKey f []) = true

/-- a store holding exactly the graph `c`, as a fresh write of `c` would have left it -/
structure HeldS (d : Docs) (kind : Kind) (f : Fmt) (s : KV) (c : G) : Prop where
  holds : HoldsGeff f s
  owned : ownedPart s = ownedPart (fresh d kind f c)
  attr : geffAttrIn f s = some c.geff

theorem fresh_eq (d : Docs) (kind : Kind) (f : Fmt) (g : G) :
    (writeCommitted d kind f g false []).ops = (writeBody d kind f g []).ops ∧
    (writeCommitted d kind f g false []).val = (writeBody d kind f g []).val := by
  have hg0 := guard_eq d kind f false []
  simp only [check_nil, Bool.false_eq_true, if_false] at hg0
  have hv0 : (guard d kind f false []).val = .ok () := by rw [hg0]
  have ho0 : (guard d kind f false []).ops = [] := by rw [hg0]
  unfold writeCommitted
  simp only [bind_def]
  rw [ops_bind_ok hv0, val_bind_ok hv0, ho0]
  simp [run_nil]

theorem writeArrays_valid (d : Docs) (kind : Kind) (f : Fmt) (g : G) (ow va : Bool) (s : KV)
    (hv : g.valid = true) :
    (writeArrays d kind f g ow va s).ops = (writeCommitted d kind f g ow s).ops := by
  have hX : ∀ t, (validateAndCleanup d kind f g va t).ops = [] := by
    intro t; rw [validateAndCleanup_ops]; simp [hv]
  unfold writeArrays writeCommitted
  simp only [bind_def]
  cases hgv : (guard d kind f ow s).val with
  | error e => rw [ops_bind_err hgv, ops_bind_err hgv]
  | ok u =>
    rw [ops_bind_ok hgv, ops_bind_ok hgv]
    congr 1
    cases hbv : (writeBody d kind f g (run s (guard d kind f ow s).ops)).val with
    | error e => rw [ops_bind_err hbv]
    | ok u' => rw [ops_bind_ok hbv, hX, List.append_nil]

/-- writing a good graph into a store without geff -/
theorem step_clean (d : Docs) (kind : Kind) (f : Fmt) (g : G) (ow : Bool) (s : KV) (hs : CleanS f s)
    (hg : Good d kind f g) :
    HeldS d kind f (run s (writeCommitted d kind f g ow s).ops) g ∧
    foreignPart (run s (writeCommitted d kind f g ow s).ops) = foreignPart s := by
  have hchk := check_of_clean kind f s hs.owned hs.attr hs.fmt hs.root
  have hg1 := guard_eq d kind f ow s
  simp only [hchk, Bool.false_eq_true, if_false] at hg1
  have hv1 : (guard d kind f ow s).val = .ok () := by rw [hg1]
  have ho1 : (guard d kind f ow s).ops = [] := by rw [hg1]
  have hops : (writeCommitted d kind f g ow s).ops = (writeBody d kind f g s).ops := by
    unfold writeCommitted; simp only [bind_def]; rw [ops_bind_ok hv1, ho1]; simp [run_nil]
  rw [hops]
  obtain ⟨sv, so⟩ := Sim.writeBody d kind f g s [] (by rw [hs.owned]; rfl)
  have hok : (writeBody d kind f g s).val = .ok () := by rw [sv]; exact hg.1
  obtain ⟨hh, ha⟩ := holds_after_body d kind f g s hs.fmt hok
  refine ⟨⟨hh, ?_, ha⟩, foreignPart_run _ _ (writeBody_classified d kind f g s)⟩
  rw [so]; unfold fresh; rw [(fresh_eq d kind f g).1]

/-- overwriting a store that holds a graph with a good graph -/
theorem step_overwrite (d : Docs) (kind : Kind) (f : Fmt) (g c : G) (s : KV) (hs : HeldS d kind f s c)
    (hvis : kind = .path → ForeignVisible f s) (hg : Good d kind f g) :
    HeldS d kind f (run s (writeCommitted d kind f g true s).ops) g ∧
    foreignPart (run s (writeCommitted d kind f g true s).ops) = foreignPart s := by
  obtain ⟨hv, ho, _, hf⟩ := overwrite_eq_fresh d kind f g s hs.holds hvis
  obtain ⟨hdv, _, _, _, hdc, _⟩ := deleteGeff_spec d kind f s hs.holds hvis
  have hokf : (writeCommitted d kind f g false []).val = .ok () := by rw [(fresh_eq d kind f g).2]; exact hg.1
  have hok : (writeCommitted d kind f g true s).val = .ok () := by rw [hv]; exact hokf
  -- the committed store is the body run after the deletion
  have hg1 := guard_eq d kind f true s
  simp only [check_of_holds kind f s hs.holds, if_true] at hg1
  have hv1 : (guard d kind f true s).val = .ok () := by rw [hg1]; exact hdv
  have hops : (writeCommitted d kind f g true s).ops =
      (deleteGeff d kind f s).ops ++ (writeBody d kind f g (run s (deleteGeff d kind f s).ops)).ops := by
    unfold writeCommitted; simp only [bind_def]; rw [ops_bind_ok hv1, hg1]
  have hvb : (writeBody d kind f g (run s (deleteGeff d kind f s).ops)).val = .ok () := by
    have : (writeCommitted d kind f g true s).val =
        (writeBody d kind f g (run s (deleteGeff d kind f s).ops)).val := by
      unfold writeCommitted; simp only [bind_def]; rw [val_bind_ok hv1, hg1]
    rw [← this]; exact hok
  obtain ⟨hh, ha⟩ := holds_after_body d kind f g _ hdc hvb
  refine ⟨⟨?_, ?_, ?_⟩, hf⟩
  · rw [hops, run_append]; exact hh
  · rw [ho]; rfl
  · rw [hops, run_append]; exact ha

abbrev Step := G × Bool

/-- a history `write(g₁, o₁); write(g₂, o₂); …` through `write_arrays` -/
def execHist (d : Docs) (kind : Kind) (f : Fmt) (va : Bool) : KV → List Step → KV
  | s, [] => s
  | s, (g, ow) :: r => execHist d kind f va (run s (writeArrays d kind f g ow va s).ops) r

/-- the graph a reader must see after the history: the last one whose write was not refused -/
def lastWritten : Option G → List Step → Option G
  | cur, [] => cur
  | none, (g, _) :: r => lastWritten (some g) r
  | some c, (_, false) :: r => lastWritten (some c) r
  | some _, (g, true) :: r => lastWritten (some g) r

theorem lastWritten_some (c : G) (r : List Step) : ∃ c', lastWritten (some c) r = some c' := by
  induction r generalizing c with
  | nil => exact ⟨c, rfl⟩
  | cons st r ih =>
    obtain ⟨g, ow⟩ := st
    cases ow with
    | false => simpa [lastWritten] using ih c
    | true => simpa [lastWritten] using ih g

theorem histories_aux (d : Docs) (kind : Kind) (f : Fmt) (va : Bool) :
    ∀ (hist : List Step) (s : KV) (cur : Option G),
      (cur = none → CleanS f s) → (∀ c, cur = some c → HeldS d kind f s c) →
      (∀ st ∈ hist, Good d kind f st.1) → (kind = .path → foreignPart s = []) →
      foreignPart (execHist d kind f va s hist) = foreignPart s ∧
      (match lastWritten cur hist with
       | none => execHist d kind f va s hist = s
       | some c => HeldS d kind f (execHist d kind f va s hist) c) := by
  intro hist
  induction hist with
  | nil =>
    intro s cur h0 h1 _ _
    refine ⟨rfl, ?_⟩
    cases cur with
    | none => simp [lastWritten, execHist]
    | some c => simpa [lastWritten, execHist] using h1 c rfl
  | cons st r ih =>
    intro s cur h0 h1 hgood hvis
    obtain ⟨g, ow⟩ := st
    have hg : Good d kind f g := hgood (g, ow) (by simp)
    have hr : ∀ st ∈ r, Good d kind f st.1 := fun st hst => hgood st (by simp [hst])
    have hforeignVis : ∀ t, foreignPart t = foreignPart s → kind = .path → ForeignVisible f t := by
      intro t ht hk e he; rw [ht, hvis hk] at he; simp at he
    simp only [execHist]
    rw [writeArrays_valid d kind f g ow va s hg.2]
    cases cur with
    | none =>
      obtain ⟨hh, hf⟩ := step_clean d kind f g ow s (h0 rfl) hg
      obtain ⟨i1, i2⟩ := ih _ (some g) (fun h => by cases h) (fun c hc => by cases hc; exact hh) hr
        (fun hk => by rw [hf]; exact hvis hk)
      obtain ⟨c', hc'⟩ := lastWritten_some g r
      refine ⟨by rw [i1, hf], ?_⟩
      simp only [lastWritten, hc'] at i2 ⊢
      exact i2
    | some c =>
      have hs := h1 c rfl
      cases ow with
      | false =>
        -- refused: nothing happens
        have hg1 := guard_eq d kind f false s
        simp only [check_of_holds kind f s hs.holds, if_true, Bool.false_eq_true, if_false] at hg1
        have hops : (writeCommitted d kind f g false s).ops = [] := by
          unfold writeCommitted; simp only [bind_def]
          rw [ops_bind_err (e := .fileExists) (by rw [hg1]), hg1]
        rw [hops, run_nil]
        obtain ⟨i1, i2⟩ := ih s (some c) (fun h => by cases h) (fun c' hc => by cases hc; exact hs) hr hvis
        exact ⟨i1, by simpa [lastWritten] using i2⟩
      | true =>
        obtain ⟨hh, hf⟩ := step_overwrite d kind f g c s hs (hforeignVis s rfl) hg
        obtain ⟨i1, i2⟩ := ih _ (some g) (fun h => by cases h) (fun c' hc => by cases hc; exact hh) hr
          (fun hk => by rw [hf]; exact hvis hk)
        obtain ⟨c', hc'⟩ := lastWritten_some g r
        refine ⟨by rw [i1, hf], ?_⟩
        simp only [lastWritten, hc'] at i2 ⊢
        exact i2

end Geff.KV
