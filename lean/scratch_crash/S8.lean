import GeffProofs.KVWrite
namespace Geff.KV
open Gen.Paths Prog

/-! ### keys in store order -/

def keys (kv : KV) : List Key := kv.map (·.1)

theorem has_iff_mem_keys (kv : KV) (k : Key) : has kv k = true ↔ k ∈ keys kv := by
  induction kv with
  | nil => simp [has, keys]
  | cons e r ih =>
    obtain ⟨k₀, b₀⟩ := e
    by_cases h : k₀ = k
    · subst h; simp [has, get, keys]
    · have : ¬ k = k₀ := fun hh => h hh.symm
      simpa [has, get, keys, h, this] using ih

theorem keys_put (kv : KV) (k : Key) (b : Blob) :
    keys (put kv k b) = if has kv k then keys kv else keys kv ++ [k] := by
  induction kv with
  | nil => simp [put, keys, has]
  | cons e r ih =>
    obtain ⟨k₀, b₀⟩ := e
    by_cases h : k₀ = k
    · subst h; simp [put, keys, has, get]
    · have hh : has ((k₀, b₀) :: r) k = has r k := by simp [has, get, h]
      simp only [put, h, if_false, hh]
      by_cases hr : has r k
      · simp [hr, keys] at ih ⊢; exact ih
      · simp [hr, keys] at ih ⊢; exact ih

theorem keysUnder_eq (p : List String) (kv : KV) : keysUnder p kv = (keys kv).filter (under p) := by
  simp [keysUnder, keys, List.filter_map, Function.comp_def]

theorem keys_erase (kv : KV) (k : Key) : keys (erase kv k) = (keys kv).filter (fun x => x ≠ k) := by
  simp [erase, keys, List.filter_map, Function.comp_def]

theorem keys_delPrefix (kv : KV) (p : List String) :
    keys (kv.filter (fun e => !under p e.1)) = (keys kv).filter (fun x => !under p x) := by
  simp [keys, List.filter_map, Function.comp_def]

/-- no key at all below `p` -/
def NoneUnder (p : List String) (s : KV) : Prop := keysUnder p s = []

/-- the mutation creates no key below `p` -/
def notInto (p : List String) : Op → Bool
  | .set k _ => !under p k
  | .setnx k _ => !under p k
  | _ => true

theorem head_filter_of_head {α} (q : α → Bool) (l : List α) (x : α) (h : l.head? = some x)
    (hq : q x = true) : (l.filter q).head? = some x := by
  cases l with
  | nil => simp at h
  | cons y ys => simp at h; subst h; simp [List.filter, hq]

theorem filter_filter_head {p : List String} {l : List Key} {q : Key → Bool} {k1 : Key}
    (h : (l.filter (under p)).head? = some k1) (hq : q k1 = true) :
    ((l.filter q).filter (under p)).head? = some k1 := by
  rw [List.filter_filter]
  have : (l.filter (fun a => under p a && q a)) = (l.filter (under p)).filter q := by
    rw [List.filter_filter]; congr 1; funext a; exact Bool.and_comm _ _
  rw [this]
  exact head_filter_of_head q _ k1 h hq

theorem noneUnder_step {p : List String} {s : KV} {op : Op} (h : NoneUnder p s)
    (ho : notInto p op = true) : NoneUnder p (step s op) := by
  unfold NoneUnder at h ⊢
  rw [keysUnder_eq] at h ⊢
  cases op with
  | set k b =>
    simp only [step, keys_put]
    split
    · exact h
    · have : under p k = false := by simpa [notInto] using ho
      simp [List.filter_append, h, this]
  | setnx k b =>
    simp only [step]
    split
    · exact h
    · rw [keys_put]
      split
      · exact h
      · have : under p k = false := by simpa [notInto] using ho
        simp [List.filter_append, h, this]
  | del k =>
    simp only [step, keys_erase]
    rw [List.filter_filter]
    have : (keys s).filter (fun a => under p a && decide (a ≠ k)) = ((keys s).filter (under p)).filter (fun a => decide (a ≠ k)) := by
      rw [List.filter_filter]; congr 1; funext a; exact Bool.and_comm _ _
    rw [this, h]; rfl
  | delPrefix q =>
    simp only [step, keys_delPrefix]
    rw [List.filter_filter]
    have : (keys s).filter (fun a => under p a && !under q a) = ((keys s).filter (under p)).filter (fun a => !under q a) := by
      rw [List.filter_filter]; congr 1; funext a; exact Bool.and_comm _ _
    rw [this, h]; rfl
  | clear => simp [step, keys]

theorem first_set {p : List String} {s : KV} {k1 : Key} {b : Blob} (h : NoneUnder p s)
    (hk : under p k1 = true) : (keysUnder p (step s (.set k1 b))).head? = some k1 := by
  unfold NoneUnder at h
  rw [keysUnder_eq] at h ⊢
  simp only [step, keys_put]
  have hnot : has s k1 = false := by
    cases hh : has s k1 with
    | false => rfl
    | true =>
      have : k1 ∈ (keys s).filter (under p) := by
        simp [List.mem_filter, hk, (has_iff_mem_keys s k1).1 hh]
      rw [h] at this; simp at this
  simp [hnot, List.filter_append, h, hk]

theorem first_step {p : List String} {s : KV} {k1 : Key} {op : Op}
    (h : (keysUnder p s).head? = some k1) (ho : keepsKey (some k1) op = true) :
    (keysUnder p (step s op)).head? = some k1 := by
  rw [keysUnder_eq] at h ⊢
  cases op with
  | set k b =>
    simp only [step, keys_put]
    split
    · exact h
    · rw [List.filter_append, List.head?_append, h]; rfl
  | setnx k b =>
    simp only [step]
    split
    · exact h
    · rw [keys_put]
      split
      · exact h
      · rw [List.filter_append, List.head?_append, h]; rfl
  | del k =>
    simp only [step, keys_erase]
    apply filter_filter_head h
    have : k1 ≠ k := by
      intro hh; subst hh; simp [keepsKey] at ho
    simpa using this
  | delPrefix q =>
    simp only [step, keys_delPrefix]
    apply filter_filter_head h
    simpa [keepsKey] using ho
  | clear => simp [keepsKey] at ho

theorem first_run {p : List String} {k1 : Key} (r : List Op) (s : KV)
    (h : (keysUnder p s).head? = some k1) (hr : ∀ x ∈ r, keepsKey (some k1) x = true) :
    (keysUnder p (run s r)).head? = some k1 := by
  induction r generalizing s with
  | nil => simpa [run_nil] using h
  | cons o os ih =>
    rw [run_cons]
    exact ih _ (first_step h (hr o (by simp))) (fun x hx => hr x (by simp [hx]))

theorem noneUnder_run {p : List String} (a : List Op) (s : KV) (h : NoneUnder p s)
    (ha : ∀ x ∈ a, notInto p x = true) : NoneUnder p (run s a) := by
  induction a generalizing s with
  | nil => simpa [run_nil] using h
  | cons o os ih =>
    rw [run_cons]
    exact ih _ (noneUnder_step h (ha o (by simp))) (fun x hx => ha x (by simp [hx]))

/-- a trace `a ++ set k1 :: r` whose first part creates nothing below `p` and whose last part
never removes `k1` leaves `k1` as the first key below `p` -/
theorem first_of_staged {p : List String} {k1 : Key} {b : Blob} {a r : List Op} {s : KV}
    (hs : NoneUnder p s) (hk : under p k1 = true) (ha : ∀ x ∈ a, notInto p x = true)
    (hr : ∀ x ∈ r, keepsKey (some k1) x = true) :
    (keysUnder p (run s (a ++ Op.set k1 b :: r))).head? = some k1 := by
  rw [run_append, run_cons]
  exact first_run r _ (first_set (noneUnder_run a s hs ha) hk) hr

end Geff.KV
