import GeffProofs.KVWrite
namespace Geff.KV
open Gen.Paths Prog

/-! ### what `delete_geff` leaves behind -/

theorem look_bind {β} (f : KV → Prog β) (s : KV) : (Prog.look >>= f) s = f s s := by
  change Prog.bind Prog.look f s = f s s
  unfold Prog.bind
  simp [Prog.look, run_nil]

theorem delGeffAttr_some (d : Docs) (f : Fmt) (s : KV) (g o : String)
    (h : get s (rootDocKey f) = some (.root (some g) o)) :
    delGeffAttr d f s = ⟨rootMetaOps d f (.root none o), .ok ()⟩ := by
  unfold delGeffAttr; rw [look_bind]; simp only [h]; rfl

theorem delGeffAttr_err (d : Docs) (f : Fmt) (s : KV)
    (h : ∀ g o, get s (rootDocKey f) ≠ some (.root (some g) o)) :
    delGeffAttr d f s = ⟨[], .error (.other "KeyError")⟩ := by
  unfold delGeffAttr; rw [look_bind]
  rcases hg : get s (rootDocKey f) with _ | b
  · rfl
  · cases b with
    | raw _ => rfl
    | root g o =>
      cases g with
      | none => rfl
      | some g => exact absurd hg (h g o)

theorem rootMetaOps_noGeff_final (d : Docs) (f : Fmt) (s : KV) (o : String) :
    geffAttrIn f (run s (rootMetaOps d f (.root none o))) = none := by
  cases f <;> simp [rootMetaOps, run_cons, run_nil, step, geffAttrIn, rootDocKey, get_put_same]

theorem delGeffAttr_noGeff (d : Docs) (f : Fmt) (s : KV) (u : Unit)
    (h : (delGeffAttr d f s).val = .ok u) : geffAttrIn f (run s (delGeffAttr d f s).ops) = none := by
  by_cases hg : ∃ g o, get s (rootDocKey f) = some (.root (some g) o)
  · obtain ⟨g, o, hg⟩ := hg
    rw [delGeffAttr_some d f s g o hg]
    exact rootMetaOps_noGeff_final d f s o
  · rw [delGeffAttr_err d f s (fun g o hh => hg ⟨g, o, hh⟩)] at h
    simp at h

theorem deleteRoot_eq (d : Docs) (kind : Kind) (f : Fmt) (s : KV) :
    deleteRoot d kind f s =
      if (members f s).isEmpty ∧ kind = .path then ⟨[.clear], .ok ()⟩ else delGeffAttr d f s := by
  unfold deleteRoot; rw [look_bind]
  by_cases hm : (members f s).isEmpty = true
  · cases kind <;> simp [hm] <;> rfl
  · simp [hm]

theorem deleteRoot_noGeff (d : Docs) (kind : Kind) (f : Fmt) (s : KV) (u : Unit)
    (h : (deleteRoot d kind f s).val = .ok u) : geffAttrIn f (run s (deleteRoot d kind f s).ops) = none := by
  rw [deleteRoot_eq] at h ⊢
  split
  · simp [run_cons, run_nil, step, geffAttrIn]
  · rename_i hc; simp only [hc, if_false] at h
    exact delGeffAttr_noGeff d f s u h

/-- a completed `delete_geff` leaves no geff attribute -/
theorem deleteGeff_noGeff (d : Docs) (kind : Kind) (f : Fmt) (s : KV) (u : Unit)
    (h : (deleteGeff d kind f s).val = .ok u) :
    geffAttrIn f (run s (deleteGeff d kind f s).ops) = none := by
  unfold deleteGeff at h ⊢
  simp only [bind_def, ops_bind, val_bind, deleteDir_val] at h ⊢
  cases hs : (setupZarrGroup d f s).val with
  | error e => rw [hs] at h; simp at h
  | ok x =>
    rw [hs] at h
    simp only [hs, run_append] at h ⊢
    exact deleteRoot_noGeff d kind f _ u h

theorem get_isSome_of_mem (s : KV) (k : Key) (b : Blob) (h : (k, b) ∈ s) : (get s k).isSome = true := by
  induction s with
  | nil => simp at h
  | cons e r ih =>
    obtain ⟨k₀, b₀⟩ := e
    by_cases h0 : k₀ = k
    · simp [get, h0]
    · simp only [List.mem_cons, Prod.mk.injEq] at h
      rcases h with ⟨rfl, _⟩ | h
      · exact absurd rfl h0
      · simp [get, h0, ih h]

theorem noneUnder_of_get {p : List String} {s : KV} (h : ∀ k, under p k = true → get s k = none) :
    NoneUnder p s := by
  apply List.eq_nil_iff_forall_not_mem.2
  intro k hk
  obtain ⟨hu, b, hb⟩ := mem_keysUnder.1 hk
  have := get_isSome_of_mem s k b hb
  rw [h k hu] at this; simp at this

theorem get_of_noneUnder {p : List String} {s : KV} (h : NoneUnder p s) (k : Key)
    (hu : under p k = true) : get s k = none := by
  apply get_eq_none_of_not_mem
  intro e he hek
  have : k ∈ keysUnder p s := mem_keysUnder.2 ⟨hu, e.2, by rw [← hek]; exact he⟩
  rw [h] at this; simp at this

theorem rootOnly_notInto (p : List String) (hp : p ≠ []) (op : Op) (h : rootOnlySets op = true) :
    notInto p op = true := by
  cases p with
  | nil => exact absurd rfl hp
  | cons x xs =>
    cases op with
    | set k b => simp [rootOnlySets] at h; simp [notInto, under, h, List.isPrefixOf]
    | setnx k b => simp [rootOnlySets] at h; simp [notInto, under, h, List.isPrefixOf]
    | del k => rfl
    | delPrefix q => rfl
    | clear => rfl

/-- … and nothing below `nodes/` -/
theorem deleteGeff_noneUnder (d : Docs) (kind : Kind) (f : Fmt) (s : KV)
    (hroot : has s (groupKey f []) = true) :
    NoneUnder [NODES] (run s (deleteGeff d kind f s).ops) := by
  obtain ⟨hs1, hs2⟩ := setup_noop d f s hroot
  unfold deleteGeff
  simp only [bind_def, ops_bind, val_bind, hs1, hs2, run_nil, List.nil_append, deleteDir_val, run_append]
  have h0 : NoneUnder [NODES] (run s (deleteDir kind [NODES] s).ops) :=
    noneUnder_of_get (fun k hu => by rw [deleteDir_get]; simp [hu])
  have hE := (All.deleteDir_rootOnly kind [EDGES]).mono (rootOnly_notInto [NODES] (by simp))
  have hR := (All.deleteRoot_rootOnly d kind f).mono (rootOnly_notInto [NODES] (by simp))
  exact noneUnder_run _ _ (noneUnder_run _ _ h0 (hE _)) (hR _)

end Geff.KV
