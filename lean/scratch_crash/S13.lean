import GeffProofs.KVCommit
namespace Geff.KV
open Gen.Paths Prog

/-! ### failures inside a concurrent batch: sub-sequences instead of prefixes

zarr issues the metadata documents of one array/group (and the `set_if_not_exists` of its
ancestors) through one `asyncio.gather`; when one of them fails its siblings still complete.  The
store after such a failure is not a prefix of the trace but *a prefix plus some later mutations of
the same batch*.  The invariants of the phases are preserved by every single mutation, hence by
every sub-sequence. -/

theorem inv_sublist {I : KV → Prop} {A : Op → Bool}
    (hstep : ∀ s op, I s → A op = true → I (step s op)) :
    ∀ {T ops : List Op}, T.Sublist ops → ∀ (kv : KV), I kv → (∀ op ∈ ops, A op = true) → I (run kv T) := by
  intro T ops h
  induction h with
  | slnil => intro kv h _; simpa [run_nil] using h
  | cons a _ ih => intro kv h hall; exact ih kv h (fun op hop => hall op (by simp [hop]))
  | cons_cons a _ ih =>
    intro kv h hall
    rw [run_cons]
    exact ih _ (hstep kv a h (hall a (by simp))) (fun op hop => hall op (by simp [hop]))

/-- the sub-sequences of the trace of a deletion that a single failure can leave applied: nothing,
or the first mutation (deletions are sequential, the first one cannot be skipped) followed by any
sub-sequence of the rest -/
def DelState (L T : List Op) : Prop :=
  T = [] ∨ ∃ o rest T', L = o :: rest ∧ T = o :: T' ∧ T'.Sublist rest

theorem All.deleteGeff_rootOnly (d : Docs) (kind : Kind) (f : Fmt) (s : KV)
    (hroot : has s (groupKey f []) = true) : ∀ op ∈ (deleteGeff d kind f s).ops, rootOnlySets op = true := by
  obtain ⟨hs1, hs2⟩ := setup_noop d f s hroot
  unfold deleteGeff
  simp only [bind_def, ops_bind, hs1, hs2, run_nil, List.nil_append, deleteDir_val]
  intro op hop
  simp only [List.mem_append] at hop
  rcases hop with hop | hop | hop
  · exact All.deleteDir_rootOnly kind [NODES] _ op hop
  · exact All.deleteDir_rootOnly kind [EDGES] _ op hop
  · exact All.deleteRoot_rootOnly d kind f _ op hop

/-- the first mutation of `del root["nodes"]` already breaks `nodes` -/
theorem deleteDir_nodes_first (f : Fmt) (kind : Kind) (s : KV) (hsafe : kind = .mem → DeleteSafe f s)
    {o : Op} {os : List Op} (hops : (deleteDir kind [NODES] s).ops = o :: os) :
    nodesBroken f (step s o) := by
  cases kind with
  | mem =>
    rw [deleteDir_mem_ops] at hops
    cases hk : keysUnder [NODES] s with
    | nil => simp [hk] at hops
    | cons k1 rest =>
      rw [hk] at hops
      simp only [List.map_cons, List.cons.injEq] at hops
      obtain ⟨rfl, _⟩ := hops
      have := hsafe rfl k1 (by simp [hk])
      rcases this with rfl | rfl
      · left; simp [has, step, get_erase_same]
      · right; simp [has, step, get_erase_same]
  | loc =>
    have h1 := deleteDir_nodes_final f .loc s
    simp only [deleteDir, bind_def, ops_bind, ops_look, val_look, run_nil, List.nil_append] at hops h1
    split at hops
    · simp at hops; obtain ⟨rfl, rfl⟩ := hops
      simpa [*, run_cons, run_nil] using h1
    · simp at hops
  | path =>
    have h1 := deleteDir_nodes_final f .path s
    simp only [deleteDir, bind_def, ops_bind, ops_look, val_look, run_nil, List.nil_append] at hops h1
    split at hops
    · simp at hops; obtain ⟨rfl, rfl⟩ := hops
      simpa [*, run_cons, run_nil] using h1
    · simp at hops

/-- **delete phase, concurrent version** -/
theorem deleteGeff_states (d : Docs) (kind : Kind) (f : Fmt) (s : KV)
    (hroot : has s (groupKey f []) = true) (hsafe : kind = .mem → DeleteSafe f s)
    {T : List Op} (hT : DelState (deleteGeff d kind f s).ops T) :
    run s T = s ∨ nodesBroken f (run s T) := by
  have hall := All.deleteGeff_rootOnly d kind f s hroot
  have hstep : ∀ (t : KV) (op : Op), nodesBroken f t → rootOnlySets op = true → nodesBroken f (step t op) :=
    fun _ _ ht ho => nodesBroken_step ht ho
  rcases hT with rfl | ⟨o, rest, T', heq, rfl, hsub⟩
  · left; rfl
  · right
    rw [run_cons]
    have hrest : ∀ op ∈ rest, rootOnlySets op = true := fun op hop => hall op (by rw [heq]; simp [hop])
    refine inv_sublist (I := nodesBroken f) (A := rootOnlySets) hstep hsub _ ?_ hrest
    cases hN : (deleteDir kind [NODES] s).ops with
    | nil =>
      -- nothing below nodes/: `nodes` was never readable
      have hb : nodesBroken f s := by
        have := deleteDir_nodes_final f kind s
        rwa [hN, run_nil] at this
      exact hstep s o hb (hall o (by rw [heq]; simp))
    | cons o' N' =>
      obtain ⟨hs1, hs2⟩ := setup_noop d f s hroot
      have : (deleteGeff d kind f s).ops = o' :: (N' ++
          ((deleteDir kind [EDGES] (run s (o' :: N'))).ops ++
            (deleteRoot d kind f (run (run s (o' :: N')) (deleteDir kind [EDGES] (run s (o' :: N'))).ops)).ops)) := by
        unfold deleteGeff
        simp only [bind_def, ops_bind, hs1, hs2, run_nil, List.nil_append, deleteDir_val, hN,
          List.cons_append]
      rw [this] at heq
      obtain ⟨rfl, _⟩ := List.cons.inj heq
      exact deleteDir_nodes_first f kind s hsafe hN

end Geff.KV

namespace Geff.KV
open Gen.Paths Prog

def isOk {α} : Except Outcome α → Bool
  | .ok _ => true
  | .error _ => false

/-- the trace of `write_arrays` split into its phases: `D` guard (deletion of the old geff), `W` the
arrays, `C` the metadata write (commit), `X` the clean-up after a failed validation -/
structure Phases where
  D : List Op
  W : List Op
  C : List Op
  X : List Op
  committed : Bool

def phases (d : Docs) (kind : Kind) (f : Fmt) (g : G) (ow va : Bool) (kv₀ : KV) : Phases :=
  let rD := guard d kind f ow kv₀
  let s1 := run kv₀ rD.ops
  let rW := writeData d kind f g s1
  let s2 := run s1 rW.ops
  let rC := metadataWrite d g.geff s2
  let s3 := run s2 rC.ops
  if !isOk rD.val then ⟨rD.ops, [], [], [], false⟩
  else if !isOk rW.val then ⟨rD.ops, rW.ops, [], [], false⟩
  else ⟨rD.ops, rW.ops, rC.ops, (validateAndCleanup d kind f g va s3).ops, true⟩

theorem isOk_ok {α} {v : Except Outcome α} (h : isOk v = true) : ∃ a, v = .ok a := by
  cases v with
  | ok a => exact ⟨a, rfl⟩
  | error e => simp [isOk] at h

theorem isOk_err {α} {v : Except Outcome α} (h : isOk v = false) : ∃ e, v = .error e := by
  cases v with
  | ok a => simp [isOk] at h
  | error e => exact ⟨e, rfl⟩

theorem metadataWrite_val (d : Docs) (geff : String) (s : KV) : (metadataWrite d geff s).val = .ok () := by
  obtain ⟨_, _, _, _, h⟩ := metadataWrite_shape d geff s; exact h

theorem writeBody_split (d : Docs) (kind : Kind) (f : Fmt) (g : G) (s : KV) (u : Unit)
    (h : (writeData d kind f g s).val = .ok u) :
    (writeBody d kind f g s).ops = (writeData d kind f g s).ops ++
      (metadataWrite d g.geff (run s (writeData d kind f g s).ops)).ops ∧
    (writeBody d kind f g s).val = .ok () := by
  unfold writeBody; simp only [bind_def]
  rw [ops_bind_ok h, val_bind_ok h]
  exact ⟨rfl, metadataWrite_val d g.geff _⟩

theorem writeBody_err (d : Docs) (kind : Kind) (f : Fmt) (g : G) (s : KV) (e : Outcome)
    (h : (writeData d kind f g s).val = .error e) :
    (writeBody d kind f g s).ops = (writeData d kind f g s).ops ∧
    (writeBody d kind f g s).val = .error e := by
  unfold writeBody; simp only [bind_def]
  rw [ops_bind_err h, val_bind_err h]
  exact ⟨rfl, rfl⟩

/-- the phases are the trace -/
theorem phases_ops (d : Docs) (kind : Kind) (f : Fmt) (g : G) (ow va : Bool) (kv₀ : KV) :
    (writeArrays d kind f g ow va kv₀).ops =
      (phases d kind f g ow va kv₀).D ++ (phases d kind f g ow va kv₀).W ++
      (phases d kind f g ow va kv₀).C ++ (phases d kind f g ow va kv₀).X := by
  unfold phases writeArrays
  simp only [bind_def]
  cases hD : isOk (guard d kind f ow kv₀).val with
  | false =>
    obtain ⟨e, he⟩ := isOk_err hD
    simp [ops_bind_err he]
  | true =>
    obtain ⟨u, hu⟩ := isOk_ok hD
    rw [ops_bind_ok hu]
    cases hW : isOk (writeData d kind f g (run kv₀ (guard d kind f ow kv₀).ops)).val with
    | false =>
      obtain ⟨e, he⟩ := isOk_err hW
      obtain ⟨h1, h2⟩ := writeBody_err d kind f g _ e he
      simp [ops_bind_err h2, h1]
    | true =>
      obtain ⟨u', hu'⟩ := isOk_ok hW
      obtain ⟨h1, h2⟩ := writeBody_split d kind f g _ u' hu'
      simp [ops_bind_ok h2, h1, run_append]

/-- the sub-sequences of the trace that a single storage failure can leave applied, given that the
mutations of one phase are issued either sequentially or as concurrent batches whose members are
independent: all earlier phases completely, plus
* delete phases (`D`, `X`): nothing, or the first deletion and any sub-sequence of the rest;
* array phase `W`, commit `C`: any sub-sequence.
Every prefix of the trace is of this form. -/
inductive CrashSeq (P : Phases) : List Op → Prop
  | inD {T : List Op} : DelState P.D T → CrashSeq P T
  | inW {T : List Op} : T.Sublist P.W → CrashSeq P (P.D ++ T)
  | inC {T : List Op} : T.Sublist P.C → CrashSeq P (P.D ++ P.W ++ T)
  | inX {T : List Op} : DelState P.X T → CrashSeq P (P.D ++ P.W ++ P.C ++ T)

theorem delState_full (L : List Op) : DelState L L := by
  cases L with
  | nil => left; rfl
  | cons o r => right; exact ⟨o, r, r, rfl, rfl, List.Sublist.refl r⟩

end Geff.KV

namespace Geff.KV
open Gen.Paths Prog

theorem filter_put_not (q : Key → Bool) (s : KV) (k : Key) (b : Blob) (h : q k = false) :
    (put s k b).filter (fun e => q e.1) = s.filter (fun e => q e.1) := by
  induction s with
  | nil => simp [put, h]
  | cons e r ih =>
    obtain ⟨k₀, b₀⟩ := e
    by_cases h0 : k₀ = k
    · subst h0; simp [put, List.filter, h]
    · simp only [put, h0, if_false, List.filter]
      cases q k₀ <;> simp [ih]

/-- a `set` of one of the root group's own documents -/
def rootSet : Op → Bool
  | .set k _ => k.path.isEmpty
  | _ => false

theorem ownedPart_rootSet (s : KV) (op : Op) (h : rootSet op = true) : ownedPart (step s op) = ownedPart s := by
  cases op with
  | set k b =>
    have : owned k = false := by
      simp [rootSet] at h; simp [owned, h]
    exact filter_put_not owned s k b this
  | setnx k b => simp [rootSet] at h
  | del k => simp [rootSet] at h
  | delPrefix p => simp [rootSet] at h
  | clear => simp [rootSet] at h

theorem ownedPart_run_rootSets (T : List Op) (s : KV) (h : ∀ op ∈ T, rootSet op = true) :
    ownedPart (run s T) = ownedPart s := by
  induction T generalizing s with
  | nil => rfl
  | cons o os ih =>
    rw [run_cons, ih _ (fun op hop => h op (by simp [hop])), ownedPart_rootSet s o (h o (by simp))]

theorem rootMetaOps_rootSet (d : Docs) (f : Fmt) (doc : Blob) : ∀ op ∈ rootMetaOps d f doc, rootSet op = true := by
  intro op hop
  cases f <;> simp [rootMetaOps] at hop
  · rcases hop with rfl | rfl <;> rfl
  · subst hop; rfl

theorem metadataWrite_rootSets (d : Docs) (geff : String) (s : KV) :
    ∀ op ∈ (metadataWrite d geff s).ops, rootSet op = true := by
  unfold metadataWrite; rw [look_bind]
  cases rootGroupFmt s with
  | none => exact rootMetaOps_rootSet d .v3 (.root (some geff) d.emptyOther)
  | some f' => exact rootMetaOps_rootSet d f' (.root (some geff) (otherAttrsIn d f' s))

/-- **commit phase, concurrent version**: whatever sub-sequence of the metadata write is applied,
there is no geff attribute yet, or the store already shows exactly the new graph -/
theorem metadataWrite_states (d : Docs) (f : Fmt) (geff : String) (s : KV) (h : geffAttrIn f s = none)
    {T : List Op} (hT : T.Sublist (metadataWrite d geff s).ops) :
    geffAttrIn f (run s T) = none ∨
      geffView f (run s T) = geffView f (run s (metadataWrite d geff s).ops) := by
  obtain ⟨pre, c, hops, hpre, _⟩ := metadataWrite_shape d geff s
  have hrs := metadataWrite_rootSets d geff s
  rw [hops] at hT hrs ⊢
  obtain ⟨T₀, T₁, rfl, h0, h1⟩ := List.sublist_append_iff.1 hT
  have hT0 : geffAttrIn f (run s T₀) = none :=
    inv_sublist (I := fun t => geffAttrIn f t = none) (A := noGeffOp)
      (fun t op ht ho => geffAttrIn_step_none f t op ht ho) h0 s h hpre
  have hpre' : geffAttrIn f (run s pre) = none := (crash_noGeff f pre s h hpre).final
  cases T₁ with
  | nil => left; simpa using hT0
  | cons x xs =>
    have hx : x = c ∧ xs = [] := by
      cases h1 with
      | cons _ h' => cases h'
      | cons_cons _ h' => cases h'; exact ⟨rfl, rfl⟩
    obtain ⟨rfl, rfl⟩ := hx
    right
    have hown : ownedPart (run s (T₀ ++ [x])) = ownedPart (run s (pre ++ [x])) := by
      rw [ownedPart_run_rootSets _ s (fun op hop => hrs op (by
            rcases List.mem_append.1 hop with hh | hh
            · exact List.mem_append.2 (Or.inl (h0.subset hh))
            · exact List.mem_append.2 (Or.inr hh))),
          ownedPart_run_rootSets _ s hrs]
    have hattr : geffAttrIn f (run s (T₀ ++ [x])) = geffAttrIn f (run s (pre ++ [x])) := by
      simp only [run_append, run_cons, run_nil]
      have hx' := hrs x (by simp)
      cases x with
      | set k b =>
        unfold geffAttrIn at hT0 hpre' ⊢
        rw [get_step, get_step]
        by_cases hk : rootDocKey f = k
        · simp [hk]
        · simp only [hk, if_false]; rw [hT0, hpre']
      | setnx k b => simp [rootSet] at hx'
      | del k => simp [rootSet] at hx'
      | delPrefix p => simp [rootSet] at hx'
      | clear => simp [rootSet] at hx'
    simp [geffView, hown, hattr]

end Geff.KV

namespace Geff.KV
open Gen.Paths Prog

theorem sublist_nil {T : List Op} (h : T.Sublist []) : T = [] := List.sublist_nil.1 h
theorem delState_nil {T : List Op} (h : DelState [] T) : T = [] := by
  rcases h with h | ⟨_, _, _, h, _⟩
  · exact h
  · cases h

/-- the phases after the guard, from a store `s1` without geff attribute and nothing below `nodes/` -/
theorem tail_states (d : Docs) (kind : Kind) (f : Fmt) (g : G) (va : Bool) (s1 : KV)
    (h1 : geffAttrIn f s1 = none) (h2 : NoneUnder [NODES] s1) :
    let rW := writeData d kind f g s1
    let s2 := run s1 rW.ops
    let rC := metadataWrite d g.geff s2
    let s3 := run s2 rC.ops
    (∀ T : List Op, T.Sublist rW.ops → geffAttrIn f (run s1 T) = none) ∧
    (isOk rW.val = true → ∀ T : List Op, T.Sublist rC.ops →
        geffAttrIn f (run s2 T) = none ∨ geffView f (run s2 T) = geffView f s3) ∧
    (isOk rW.val = true → ∀ T : List Op, DelState (validateAndCleanup d kind f g va s3).ops T →
        run s3 T = s3 ∨ nodesBroken f (run s3 T)) := by
  intro rW s2 rC s3
  have hW : ∀ op ∈ rW.ops, noGeffOp op = true :=
    fun op hop => dataOp_noGeff f none op (All.writeData_dataOp d kind f g s1 op hop)
  have hinv : ∀ T : List Op, T.Sublist rW.ops → geffAttrIn f (run s1 T) = none := fun T hT =>
    inv_sublist (I := fun t => geffAttrIn f t = none) (A := noGeffOp)
      (fun t op ht ho => geffAttrIn_step_none f t op ht ho) hT s1 h1 hW
  refine ⟨hinv, ?_, ?_⟩
  · intro _ T hT
    exact metadataWrite_states d f g.geff s2 (hinv _ (List.Sublist.refl _)) hT
  · intro hok T hT
    obtain ⟨u, hu⟩ := isOk_ok hok
    obtain ⟨hb1, hb2⟩ := writeBody_split d kind f g s1 u hu
    have hs3 : s3 = run s1 (writeBody d kind f g s1).ops := by rw [hb1, run_append]
    rw [validateAndCleanup_ops] at hT
    split at hT
    · have hroot : has s3 (groupKey f []) = true := by rw [hs3]; exact writeBody_root d kind f g s1 () hb2
      have hsafe : DeleteSafe f s3 := by rw [hs3]; exact writeBody_deleteSafe d kind f g s1 h2 () hb2
      exact deleteGeff_states d kind f s3 hroot (fun _ => hsafe) hT
    · left; rw [delState_nil hT]; rfl

theorem phases_cases (d : Docs) (kind : Kind) (f : Fmt) (g : G) (ow va : Bool) (kv₀ : KV) :
    let rD := guard d kind f ow kv₀
    let s1 := run kv₀ rD.ops
    let rW := writeData d kind f g s1
    let s2 := run s1 rW.ops
    let rC := metadataWrite d g.geff s2
    let s3 := run s2 rC.ops
    (isOk rD.val = false ∧ phases d kind f g ow va kv₀ = ⟨rD.ops, [], [], [], false⟩) ∨
    (isOk rD.val = true ∧ isOk rW.val = false ∧ phases d kind f g ow va kv₀ = ⟨rD.ops, rW.ops, [], [], false⟩) ∨
    (isOk rD.val = true ∧ isOk rW.val = true ∧
      phases d kind f g ow va kv₀ = ⟨rD.ops, rW.ops, rC.ops, (validateAndCleanup d kind f g va s3).ops, true⟩) := by
  intro rD s1 rW s2 rC s3
  cases h1 : isOk rD.val with
  | false => left; exact ⟨rfl, by unfold phases; simp [rD, h1]⟩
  | true =>
    right
    cases h2 : isOk rW.val with
    | false => left; exact ⟨rfl, rfl, by unfold phases; simp [rD, rW, s1, h1, h2]⟩
    | true => right; exact ⟨rfl, rfl, by unfold phases; simp [rD, rW, s1, s2, s3, rC, h1, h2]⟩

/-- **every store a single storage failure can leave behind** (`write_arrays`), including failures
inside one of zarr's concurrent batches -/
theorem writeArrays_crashSeq (d : Docs) (kind : Kind) (f : Fmt) (g : G) (ow va : Bool) (kv₀ : KV)
    (hpre : PreOK kind f ow kv₀) {T : List Op} (hT : CrashSeq (phases d kind f g ow va kv₀) T) :
    recognised f (run kv₀ T) = false ∨
      ((phases d kind f g ow va kv₀).committed = true ∧
        geffView f (run kv₀ T) = geffView f (run kv₀ ((phases d kind f g ow va kv₀).D ++
          (phases d kind f g ow va kv₀).W ++ (phases d kind f g ow va kv₀).C))) ∨
      run kv₀ T = kv₀ := by
  have hg := guard_eq d kind f ow kv₀
  -- facts about the guard phase
  have hD : ∀ T', DelState (guard d kind f ow kv₀).ops T' →
      run kv₀ T' = kv₀ ∨ nodesBroken f (run kv₀ T') := by
    intro T' hT'
    by_cases hc : checkForGeff kind kv₀ = true
    · cases ow with
      | false =>
        simp only [hc, if_true, Bool.false_eq_true, if_false] at hg
        rw [hg] at hT'; left; rw [delState_nil hT']; rfl
      | true =>
        simp only [hc, if_true] at hg
        obtain ⟨hroot, hsafe⟩ := hpre.held hc rfl
        rw [hg] at hT'
        exact deleteGeff_states d kind f kv₀ hroot hsafe hT'
    · have hc' : checkForGeff kind kv₀ = false := by simpa using hc
      simp only [hc', Bool.false_eq_true, if_false] at hg
      rw [hg] at hT'; left; rw [delState_nil hT']; rfl
  have hfull := hD _ (delState_full _)
  rcases phases_cases d kind f g ow va kv₀ with ⟨_, hP⟩ | ⟨hDok, hWok, hP⟩ | ⟨hDok, hWok, hP⟩
  · -- the guard raised: nothing else happens
    rw [hP] at hT ⊢
    have conv : ∀ {t : KV}, (t = kv₀ ∨ nodesBroken f t) → recognised f t = false ∨
        (false = true ∧ geffView f t = geffView f (run kv₀ ((guard d kind f ow kv₀).ops ++ [] ++ []))) ∨
        t = kv₀ := by
      intro t ht
      rcases ht with ht | ht
      · exact Or.inr (Or.inr ht)
      · exact Or.inl (not_recognised_of_broken ht)
    cases hT with
    | inD h => exact conv (hD _ h)
    | inW h => simp only at h; rw [sublist_nil h]; simpa using conv hfull
    | inC h => simp only at h; rw [sublist_nil h]; simpa using conv hfull
    | inX h => simp only at h; rw [delState_nil h]; simpa using conv hfull
  all_goals
    obtain ⟨u, hu⟩ := isOk_ok hDok
    -- the store after the guard has no geff attribute and nothing below nodes/
    have hs1 : geffAttrIn f (run kv₀ (guard d kind f ow kv₀).ops) = none ∧
        NoneUnder [NODES] (run kv₀ (guard d kind f ow kv₀).ops) := by
      by_cases hc : checkForGeff kind kv₀ = true
      · cases ow with
        | false => simp only [hc, if_true, Bool.false_eq_true, if_false] at hg; rw [hg] at hu; cases hu
        | true =>
          simp only [hc, if_true] at hg
          obtain ⟨hroot, _⟩ := hpre.held hc rfl
          rw [hg] at hu ⊢
          exact ⟨deleteGeff_noGeff d kind f kv₀ u hu, deleteGeff_noneUnder d kind f kv₀ hroot⟩
      · have hc' : checkForGeff kind kv₀ = false := by simpa using hc
        simp only [hc', Bool.false_eq_true, if_false] at hg
        rw [hg]; simpa [run_nil] using hpre.fresh hc'
    obtain ⟨tW, tC, tX⟩ := tail_states d kind f g va _ hs1.1 hs1.2
    rw [hP] at hT ⊢
  · -- the array phase raised
    have hWfull := tW _ (List.Sublist.refl _)
    cases hT with
    | inD h =>
      rcases hD _ h with h' | h'
      · exact Or.inr (Or.inr h')
      · exact Or.inl (not_recognised_of_broken h')
    | inW h => simp only at h ⊢; rw [run_append]; exact Or.inl (not_recognised_of_noGeff (tW _ h))
    | inC h =>
      simp only at h ⊢; rw [sublist_nil h, List.append_nil, run_append]
      exact Or.inl (not_recognised_of_noGeff hWfull)
    | inX h =>
      simp only at h ⊢; rw [delState_nil h, List.append_nil, List.append_nil, run_append]
      exact Or.inl (not_recognised_of_noGeff hWfull)
  · -- committed
    cases hT with
    | inD h =>
      rcases hD _ h with h' | h'
      · exact Or.inr (Or.inr h')
      · exact Or.inl (not_recognised_of_broken h')
    | inW h => simp only at h ⊢; rw [run_append]; exact Or.inl (not_recognised_of_noGeff (tW _ h))
    | inC h =>
      simp only at h ⊢
      rcases tC hWok _ h with h' | h'
      · left; rw [run_append, run_append]; exact not_recognised_of_noGeff h'
      · right; left; refine ⟨trivial, ?_⟩
        simp only [run_append, h']
    | inX h =>
      simp only at h ⊢
      rcases tX hWok _ h with h' | h'
      · right; left; refine ⟨trivial, ?_⟩
        simp only [run_append, h']
      · left; rw [run_append, run_append, run_append]; exact not_recognised_of_broken h'

end Geff.KV

namespace Geff.KV
open Gen.Paths Prog

theorem delState_take (L : List Op) (k : Nat) : DelState L (L.take k) := by
  cases k with
  | zero => left; simp
  | succ k =>
    cases L with
    | nil => left; simp
    | cons o r => right; exact ⟨o, r, r.take k, rfl, by simp, List.take_sublist k r⟩

/-- every prefix of the trace (a crash in program order) is one of the crash sequences -/
theorem crashSeq_take (P : Phases) (k : Nat) : CrashSeq P ((P.D ++ P.W ++ P.C ++ P.X).take k) := by
  by_cases h1 : k ≤ P.D.length
  · have : (P.D ++ P.W ++ P.C ++ P.X).take k = P.D.take k := by
      rw [List.append_assoc, List.append_assoc, List.take_append_of_le_length h1]
    rw [this]; exact CrashSeq.inD (delState_take _ k)
  · by_cases h2 : k ≤ P.D.length + P.W.length
    · have : (P.D ++ P.W ++ P.C ++ P.X).take k = P.D ++ P.W.take (k - P.D.length) := by
        rw [List.append_assoc, List.append_assoc, List.take_append, List.take_of_length_le (by omega),
          List.take_append_of_le_length (by omega)]
      rw [this]; exact CrashSeq.inW (List.take_sublist _ _)
    · by_cases h3 : k ≤ P.D.length + P.W.length + P.C.length
      · have : (P.D ++ P.W ++ P.C ++ P.X).take k = P.D ++ P.W ++ P.C.take (k - (P.D ++ P.W).length) := by
          rw [List.append_assoc (P.D ++ P.W), List.take_append, List.take_of_length_le (by simp; omega),
            List.take_append_of_le_length (by simp; omega)]
        rw [this]; exact CrashSeq.inC (List.take_sublist _ _)
      · have : (P.D ++ P.W ++ P.C ++ P.X).take k =
            P.D ++ P.W ++ P.C ++ P.X.take (k - (P.D ++ P.W ++ P.C).length) := by
          rw [List.take_append, List.take_of_length_le (by simp; omega)]
        rw [this]; exact CrashSeq.inX (delState_take _ _)

end Geff.KV
