import GeffProofs.KVSim
namespace Geff.KV
open Gen.Paths Prog

/-! ### what `delete_geff` leaves: no geff-owned key, every foreign member -/

theorem owned_iff_under (k : Key) : owned k = true ↔ (under [NODES] k = true ∨ under [EDGES] k = true) := by
  cases hp : k.path with
  | nil => simp [owned, under, hp, List.isPrefixOf]
  | cons x xs =>
    simp only [owned, under, hp, List.isPrefixOf, List.head?_cons, Option.some.injEq, Bool.or_eq_true,
      decide_eq_true_eq, Bool.and_true, beq_iff_eq]
    constructor
    · rintro (h | h) <;> simp [h]
    · rintro (h | h) <;> simp [h]

/-- foreign members are never below `nodes/` or `edges/` -/
theorem foreign_not_under {k : Key} (h : (!owned k && !isRootKey k) = true) :
    under [NODES] k = false ∧ under [EDGES] k = false := by
  have ho : owned k = false := by simp at h; exact h.1
  constructor
  · cases hu : under [NODES] k with
    | false => rfl
    | true => rw [(owned_iff_under k).2 (Or.inl hu)] at ho; cases ho
  · cases hu : under [EDGES] k with
    | false => rfl
    | true => rw [(owned_iff_under k).2 (Or.inr hu)] at ho; cases ho

theorem ownedPart_after_deleteDirs (kind : Kind) (s : KV) :
    ownedPart (run (run s (deleteDir kind [NODES] s).ops)
      (deleteDir kind [EDGES] (run s (deleteDir kind [NODES] s).ops)).ops) = [] := by
  rw [deleteDir_final, deleteDir_final]
  unfold ownedPart
  apply List.filter_eq_nil_iff.2
  intro e he
  simp only [List.mem_filter] at he
  obtain ⟨⟨_, h1⟩, h2⟩ := he
  intro ho
  rcases (owned_iff_under e.1).1 ho with h | h
  · simp [h] at h1
  · simp [h] at h2

theorem foreignPart_after_deleteDirs (kind : Kind) (s : KV) :
    foreignPart (run (run s (deleteDir kind [NODES] s).ops)
      (deleteDir kind [EDGES] (run s (deleteDir kind [NODES] s).ops)).ops) = foreignPart s := by
  rw [deleteDir_final, deleteDir_final]
  unfold foreignPart
  rw [List.filter_filter, List.filter_filter]
  apply List.filter_congr
  intro e _
  by_cases hf : (!owned e.1 && !isRootKey e.1) = true
  · obtain ⟨h1, h2⟩ := foreign_not_under hf
    simp [hf, h1, h2]
  · have : (!owned e.1 && !isRootKey e.1) = false := by simpa using hf
    simp [this]

theorem foreignPart_rootSet (s : KV) (op : Op) (h : rootSet op = true) :
    foreignPart (step s op) = foreignPart s := by
  cases op with
  | set k b =>
    have : (!owned k && !isRootKey k) = false := by
      simp [rootSet] at h; simp [isRootKey, h]
    exact filter_put_not (fun k => !owned k && !isRootKey k) s k b this
  | setnx k b => simp [rootSet] at h
  | del k => simp [rootSet] at h
  | delPrefix p => simp [rootSet] at h
  | clear => simp [rootSet] at h

theorem foreignPart_run_rootSets (T : List Op) (s : KV) (h : ∀ op ∈ T, rootSet op = true) :
    foreignPart (run s T) = foreignPart s := by
  induction T generalizing s with
  | nil => rfl
  | cons o os ih =>
    rw [run_cons, ih _ (fun op hop => h op (by simp [hop])), foreignPart_rootSet s o (h o (by simp))]

/-- classified mutations never touch a foreign member -/
theorem foreignPart_step (s : KV) (op : Op) (h : classified op = true) :
    foreignPart (step s op) = foreignPart s := by
  have hnf : ∀ k, (owned k || k.path.isEmpty) = true → (!owned k && !isRootKey k) = false := by
    intro k hk
    cases ho : owned k <;> simp [ho, isRootKey] at hk ⊢; exact hk
  cases op with
  | set k b => exact filter_put_not (fun k => !owned k && !isRootKey k) s k b (hnf k h)
  | setnx k b =>
    simp only [step]; split
    · rfl
    · exact filter_put_not (fun k => !owned k && !isRootKey k) s k b (hnf k h)
  | del k =>
    have ho : owned k = true := h
    unfold foreignPart
    simp only [step, erase, List.filter_filter]
    apply List.filter_congr
    intro e _
    by_cases hk : e.1 = k
    · simp [hk, ho]
    · simp [hk]
  | delPrefix p =>
    have hp : geffTop p = true := h
    unfold foreignPart
    simp only [step, List.filter_filter]
    apply List.filter_congr
    intro e _
    by_cases hu : under p e.1 = true
    · have := owned_of_under hp hu
      simp [hu, this]
    · have : under p e.1 = false := by simpa using hu
      simp [this]
  | clear => simp [classified] at h

theorem foreignPart_run (T : List Op) (s : KV) (h : ∀ op ∈ T, classified op = true) :
    foreignPart (run s T) = foreignPart s := by
  induction T generalizing s with
  | nil => rfl
  | cons o os ih =>
    rw [run_cons, ih _ (fun op hop => h op (by simp [hop])), foreignPart_step s o (h o (by simp))]

end Geff.KV
