import GeffModel.KV
open Geff.KV Geff.KV.Prog Gen.Paths

namespace Geff.KV

/-! ### store lemmas -/
@[simp] theorem get_nil (k : Key) : get [] k = none := rfl

theorem get_put_same (kv : KV) (k : Key) (b : Blob) : get (put kv k b) k = some b := by
  induction kv with
  | nil => simp [put, get]
  | cons e r ih =>
    obtain ⟨k', b'⟩ := e
    by_cases h : k' = k <;> simp [put, get, h, ih]

theorem get_put_ne (kv : KV) {k k' : Key} (b : Blob) (h : k' ≠ k) : get (put kv k b) k' = get kv k' := by
  induction kv with
  | nil => simp [put, get, Ne.symm h]
  | cons e r ih =>
    obtain ⟨k₀, b₀⟩ := e
    by_cases h0 : k₀ = k
    · subst h0; simp [put, get, Ne.symm h]
    · by_cases h1 : k₀ = k'
      · subst h1; simp [put, get, h0]
      · simp [put, get, h0, h1, ih]

theorem get_filter (kv : KV) (p : Key → Bool) (k : Key) :
    get (kv.filter (fun e => p e.1)) k = if p k then get kv k else none := by
  induction kv with
  | nil => simp
  | cons e r ih =>
    obtain ⟨k₀, b₀⟩ := e
    by_cases hp : p k₀
    · by_cases hk : k₀ = k
      · subst hk; simp [List.filter, hp, get]
      · simp [List.filter, hp, get, hk, ih]
    · by_cases hk : k₀ = k
      · subst hk; simp [List.filter, hp, get, ih]
      · simp [List.filter, hp, get, hk, ih]

theorem get_erase_same (kv : KV) (k : Key) : get (erase kv k) k = none := by
  have := get_filter kv (fun x => decide (x ≠ k)) k
  simpa [erase] using this

theorem get_erase_ne (kv : KV) {k k' : Key} (h : k' ≠ k) : get (erase kv k) k' = get kv k' := by
  have := get_filter kv (fun x => decide (x ≠ k)) k'
  simpa [erase, h] using this

end Geff.KV
