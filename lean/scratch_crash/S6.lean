import GeffProofs.KV
namespace Geff.KV
open Gen.Paths Prog

theorem dataOp_noGeff (f : Fmt) (prot : Option Key) (op : Op) (h : dataOp f prot op = true) :
    noGeffOp op = true := by
  cases op with
  | set k b =>
    cases b with
    | raw _ => rfl
    | root g o => cases g with
      | none => rfl
      | some _ => simp [dataOp, isRaw, blobNoGeff] at h
  | setnx k b =>
    cases b with
    | raw _ => rfl
    | root g o => cases g with
      | none => rfl
      | some _ => simp [dataOp, isRaw, blobNoGeff] at h
  | del k => rfl
  | delPrefix p => rfl
  | clear => rfl

/-- the metadata write: all mutations but the last leave the geff attribute alone -/
theorem metadataWrite_shape (d : Docs) (geff : String) (kv : KV) :
    ∃ pre c, (metadataWrite d geff kv).ops = pre ++ [c] ∧ (∀ op ∈ pre, noGeffOp op = true) ∧
      (metadataWrite d geff kv).val = .ok () := by
  unfold metadataWrite
  simp only [bind_def, ops_bind, val_bind, ops_look, val_look, run_nil, List.nil_append]
  cases rootGroupFmt kv with
  | none => exact ⟨[], _, rfl, by simp, rfl⟩
  | some f' =>
    cases f' with
    | v2 => exact ⟨[.set ⟨[], .zgroup⟩ (.raw d.zgroup)], _, rfl, by simp [noGeffOp, blobNoGeff], rfl⟩
    | v3 => exact ⟨[], _, rfl, by simp, rfl⟩

theorem crash_noGeff (f : Fmt) (ops : List Op) (s : KV) (h : geffAttrIn f s = none)
    (hall : ∀ op ∈ ops, noGeffOp op = true) : Crash s ops (fun t => geffAttrIn f t = none) :=
  Crash.of_inv (I := fun t => geffAttrIn f t = none) (A := noGeffOp)
    (fun t op ht ho => geffAttrIn_step_none f t op ht ho) ops s h hall

/-- **write phase**: started without a geff attribute, every crash point of the body of
`write_arrays` has no geff attribute, except after its very last mutation (the commit) -/
theorem writeBody_crash (d : Docs) (kind : Kind) (f : Fmt) (g : G) (s : KV)
    (h : geffAttrIn f s = none) :
    Crash s (writeBody d kind f g s).ops
      (fun t => geffAttrIn f t = none ∨
        ((writeBody d kind f g s).val = .ok () ∧ t = run s (writeBody d kind f g s).ops)) := by
  have hW := All.writeData_dataOp d kind f g s
  have hW' : ∀ op ∈ (writeData d kind f g s).ops, noGeffOp op = true :=
    fun op hop => dataOp_noGeff f none op (hW op hop)
  unfold writeBody
  simp only [bind_def, ops_bind, val_bind]
  cases hv : (writeData d kind f g s).val with
  | error e =>
    simp only [List.append_nil]
    exact (crash_noGeff f _ s h hW').mono (fun t ht => Or.inl ht)
  | ok u =>
    simp only
    obtain ⟨pre, c, hops, hpre, hval⟩ := metadataWrite_shape d g.geff (run s (writeData d kind f g s).ops)
    rw [hops, hval]
    have h1 := crash_noGeff f _ s h hW'
    apply Crash.append (h1.mono (fun t ht => Or.inl ht))
    have h2 := crash_noGeff f pre _ h1.final hpre
    apply Crash.append (h2.mono (fun t ht => Or.inl ht))
    refine Crash.cons (P := fun t => geffAttrIn f t = none ∨ Except.ok () = Except.ok () ∧
        t = run s ((writeData d kind f g s).ops ++ (pre ++ [c]))) (Or.inl h2.final) ?_
    apply Crash.nil
    right
    refine ⟨rfl, ?_⟩
    simp [run_append, run_cons, run_nil]

end Geff.KV
