import GeffModel.KV
open Geff.KV Geff.KV.Prog Gen.Paths

namespace T
def All {α} (A : Op → Prop) (p : Prog α) : Prop := ∀ kv, ∀ op ∈ (p kv).ops, A op

theorem ops_bind {α β} (p : Prog α) (f : α → Prog β) (kv : KV) :
    (Prog.bind p f kv).ops = (p kv).ops ++
      (match (p kv).val with | .ok a => (f a (run kv (p kv).ops)).ops | .error _ => []) := by
  unfold Prog.bind
  rcases h : p kv with ⟨ops, v⟩
  cases v with
  | error e => simp
  | ok a => simp

theorem All.bind {α β} {A} {p : Prog α} {f : α → Prog β} (hp : All A p) (hf : ∀ a, All A (f a)) :
    All A (p >>= f) := by
  intro kv op hop
  change op ∈ (Prog.bind p f kv).ops at hop
  rw [ops_bind] at hop
  rcases List.mem_append.1 hop with h | h
  · exact hp kv op h
  · split at h
    · exact hf _ _ op h
    · simp at h

example (d k f p a) : All (fun _ => True) (createArray d k f p a) := by
  unfold createArray
  trace_state
  sorry
end T
