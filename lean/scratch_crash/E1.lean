import GeffProps.C05
open Geff.KV GeffProps.C05
#eval (writeArrays exDocs .mem .v2 (exG "B" false) true true exOld).ops.length
#eval exOld.length
