import GeffProofs.KV
namespace Geff.KV
open Gen.Paths Prog

/-! ### delete phase -/

/-- `nodes` is not a readable group with an `ids` array -/
def nodesBroken (f : Fmt) (s : KV) : Prop :=
  has s (groupKey f [NODES]) = false ∨ has s (arrayKey f [NODES, IDS]) = false

theorem not_recognised_of_broken {f : Fmt} {s : KV} (h : nodesBroken f s) : recognised f s = false := by
  rcases h with h | h <;> simp [recognised, h]

theorem not_recognised_of_noGeff {f : Fmt} {s : KV} (h : geffAttrIn f s = none) :
    recognised f s = false := by
  simp [recognised, h]

/-- the mutation creates no key below the root group's own documents -/
def rootOnlySets : Op → Bool
  | .set k _ => k.path.isEmpty
  | .setnx k _ => k.path.isEmpty
  | _ => true

theorem has_step_false {s : KV} {op : Op} {K : Key} (hK : K.path ≠ []) (h : has s K = false)
    (ho : rootOnlySets op = true) : has (step s op) K = false := by
  unfold has at h ⊢
  rw [get_step]
  cases op with
  | set k b =>
    have : K ≠ k := by
      intro hk; subst hk; simp [rootOnlySets] at ho; exact hK ho
    simpa [this] using h
  | setnx k b =>
    have : K ≠ k := by
      intro hk; subst hk; simp [rootOnlySets] at ho; exact hK ho
    simpa [this] using h
  | del k => by_cases hk : K = k <;> simp [hk]; simpa [hk] using h
  | delPrefix p => by_cases hk : under p K <;> simp [hk]; simpa using h
  | clear => simp

theorem nodesBroken_step {f : Fmt} {s : KV} {op : Op} (h : nodesBroken f s)
    (ho : rootOnlySets op = true) : nodesBroken f (step s op) := by
  rcases h with h | h
  · left; exact has_step_false (by cases f <;> simp [groupKey]) h ho
  · right; exact has_step_false (by cases f <;> simp [arrayKey]) h ho

def keysUnder (p : List String) (kv : KV) : List Key :=
  (kv.filter (fun e => under p e.1)).map (·.1)

/-- **assumption on the store being deleted from (MemoryStore-like kinds)**: the first key of
`nodes/` in store order is the metadata document of the `nodes` group or of the `nodes/ids` array.
`delete_dir` removes keys in store order, so this is what makes a half-deleted geff unreadable. -/
def DeleteSafe (f : Fmt) (kv : KV) : Prop :=
  ∀ k, (keysUnder [NODES] kv).head? = some k → (k = groupKey f [NODES] ∨ k = arrayKey f [NODES, IDS])

theorem get_run_dels (ks : List Key) (s : KV) (k : Key) :
    get (run s (ks.map Op.del)) k = if k ∈ ks then none else get s k := by
  induction ks generalizing s with
  | nil => simp [run_nil]
  | cons k0 rest ih =>
    simp only [List.map_cons, run_cons, ih, step]
    by_cases h1 : k ∈ rest
    · simp [h1]
    · by_cases h0 : k = k0
      · subst h0; simp [get_erase_same]
      · simp [h1, h0, get_erase_ne s h0]

theorem mem_keysUnder {p : List String} {kv : KV} {k : Key} :
    k ∈ keysUnder p kv ↔ under p k = true ∧ ∃ b, (k, b) ∈ kv := by
  simp only [keysUnder, List.mem_map, List.mem_filter]
  constructor
  · rintro ⟨⟨k', b⟩, ⟨hm, hu⟩, rfl⟩; exact ⟨hu, b, hm⟩
  · rintro ⟨hu, b, hm⟩; exact ⟨(k, b), ⟨hm, hu⟩, rfl⟩

theorem deleteDir_mem_ops (p : List String) (s : KV) :
    (deleteDir .mem p s).ops = (keysUnder p s).map Op.del := by
  simp [deleteDir, bind_def, ops_bind, keysUnder, List.map_map, Function.comp_def]

theorem deleteDir_val (kind : Kind) (p : List String) (s : KV) : (deleteDir kind p s).val = .ok () := by
  cases kind <;> simp only [deleteDir, bind_def, val_bind, val_look, ops_look, run_nil, val_emit]
  all_goals split <;> rfl

theorem deleteDir_get (kind : Kind) (p : List String) (s : KV) (k : Key) :
    get (run s (deleteDir kind p s).ops) k = if under p k then none else get s k := by
  have hnone : under p k = true → k ∉ keysUnder p s → get s k = none := by
    intro hu hk
    apply get_eq_none_of_not_mem
    intro e he hek
    apply hk
    exact mem_keysUnder.2 ⟨hu, e.2, by rw [← hek]; exact he⟩
  cases kind with
  | mem =>
    rw [deleteDir_mem_ops, get_run_dels]
    by_cases hu : under p k = true
    · by_cases hk : k ∈ keysUnder p s
      · simp [hk, hu]
      · simp [hk, hu, hnone hu hk]
    · have : k ∉ keysUnder p s := fun hk => hu (mem_keysUnder.1 hk).1
      simp [this, hu]
  | loc =>
    simp only [deleteDir, bind_def, ops_bind, ops_look, val_look, run_nil, List.nil_append]
    by_cases ha : (s.any fun e => under p e.1) = true
    · simp only [ha, if_true, ops_emit, run_cons, run_nil, get_step]
    · simp only [ha]
      by_cases hu : under p k = true
      · simp only [hu, if_true]
        apply hnone hu
        intro hk
        obtain ⟨_, b, hb⟩ := mem_keysUnder.1 hk
        exact ha (List.any_eq_true.2 ⟨(k, b), hb, hu⟩)
      · simp [hu, run_nil]
  | path =>
    simp only [deleteDir, bind_def, ops_bind, ops_look, val_look, run_nil, List.nil_append]
    by_cases ha : (s.any fun e => under p e.1) = true
    · simp only [ha, if_true, ops_emit, run_cons, run_nil, get_step]
    · simp only [ha]
      by_cases hu : under p k = true
      · simp only [hu, if_true]
        apply hnone hu
        intro hk
        obtain ⟨_, b, hb⟩ := mem_keysUnder.1 hk
        exact ha (List.any_eq_true.2 ⟨(k, b), hb, hu⟩)
      · simp [hu, run_nil]

end Geff.KV

namespace Geff.KV
open Gen.Paths Prog

theorem All.deleteDir_rootOnly (kind : Kind) (p : List String) : All rootOnlySets (deleteDir kind p) := by
  unfold deleteDir
  apply All.bind All.look; intro kv
  cases kind with
  | mem => apply All.emit; intro op hop; simp only [List.mem_map] at hop; obtain ⟨e, _, rfl⟩ := hop; rfl
  | loc => simp only; split
           · apply All.emit; intro op hop; simp at hop; subst hop; rfl
           · exact All.pure ()
  | path => simp only; split
            · apply All.emit; intro op hop; simp at hop; subst hop; rfl
            · exact All.pure ()

theorem rootMetaOps_rootOnly (d : Docs) (f : Fmt) (doc : Blob) :
    ∀ op ∈ rootMetaOps d f doc, rootOnlySets op = true := by
  intro op hop
  cases f <;> simp [rootMetaOps] at hop
  · rcases hop with rfl | rfl <;> rfl
  · subst hop; rfl

theorem All.delGeffAttr_rootOnly (d : Docs) (f : Fmt) : All rootOnlySets (delGeffAttr d f) := by
  unfold delGeffAttr
  apply All.bind All.look; intro kv
  split
  · exact All.emit (rootMetaOps_rootOnly d f _)
  · exact All.raise _

theorem All.deleteRoot_rootOnly (d : Docs) (kind : Kind) (f : Fmt) : All rootOnlySets (deleteRoot d kind f) := by
  unfold deleteRoot
  apply All.bind All.look; intro kv
  split
  · cases kind with
    | path => apply All.emit; intro op hop; simp at hop; subst hop; rfl
    | mem => exact All.delGeffAttr_rootOnly d f
    | loc => exact All.delGeffAttr_rootOnly d f
  · exact All.delGeffAttr_rootOnly d f

theorem crash_broken (f : Fmt) (ops : List Op) (s : KV) (h : nodesBroken f s)
    (hall : ∀ op ∈ ops, rootOnlySets op = true) : Crash s ops (nodesBroken f) :=
  Crash.of_inv (I := nodesBroken f) (A := rootOnlySets)
    (fun _ _ ht ho => nodesBroken_step ht ho) ops s h hall

/-- after `delete_dir(nodes)` the `nodes` group is gone -/
theorem deleteDir_nodes_final (f : Fmt) (kind : Kind) (s : KV) :
    nodesBroken f (run s (deleteDir kind [NODES] s).ops) := by
  left
  unfold has
  rw [deleteDir_get]
  have : under [NODES] (groupKey f [NODES]) = true := by cases f <;> simp [under, groupKey]
  simp [this]

/-- **crash points of `del root["nodes"]`**: the store is untouched or `nodes` is already unreadable -/
theorem deleteDir_nodes_crash (f : Fmt) (kind : Kind) (s : KV) (hsafe : kind = .mem → DeleteSafe f s) :
    Crash s (deleteDir kind [NODES] s).ops (fun t => t = s ∨ nodesBroken f t) := by
  have hro := All.deleteDir_rootOnly kind [NODES] s
  cases hops : (deleteDir kind [NODES] s).ops with
  | nil => exact Crash.nil (Or.inl rfl)
  | cons o os =>
    rw [hops] at hro
    refine Crash.cons (P := fun t => t = s ∨ nodesBroken f t) (Or.inl rfl) ?_
    have hb : nodesBroken f (step s o) := by
      cases kind with
      | mem =>
        rw [deleteDir_mem_ops] at hops
        cases hk : keysUnder [NODES] s with
        | nil => simp [hk] at hops
        | cons k1 rest =>
          rw [hk] at hops
          simp only [List.map_cons, List.cons.injEq] at hops
          obtain ⟨rfl, _⟩ := hops
          have := hsafe rfl k1 (by simp [hk])
          rcases this with rfl | rfl
          · left; simp [has, step, get_erase_same]
          · right; simp [has, step, get_erase_same]
      | loc =>
        have h1 := deleteDir_nodes_final f .loc s
        simp only [deleteDir, bind_def, ops_bind, ops_look, val_look, run_nil, List.nil_append] at hops h1
        split at hops
        · simp at hops; obtain ⟨rfl, rfl⟩ := hops
          simpa [*, run_cons, run_nil] using h1
        · simp at hops
      | path =>
        have h1 := deleteDir_nodes_final f .path s
        simp only [deleteDir, bind_def, ops_bind, ops_look, val_look, run_nil, List.nil_append] at hops h1
        split at hops
        · simp at hops; obtain ⟨rfl, rfl⟩ := hops
          simpa [*, run_cons, run_nil] using h1
        · simp at hops
    exact (crash_broken f os _ hb (fun op hop => hro op (by simp [hop]))).mono (fun t ht => Or.inr ht)

theorem setup_noop (d : Docs) (f : Fmt) (s : KV) (h : has s (groupKey f []) = true) :
    (setupZarrGroup d f s).ops = [] ∧ (setupZarrGroup d f s).val = .ok () := by
  simp [setupZarrGroup, bind_def, ops_bind, val_bind, h]

/-- **delete phase** (`delete_geff` on a store whose root group exists in format `f`): at every
crash point the store is untouched or `nodes` is unreadable -/
theorem deleteGeff_crash (d : Docs) (kind : Kind) (f : Fmt) (s : KV)
    (hroot : has s (groupKey f []) = true) (hsafe : kind = .mem → DeleteSafe f s) :
    Crash s (deleteGeff d kind f s).ops (fun t => t = s ∨ nodesBroken f t) := by
  obtain ⟨hs1, hs2⟩ := setup_noop d f s hroot
  unfold deleteGeff
  simp only [bind_def, ops_bind, val_bind, hs1, hs2, run_nil, List.nil_append, deleteDir_val]
  apply Crash.append (deleteDir_nodes_crash f kind s hsafe)
  have hb := deleteDir_nodes_final f kind s
  have hE := All.deleteDir_rootOnly kind [EDGES] (run s (deleteDir kind [NODES] s).ops)
  have c1 := crash_broken f _ _ hb hE
  apply Crash.append (c1.mono (fun t ht => Or.inr ht))
  have hR := All.deleteRoot_rootOnly d kind f
    (run (run s (deleteDir kind [NODES] s).ops) (deleteDir kind [EDGES] (run s (deleteDir kind [NODES] s).ops)).ops)
  exact (crash_broken f _ _ c1.final hR).mono (fun t ht => Or.inr ht)

end Geff.KV
