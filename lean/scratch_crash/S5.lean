import GeffProofs.KV
namespace Geff.KV
open Gen.Paths Prog

def blobNoGeff : Blob → Bool
  | .root (some _) _ => false
  | _ => true

def isRaw : Blob → Bool
  | .raw _ => true
  | _ => false

/-- is the leaf a metadata document of format `f` -/
def fmtLeaf : Fmt → Leaf → Bool
  | .v2, .zgroup => true
  | .v2, .zattrs => true
  | .v3, .json => true
  | _, _ => false

def geffTop (p : List String) : Bool := p.head? = some NODES || p.head? = some EDGES

/-- does the mutation leave the (optional) protected key alone -/
def keepsKey (prot : Option Key) : Op → Bool
  | .del k => prot ≠ some k
  | .delPrefix p => match prot with | some k1 => !under p k1 | none => true
  | .clear => false
  | _ => true

/-- syntactic over-approximation of the mutations of the data phase of a write in format `f` -/
def dataOp (f : Fmt) (prot : Option Key) (op : Op) : Bool :=
  (match op with
   | .set k b => (owned k && isRaw b) || (k.path.isEmpty && blobNoGeff b && fmtLeaf f k.leaf)
   | .setnx k b => (owned k && isRaw b) || (k.path.isEmpty && blobNoGeff b && fmtLeaf f k.leaf)
   | .del k => owned k && decide (2 ≤ k.path.length)
   | .delPrefix p => geffTop p && decide (2 ≤ p.length)
   | .clear => false) && keepsKey prot op

theorem owned_of_top {p : List String} {l : Leaf} (h : geffTop p = true) : owned ⟨p, l⟩ = true := h

theorem groupDocs_spec (d : Docs) (f : Fmt) (q : List String) :
    ∀ e ∈ groupDocs d f q,
      (q = [] ∧ e.1.path = [] ∧ blobNoGeff e.2 = true ∧ fmtLeaf f e.1.leaf = true) ∨
      (q ≠ [] ∧ e.1.path = q ∧ isRaw e.2 = true) := by
  intro e he
  cases f <;> cases q <;> simp only [groupDocs, List.mem_cons, List.not_mem_nil, or_false] at he
  · rcases he with he | he <;> subst he <;> simp [blobNoGeff, fmtLeaf]
  · rcases he with he | he <;> subst he <;> simp [isRaw]
  · subst he; simp [blobNoGeff, fmtLeaf]
  · subst he; simp [isRaw]

theorem take_top {p : List String} (h : geffTop p = true) (i : Nat) (hi : p.take i ≠ []) :
    geffTop (p.take i) = true := by
  cases p with
  | nil => simp at hi
  | cons x xs =>
    cases i with
    | zero => simp at hi
    | succ i => simpa [geffTop] using h

theorem ancestorsNx_dataOp (d : Docs) (f : Fmt) (prot : Option Key) {p : List String}
    (h : geffTop p = true) : ∀ op ∈ ancestorsNx d f p, dataOp f prot op = true := by
  intro op hop
  simp only [ancestorsNx, List.mem_flatMap, List.mem_map] at hop
  obtain ⟨q, hq, e, he, rfl⟩ := hop
  have hq' : ∃ i, q = p.take i := by
    cases p with
    | nil => simp [ancestors] at hq
    | cons x xs =>
      simp only [ancestors, List.mem_map, List.mem_range] at hq
      obtain ⟨i, _, rfl⟩ := hq
      exact ⟨i, rfl⟩
  obtain ⟨i, rfl⟩ := hq'
  rcases groupDocs_spec d f _ e he with ⟨_, h2, h3, h4⟩ | ⟨h1, h2, h3⟩
  · simp [dataOp, keepsKey, h2, h3, h4]
  · have := take_top h i h1
    have ho : owned e.1 = true := by
      obtain ⟨⟨pp, ll⟩, bb⟩ := e
      simp at h2; subst h2; exact this
    simp [dataOp, keepsKey, ho, h3]

end Geff.KV

namespace Geff.KV
open Gen.Paths Prog

theorem under_prefix {p : List String} {k : Key} (h : under p k = true) : p <+: k.path := by
  simpa [under, List.isPrefixOf_iff_prefix] using h

theorem owned_of_under {p : List String} {k : Key} (hp : geffTop p = true) (h : under p k = true) :
    owned k = true := by
  obtain ⟨t, ht⟩ := under_prefix h
  cases p with
  | nil => simp [geffTop] at hp
  | cons x xs =>
    have : k.path.head? = some x := by rw [← ht]; simp
    simpa [owned, this, geffTop] using hp

theorem len_of_under {p : List String} {k : Key} (h : under p k = true) : p.length ≤ k.path.length :=
  (under_prefix h).length_le

/-- hypothesis shared by the per-array lemmas: `p` is a geff path of depth ≥ 2 not containing the
protected key -/
structure PathOk (prot : Option Key) (p : List String) : Prop where
  top : geffTop p = true
  len : 2 ≤ p.length
  prot : ∀ k1, prot = some k1 → under p k1 = false

theorem del_dataOp (f : Fmt) {prot : Option Key} {p : List String} (hp : PathOk prot p) {k : Key}
    (h : under p k = true) : dataOp f prot (.del k) = true := by
  have h1 := owned_of_under hp.top h
  have h2 := len_of_under h
  have h3 : prot ≠ some k := by
    intro hh; have := hp.prot k hh; simp [h] at this
  have : 2 ≤ k.path.length := by have := hp.len; omega
  simp [dataOp, keepsKey, h1, this, h3]

theorem delPrefix_dataOp (f : Fmt) {prot : Option Key} {p : List String} (hp : PathOk prot p) :
    dataOp f prot (.delPrefix p) = true := by
  have : keepsKey prot (.delPrefix p) = true := by
    cases prot with
    | none => rfl
    | some k1 => simp [keepsKey, hp.prot k1 rfl]
  simp [dataOp, hp.top, hp.len, this]

theorem All.deleteDir_dataOp (f : Fmt) (kind : Kind) {prot : Option Key} {p : List String}
    (hp : PathOk prot p) : All (dataOp f prot) (deleteDir kind p) := by
  unfold deleteDir
  apply All.bind All.look
  intro kv
  cases kind with
  | mem =>
    apply All.emit
    intro op hop
    simp only [List.mem_map, List.mem_filter] at hop
    obtain ⟨e, ⟨_, he⟩, rfl⟩ := hop
    exact del_dataOp f hp he
  | loc =>
    simp only
    split
    · apply All.emit; intro op hop; simp at hop; subst hop; exact delPrefix_dataOp f hp
    · exact All.pure ()
  | path =>
    simp only
    split
    · apply All.emit; intro op hop; simp at hop; subst hop; exact delPrefix_dataOp f hp
    · exact All.pure ()

theorem All.setup_dataOp (d : Docs) (f : Fmt) (prot : Option Key) :
    All (dataOp f prot) (setupZarrGroup d f) := by
  unfold setupZarrGroup
  apply All.bind All.look
  intro kv
  split
  · exact All.pure ()
  · apply All.emit
    intro op hop
    simp only [List.mem_map] at hop
    obtain ⟨e, he, rfl⟩ := hop
    rcases groupDocs_spec d f [] e he with ⟨_, h2, h3, h4⟩ | ⟨h1, _, _⟩
    · simp [dataOp, keepsKey, h2, h3, h4]
    · exact absurd rfl h1

theorem All.createArray_dataOp (d : Docs) (kind : Kind) (f : Fmt) {prot : Option Key} {p : List String}
    (hp : PathOk prot p) (a : Arr) :
    All (dataOp f prot) (createArray d kind f p a) := by
  unfold createArray
  split
  · exact All.raise _
  · apply All.bind (All.deleteDir_dataOp f kind hp); intro _
    have ho : ∀ l, owned ⟨p, l⟩ = true := fun l => owned_of_top hp.top
    apply All.bind
    · apply All.emit
      intro op hop
      cases f <;> simp at hop
      · rcases hop with rfl | rfl <;> simp [dataOp, keepsKey, ho, isRaw]
      · subst hop; simp [dataOp, keepsKey, ho, isRaw]
    intro _
    apply All.bind (All.emit (ancestorsNx_dataOp d f prot hp.top)); intro _
    apply All.emit
    intro op hop
    simp only [List.mem_map] at hop
    obtain ⟨c, _, rfl⟩ := hop
    cases c.2 with
    | some b => simp [dataOp, keepsKey, ho, isRaw]
    | none =>
      have : under p ⟨p, Leaf.chunk c.1⟩ = true := by simp [under]
      exact del_dataOp f hp this
end Geff.KV

namespace Geff.KV
open Gen.Paths Prog

theorem All.createGroup_dataOp (d : Docs) (f : Fmt) (prot : Option Key) {p : List String}
    (hp : geffTop p = true) (ex : Bool) : All (dataOp f prot) (createGroup d f p ex) := by
  unfold createGroup
  apply All.bind All.look; intro kv
  split
  · split
    · exact All.raise _
    · exact All.pure ()
  · apply All.bind
    · apply All.emit
      intro op hop
      simp only [List.mem_map] at hop
      obtain ⟨e, he, rfl⟩ := hop
      rcases groupDocs_spec d f p e he with ⟨h1, _, _, _⟩ | ⟨_, h2, h3⟩
      · subst h1; simp [geffTop] at hp
      · have ho : owned e.1 = true := by
          obtain ⟨⟨pp, ll⟩, bb⟩ := e
          simp at h2; subst h2; exact hp
        simp [dataOp, keepsKey, ho, h3]
    intro _
    exact All.emit (ancestorsNx_dataOp d f prot hp)

/-- the protected key, if any, is the metadata document of `nodes/ids` -/
def ProtOk (prot : Option Key) : Prop := prot = none ∨ ∃ l, prot = some ⟨[NODES, IDS], l⟩

theorem nodes_ne_edges : NODES ≠ EDGES := by decide
theorem ids_ne_props : IDS ≠ PROPS := by decide

theorem pathOk_prop {prot : Option Key} (hprot : ProtOk prot) {grp : String}
    (hg : grp = NODES ∨ grp = EDGES) (n x : String) : PathOk prot [grp, PROPS, n, x] := by
  refine ⟨?_, by simp, ?_⟩
  · rcases hg with rfl | rfl <;> simp [geffTop]
  · intro k1 hk
    rcases hprot with h | ⟨l, h⟩
    · simp [h] at hk
    · rw [h] at hk; cases hk
      simp [under, List.isPrefixOf]

theorem pathOk_edgeIds {prot : Option Key} (hprot : ProtOk prot) : PathOk prot [EDGES, IDS] := by
  refine ⟨by simp [geffTop], by simp, ?_⟩
  intro k1 hk
  rcases hprot with h | ⟨l, h⟩
  · simp [h] at hk
  · rw [h] at hk; cases hk
    have := nodes_ne_edges
    simp [under, List.isPrefixOf, Ne.symm this]

theorem pathOk_nodeIds : PathOk none [NODES, IDS] :=
  ⟨by simp [geffTop], by simp, by intro k1 hk; simp at hk⟩

theorem All.createOptArray_dataOp (d : Docs) (kind : Kind) (f : Fmt) {prot : Option Key}
    {p : List String} (hp : PathOk prot p) (a : Option Arr) :
    All (dataOp f prot) (createOptArray d kind f p a) := by
  cases a with
  | none => exact All.pure ()
  | some a => exact All.createArray_dataOp d kind f hp a

theorem All.writeProp_dataOp (d : Docs) (kind : Kind) (f : Fmt) {prot : Option Key}
    (hprot : ProtOk prot) {grp : String} (hg : grp = NODES ∨ grp = EDGES) (p : PropA) :
    All (dataOp f prot) (writeProp d kind f grp p) := by
  unfold writeProp
  have htop : ∀ l : List String, geffTop (grp :: l) = true := by
    intro l; rcases hg with rfl | rfl <;> simp [geffTop]
  split
  · exact All.raise _
  · apply All.bind (All.createGroup_dataOp d f prot (htop _) true); intro _
    apply All.bind (All.createArray_dataOp d kind f (pathOk_prop hprot hg _ _) _); intro _
    apply All.bind (All.createOptArray_dataOp d kind f (pathOk_prop hprot hg _ _) _); intro _
    exact All.createOptArray_dataOp d kind f (pathOk_prop hprot hg _ _) _

theorem All.writePropsArrays_dataOp (d : Docs) (kind : Kind) (f : Fmt) {prot : Option Key}
    (hprot : ProtOk prot) {grp : String} (hg : grp = NODES ∨ grp = EDGES) (ps : List PropA) :
    All (dataOp f prot) (writePropsArrays d kind f grp ps) := by
  unfold writePropsArrays
  have htop : ∀ l : List String, geffTop (grp :: l) = true := by
    intro l; rcases hg with rfl | rfl <;> simp [geffTop]
  apply All.bind (All.setup_dataOp d f prot); intro _
  apply All.bind (All.createGroup_dataOp d f prot (htop _) false); intro _
  exact All.forEach (fun p => All.writeProp_dataOp d kind f hprot hg p) ps

theorem All.writeOptProps_dataOp (d : Docs) (kind : Kind) (f : Fmt) {prot : Option Key}
    (hprot : ProtOk prot) {grp : String} (hg : grp = NODES ∨ grp = EDGES) (ps : Option (List PropA)) :
    All (dataOp f prot) (writeOptProps d kind f grp ps) := by
  cases ps with
  | none => exact All.pure ()
  | some ps => exact All.writePropsArrays_dataOp d kind f hprot hg ps

theorem All.writeIdArrays_dataOp (d : Docs) (kind : Kind) (f : Fmt) (g : G) :
    All (dataOp f none) (writeIdArrays d kind f g) := by
  unfold writeIdArrays
  split
  · exact All.raise _
  · apply All.bind (All.setup_dataOp d f none); intro _
    apply All.bind (All.createArray_dataOp d kind f pathOk_nodeIds _); intro _
    exact All.createArray_dataOp d kind f (pathOk_edgeIds (Or.inl rfl)) _

theorem All.writeData_dataOp (d : Docs) (kind : Kind) (f : Fmt) (g : G) :
    All (dataOp f none) (writeData d kind f g) := by
  unfold writeData
  apply All.bind (All.writeIdArrays_dataOp d kind f g); intro _
  apply All.bind (All.writeOptProps_dataOp d kind f (Or.inl rfl) (Or.inl rfl) _); intro _
  exact All.writeOptProps_dataOp d kind f (Or.inl rfl) (Or.inr rfl) _
end Geff.KV
