import GeffProofs.KV
namespace Geff.KV
open Gen.Paths Prog

/-! ### the geff attribute is written last -/

def blobNoGeff : Blob → Bool
  | .root (some _) _ => false
  | _ => true

/-- the mutation does not store a root attribute document with a `geff` entry -/
def noGeffOp : Op → Bool
  | .set _ b => blobNoGeff b
  | .setnx _ b => blobNoGeff b
  | _ => true

theorem geffAttrIn_step_none (f : Fmt) (s : KV) (op : Op) (h : geffAttrIn f s = none)
    (ho : noGeffOp op = true) : geffAttrIn f (step s op) = none := by
  unfold geffAttrIn at h ⊢
  rw [get_step]
  cases op with
  | set k b =>
    simp only
    split_ifs with hk
    · cases b with
      | raw _ => rfl
      | root g o => cases g with
        | none => rfl
        | some _ => simp [noGeffOp, blobNoGeff] at ho
    · exact h
  | setnx k b =>
    simp only
    split_ifs with hk hh
    · exact h
    · cases b with
      | raw _ => rfl
      | root g o => cases g with
        | none => rfl
        | some _ => simp [noGeffOp, blobNoGeff] at ho
    · exact h
  | del k => simp only; split_ifs <;> first | rfl | exact h
  | delPrefix p => simp only; split_ifs <;> first | rfl | exact h
  | clear => rfl

end Geff.KV
