import GeffProofs.KV
namespace Geff.KV
open Gen.Paths Prog

def blobNoGeff : Blob → Bool
  | .root (some _) _ => false
  | _ => true

def noGeffOp : Op → Bool
  | .set _ b => blobNoGeff b
  | .setnx _ b => blobNoGeff b
  | _ => true

theorem geffOf_noGeff (b : Blob) (h : blobNoGeff b = true) :
    (match some b with | some (Blob.root g _) => g | _ => none) = none := by
  cases b with
  | raw _ => rfl
  | root g o => cases g with
    | none => rfl
    | some _ => simp [blobNoGeff] at h

theorem geffAttrIn_step_none (f : Fmt) (s : KV) (op : Op) (h : geffAttrIn f s = none)
    (ho : noGeffOp op = true) : geffAttrIn f (step s op) = none := by
  unfold geffAttrIn at h ⊢
  rw [get_step]
  cases op with
  | set k b =>
    by_cases hk : rootDocKey f = k
    · simp only [hk, if_true]; exact geffOf_noGeff b ho
    · simp only [hk, if_false]; exact h
  | setnx k b =>
    by_cases hk : rootDocKey f = k
    · by_cases hh : has s k
      · simp only [hk, hh, if_true] at h ⊢; exact h
      · simp only [hk, hh, if_true]; exact geffOf_noGeff b ho
    · simp only [hk, if_false]; exact h
  | del k =>
    by_cases hk : rootDocKey f = k
    · simp only [hk, if_true]
    · simp only [hk, if_false]; exact h
  | delPrefix p =>
    by_cases hk : under p (rootDocKey f)
    · simp only [hk, if_true]
    · simp only [hk]; exact h
  | clear => rfl

end Geff.KV
