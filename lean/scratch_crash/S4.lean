import GeffProofs.KV
namespace Geff.KV
open Gen.Paths Prog

theorem Prog.ext {α} {p q : Prog α} (h : ∀ kv, (p kv).ops = (q kv).ops ∧ (p kv).val = (q kv).val) : p = q := by
  funext kv
  have := h kv
  rcases hp : p kv with ⟨o1, v1⟩
  rcases hq : q kv with ⟨o2, v2⟩
  simp [hp, hq] at this
  simp [this]

theorem bind_assoc {α β γ} (p : Prog α) (f : α → Prog β) (g : β → Prog γ) :
    Prog.bind (Prog.bind p f) g = Prog.bind p (fun a => Prog.bind (f a) g) := by
  apply Prog.ext
  intro kv
  simp only [ops_bind, val_bind]
  rcases hp : (p kv).val with e | a
  · simp
  · simp only
    rcases hf : (f a (run kv (p kv).ops)).val with e | b
    · simp
    · simp [run_append]

theorem raise_bind {α β} (e : Outcome) (f : α → Prog β) : Prog.bind (raise e) f = raise e := by
  apply Prog.ext; intro kv; simp [ops_bind, val_bind]

theorem pure_bind {α β} (a : α) (f : α → Prog β) : Prog.bind (Prog.pure a) f = f a := by
  apply Prog.ext; intro kv; simp [ops_bind, val_bind, run_nil]

theorem ite_bind {α β} (c : Prop) [Decidable c] (p q : Prog α) (f : α → Prog β) :
    Prog.bind (if c then p else q) f = if c then Prog.bind p f else Prog.bind q f := by
  split <;> rfl
end Geff.KV
