import Mathlib.Data.List.Nodup
import GeffProps.C12
import GeffProps.C13
import GeffProofs.CtcSpec
/-! Generic lemmas for the link theorems `GeffProps/C15Links.lean`, `GeffProps/C16Links.lean`:

* the converters' models (C15 `Geff.Ctc`, C16 `Geff.TrackMate`) number nodes with `Nat`, the model of
  the graph validators (C12 `Geff.Validate`) takes `Int` arrays: `intIds`, `intEdges` are the
  embedding, `graphValid_cast` transports C12's `GraphValid` across it;
* `trackletValid_iff_spec`: the tracklet definition copied into `GeffProofs/CtcSpec.lean`
  (`Geff.Ctc.TrackletValid`, over a node predicate and a labelling function) is the official one of
  C13 (`Geff.Tracklet.TrackletSpec`, over a list of (node, id) pairs).

No definition of a model is introduced or repeated here. -/
namespace Geff.Link
open Geff.Graph

/-! ## `Nat` node ids as the `Int` arrays the validators read -/

/-- the id array of a converter model as the validators' model reads it -/
def intIds (ns : List Nat) : List Int := ns.map Int.ofNat
/-- the edge array of a converter model as the validators' model reads it -/
def intEdges (es : List (Nat × Nat)) : List (Int × Int) := es.map (fun e => (Int.ofNat e.1, Int.ofNat e.2))

theorem ofNat_pair_inj : Function.Injective (fun e : Nat × Nat => (Int.ofNat e.1, Int.ofNat e.2)) := by
  rintro ⟨a, b⟩ ⟨c, d⟩ h
  simp only [Prod.mk.injEq, Int.ofNat_eq_natCast, Int.natCast_inj] at h
  rw [h.1, h.2]

theorem mem_intIds (ns : List Nat) (a : Nat) : Int.ofNat a ∈ intIds ns ↔ a ∈ ns := by
  unfold intIds
  exact List.mem_map_of_injective (fun x y h => Int.ofNat.inj h)

/-- C12's `GraphValid` of the embedded arrays, read on the `Nat` arrays -/
theorem graphValid_cast (directed : Bool) (ns : List Nat) (es : List (Nat × Nat)) :
    GeffProps.C12.GraphValid directed (intIds ns) (intEdges es) ↔
      ns.Nodup ∧ (∀ e ∈ es, e.1 ∈ ns ∧ e.2 ∈ ns) ∧ (∀ e ∈ es, e.1 ≠ e.2) ∧
      es.Pairwise (fun e f => ¬ (e = f ∨ (directed = false ∧ e = f.swap))) := by
  unfold GeffProps.C12.GraphValid
  have h1 : (intIds ns).Nodup ↔ ns.Nodup :=
    List.nodup_map_iff (fun x y h => Int.ofNat.inj h)
  have h2 : (∀ e ∈ intEdges es, e.1 ∈ intIds ns ∧ e.2 ∈ intIds ns) ↔ ∀ e ∈ es, e.1 ∈ ns ∧ e.2 ∈ ns := by
    unfold intEdges
    simp only [List.mem_map, forall_exists_index, and_imp, forall_apply_eq_imp_iff₂, mem_intIds]
  have h3 : (∀ e ∈ intEdges es, e.1 ≠ e.2) ↔ ∀ e ∈ es, e.1 ≠ e.2 := by
    unfold intEdges
    simp only [List.mem_map, forall_exists_index, and_imp, forall_apply_eq_imp_iff₂, ne_eq,
      Int.ofNat_eq_natCast, Int.natCast_inj]
  have h4 : (intEdges es).Pairwise (fun e f => ¬ GeffProps.C12.SameEdge directed e f) ↔
      es.Pairwise (fun e f => ¬ (e = f ∨ (directed = false ∧ e = f.swap))) := by
    unfold intEdges
    rw [List.pairwise_map]
    apply List.Pairwise.iff
    intro e f
    unfold GeffProps.C12.SameEdge
    have hsw : ((fun e : Nat × Nat => (Int.ofNat e.1, Int.ofNat e.2)) f).swap =
        (fun e : Nat × Nat => (Int.ofNat e.1, Int.ofNat e.2)) f.swap := rfl
    rw [hsw, ofNat_pair_inj.eq_iff, ofNat_pair_inj.eq_iff]
  rw [h1, h2, h3, h4]

/-- repeated-edge clause from `Nodup` (directed) -/
theorem pairwise_not_same_of_nodup (es : List (Nat × Nat)) (h : es.Nodup) :
    es.Pairwise (fun e f => ¬ (e = f ∨ ((true : Bool) = false ∧ e = f.swap))) := by
  refine List.Pairwise.imp ?_ h
  intro e f hne hor
  rcases hor with h | ⟨h, _⟩
  · exact hne h
  · cases h

/-- repeated-edge clause, any directedness, when a rank strictly increases along every edge
(then `(a, b)` and `(b, a)` are never both edges) -/
theorem pairwise_not_same_of_ranked (directed : Bool) (es : List (Nat × Nat)) (h : es.Nodup)
    (hr : Geff.Tracklet.Ranked es) :
    es.Pairwise (fun e f => ¬ (e = f ∨ (directed = false ∧ e = f.swap))) := by
  obtain ⟨rank, hrank⟩ := hr
  refine List.Pairwise.imp_of_mem ?_ h
  intro e f he hf hne hor
  rcases hor with h | ⟨_, h⟩
  · exact hne h
  · have h1 := hrank e he
    have h2 := hrank f hf
    rw [h] at h1
    simp only [Prod.swap] at h1
    omega

/-! ## the two statements of the tracklet definition -/
section Tracklet
variable {α L : Type}

/-- `Geff.Ctc.TE` (copy) is `Geff.Tracklet.T` (official) -/
theorem TE_iff_T [DecidableEq α] (es : List (α × α)) (a b : α) : Geff.Ctc.TE es a b ↔ Geff.Tracklet.T es a b :=
  Iff.rfl

/-- **the copied tracklet definition is the official one**: for a labelling function `lab` and a
node predicate `V` that describe the (node, id) list `nl` — `V` holds exactly on the listed nodes
and `lab` returns the listed id — `Geff.Ctc.TrackletValid es V lab` (the copy used by
`C15_tracklets`) holds iff `Geff.Tracklet.TrackletSpec nl es` (the specification `C13_iff` decides). -/
theorem trackletValid_iff_spec [DecidableEq α] (nl : List (α × L)) (es : List (α × α)) (V : α → Prop)
    (lab : α → Option L) (hV : ∀ a, V a ↔ ∃ l, (a, l) ∈ nl) (hlab : ∀ a l, (a, l) ∈ nl → lab a = some l) :
    Geff.Ctc.TrackletValid es V lab ↔ Geff.Tracklet.TrackletSpec nl es := by
  constructor
  · intro h
    refine ⟨?_, ?_⟩
    · intro u v l l' hu hv huv
      have := h.edge_iff u v ((hV u).2 ⟨l, hu⟩) ((hV v).2 ⟨l', hv⟩) huv
      rw [hlab u l hu, hlab v l' hv] at this
      exact ⟨fun hl => this.1 (by rw [hl]), fun hT => Option.some.inj (this.2 hT)⟩
    · intro a b l ha hb
      exact h.connected a b ((hV a).2 ⟨l, ha⟩) ((hV b).2 ⟨l, hb⟩) (by rw [hlab a l ha, hlab b l hb])
  · intro h
    refine ⟨?_, ?_⟩
    · intro u v hu hv huv
      obtain ⟨l, hul⟩ := (hV u).1 hu
      obtain ⟨l', hvl⟩ := (hV v).1 hv
      rw [hlab u l hul, hlab v l' hvl]
      have := h.edge_iff u v l l' hul hvl huv
      exact ⟨fun hl => this.1 (Option.some.inj hl), fun hT => by rw [this.2 hT]⟩
    · intro a b ha hb hl
      obtain ⟨l, hal⟩ := (hV a).1 ha
      obtain ⟨l', hbl⟩ := (hV b).1 hb
      rw [hlab a l hal, hlab b l' hbl] at hl
      have hl' := Option.some.inj hl
      subst hl'
      exact h.connected a b l hal hbl
end Tracklet

/-- membership in `range n` zipped with an array of length `n` is indexing -/
theorem mem_zip_range {L : Type} (n : Nat) (xs : List L) (hlen : xs.length = n) (a : Nat) (l : L) :
    (a, l) ∈ (List.range n).zip xs ↔ xs[a]? = some l := by
  rw [List.mem_iff_getElem?]
  constructor
  · rintro ⟨i, hi⟩
    rw [List.getElem?_zip_eq_some] at hi
    obtain ⟨h1, h2⟩ := hi
    obtain ⟨hi, h1⟩ := List.getElem?_eq_some_iff.1 h1
    rw [List.getElem_range] at h1
    simp only at h1 h2
    subst h1; exact h2
  · intro h
    have hlt : a < n := by
      rcases Nat.lt_or_ge a n with h' | h'
      · exact h'
      · rw [List.getElem?_eq_none (by omega)] at h; cases h
    refine ⟨a, ?_⟩
    rw [List.getElem?_zip_eq_some]
    exact ⟨by simp [hlt], h⟩

end Geff.Link
