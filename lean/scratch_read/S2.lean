import GeffProofs.PartialRead
namespace Geff.PRead
open Geff.Np

/-- `_mask_to_indices` followed by `_load_zarr_subset` is `a[selMask mask]` for a mask of the
right length (`None` = everything) -/
theorem load_eq {α} (xs : List α) (mask : Option (List Bool)) (n : Nat) (hx : xs.length = n)
    (hlen : ∀ m, mask = some m → m.length = n) :
    (maskToIndices mask n >>= fun i => loadZarrSubset xs i) = .ok (filterByMask xs (selMask mask n)) := by
  cases mask with
  | none =>
    subst hx
    simp [maskToIndices, loadZarrSubset, selMask, filterByMask_replicate_true]
  | some m =>
    have hm := hlen m rfl
    simp only [maskToIndices, hm, if_true, ok_bind, selMask]
    exact loadZarrSubset_where xs m (by omega)

/-- `_load_prop_to_memory` with a total mask -/
def loadSel (cast : Dtype → Val → Val) (zp : ZarrProp) (pm : PropMeta) (m : List Bool) : Res MemProp :=
  assemble cast zp pm (filterByMask zp.values.rows m) (zp.missing.map (filterByMask · m))

def ZarrProp.lenOk (zp : ZarrProp) (n : Nat) : Prop :=
  zp.values.rows.length = n ∧ ∀ ms, zp.missing = some ms → ms.length = n

theorem loadPropToMemory_eq (cast : Dtype → Val → Val) (zp : ZarrProp) (mask : Option (List Bool))
    (pm : PropMeta) (n : Nat) (hz : zp.lenOk n) (hlen : ∀ m, mask = some m → m.length = n) :
    loadPropToMemory cast zp mask pm = loadSel cast zp pm (selMask mask n) := by
  obtain ⟨hv, hmiss⟩ := hz
  have h1 : maskToIndices mask zp.values.rows.length = maskToIndices mask n := by rw [hv]
  unfold loadPropToMemory loadSel
  cases mask with
  | none =>
    subst hv
    cases hzm : zp.missing with
    | none => simp [maskToIndices, loadZarrSubset, selMask, filterByMask_replicate_true]
    | some ms =>
      have := hmiss ms hzm
      have e : filterByMask ms (List.replicate zp.values.rows.length true) = ms := by
        rw [← this]; exact filterByMask_replicate_true ms
      simp [maskToIndices, loadZarrSubset, selMask, filterByMask_replicate_true, e, Except.map]
  | some m =>
    have hm := hlen m rfl
    have e1 := loadZarrSubset_where zp.values.rows m (by omega)
    cases hzm : zp.missing with
    | none =>
      simp only [maskToIndices, hv, hm, if_true, ok_bind, selMask, e1, Option.map_none, pure_eq]
    | some ms =>
      have e2 := loadZarrSubset_where ms m (by have := hmiss ms hzm; omega)
      simp only [maskToIndices, hv, hm, if_true, ok_bind, selMask, e1, e2, Option.map_some, Except.map]

end Geff.PRead
