import GeffProofs.MetaWrite
namespace Geff.MetaW
open Geff.Np
variable {κ : Type}

theorem mkPropMeta_spec {id : String} {dt : Dtype} {vl : Bool} {pm : PropMeta}
    (h : mkPropMeta id dt vl = .ok pm) :
    pm = { identifier := id, dtype := dt.name, varlength := vl, unit := none, name := none,
           description := none } := by
  unfold mkPropMeta at h
  split at h
  · cases h
  · split at h
    · cases h; rfl
    · cases h

/-- `create_props_metadata` leaves the property as it is, except for the float16 → float32 upcast -/
def upcast (p : PropData κ) : PropData κ :=
  match p.values with
  | .dense dt tr rows => { p with values := .dense (if dt = .f16 then .f32 else dt) tr rows }
  | .object _ => p

/-- the metadata entry `create_props_metadata` makes, read off the group that gets stored -/
def entryOf (name : String) (p : PropData κ) : PropMeta :=
  { identifier := name, dtype := (storedOf name p).dtype.name, varlength := (storedOf name p).hasData,
    unit := none, name := none, description := none }

theorem createPropsMetadata_spec {name : String} {p p' : PropData κ} {pm : PropMeta}
    (h : createPropsMetadata name p = .ok (pm, p')) : p' = upcast p ∧ pm = entryOf name p' := by
  unfold createPropsMetadata at h
  cases hv : p.values with
  | dense dt tr rows =>
    simp only [hv] at h
    generalize hdt : (if dt = Dtype.f16 then Dtype.f32 else dt) = dt' at h
    by_cases ho : dt' = Dtype.obj
    · simp [ho] at h
    · simp only [ho, if_false] at h
      cases hm : mkPropMeta name dt' false with
      | error e => simp [hm] at h
      | ok pm0 =>
        simp only [hm, ok_bind, pure_eq, Except.ok.injEq, Prod.mk.injEq] at h
        obtain ⟨rfl, rfl⟩ := h
        have := mkPropMeta_spec hm
        refine ⟨by simp [upcast, hv, hdt], ?_⟩
        rw [this]; simp [entryOf, storedOf]
  | object es =>
    simp only [hv] at h
    split at h
    · cases h
    · cases hm : mkPropMeta name ((es.head?.map (·.1)).getD Dtype.i64) true with
      | error e => simp [hm] at h
      | ok pm0 =>
        simp only [hm, ok_bind, pure_eq, Except.ok.injEq, Prod.mk.injEq] at h
        obtain ⟨rfl, rfl⟩ := h
        have := mkPropMeta_spec hm
        refine ⟨by simp [upcast, hv], ?_⟩
        rw [this]; simp [entryOf, storedOf, hv]

/-- the loop of `write_props_arrays`: the dict that is left, the stored groups and the metadata
entries are images of the same list -/
theorem writeLoop_spec {ps ps' : List (String × PropData κ)} {pms : List PropMeta} {sts : List (Stored κ)}
    (h : writeLoop ps = .ok (pms, sts, ps')) :
    ps' = ps.map (fun q => (q.1, upcast q.2)) ∧ sts = ps'.map (fun q => storedOf q.1 q.2) ∧
    pms = ps'.map (fun q => entryOf q.1 q.2) := by
  induction ps generalizing ps' pms sts with
  | nil =>
    simp only [writeLoop, Except.ok.injEq, Prod.mk.injEq] at h
    obtain ⟨rfl, rfl, rfl⟩ := h
    simp
  | cons q t ih =>
    obtain ⟨name, p⟩ := q
    simp only [writeLoop] at h
    cases hc : createPropsMetadata name p with
    | error e => simp [hc] at h
    | ok r =>
      obtain ⟨pm, p1⟩ := r
      simp only [hc, ok_bind] at h
      by_cases hs : serializable p1 = true
      · simp only [hs, Bool.not_true, Bool.false_eq_true, if_false] at h
        cases ht : writeLoop t with
        | error e => simp [ht] at h
        | ok r2 =>
          obtain ⟨pms2, sts2, ps2⟩ := r2
          simp only [ht, ok_bind, pure_eq, Except.ok.injEq, Prod.mk.injEq] at h
          obtain ⟨rfl, rfl, rfl⟩ := h
          obtain ⟨i1, i2, i3⟩ := ih ht
          obtain ⟨e1, e2⟩ := createPropsMetadata_spec hc
          subst e1 e2
          refine ⟨by simp [i1], by simp [i2], by simp [i3]⟩
      · simp [hs] at h

theorem keys_map_snd {β γ} (f : String × β → γ) (d : List (String × β)) :
    keys (d.map (fun q => (q.1, f q))) = keys d := by
  simp [keys, List.map_map, Function.comp_def]

theorem lookup_map_snd {β γ} (f : β → γ) (d : List (String × β)) (k : String) :
    lookup k (d.map (fun q => (q.1, f q.2))) = (lookup k d).map f := by
  induction d with
  | nil => rfl
  | cons q t ih =>
    obtain ⟨a, b⟩ := q
    simp only [List.map_cons, lookup]
    by_cases h : a = k <;> simp [h, ih]

theorem find_map_storedOf (ps : List (String × PropData κ)) (k : String) :
    (ps.map (fun q => storedOf q.1 q.2)).find? (fun st => st.name = k) =
      (lookup k ps).map (storedOf k) := by
  induction ps with
  | nil => rfl
  | cons q t ih =>
    obtain ⟨a, b⟩ := q
    have hn : (storedOf a b).name = a := by unfold storedOf; cases b.values <;> rfl
    simp only [List.map_cons, List.find?_cons, lookup, hn]
    by_cases h : a = k
    · subst h; simp
    · simp [h, ih]

end Geff.MetaW
