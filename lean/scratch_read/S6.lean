import GeffProofs.PartialRead
namespace Geff.PRead
open Geff.Np

theorem propsWF_lenOk {n : Nat} {ps : List (String × ZarrProp)} (h : propsWF n ps = true) :
    ∀ q ∈ ps, q.2.lenOk n := by
  intro q hq
  simp only [propsWF, Bool.and_eq_true, List.all_eq_true, decide_eq_true_eq] at h
  have := h.2 q hq
  refine ⟨this.1, fun ms hms => ?_⟩
  have h2 := this.2
  simp only [hms, decide_eq_true_eq] at h2
  exact h2

theorem propsWF_nodup {n : Nat} {ps : List (String × ZarrProp)} (h : propsWF n ps = true) :
    (keys ps).Nodup := by
  simp only [propsWF, Bool.and_eq_true] at h
  exact (nodupB_iff _).1 h.1

theorem inv_lenOk {n : Nat} {all sel : List (String × ZarrProp)} (hall : ∀ q ∈ all, q.2.lenOk n)
    (hsel : ∀ q ∈ sel, lookup q.1 all = some q.2) : ∀ q ∈ sel, q.2.lenOk n :=
  fun q hq => hall (q.1, q.2) (lookup_mem (hsel q hq))

theorem effMask_none_none (kept : List Int) (edges : List (Int × Int)) :
    effMask none none kept edges = List.replicate edges.length true := rfl

/-- what a successful full read returns -/
theorem full_read_spec (cast : Dtype → Val → Val) (s : Store) (full : InMem) (hwf : s.WF = true)
    (hfull : readToMemory cast s = .ok full) :
    ∃ fp fe, loadPropsSel cast s.nodeMeta (List.replicate s.ids.length true) s.nodeProps = .ok fp ∧
      loadPropsSel cast s.edgeMeta (List.replicate s.edges.length true) s.edgeProps = .ok fe ∧
      full = { nodeIds := s.ids, edgeIds := s.edges, nodeProps := fp, edgeProps := fe,
               nodeMeta := pruneMeta s.nodeMeta s.nodeProps, edgeMeta := pruneMeta s.edgeMeta s.edgeProps,
               metaRest := s.metaRest } := by
  simp only [Store.WF, Bool.and_eq_true] at hwf
  have hn := propsWF_lenOk hwf.1
  have he := propsWF_lenOk hwf.2
  unfold readToMemory at hfull
  rw [build_nf cast (readAll s) none none (by simp) (by simp)
    (by rw [readAll_nodeProps s (propsWF_nodup hwf.1)]; exact hn)
    (by rw [readAll_edgeProps s (propsWF_nodup hwf.2)]; exact he)] at hfull
  simp only [readAll_store, readAll_nodeProps s (propsWF_nodup hwf.1),
    readAll_edgeProps s (propsWF_nodup hwf.2), effMask_none_none, selMask,
    filterByMask_replicate_true] at hfull
  cases hfp : loadPropsSel cast s.nodeMeta (List.replicate s.ids.length true) s.nodeProps with
  | error e => simp [hfp] at hfull
  | ok fp =>
    cases hfe : loadPropsSel cast s.edgeMeta (List.replicate s.edges.length true) s.edgeProps with
    | error e => simp [hfp, hfe] at hfull
    | ok fe =>
      simp only [hfp, hfe, ok_bind, pure_eq, Except.ok.injEq] at hfull
      exact ⟨fp, fe, rfl, rfl, hfull.symm⟩

theorem prune_prune (md : List (String × PropMeta)) (all sel : List (String × ZarrProp))
    (h : ∀ k, k ∈ keys sel → k ∈ keys all) :
    (pruneMeta md all).filter (fun p => (keys sel).contains p.1) = pruneMeta md sel := by
  unfold pruneMeta
  rw [List.filter_filter]
  apply List.filter_congr
  intro p _
  rw [hasKey_eq_contains, hasKey_eq_contains]
  by_cases hk : p.1 ∈ keys sel
  · have := h _ hk
    simp [hk, this]
  · simp [hk]

theorem keys_sub {all sel : List (String × ZarrProp)} (hsel : ∀ q ∈ sel, lookup q.1 all = some q.2) :
    ∀ k, k ∈ keys sel → k ∈ keys all := by
  intro k hk
  simp only [keys, List.mem_map] at hk ⊢
  obtain ⟨q, hq, rfl⟩ := hk
  exact ⟨(q.1, q.2), lookup_mem (hsel q hq), rfl⟩

/-- **build = restrict ∘ full read**, for a reader satisfying the invariant -/
theorem build_eq_restrict_of_inv (cast : Dtype → Val → Val) (r : Reader) (hinv : r.Inv)
    (nm em : Option (List Bool)) (full : InMem) (hwf : r.store.WF = true)
    (hnm : ∀ m, nm = some m → m.length = r.store.ids.length)
    (hem : ∀ m, em = some m → m.length = r.store.edges.length)
    (hclosed : nm = none → r.store.edgesClosed = true)
    (hfull : readToMemory cast r.store = .ok full) :
    build cast r nm em = .ok (restrict (keys r.nodeProps) (keys r.edgeProps) nm em full) := by
  obtain ⟨fp, fe, hfp, hfe, rfl⟩ := full_read_spec cast r.store full hwf hfull
  simp only [Store.WF, Bool.and_eq_true] at hwf
  have hn := propsWF_lenOk hwf.1
  have he := propsWF_lenOk hwf.2
  rw [build_nf cast r nm em hnm hem (inv_lenOk hn hinv.1) (inv_lenOk he hinv.2)]
  have hk : effMask nm em (filterByMask r.store.ids (selMask nm r.store.ids.length)) r.store.edges
      = edgeKeep (filterByMask r.store.ids (selMask nm r.store.ids.length)) em r.store.edges := by
    apply effMask_eq_edgeKeep _ _ _ _ hem
    cases nm with
    | some m => exact Or.inl (by simp)
    | none =>
      right
      have hc := hclosed rfl
      simp only [Store.edgesClosed, List.all_eq_true] at hc
      simpa [selMask, filterByMask_replicate_true] using hc
  rw [hk]
  rw [loadPropsSel_restrict cast _ _ r.store.nodeProps r.nodeProps fp _ hn hfp hinv.1]
  rw [loadPropsSel_restrict cast _ _ r.store.edgeProps r.edgeProps fe _ he hfe hinv.2]
  simp only [ok_bind, pure_eq, restrict, prune_prune _ _ _ (keys_sub hinv.1),
    prune_prune _ _ _ (keys_sub hinv.2)]

end Geff.PRead
