import GeffProofs.PartialRead
namespace Geff.PRead
open Geff.Np

/-! ### dict lemmas -/

theorem lookup_mem {β} {k : String} {d : List (String × β)} {v : β} (h : lookup k d = some v) :
    (k, v) ∈ d := by
  induction d with
  | nil => simp [lookup] at h
  | cons p t ih =>
    obtain ⟨k', v'⟩ := p
    simp only [lookup] at h
    by_cases hk : k' = k
    · simp only [hk, if_true, Option.some.injEq] at h
      subst h; subst hk; simp
    · simp only [hk, if_false] at h
      exact List.mem_cons_of_mem _ (ih h)

theorem lookup_none_of_not_mem {β} {k : String} {d : List (String × β)} (h : k ∉ keys d) :
    lookup k d = none := by
  induction d with
  | nil => rfl
  | cons p t ih =>
    obtain ⟨k', v'⟩ := p
    simp only [keys, List.map_cons, List.mem_cons, not_or] at h
    simp only [lookup]
    rw [if_neg (fun e => h.1 e.symm)]
    exact ih h.2

theorem lookup_append {β} (k : String) (a b : List (String × β)) :
    lookup k (a ++ b) = (lookup k a).or (lookup k b) := by
  induction a with
  | nil => simp [lookup]
  | cons p t ih =>
    obtain ⟨k', v'⟩ := p
    simp only [List.cons_append, lookup]
    by_cases hk : k' = k <;> simp [hk, ih]

theorem hasKey_iff {β} (k : String) (d : List (String × β)) : hasKey k d = true ↔ k ∈ keys d := by
  simp only [hasKey, keys, List.any_eq_true, decide_eq_true_eq, List.mem_map]

theorem hasKey_eq_contains {β} (k : String) (d : List (String × β)) : hasKey k d = (keys d).contains k := by
  rw [Bool.eq_iff_iff, hasKey_iff]; simp

theorem mem_insert {β} {d : List (String × β)} {k : String} {v : β} {q : String × β}
    (h : q ∈ insert d k v) : q ∈ d ∨ q = (k, v) := by
  unfold insert at h
  split at h
  · simp only [List.mem_map] at h
    obtain ⟨p, hp, rfl⟩ := h
    by_cases hk : p.1 = k
    · simp [hk]
    · simp [hk, hp]
  · simp only [List.mem_append, List.mem_singleton] at h
    exact h

theorem nodupB_iff (l : List String) : nodupB l = true ↔ l.Nodup := by
  induction l with
  | nil => simp [nodupB]
  | cons a t ih => simp [nodupB, ih, List.nodup_cons]

/-! ### the reader invariant: what is loaded is what the store holds under that name -/

def Reader.Inv (r : Reader) : Prop :=
  (∀ q ∈ r.nodeProps, lookup q.1 r.store.nodeProps = some q.2) ∧
  (∀ q ∈ r.edgeProps, lookup q.1 r.store.edgeProps = some q.2)

theorem readLoop_inv (avail cur : List (String × ZarrProp)) (names : List String)
    (h : ∀ q ∈ cur, lookup q.1 avail = some q.2) :
    ∀ q ∈ (readLoop avail cur names).1, lookup q.1 avail = some q.2 := by
  induction names generalizing cur with
  | nil => simpa [readLoop] using h
  | cons n ns ih =>
    simp only [readLoop]
    cases hl : lookup n avail with
    | none => simpa using h
    | some zp =>
      apply ih
      intro q hq
      rcases mem_insert hq with hq | rfl
      · exact h q hq
      · exact hl

theorem readNodeProps_store (r : Reader) (ns) : (readNodeProps r ns).1.store = r.store := rfl
theorem readEdgeProps_store (r : Reader) (ns) : (readEdgeProps r ns).1.store = r.store := rfl

theorem readNodeProps_inv (r : Reader) (ns) (h : r.Inv) : (readNodeProps r ns).1.Inv :=
  ⟨readLoop_inv _ _ _ h.1, h.2⟩

theorem readEdgeProps_inv (r : Reader) (ns) (h : r.Inv) : (readEdgeProps r ns).1.Inv :=
  ⟨h.1, readLoop_inv _ _ _ h.2⟩

theorem runCalls_store (r : Reader) (calls : List Call) : (runCalls r calls).store = r.store := by
  induction calls generalizing r with
  | nil => rfl
  | cons c t ih => cases c <;> simp [runCalls, ih, readNodeProps_store, readEdgeProps_store]

theorem runCalls_inv (r : Reader) (calls : List Call) (h : r.Inv) : (runCalls r calls).Inv := by
  induction calls generalizing r with
  | nil => exact h
  | cons c t ih =>
    cases c with
    | nodes ns => exact ih _ (readNodeProps_inv r ns h)
    | edges ns => exact ih _ (readEdgeProps_inv r ns h)

theorem init_inv (s : Store) : (Reader.init s).Inv := ⟨by simp [Reader.init], by simp [Reader.init]⟩

/-- reading every name of a group whose names are unique loads exactly the group -/
theorem readLoop_all (avail cur rest : List (String × ZarrProp)) (h : avail = cur ++ rest)
    (hnd : (keys avail).Nodup) : (readLoop avail cur (keys rest)).1 = avail := by
  induction rest generalizing cur with
  | nil => simp [keys, readLoop, h]
  | cons p t ih =>
    obtain ⟨n, zp⟩ := p
    have hk : keys avail = keys cur ++ n :: keys t := by simp [h, keys]
    rw [hk] at hnd
    have hncur : n ∉ keys cur := by
      intro hmem
      have := (List.nodup_append.1 hnd).2.2 n hmem n (by simp)
      exact this rfl
    have hl : lookup n avail = some zp := by
      rw [h, lookup_append, lookup_none_of_not_mem hncur]
      simp [lookup]
    have hins : insert cur n zp = cur ++ [(n, zp)] := by
      unfold insert
      have : hasKey n cur = false := by
        rw [Bool.eq_false_iff]; intro hh; exact hncur ((hasKey_iff n cur).1 hh)
      simp [this]
    simp only [keys, List.map_cons, readLoop, hl]
    rw [hins]
    have := ih (cur ++ [(n, zp)]) (by simp [h])
    simpa [keys] using this

theorem readAll_nodeProps (s : Store) (h : (keys s.nodeProps).Nodup) : (readAll s).nodeProps = s.nodeProps := by
  simp only [readAll, readEdgeProps, readNodeProps, Reader.init, Option.getD_none]
  exact readLoop_all s.nodeProps [] s.nodeProps rfl h

theorem readAll_edgeProps (s : Store) (h : (keys s.edgeProps).Nodup) : (readAll s).edgeProps = s.edgeProps := by
  simp only [readAll, readEdgeProps, readNodeProps, Reader.init, Option.getD_none]
  exact readLoop_all s.edgeProps [] s.edgeProps rfl h

theorem readAll_store (s : Store) : (readAll s).store = s := rfl

end Geff.PRead
