import GeffProps.C10
namespace GeffProps.C10
open Geff.Np Geff.MetaW
variable {κ : Type}
section
variable [LT κ] [DecidableLT κ] [Min κ] [Max κ] [LE κ] [Std.IsLinearOrder κ] [Std.LawfulOrderMin κ]
  [Std.LawfulOrderMax κ]

/-! ## spatial-graph -/

/-- **C10 for `geff.write` on a spatial-graph graph** — `roiMin`/`roiMax` = `graph.roi`,
`np` = the position and attribute arrays of the graph (the position is un-squished into the axis
names).  The stored axes are the ones `axes_from_lists` builds from `sgLists md ls n`: the caller's
lists when `axis_names` is given, otherwise the names AND every non-overridden field of the
metadata's axes (D20 repair). -/
theorem C10_spatial_graph (version : String) (md : Option (Meta κ)) (isDirected : Bool) (ls : AxisLists)
    (ndims n e : Nat) (roiMin roiMax : List κ) (pos : String) (np ep : List (String × PropData κ))
    (w : Written κ)
    (hmd : ∀ m, md = some m → DictWF m.nodeProps ∧ DictWF m.edgeProps)
    (hnp : (keys np).Nodup) (hep : (keys ep).Nodup)
    (h : sgWrite version md isDirected ls ndims n e roiMin roiMax pos np ep = .ok w) :
    PropsExact (callerNodeProps md) w.md.nodeProps w.nodes ∧
    PropsExact (callerEdgeProps md) w.md.edgeProps w.edges ∧
    w.md.directed = isDirected ∧ w.md.rest = callerRest md ∧ w.md.hintNames = callerHints md ∧
    (∃ (ls' : AxisLists) (axes0 : List (Axis κ)), sgLists md ls n = .ok ls' ∧
      axesFromLists ls' (some (roiMin.map some)) (some (roiMax.map some)) = .ok axes0 ∧
      w.md.axes.map (·.map strip) = some (axes0.map strip)) ∧
    (0 < n → AxisRange n w) := by
  unfold sgWrite at h
  obtain ⟨ls', h0, h⟩ := bind_eq_ok h
  obtain ⟨axes0, h1, h⟩ := bind_eq_ok h
  obtain ⟨m, h2, h⟩ := bind_eq_ok h
  split at h
  · cases h
  · obtain ⟨c1, c2, c3, c4, c5, c6, c7⟩ := createOrUpdate_spec h2
    have hwf : DictWF m.nodeProps ∧ DictWF m.edgeProps := by
      rw [c3, c4]
      cases md with
      | none => exact ⟨⟨by simp [callerNodeProps, keys], by simp [callerNodeProps]⟩,
                       ⟨by simp [callerEdgeProps, keys], by simp [callerEdgeProps]⟩⟩
      | some m => exact hmd m rfl
    have hp1 : PropsWF (some np) := fun l hl => by cases hl; exact hnp
    have hp2 : PropsWF (some ep) := fun l hl => by cases hl; exact hep
    obtain ⟨a, b⟩ := C10_props_metadata_exact m n e _ _ _ _ w hwf.1 hwf.2 hp1 hp2 h
    obtain ⟨p1, p2, p3, p4, p5⟩ := C10_passthrough m n _ _ _ _ w (validated_ok h)
    refine ⟨by rw [← c3]; exact a, by rw [← c4]; exact b, by rw [p3, c2], by rw [p1, c5], by rw [p2, c6],
      ⟨ls', axes0, h0, h1, by rw [p5, c7]; rfl⟩, fun hn => C10_axis_range m n e _ _ _ _ w hn h⟩

omit [Min κ] [Max κ] [LE κ] [Std.IsLinearOrder κ] [Std.LawfulOrderMin κ] [Std.LawfulOrderMax κ] in
/-- **D20 (repaired)** — when the axes come from the caller's metadata and no `axis_*` list is
given, the axes `SgBackend.write` builds keep every caller field: only min/max (= `graph.roi`,
recomputed from the data afterwards) differ. -/
theorem C10_sg_keeps_caller_axes (m : Meta κ) (axes : List (Axis κ)) (n : Nat) (ls' : AxisLists)
    (roiMin roiMax : Option (List (Option κ))) (axes0 : List (Axis κ)) (hax : m.axes = some axes)
    (h0 : sgLists (some m) { names := none, units := none, types := none, scales := none,
                             scaledUnits := none, offset := none } n = .ok ls')
    (h1 : axesFromLists ls' roiMin roiMax = .ok axes0) : axes0.map strip = axes.map strip := by
  simp only [sgLists, Option.bind_some, hax, Option.getD_none, Except.ok.injEq] at h0
  subst h0
  obtain ⟨hlen, hj, -⟩ := axesFromLists_spec (names := axes.map (·.name)) rfl h1
  apply List.ext_getElem?
  intro j
  simp only [List.getElem?_map]
  cases ha0 : axes0[j]? with
  | none =>
    have : axes[j]? = none := by
      rw [List.getElem?_eq_none_iff] at ha0 ⊢
      simpa [hlen] using ha0
    simp [this]
  | some a0 =>
    have hlt : j < axes.length := by
      have := (List.getElem?_eq_some_iff.1 ha0).1
      simpa [hlen] using this
    have hja : axes[j]? = some axes[j] := List.getElem?_eq_getElem hlt
    obtain ⟨f1, f2, f3, f4, f5, f6, -, -⟩ := hj j axes[j].name a0 (by simp [hja]) ha0
    simp only [pick, List.getElem?_map, hja, Option.map_some, Except.ok.injEq] at f2 f3 f4 f5 f6
    simp only [hja, Option.map_some, Option.some.injEq]
    cases a0
    simp only [strip] at *
    simp [f1, ← f2, ← f3, ← f4, ← f5, ← f6]

end
end GeffProps.C10
