import GeffProofs.PartialRead
namespace Geff.PRead
open Geff.Np

theorem mapM_filterByMask {α β} (f : α → Res β) (xs : List α) (ys : List β) (m : List Bool)
    (h : xs.mapM f = .ok ys) : (filterByMask xs m).mapM f = .ok (filterByMask ys m) := by
  induction xs generalizing ys m with
  | nil =>
    simp only [List.mapM_nil, pure_eq, Except.ok.injEq] at h
    subst h; simp [filterByMask_nil_left]
  | cons x xs ih =>
    simp only [List.mapM_cons] at h
    cases hx : f x with
    | error e => simp [hx] at h
    | ok y =>
      cases hxs : xs.mapM f with
      | error e => simp [hx, hxs] at h
      | ok ys' =>
        simp only [hx, hxs, ok_bind, pure_eq, Except.ok.injEq] at h
        subst h
        cases m with
        | nil => simp [filterByMask_nil_right]
        | cons b bs =>
          cases b
          · simpa [filterByMask] using ih ys' bs hxs
          · simp [filterByMask, hx, ih ys' bs hxs]

theorem deserialize_filter (dt : Dtype) (trail : List Nat) (rows : List (List Val)) (d : List Val)
    (es : List NdArr) (m : List Bool) (h : deserialize dt trail rows d = .ok es) :
    deserialize dt trail (filterByMask rows m) d = .ok (filterByMask es m) := by
  unfold deserialize at h ⊢
  cases hr : rows.isEmpty with
  | true =>
    simp only [hr, if_true, Except.ok.injEq] at h
    subst h
    have : rows = [] := by simpa using hr
    subst this
    simp [filterByMask_nil_left]
  | false =>
    simp only [hr, Bool.false_eq_true, if_false] at h
    -- the table has a row, so it must be 2-D with a non-zero width and every row decodes
    match trail, h with
    | [w], h =>
      by_cases hw : w = 0
      · simp [hw] at h
      · simp only [hw, if_false] at h
        have hf := mapM_filterByMask _ rows es m h
        cases hfe : (filterByMask rows m).isEmpty with
        | true =>
          have e : filterByMask rows m = [] := by simpa using hfe
          rw [e] at hf
          simp only [List.mapM_nil, pure_eq, Except.ok.injEq] at hf
          simp [← hf]
        | false => simp [hw, hf]

theorem filterByMask_replicate_true' {α} (xs : List α) (n : Nat) (h : xs.length = n) :
    filterByMask xs (List.replicate n true) = xs := by
  subst h; exact filterByMask_replicate_true xs

/-- decoding the selected rows (against the full data) = selecting among the decoded rows -/
theorem assemble_filter (cast : Dtype → Val → Val) (zp : ZarrProp) (pm : PropMeta)
    (rows : List (List Val)) (miss : Option (List Bool)) (p : MemProp) (m : List Bool)
    (h : assemble cast zp pm rows miss = .ok p) :
    assemble cast zp pm (filterByMask rows m) (miss.map (filterByMask · m)) = .ok (restrictProp m p) := by
  unfold assemble at h ⊢
  cases hv : pm.varlength with
  | false =>
    simp only [hv, Bool.false_eq_true, if_false, pure_eq, Except.ok.injEq] at h ⊢
    subst h
    simp [restrictProp, restrictValues, filterByMask_map]
  | true =>
    simp only [hv, if_true] at h ⊢
    cases hd : zp.data with
    | none => simp [hd] at h
    | some d =>
      simp only [hd, Option.map_some] at h ⊢
      cases hdes : deserialize pm.dtype zp.values.trail
          (List.map (fun x => List.map (cast Dtype.u64) x) rows) (List.map (cast pm.dtype) d) with
      | error e => simp [hdes] at h
      | ok es =>
        simp only [hdes, ok_bind, pure_eq, Except.ok.injEq] at h
        subst h
        have := deserialize_filter _ _ _ _ es m hdes
        rw [filterByMask_map] at this
        simp [this, restrictProp, restrictValues]

theorem loadSel_restrict (cast : Dtype → Val → Val) (zp : ZarrProp) (pm : PropMeta) (n : Nat)
    (hz : zp.lenOk n) (p : MemProp) (m : List Bool)
    (h : loadSel cast zp pm (List.replicate n true) = .ok p) :
    loadSel cast zp pm m = .ok (restrictProp m p) := by
  unfold loadSel at h ⊢
  obtain ⟨hv, hmiss⟩ := hz
  rw [filterByMask_replicate_true' _ n hv] at h
  have hm : zp.missing.map (filterByMask · (List.replicate n true)) = zp.missing := by
    cases hzm : zp.missing with
    | none => rfl
    | some ms => simp [filterByMask_replicate_true' ms n (hmiss ms hzm)]
  rw [hm] at h
  exact assemble_filter cast zp pm _ _ p m h

end Geff.PRead
