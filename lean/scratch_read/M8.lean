import GeffProps.C10
namespace GeffProps.C10
open Geff.Np Geff.MetaW
variable {κ : Type}
section
variable [LT κ] [DecidableLT κ] [Min κ] [Max κ]

theorem validated_ok {md : Meta κ} {n e : Nat} {np ep : Option (List (String × PropData κ))}
    {nu eu : Option (List (String × List String))} {w : Written κ}
    (h : writeArraysValidated md n e np ep nu eu = .ok w) : writeArrays md n np ep nu eu = .ok w := by
  unfold writeArraysValidated at h
  obtain ⟨w', hw, h2⟩ := bind_eq_ok h
  split at h2
  · simp only [pure_eq, Except.ok.injEq] at h2; subst h2; exact hw
  · cases h2

end

section
variable [LT κ] [DecidableLT κ] [Min κ] [Max κ] [LE κ] [Std.IsLinearOrder κ] [Std.LawfulOrderMin κ]
  [Std.LawfulOrderMax κ]

/-- the data-independent part of what is stored, relative to the metadata `md` handed to `write_arrays` -/
def PassThrough (md : Meta κ) (w : Written κ) : Prop :=
  w.md.rest = md.rest ∧ w.md.hintNames = md.hintNames ∧ w.md.directed = md.directed ∧
  w.md.geffVersion = md.geffVersion ∧ w.md.axes.map (·.map strip) = md.axes.map (·.map strip)

/-! ## write_dicts -/

/-- **C10 for `write_dicts`** — the three statements for a successful `write_dicts` (the property
dicts are what `dict_props_to_arr` built from the per-node / per-edge dicts). -/
theorem C10_write_dicts (md : Meta κ) (n e : Nat) (np ep : List (String × PropData κ)) (w : Written κ)
    (hmdn : DictWF md.nodeProps) (hmde : DictWF md.edgeProps) (hnp : (keys np).Nodup) (hep : (keys ep).Nodup)
    (h : writeDicts md n e np ep = .ok w) :
    PropsExact md.nodeProps w.md.nodeProps w.nodes ∧ PropsExact md.edgeProps w.md.edgeProps w.edges ∧
    PassThrough md w ∧ (0 < n → AxisRange n w) := by
  unfold writeDicts at h
  have hp1 : PropsWF (some np) := fun l hl => by cases hl; exact hnp
  have hp2 : PropsWF (some ep) := fun l hl => by cases hl; exact hep
  obtain ⟨a, b⟩ := C10_props_metadata_exact md n e _ _ _ _ w hmdn hmde hp1 hp2 h
  exact ⟨a, b, C10_passthrough md n _ _ _ _ w (validated_ok h), fun hn => C10_axis_range md n e _ _ _ _ w hn h⟩

/-! ## networkx / rustworkx -/

/-- **C10 for `geff.write` on a networkx or rustworkx graph** — `md` is the caller's metadata or
`none`, `isDirected` the directedness of the graph object, `ls` the `axis_*` arguments. -/
theorem C10_networkx_rustworkx (version : String) (md : Option (Meta κ)) (isDirected : Bool) (ls : AxisLists)
    (n e : Nat) (np ep : List (String × PropData κ)) (w : Written κ)
    (hmd : ∀ m, md = some m → DictWF m.nodeProps ∧ DictWF m.edgeProps)
    (hnp : (keys np).Nodup) (hep : (keys ep).Nodup)
    (h : nxWrite version md isDirected ls n e np ep = .ok w) :
    PropsExact (callerNodeProps md) w.md.nodeProps w.nodes ∧
    PropsExact (callerEdgeProps md) w.md.edgeProps w.edges ∧
    w.md.directed = isDirected ∧ w.md.rest = callerRest md ∧ w.md.hintNames = callerHints md ∧
    (ls.names = none → w.md.axes.map (·.map strip) = (md.bind (·.axes)).map (·.map strip)) ∧
    (ls.names ≠ none → ∃ axes0 : List (Axis κ), axesFromLists ls none none = .ok axes0 ∧
      w.md.axes.map (·.map strip) = some (axes0.map strip)) ∧
    (0 < n → AxisRange n w) := by
  unfold nxWrite at h
  obtain ⟨m1, h1, h⟩ := bind_eq_ok h
  obtain ⟨m2, h2, h⟩ := bind_eq_ok h
  obtain ⟨c1, c2, c3, c4, c5, c6, c7⟩ := createOrUpdate_spec h1
  have hwf : DictWF m1.nodeProps ∧ DictWF m1.edgeProps := by
    rw [c3, c4]
    cases md with
    | none => exact ⟨⟨by simp [callerNodeProps, keys], by simp [callerNodeProps]⟩,
                     ⟨by simp [callerEdgeProps, keys], by simp [callerEdgeProps]⟩⟩
    | some m => exact hmd m rfl
  -- `update_metadata_axes` only replaces the axes
  have hm2 : m2.nodeProps = m1.nodeProps ∧ m2.edgeProps = m1.edgeProps ∧ m2.rest = m1.rest ∧
      m2.hintNames = m1.hintNames ∧ m2.directed = m1.directed ∧
      (ls.names = none → m2.axes = m1.axes) ∧
      (ls.names ≠ none → ∃ axes0 : List (Axis κ), axesFromLists ls none none = .ok axes0 ∧ m2.axes = some axes0) := by
    cases hn : ls.names with
    | none =>
      simp only [hn, Except.ok.injEq] at h2
      subst h2
      exact ⟨rfl, rfl, rfl, rfl, rfl, fun _ => rfl, fun hne => absurd rfl hne⟩
    | some names =>
      simp only [hn] at h2
      obtain ⟨axes0, ha, rfl⟩ := updateMetadataAxes_spec h2
      exact ⟨rfl, rfl, rfl, rfl, rfl, fun hh => by simp at hh, fun _ => ⟨axes0, ha, rfl⟩⟩
  obtain ⟨d1, d2, d3, d4, d5, d6, d7⟩ := hm2
  obtain ⟨a, b, ⟨p1, p2, p3, p4, p5⟩, r⟩ :=
    C10_write_dicts m2 n e np ep w (by rw [d1]; exact hwf.1) (by rw [d2]; exact hwf.2) hnp hep h
  refine ⟨by rw [← c3, ← d1]; exact a, by rw [← c4, ← d2]; exact b, by rw [p3, d5, c2], by rw [p1, d3, c5],
    by rw [p2, d4, c6], ?_, ?_, r⟩
  · intro hn
    rw [p5, d6 hn, c7]; simp
  · intro hn
    obtain ⟨axes0, ha, hm⟩ := d7 hn
    exact ⟨axes0, ha, by rw [p5, hm]; rfl⟩

end
end GeffProps.C10
