import GeffProps.C10
namespace GeffProps.C10
open Geff.Np Geff.MetaW
variable {κ : Type}
section
variable [LT κ] [DecidableLT κ] [Min κ] [Max κ] [LE κ] [Std.IsLinearOrder κ] [Std.LawfulOrderMin κ]
  [Std.LawfulOrderMax κ]

/-- **C10 (axis range, write_arrays)** — after a successful validated write of a non-empty graph,
every stored axis names a stored 1-D node property without missing mask, with one coordinate per
node, and its `min` / `max` are the least / greatest of those stored coordinates — whatever range
the caller's metadata carried before. -/
theorem C10_axis_range (md : Meta κ) (n e : Nat) (np ep : Option (List (String × PropData κ)))
    (nu eu : Option (List (String × List String))) (w : Written κ) (hn : 0 < n)
    (h : writeArraysValidated md n e np ep nu eu = .ok w) :
    ∀ axes, w.md.axes = some axes → ∀ a ∈ axes, ∃ sts st lo hi,
      w.nodes = some sts ∧ sts.find? (fun s => s.name = a.name) = some st ∧
      st.ndim = 1 ∧ st.hasMissing = false ∧ st.rows.length = n ∧
      a.min = some lo ∧ a.max = some hi ∧ IsMin lo st.rows.flatten ∧ IsMax hi st.rows.flatten := by
  unfold writeArraysValidated at h
  obtain ⟨w', hw, h2⟩ := bind_eq_ok h
  by_cases hacc : accepted n e w' = true
  · simp only [hacc, if_true, pure_eq, Except.ok.injEq] at h2
    subst h2
    intro axes hax a ha
    obtain ⟨nodeRes, edgeRes, h1, -, h3, hnodes, -⟩ := writeArrays_spec hw
    simp only [accepted, Bool.and_eq_true] at hacc
    obtain ⟨⟨hga, -⟩, haa⟩ := hacc
    -- validation: the axis names a stored 1-D property without missing mask
    simp only [axesAccepted, hax, List.all_eq_true] at haa
    have haa' := haa a ha
    cases hsts : w'.nodes with
    | none => simp [hsts] at haa'
    | some sts =>
      simp only [hsts] at haa'
      cases hf : sts.find? (fun st => decide (st.name = a.name)) with
      | none => simp [hf] at haa'
      | some st =>
        simp only [hf, Bool.and_eq_true, decide_eq_true_eq, Bool.not_eq_true'] at haa'
        have hstmem : st ∈ sts := List.mem_of_find?_eq_some hf
        -- … with one row per node
        simp only [groupAccepted, hsts, Bool.and_eq_true, List.all_eq_true, decide_eq_true_eq] at hga
        have hlen : st.len = n := (hga.2 st hstmem).1.2
        -- the node properties went through `write_props_arrays`
        rw [hnodes] at hsts
        cases nodeRes with
        | none => simp at hsts
        | some r =>
          obtain ⟨pms, sts0, ps'⟩ := r
          simp only [Option.map_some, Option.some.injEq] at hsts
          subst hsts
          rcases writeOpt_spec h1 with ⟨_, hc⟩ | ⟨ps, b, hps, hwp, hb⟩
          · cases hc
          · simp only [Option.some.injEq] at hb
            subst hb
            have hst1 := writePropsArrays_stored hwp
            -- the stored axes come out of `compute_and_add_axis_min_max` on that dict
            simp only [finishMeta] at h3
            rcases computeMinMax_spec h3 with ⟨hnone, hmd⟩ | ⟨axes0, axes', -, hm, hmd⟩
            · rw [← hmd] at hnone; rw [hax] at hnone; cases hnone
            · rw [hmd] at hax
              simp only [Option.some.injEq] at hax
              subst hax
              obtain ⟨a0, -, ha0⟩ := mapM_mem hm a ha
              obtain ⟨hstrip, p, hl, -, hpos⟩ := axisMinMax_spec ha0
              have hname : a.name = a0.name := by
                have := congrArg Axis.name hstrip; simpa [strip] using this
              -- the property found by name in the dict is the group found by name in the store
              rw [hst1, find_map_storedOf, hname, hl] at hf
              simp only [Option.map_some, Option.some.injEq] at hf
              subst hf
              have hlen' : p.values.len ≠ 0 := by
                have : (storedOf a0.name p).len = p.values.len := by
                  unfold storedOf Values.len; cases p.values <;> rfl
                omega
              obtain ⟨dt, tr, rows, vals, lo, hi, hv, hk, hlo, hhi, hmin, hmax⟩ := hpos hlen'
              have hmiss : p.missing = none := by
                have := haa'.2
                unfold storedOf at this
                rw [hv] at this
                simpa using this
              have hrows : (storedOf a0.name p).rows = rows := by unfold storedOf; rw [hv]
              have hvals : vals = rows.flatten := by
                rw [hmiss] at hk
                simpa [keptValues] using hk.symm
              subst hvals
              refine ⟨_, _, lo, hi, rfl, ?_, haa'.1, haa'.2, ?_, hmin, hmax, ?_, ?_⟩
              · rw [hst1, find_map_storedOf, hname, hl]; rfl
              · rw [hrows]
                have : (storedOf a0.name p).len = rows.length := by unfold storedOf; rw [hv]
                omega
              · rw [hrows]; exact List.min?_eq_some_iff.1 hlo
              · rw [hrows]; exact List.max?_eq_some_iff.1 hhi
  · simp [hacc] at h2

end
end GeffProps.C10
