import GeffModel.MetaWrite
namespace Geff.MetaW
open Geff.Np

@[simp] theorem pure_eq {α} (a : α) : (pure a : Res α) = .ok a := rfl
@[simp] theorem ok_bind {α β} (a : α) (f : α → Res β) : ((Except.ok a : Res α) >>= f) = f a := rfl
@[simp] theorem error_bind {α β} (e : Err) (f : α → Res β) : ((Except.error e : Res α) >>= f) = .error e := rfl
@[simp] theorem map_ok {α β} (f : α → β) (a : α) : f <$> (Except.ok a : Res α) = .ok (f a) := rfl
@[simp] theorem map_error {α β} (f : α → β) (e : Err) : f <$> (Except.error e : Res α) = .error e := rfl

/-! ### dicts -/
section dict
variable {β : Type}

theorem hasKey_iff (k : String) (d : List (String × β)) : hasKey k d = true ↔ k ∈ keys d := by
  simp [hasKey]

theorem lookup_none_iff (k : String) (d : List (String × β)) : lookup k d = none ↔ k ∉ keys d := by
  induction d with
  | nil => simp [lookup, keys]
  | cons p t ih =>
    obtain ⟨k', v⟩ := p
    simp only [lookup, keys, List.map_cons, List.mem_cons, not_or]
    by_cases h : k' = k
    · simp [h]
    · simp only [h, if_false]
      rw [ih]
      constructor
      · intro h2; exact ⟨fun e => h e.symm, h2⟩
      · intro h2; exact h2.2

theorem lookup_isSome_iff (k : String) (d : List (String × β)) : (lookup k d).isSome ↔ k ∈ keys d := by
  have := lookup_none_iff k d
  cases h : lookup k d with
  | none => simp [h] at this; simp [this]
  | some v =>
    simp only [h, reduceCtorEq, false_iff, Classical.not_not] at this
    simp [this]

theorem lookup_append (k : String) (a b : List (String × β)) :
    lookup k (a ++ b) = (lookup k a).or (lookup k b) := by
  induction a with
  | nil => simp [lookup]
  | cons p t ih =>
    obtain ⟨k', v'⟩ := p
    simp only [List.cons_append, lookup]
    by_cases hk : k' = k <;> simp [hk, ih]

theorem lookup_map_replace (k k' : String) (v : β) (d : List (String × β)) :
    lookup k (d.map (fun p => if p.1 = k' then (k', v) else p)) =
      if k' = k then (if hasKey k' d then some v else none) else lookup k d := by
  induction d with
  | nil => by_cases h : k' = k <;> simp [lookup, hasKey, keys, h]
  | cons p t ih =>
    obtain ⟨a, b⟩ := p
    simp only [List.map_cons]
    by_cases ha : a = k'
    · subst ha
      by_cases h : a = k
      · simp [lookup, h, hasKey, keys]
      · simp only [if_true, lookup, h, if_false]
        rw [ih]; simp [h]
    · simp only [ha, if_false, lookup]
      by_cases h : k' = k
      · subst h
        simp only [ha, if_false, if_true]
        rw [ih]
        have h1 : (k' == a) = false := by simpa using Ne.symm ha
        simp only [hasKey, keys, List.map_cons, List.contains_cons, h1, Bool.false_or, if_true]
        rfl
      · simp only [h, if_false] at ih ⊢
        rw [ih]

theorem lookup_insert (d : List (String × β)) (k k' : String) (v : β) :
    lookup k (insert d k' v) = if k' = k then some v else lookup k d := by
  unfold insert
  by_cases hk : hasKey k' d = true
  · simp only [hk, if_true]
    rw [lookup_map_replace]
    simp [hk]
  · have hk' : hasKey k' d = false := by simpa using hk
    simp only [hk', Bool.false_eq_true, if_false]
    rw [lookup_append]
    by_cases h : k' = k
    · subst h
      have : lookup k' d = none := (lookup_none_iff k' d).2 (fun hm => hk ((hasKey_iff k' d).2 hm))
      simp [this, lookup]
    · simp [lookup, h]

theorem keys_insert (d : List (String × β)) (k : String) (v : β) :
    keys (insert d k v) = if hasKey k d then keys d else keys d ++ [k] := by
  unfold insert
  by_cases hk : hasKey k d = true
  · simp only [hk, if_true, keys, List.map_map]
    apply List.map_congr_left
    intro p _
    by_cases h : p.1 = k <;> simp [h]
  · simp [hk, keys]

theorem nodup_insert (d : List (String × β)) (k : String) (v : β) (h : (keys d).Nodup) :
    (keys (insert d k v)).Nodup := by
  rw [keys_insert]
  by_cases hk : hasKey k d = true
  · simpa [hk] using h
  · have hk' : hasKey k d = false := by simpa using hk
    simp only [hk', Bool.false_eq_true, if_false]
    rw [List.nodup_append]
    refine ⟨h, by simp, ?_⟩
    intro a ha b hb
    simp only [List.mem_singleton] at hb
    subst hb
    intro e; subst e
    exact hk ((hasKey_iff _ _).2 ha)

end dict
end Geff.MetaW
