import GeffProofs.MetaWrite
namespace Geff.MetaW
open Geff.Np
section
variable {κ : Type}

theorem bind_eq_ok {α β} {x : Res α} {f : α → Res β} {b : β} (h : (x >>= f) = .ok b) :
    ∃ a, x = .ok a ∧ f a = .ok b := by
  cases x with
  | error e => simp at h
  | ok a => exact ⟨a, rfl, h⟩

/-! ### dict keys stay unique through un-squishing and the empty-axis arrays -/

theorem nodup_erase {β} (d : List (String × β)) (k : String) (h : (keys d).Nodup) : (keys (erase d k)).Nodup := by
  unfold erase keys
  exact List.Nodup.sublist (List.Sublist.map _ List.filter_sublist) h

theorem foldlM_insert_nodup {ι : Type} (c : ι → Bool) (g : ι → String) (v : ι → PropData κ) (l : List ι)
    (acc res : List (String × PropData κ))
    (h : l.foldlM (fun (acc : List (String × PropData κ)) ir =>
      if c ir then (Except.ok (insert acc (g ir) (v ir)) : Res _) else .error (.other "IndexError")) acc = .ok res)
    (hnd : (keys acc).Nodup) : (keys res).Nodup := by
  induction l generalizing acc with
  | nil => simp only [List.foldlM_nil, pure_eq, Except.ok.injEq] at h; subst h; exact hnd
  | cons a t ih =>
    simp only [List.foldlM_cons] at h
    by_cases hc : c a = true
    · simp only [hc, if_true, ok_bind] at h
      exact ih _ h (nodup_insert _ _ _ hnd)
    · simp [hc] at h

theorem unsquishOne_nodup {props props' : List (String × PropData κ)} {name : String} {rns : List String}
    (h : unsquishOne props name rns = .ok props') (hnd : (keys props).Nodup) : (keys props').Nodup := by
  unfold unsquishOne at h
  cases hl : lookup name props with
  | none => simp [hl] at h
  | some p =>
    simp only [hl] at h
    cases hv : p.values with
    | object es => simp [hv] at h
    | dense dt tr rows =>
      simp only [hv] at h
      by_cases htr : tr.length ≠ 1
      · simp [htr] at h
      · simp only [htr, if_false] at h
        obtain ⟨props1, hf, h2⟩ := bind_eq_ok h
        simp only [pure_eq, Except.ok.injEq] at h2
        subst h2
        apply nodup_erase
        exact foldlM_insert_nodup (fun ir : Nat × String => decide (ir.1 < tr.headD 0)) (·.2)
          (fun ir => ⟨.dense dt [] (rows.map (fun r => (r[ir.1]?).toList)), p.missing⟩)
          _ props props1 (by simpa using hf) hnd

theorem unsquishAll_nodup (u : List (String × List String)) (props props' : List (String × PropData κ))
    (h : u.foldlM (fun acc nr => unsquishOne acc nr.1 nr.2) props = .ok props') (hnd : (keys props).Nodup) :
    (keys props').Nodup := by
  induction u generalizing props with
  | nil => simp only [List.foldlM_nil, pure_eq, Except.ok.injEq] at h; subst h; exact hnd
  | cons a t ih =>
    simp only [List.foldlM_cons] at h
    cases h1 : unsquishOne props a.1 a.2 with
    | error e => simp [h1] at h
    | ok p1 =>
      simp only [h1, ok_bind] at h
      exact ih _ h (unsquishOne_nodup h1 hnd)

theorem addEmptyAxisProps_nodup (md : Meta κ) (n : Nat) (ps ps' : List (String × PropData κ))
    (h : addEmptyAxisProps md n (some ps) = some ps') (hnd : (keys ps).Nodup) : (keys ps').Nodup := by
  unfold addEmptyAxisProps at h
  cases ha : md.axes with
  | none => simp [ha] at h; subst h; exact hnd
  | some axes =>
    simp only [ha] at h
    by_cases hn : n = 0
    · simp only [hn, if_true, Option.some.injEq] at h
      subst h
      clear ha
      induction axes generalizing ps with
      | nil => exact hnd
      | cons a t ih =>
        simp only [List.foldl_cons]
        apply ih
        split
        · exact hnd
        · exact nodup_insert _ _ _ hnd
    · simp only [hn, if_false, Option.some.injEq] at h
      subst h; exact hnd

/-- `write_props_arrays` as a whole: the names written are unique when the dict's are -/
theorem writePropsArrays_spec {props ps' : List (String × PropData κ)} {u : Option (List (String × List String))}
    {pms : List PropMeta} {sts : List (Stored κ)}
    (h : writePropsArrays props u = .ok (pms, sts, ps')) (hnd : (keys props).Nodup) :
    (keys ps').Nodup ∧ sts = ps'.map (fun q => storedOf q.1 q.2) ∧ pms = ps'.map (fun q => entryOf q.1 q.2) := by
  unfold writePropsArrays at h
  have key : ∀ props1 : List (String × PropData κ), (keys props1).Nodup → writeLoop props1 = .ok (pms, sts, ps') →
      (keys ps').Nodup ∧ sts = ps'.map (fun q => storedOf q.1 q.2) ∧ pms = ps'.map (fun q => entryOf q.1 q.2) := by
    intro props1 hn1 hw
    obtain ⟨e1, e2, e3⟩ := writeLoop_spec hw
    refine ⟨?_, e2, e3⟩
    rw [e1]
    have : keys (props1.map (fun q => (q.1, upcast q.2))) = keys props1 := by
      simp [keys, List.map_map, Function.comp_def]
    rw [this]; exact hn1
  cases u with
  | none => exact key props hnd (by simpa using h)
  | some ul =>
    simp only at h
    cases hu : ul.foldlM (fun acc nr => unsquishOne acc nr.1 nr.2) props with
    | error e => simp [hu] at h
    | ok props1 =>
      simp only [hu, ok_bind] at h
      exact key props1 (unsquishAll_nodup ul props props1 hu hnd) h

end
end Geff.MetaW
