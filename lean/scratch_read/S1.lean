import GeffModel.PartialRead
namespace Geff.PRead
open Geff.Np

@[simp] theorem pure_eq {α} (a : α) : (pure a : Res α) = .ok a := rfl
@[simp] theorem ok_bind {α β} (a : α) (f : α → Res β) : ((Except.ok a : Res α) >>= f) = f a := rfl
@[simp] theorem error_bind {α β} (e : Err) (f : α → Res β) : ((Except.error e : Res α) >>= f) = .error e := rfl
@[simp] theorem map_ok {α β} (f : α → β) (a : α) : f <$> (Except.ok a : Res α) = .ok (f a) := rfl
@[simp] theorem map_error {α β} (f : α → β) (e : Err) : f <$> (Except.error e : Res α) = .error e := rfl

theorem filterByMask_nil_left {α} (m : List Bool) : filterByMask ([] : List α) m = [] := by
  cases m <;> rfl

theorem filterByMask_nil_right {α} (xs : List α) : filterByMask xs [] = [] := by
  cases xs <;> rfl

theorem filterByMask_map {α β} (f : α → β) (xs : List α) (m : List Bool) :
    filterByMask (xs.map f) m = (filterByMask xs m).map f := by
  induction xs generalizing m with
  | nil => simp [filterByMask_nil_left]
  | cons x xs ih =>
    cases m with
    | nil => simp [filterByMask_nil_right]
    | cons b bs => cases b <;> simp [filterByMask, ih]

theorem filterByMask_replicate_true {α} (xs : List α) :
    filterByMask xs (List.replicate xs.length true) = xs := by
  induction xs with
  | nil => rfl
  | cons x xs ih => simp [List.replicate_succ, filterByMask, ih]

theorem mem_filterByMask {α} {xs : List α} {m : List Bool} {x : α} (h : x ∈ filterByMask xs m) : x ∈ xs := by
  induction xs generalizing m with
  | nil => simp [filterByMask_nil_left] at h
  | cons y ys ih =>
    cases m with
    | nil => simp [filterByMask_nil_right] at h
    | cons b bs =>
      cases b
      · simp only [filterByMask] at h; exact List.mem_cons_of_mem _ (ih h)
      · simp only [filterByMask, if_true, List.mem_cons] at h
        rcases h with h | h
        · simp [h]
        · exact List.mem_cons_of_mem _ (ih h)

/-- `oindex[np.where(mask)[0]]` is `a[mask]` -/
theorem mapM_whereFrom {α} (pre xs : List α) (m : List Bool) (h : m.length ≤ xs.length) :
    (whereFrom pre.length m).mapM (fun i => match (pre ++ xs)[i]? with
      | some r => (Except.ok r : Res α)
      | none => .error (.other "IndexError")) = .ok (filterByMask xs m) := by
  induction m generalizing pre xs with
  | nil => simp [whereFrom, filterByMask_nil_right]
  | cons b bs ih =>
    cases xs with
    | nil => simp at h
    | cons x xs =>
      have h' : bs.length ≤ xs.length := by simpa using h
      have := ih (pre ++ [x]) xs h'
      simp only [List.length_append, List.length_cons, List.length_nil, List.append_assoc,
        List.cons_append, List.nil_append] at this
      cases b
      · simp only [whereFrom, filterByMask]
        simpa using this
      · simp only [whereFrom, filterByMask, if_true, List.mapM_cons]
        simp [this]

theorem loadZarrSubset_where {α} (xs : List α) (m : List Bool) (h : m.length ≤ xs.length) :
    loadZarrSubset xs (some (whereIdx m)) = .ok (filterByMask xs m) := by
  have := mapM_whereFrom [] xs m h
  simp only [List.length_nil, List.nil_append] at this
  unfold loadZarrSubset whereIdx
  exact this

end Geff.PRead
