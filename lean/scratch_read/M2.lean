import GeffProofs.MetaWrite
namespace Geff.MetaW
open Geff.Np

theorem addOrUpdateOne_has {E N : List (String × PropMeta)} {p : PropMeta} (h : hasKey p.identifier E = true) :
    addOrUpdateOne E N p = (E.map (fun q => if q.1 = p.identifier then (q.1, upd p q.2) else q), N) := by
  simp [addOrUpdateOne, h]

theorem addOrUpdateOne_not {E N : List (String × PropMeta)} {p : PropMeta} (h : hasKey p.identifier E = false) :
    addOrUpdateOne E N p = (E, insert N p.identifier p) := by
  simp [addOrUpdateOne, h]

theorem lookup_map_upd (k id : String) (f : PropMeta → PropMeta) (d : List (String × PropMeta)) :
    lookup k (d.map (fun q => if q.1 = id then (q.1, f q.2) else q)) =
      if id = k then (lookup k d).map f else lookup k d := by
  induction d with
  | nil => by_cases h : id = k <;> simp [lookup, h]
  | cons q t ih =>
    obtain ⟨a, b⟩ := q
    simp only [List.map_cons]
    by_cases ha : a = id
    · subst ha
      by_cases h : a = k
      · simp [lookup, h]
      · simp only [if_true, lookup, h, if_false] at ih ⊢
        exact ih
    · simp only [ha, if_false, lookup]
      by_cases h : a = k
      · subst h
        simp [Ne.symm ha]
      · simp only [h, if_false]
        exact ih

theorem keys_map_upd (id : String) (f : PropMeta → PropMeta) (d : List (String × PropMeta)) :
    keys (d.map (fun q => if q.1 = id then (q.1, f q.2) else q)) = keys d := by
  simp only [keys, List.map_map]
  apply List.map_congr_left
  intro p _
  by_cases h : p.1 = id <;> simp [h]

theorem addOrUpdateOne_fst_keys (E N : List (String × PropMeta)) (p : PropMeta) :
    keys (addOrUpdateOne E N p).1 = keys E := by
  unfold addOrUpdateOne
  split
  · exact keys_map_upd _ _ _
  · rfl

theorem loop_fst_keys (E N : List (String × PropMeta)) (pms : List PropMeta) :
    keys (addOrUpdateLoop E N pms).1 = keys E := by
  induction pms generalizing E N with
  | nil => rfl
  | cons p t ih => simp only [addOrUpdateLoop]; rw [ih, addOrUpdateOne_fst_keys]

theorem hasKey_congr {β γ} {a : List (String × β)} {b : List (String × γ)} (h : keys a = keys b) (k : String) :
    hasKey k a = hasKey k b := by simp [hasKey, h]

/-- an identifier that does not occur in `props_md` is left alone -/
theorem loop_frame (E N : List (String × PropMeta)) (pms : List PropMeta) (k : String)
    (hk : k ∉ pms.map (·.identifier)) :
    lookup k (addOrUpdateLoop E N pms).1 = lookup k E ∧ lookup k (addOrUpdateLoop E N pms).2 = lookup k N := by
  induction pms generalizing E N with
  | nil => exact ⟨rfl, rfl⟩
  | cons p t ih =>
    simp only [List.map_cons, List.mem_cons, not_or] at hk
    simp only [addOrUpdateLoop]
    obtain ⟨h1, h2⟩ := ih (addOrUpdateOne E N p).1 (addOrUpdateOne E N p).2 hk.2
    rw [h1, h2]
    unfold addOrUpdateOne
    split
    · refine ⟨?_, rfl⟩
      rw [lookup_map_upd]; simp [Ne.symm hk.1]
    · refine ⟨rfl, ?_⟩
      rw [lookup_insert]; simp [Ne.symm hk.1]

/-- the entry of a property that was written: updated in place when the caller had one, new otherwise -/
theorem loop_hit (E N : List (String × PropMeta)) (pms : List PropMeta)
    (hnd : (pms.map (·.identifier)).Nodup) (p : PropMeta) (hp : p ∈ pms) :
    (hasKey p.identifier E = true →
      lookup p.identifier (addOrUpdateLoop E N pms).1 = (lookup p.identifier E).map (upd p)) ∧
    (hasKey p.identifier E = false → lookup p.identifier (addOrUpdateLoop E N pms).2 = some p) := by
  induction pms generalizing E N with
  | nil => simp at hp
  | cons a t ih =>
    simp only [List.map_cons, List.nodup_cons] at hnd
    simp only [addOrUpdateLoop]
    rcases List.mem_cons.1 hp with rfl | hpt
    · -- this step handles `p`; the rest of the loop leaves it alone
      obtain ⟨f1, f2⟩ := loop_frame (addOrUpdateOne E N p).1 (addOrUpdateOne E N p).2 t p.identifier hnd.1
      rw [f1, f2]
      unfold addOrUpdateOne
      constructor
      · intro hk
        simp only [hk, if_true]
        rw [lookup_map_upd]; simp [upd]
      · intro hk
        simp only [hk, Bool.false_eq_true, if_false]
        rw [lookup_insert]; simp
    · have hne : a.identifier ≠ p.identifier := by
        intro e
        exact hnd.1 (List.mem_map.2 ⟨p, hpt, e.symm⟩)
      obtain ⟨i1, i2⟩ := ih (addOrUpdateOne E N a).1 (addOrUpdateOne E N a).2 hnd.2 hpt
      have hkeys : hasKey p.identifier (addOrUpdateOne E N a).1 = hasKey p.identifier E :=
        hasKey_congr (addOrUpdateOne_fst_keys E N a) _
      have hE : lookup p.identifier (addOrUpdateOne E N a).1 = lookup p.identifier E := by
        unfold addOrUpdateOne
        split
        · rw [lookup_map_upd]; simp [hne]
        · rfl
      constructor
      · intro hk
        rw [i1 (hkeys.trans hk), hE]
      · intro hk
        exact i2 (hkeys.trans hk)

theorem loop_snd_keys (E N : List (String × PropMeta)) (pms : List PropMeta) (k : String) :
    k ∈ keys (addOrUpdateLoop E N pms).2 ↔
      k ∈ keys N ∨ (k ∈ pms.map (·.identifier) ∧ k ∉ keys E) := by
  induction pms generalizing E N with
  | nil => simp [addOrUpdateLoop]
  | cons a t ih =>
    simp only [addOrUpdateLoop]
    rw [ih, addOrUpdateOne_fst_keys]
    unfold addOrUpdateOne
    by_cases hk : hasKey a.identifier E = true
    · simp only [hk, if_true, List.map_cons, List.mem_cons]
      have ha : a.identifier ∈ keys E := (hasKey_iff _ _).1 hk
      constructor
      · rintro (h | ⟨h1, h2⟩)
        · exact Or.inl h
        · exact Or.inr ⟨Or.inr h1, h2⟩
      · rintro (h | ⟨h1 | h1, h2⟩)
        · exact Or.inl h
        · subst h1; exact absurd ha h2
        · exact Or.inr ⟨h1, h2⟩
    · have hk' : hasKey a.identifier E = false := by simpa using hk
      have ha : a.identifier ∉ keys E := fun hm => hk ((hasKey_iff _ _).2 hm)
      simp only [hk', Bool.false_eq_true, if_false, List.map_cons, List.mem_cons, keys_insert]
      by_cases hn : hasKey a.identifier N = true
      · simp only [hn, if_true]
        have hn' : a.identifier ∈ keys N := (hasKey_iff _ _).1 hn
        constructor
        · rintro (h | ⟨h1, h2⟩)
          · exact Or.inl h
          · exact Or.inr ⟨Or.inr h1, h2⟩
        · rintro (h | ⟨h1 | h1, h2⟩)
          · exact Or.inl h
          · subst h1; exact Or.inl hn'
          · exact Or.inr ⟨h1, h2⟩
      · have hn' : hasKey a.identifier N = false := by simpa using hn
        simp only [hn', Bool.false_eq_true, if_false, List.mem_append, List.mem_singleton]
        constructor
        · rintro ((h | h) | ⟨h1, h2⟩)
          · exact Or.inl h
          · subst h; exact Or.inr ⟨Or.inl rfl, ha⟩
          · exact Or.inr ⟨Or.inr h1, h2⟩
        · rintro (h | ⟨h1 | h1, h2⟩)
          · exact Or.inl (Or.inl h)
          · exact Or.inl (Or.inr h1)
          · exact Or.inr ⟨h1, h2⟩

theorem loop_snd_nodup (E N : List (String × PropMeta)) (pms : List PropMeta) (h : (keys N).Nodup) :
    (keys (addOrUpdateLoop E N pms).2).Nodup := by
  induction pms generalizing E N with
  | nil => exact h
  | cons a t ih =>
    simp only [addOrUpdateLoop]
    apply ih
    unfold addOrUpdateOne
    split
    · exact h
    · exact nodup_insert _ _ _ h

/-! ### `dict.update` -/

theorem updateDict_lookup (d new : List (String × PropMeta)) (hnd : (keys new).Nodup) (k : String) :
    lookup k (updateDict d new) = (lookup k new).or (lookup k d) := by
  induction new generalizing d with
  | nil => simp [updateDict, lookup]
  | cons q t ih =>
    obtain ⟨a, b⟩ := q
    simp only [keys, List.map_cons, List.nodup_cons] at hnd
    simp only [updateDict]
    rw [ih _ hnd.2, lookup_insert]
    simp only [lookup]
    by_cases h : a = k
    · subst h
      have : lookup a t = none := (lookup_none_iff a t).2 hnd.1
      simp [this]
    · simp [h]

theorem keys_cons {β} (q : String × β) (t : List (String × β)) : keys (q :: t) = q.1 :: keys t := rfl

theorem updateDict_keys (d new : List (String × PropMeta)) (k : String) :
    k ∈ keys (updateDict d new) ↔ k ∈ keys d ∨ k ∈ keys new := by
  induction new generalizing d with
  | nil => simp [updateDict, keys]
  | cons q t ih =>
    simp only [updateDict]
    rw [ih, keys_insert, keys_cons, List.mem_cons]
    by_cases h : hasKey q.1 d = true
    · have := (hasKey_iff _ _).1 h
      simp only [h, if_true]
      constructor
      · rintro (h1 | h1)
        · exact Or.inl h1
        · exact Or.inr (Or.inr h1)
      · rintro (h1 | h1 | h1)
        · exact Or.inl h1
        · subst h1; exact Or.inl this
        · exact Or.inr h1
    · have h' : hasKey q.1 d = false := by simpa using h
      simp only [h', Bool.false_eq_true, if_false, List.mem_append, List.mem_singleton]
      constructor
      · rintro ((h1 | h1) | h1)
        · exact Or.inl h1
        · exact Or.inr (Or.inl h1)
        · exact Or.inr (Or.inr h1)
      · rintro (h1 | h1 | h1)
        · exact Or.inl (Or.inl h1)
        · exact Or.inl (Or.inr h1)
        · exact Or.inr h1

theorem updateDict_nodup (d new : List (String × PropMeta)) (h : (keys d).Nodup) :
    (keys (updateDict d new)).Nodup := by
  induction new generalizing d with
  | nil => exact h
  | cons q t ih => exact ih _ (nodup_insert _ _ _ h)

/-! ### `add_or_update_props_metadata` on one dict -/

theorem addOrUpdateDict_keys (E : List (String × PropMeta)) (pms : List PropMeta) (k : String) :
    k ∈ keys (addOrUpdateDict E pms) ↔ k ∈ keys E ∨ k ∈ pms.map (·.identifier) := by
  unfold addOrUpdateDict
  rw [updateDict_keys, loop_fst_keys, loop_snd_keys]
  simp only [keys, List.map_nil, List.not_mem_nil, false_or]
  constructor
  · rintro (h | ⟨h, _⟩)
    · exact Or.inl h
    · exact Or.inr h
  · rintro (h | h)
    · exact Or.inl h
    · by_cases hk : k ∈ List.map (fun x => x.fst) E
      · exact Or.inl hk
      · exact Or.inr ⟨h, hk⟩

theorem addOrUpdateDict_nodup (E : List (String × PropMeta)) (pms : List PropMeta) (h : (keys E).Nodup) :
    (keys (addOrUpdateDict E pms)).Nodup := by
  unfold addOrUpdateDict
  apply updateDict_nodup
  rw [loop_fst_keys]; exact h

/-- every written property has an entry: the caller's entry with dtype/varlength replaced when
there was one, the freshly created entry otherwise -/
theorem addOrUpdateDict_hit (E : List (String × PropMeta)) (pms : List PropMeta)
    (hnd : (pms.map (·.identifier)).Nodup) (p : PropMeta) (hp : p ∈ pms) :
    lookup p.identifier (addOrUpdateDict E pms) =
      some (match lookup p.identifier E with
        | some q => upd p q
        | none => p) := by
  unfold addOrUpdateDict
  rw [updateDict_lookup _ _ (loop_snd_nodup E [] pms (by simp [keys]))]
  obtain ⟨h1, h2⟩ := loop_hit E [] pms hnd p hp
  by_cases hk : hasKey p.identifier E = true
  · have hnone : lookup p.identifier (addOrUpdateLoop E [] pms).2 = none := by
      rw [lookup_none_iff, loop_snd_keys]
      simp only [keys, List.map_nil, List.not_mem_nil, false_or, not_and, Classical.not_not]
      intro _; exact (hasKey_iff _ _).1 hk
    rw [hnone, h1 hk]
    have := (lookup_isSome_iff p.identifier E).2 ((hasKey_iff _ _).1 hk)
    cases hl : lookup p.identifier E with
    | none => simp [hl] at this
    | some q => simp
  · have hk' : hasKey p.identifier E = false := by simpa using hk
    rw [h2 hk']
    have : lookup p.identifier E = none :=
      (lookup_none_iff _ _).2 (fun hm => hk ((hasKey_iff _ _).2 hm))
    simp [this]

/-- entries of other properties are untouched (stale entries stay — validation refuses them) -/
theorem addOrUpdateDict_frame (E : List (String × PropMeta)) (pms : List PropMeta) (k : String)
    (hk : k ∉ pms.map (·.identifier)) : lookup k (addOrUpdateDict E pms) = lookup k E := by
  unfold addOrUpdateDict
  rw [updateDict_lookup _ _ (loop_snd_nodup E [] pms (by simp [keys]))]
  obtain ⟨h1, h2⟩ := loop_frame E [] pms k hk
  rw [h1, h2]; simp [lookup]

end Geff.MetaW
