import GeffProofs.PartialRead
namespace Geff.PRead
open Geff.Np

/-! ### the property loop -/

def metaOf (md : List (String × PropMeta)) (name : String) : Res PropMeta :=
  match lookup name md with
  | some pm => pure pm
  | none => .error (.other "KeyError")

/-- `loadProps` with a total mask -/
def loadPropsSel (cast : Dtype → Val → Val) (md : List (String × PropMeta)) (m : List Bool) :
    List (String × ZarrProp) → Res (List (String × MemProp))
  | [] => .ok []
  | (name, zp) :: t =>
    metaOf md name >>= fun pm => loadSel cast zp pm m >>= fun p =>
      loadPropsSel cast md m t >>= fun rest => pure ((name, p) :: rest)

theorem loadProps_eq (cast : Dtype → Val → Val) (md : List (String × PropMeta))
    (mask : Option (List Bool)) (n : Nat) (ps : List (String × ZarrProp))
    (hps : ∀ q ∈ ps, q.2.lenOk n) (hlen : ∀ m, mask = some m → m.length = n) :
    loadProps cast md mask ps = loadPropsSel cast md (selMask mask n) ps := by
  induction ps with
  | nil => rfl
  | cons q t ih =>
    obtain ⟨name, zp⟩ := q
    have hz : zp.lenOk n := hps (name, zp) (by simp)
    have iht := ih (fun q hq => hps q (List.mem_cons_of_mem _ hq))
    simp only [loadProps, loadPropsSel, metaOf, loadPropToMemory_eq cast zp mask _ n hz hlen, iht]
    cases lookup name md <;> rfl

theorem loadPropsSel_lookup (cast : Dtype → Val → Val) (md : List (String × PropMeta)) (m : List Bool)
    (ps : List (String × ZarrProp)) (out : List (String × MemProp))
    (h : loadPropsSel cast md m ps = .ok out) (name : String) (zp : ZarrProp)
    (hl : lookup name ps = some zp) :
    ∃ pm p, lookup name md = some pm ∧ loadSel cast zp pm m = .ok p ∧ lookup name out = some p := by
  induction ps generalizing out with
  | nil => simp [lookup] at hl
  | cons q t ih =>
    obtain ⟨k, z⟩ := q
    simp only [loadPropsSel, metaOf] at h
    cases hmd : lookup k md with
    | none => simp [hmd] at h
    | some pm =>
      simp only [hmd, pure_eq, ok_bind] at h
      cases hp : loadSel cast z pm m with
      | error e => simp [hp] at h
      | ok p =>
        simp only [hp, ok_bind] at h
        cases hr : loadPropsSel cast md m t with
        | error e => simp [hr] at h
        | ok rest =>
          simp only [hr, ok_bind, Except.ok.injEq] at h
          subst h
          simp only [lookup] at hl ⊢
          by_cases hk : k = name
          · simp only [hk, if_true, Option.some.injEq] at hl ⊢
            subst hl; subst hk
            exact ⟨pm, p, hmd, hp, rfl⟩
          · simp only [hk, if_false] at hl ⊢
            exact ih rest hr hl

/-- the selected properties, loaded under the mask `m`, are the restriction of the full load -/
theorem loadPropsSel_restrict (cast : Dtype → Val → Val) (md : List (String × PropMeta)) (n : Nat)
    (all sel : List (String × ZarrProp)) (fullProps : List (String × MemProp)) (m : List Bool)
    (hall : ∀ q ∈ all, q.2.lenOk n)
    (hfull : loadPropsSel cast md (List.replicate n true) all = .ok fullProps)
    (hsel : ∀ q ∈ sel, lookup q.1 all = some q.2) :
    loadPropsSel cast md m sel = .ok (restrictProps (keys sel) m fullProps) := by
  induction sel with
  | nil => rfl
  | cons q t ih =>
    obtain ⟨name, zp⟩ := q
    have hl : lookup name all = some zp := hsel (name, zp) (by simp)
    obtain ⟨pm, p, hmd, hp, hout⟩ := loadPropsSel_lookup cast md _ all fullProps hfull name zp hl
    have hz : zp.lenOk n := hall (name, zp) (lookup_mem hl)
    have hp' := loadSel_restrict cast zp pm n hz p m hp
    have iht := ih (fun q hq => hsel q (List.mem_cons_of_mem _ hq))
    simp only [loadPropsSel, metaOf, hmd, pure_eq, ok_bind, hp', iht, keys, List.map_cons,
      restrictProps, List.filterMap_cons, hout, Option.map_some]

/-! ### the effective edge mask -/

/-- the edge mask `build` ends up applying, as a total mask -/
def effMask (nm em : Option (List Bool)) (kept : List Int) (edges : List (Int × Int)) : List Bool :=
  selMask (combineEdgeMask nm em kept edges) edges.length

theorem zipWith_replicate_true {α} (f : α → Bool) (l : List α) :
    List.zipWith (fun b e => b && f e) (List.replicate l.length true) l = l.map f := by
  induction l with
  | nil => rfl
  | cons a t ih => simp [List.replicate_succ, ih]

theorem zipWith_and_true {α} (f : α → Bool) (bs : List Bool) (l : List α) (hlen : bs.length = l.length)
    (h : ∀ e ∈ l, f e = true) : List.zipWith (fun b e => b && f e) bs l = bs := by
  induction l generalizing bs with
  | nil => cases bs <;> simp_all
  | cons a t ih =>
    cases bs with
    | nil => simp at hlen
    | cons b bs =>
      simp only [List.zipWith_cons_cons, List.cons.injEq]
      exact ⟨by simp [h a (by simp)], ih bs (by simpa using hlen) (fun e he => h e (List.mem_cons_of_mem _ he))⟩

theorem selMask_length (mask : Option (List Bool)) (n : Nat) (h : ∀ m, mask = some m → m.length = n) :
    (selMask mask n).length = n := by
  cases mask with
  | none => simp [selMask]
  | some m => simpa [selMask] using h m rfl

theorem combine_length (nm em : Option (List Bool)) (kept : List Int) (edges : List (Int × Int))
    (hem : ∀ m, em = some m → m.length = edges.length) :
    ∀ m, combineEdgeMask nm em kept edges = some m → m.length = edges.length := by
  intro m hm
  cases nm with
  | none => exact hem m hm
  | some x =>
    cases em with
    | none =>
      simp only [combineEdgeMask, Option.some.injEq] at hm
      subst hm; simp [endpointsIn]
    | some y =>
      simp only [combineEdgeMask, Option.some.injEq] at hm
      subst hm
      simp [endpointsIn, hem y rfl]

/-- with a node mask — or on a store whose edges join stored nodes — the mask `build` applies to
the edges is the specification's `edgeKeep` -/
theorem effMask_eq_edgeKeep (nm em : Option (List Bool)) (kept : List Int) (edges : List (Int × Int))
    (hem : ∀ m, em = some m → m.length = edges.length)
    (h : nm ≠ none ∨ ∀ e ∈ edges, (kept.contains e.1 && kept.contains e.2) = true) :
    effMask nm em kept edges = edgeKeep kept em edges := by
  unfold effMask edgeKeep
  cases nm with
  | some x =>
    cases em with
    | none => simp [combineEdgeMask, selMask, endpointsIn, zipWith_replicate_true]
    | some y => simp [combineEdgeMask, selMask, endpointsIn, List.zipWith_map_right]
  | none =>
    have hc : ∀ e ∈ edges, (kept.contains e.1 && kept.contains e.2) = true := by
      rcases h with h | h
      · exact absurd rfl h
      · exact h
    simp only [combineEdgeMask]
    exact (zipWith_and_true _ _ edges (selMask_length em _ hem) hc).symm

theorem filter_selMask {α} (xs : List α) (mask : Option (List Bool)) :
    (match mask with
      | some m => filterByMask xs m
      | none => xs) = filterByMask xs (selMask mask xs.length) := by
  cases mask with
  | none => simp [selMask, filterByMask_replicate_true]
  | some m => rfl

/-! ### normal form of `build` -/

theorem build_nf (cast : Dtype → Val → Val) (r : Reader) (nm em : Option (List Bool))
    (hnm : ∀ m, nm = some m → m.length = r.store.ids.length)
    (hem : ∀ m, em = some m → m.length = r.store.edges.length)
    (hn : ∀ q ∈ r.nodeProps, q.2.lenOk r.store.ids.length)
    (he : ∀ q ∈ r.edgeProps, q.2.lenOk r.store.edges.length) :
    build cast r nm em =
      (loadPropsSel cast r.store.nodeMeta (selMask nm r.store.ids.length) r.nodeProps >>= fun np =>
       loadPropsSel cast r.store.edgeMeta
          (effMask nm em (filterByMask r.store.ids (selMask nm r.store.ids.length)) r.store.edges)
          r.edgeProps >>= fun ep =>
       pure { nodeIds := filterByMask r.store.ids (selMask nm r.store.ids.length),
              edgeIds := filterByMask r.store.edges
                (effMask nm em (filterByMask r.store.ids (selMask nm r.store.ids.length)) r.store.edges),
              nodeProps := np, edgeProps := ep,
              nodeMeta := pruneMeta r.store.nodeMeta r.nodeProps,
              edgeMeta := pruneMeta r.store.edgeMeta r.edgeProps,
              metaRest := r.store.metaRest }) := by
  have hload : (maskToIndices nm r.store.ids.length >>= fun i => loadZarrSubset r.store.ids i)
      = .ok (filterByMask r.store.ids (selMask nm r.store.ids.length)) := load_eq _ nm _ rfl hnm
  have hemOk : ∃ i, maskToIndices em r.store.edges.length = .ok i := by
    cases em with
    | none => exact ⟨none, rfl⟩
    | some m => exact ⟨some (whereIdx m), by simp [maskToIndices, hem m rfl]⟩
  obtain ⟨ei, hei⟩ := hemOk
  cases hmi : maskToIndices nm r.store.ids.length with
  | error e => simp [hmi] at hload
  | ok ni =>
    simp only [hmi, ok_bind] at hload
    simp only [build, hmi, ok_bind, hload, hei]
    rw [loadProps_eq cast _ nm _ _ hn hnm]
    rw [loadProps_eq cast _ _ r.store.edges.length _ he (combine_length nm em _ _ hem)]
    unfold effMask
    generalize combineEdgeMask nm em _ r.store.edges = cm
    cases cm with
    | none => simp [selMask, filterByMask_replicate_true]
    | some m => rfl

end Geff.PRead
