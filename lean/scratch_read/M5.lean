import GeffProofs.MetaWrite
namespace Geff.MetaW
open Geff.Np
section
variable {κ : Type} [LT κ] [DecidableLT κ] [Min κ] [Max κ]

/-! ### `compute_and_add_axis_min_max` -/

/-- an axis without its data-dependent fields -/
def strip (a : Axis κ) : Axis κ := { a with min := none, max := none }

theorem mapM_mem {α β} {f : α → Res β} {l : List α} {l' : List β} (h : l.mapM f = .ok l') :
    ∀ b ∈ l', ∃ a ∈ l, f a = .ok b := by
  induction l generalizing l' with
  | nil => simp only [List.mapM_nil, pure_eq, Except.ok.injEq] at h; subst h; simp
  | cons x t ih =>
    simp only [List.mapM_cons] at h
    obtain ⟨y, hy, h2⟩ := bind_eq_ok h
    obtain ⟨ys, hys, h3⟩ := bind_eq_ok h2
    simp only [pure_eq, Except.ok.injEq] at h3
    subst h3
    intro b hb
    rcases List.mem_cons.1 hb with rfl | hb
    · exact ⟨x, by simp, hy⟩
    · obtain ⟨a, ha, hfa⟩ := ih hys b hb
      exact ⟨a, List.mem_cons_of_mem _ ha, hfa⟩

theorem mapM_map_congr {α β γ} {f : α → Res β} (g : β → γ) (g' : α → γ) {l : List α} {l' : List β}
    (h : l.mapM f = .ok l') (hg : ∀ a b, f a = .ok b → g b = g' a) : l'.map g = l.map g' := by
  induction l generalizing l' with
  | nil => simp only [List.mapM_nil, pure_eq, Except.ok.injEq] at h; subst h; simp
  | cons x t ih =>
    simp only [List.mapM_cons] at h
    obtain ⟨y, hy, h2⟩ := bind_eq_ok h
    obtain ⟨ys, hys, h3⟩ := bind_eq_ok h2
    simp only [pure_eq, Except.ok.injEq] at h3
    subst h3
    simp [hg x y hy, ih hys]

/-- what `compute_and_add_axis_min_max` does to one axis -/
theorem axisMinMax_spec {nodeProps : List (String × PropData κ)} {a a' : Axis κ}
    (h : axisMinMax nodeProps a = .ok a') :
    strip a' = strip a ∧ ∃ p, lookup a.name nodeProps = some p ∧
      (p.values.len = 0 → a' = a) ∧
      (p.values.len ≠ 0 → ∃ dt tr rows vals lo hi, p.values = .dense dt tr rows ∧
        keptValues rows p.missing = .ok vals ∧ vals.min? = some lo ∧ vals.max? = some hi ∧
        a'.min = some lo ∧ a'.max = some hi) := by
  unfold axisMinMax at h
  cases hl : lookup a.name nodeProps with
  | none => simp [hl] at h
  | some p =>
    simp only [hl] at h
    by_cases h0 : p.values.len = 0
    · simp only [h0, if_true, Except.ok.injEq] at h
      subst h
      exact ⟨rfl, p, rfl, fun _ => rfl, fun hne => absurd h0 hne⟩
    · simp only [h0, if_false] at h
      cases hv : p.values with
      | object es => simp [hv] at h
      | dense dt tr rows =>
        simp only [hv] at h
        obtain ⟨vals, hk, h2⟩ := bind_eq_ok h
        cases hlo : vals.min? with
        | none => simp [hlo] at h2
        | some lo =>
          cases hhi : vals.max? with
          | none => simp [hlo, hhi] at h2
          | some hi =>
            simp only [hlo, hhi, pure_eq, Except.ok.injEq] at h2
            subst h2
            exact ⟨rfl, p, rfl, fun h00 => absurd h00 h0,
              fun _ => ⟨dt, tr, rows, vals, lo, hi, hv, hk, hlo, hhi, rfl, rfl⟩⟩

theorem assignAxes_spec {md md' : Meta κ} {axes : Option (List (Axis κ))} (h : assignAxes md axes = .ok md') :
    md' = { md with axes := axes } := by
  unfold assignAxes at h
  split at h
  · cases h; rfl
  · cases h

/-- `compute_and_add_axis_min_max` touches nothing but the axes, and there only min/max -/
theorem computeMinMax_spec {md md' : Meta κ} {nodeProps : List (String × PropData κ)}
    (h : computeAndAddAxisMinMax md nodeProps = .ok md') :
    (md.axes = none ∧ md' = md) ∨
    ∃ axes axes', md.axes = some axes ∧ axes.mapM (axisMinMax nodeProps) = .ok axes' ∧
      md' = { md with axes := some axes' } := by
  unfold computeAndAddAxisMinMax at h
  cases ha : md.axes with
  | none => simp only [ha, Except.ok.injEq] at h; exact Or.inl ⟨rfl, h.symm⟩
  | some axes =>
    simp only [ha] at h
    obtain ⟨axes', hm, h2⟩ := bind_eq_ok h
    exact Or.inr ⟨axes, axes', rfl, hm, assignAxes_spec h2⟩

/-! ### `write_arrays`, decomposed -/

theorem writeOpt_spec {props : Option (List (String × PropData κ))} {u : Option (List (String × List String))}
    {r : Option (PropsResult κ)} (h : writeOpt props u = .ok r) :
    (props = none ∧ r = none) ∨ ∃ ps b, props = some ps ∧ writePropsArrays ps u = .ok b ∧ r = some b := by
  unfold writeOpt at h
  cases props with
  | none => simp only [Except.ok.injEq] at h; exact Or.inl ⟨rfl, h.symm⟩
  | some ps =>
    simp only at h
    cases hf : writePropsArrays ps u with
    | error e => simp [hf, Except.map] at h
    | ok b =>
      simp only [hf, Except.map, Except.ok.injEq] at h
      exact Or.inr ⟨ps, b, rfl, hf, h.symm⟩

/-- the metadata `write_arrays` stores: the caller's, with both props-metadata dicts run through
`add_or_update_props_metadata` and (when node properties were given) the axis ranges recomputed
from the dict that `write_props_arrays` left behind -/
theorem writeArrays_spec {md : Meta κ} {n : Nat} {np ep : Option (List (String × PropData κ))}
    {nu eu : Option (List (String × List String))} {w : Written κ}
    (h : writeArrays md n np ep nu eu = .ok w) :
    ∃ nodeRes edgeRes : Option (PropsResult κ),
      writeOpt (addEmptyAxisProps md n np) nu = .ok nodeRes ∧ writeOpt ep eu = .ok edgeRes ∧
      finishMeta (addOrUpdatePropsMetadata (addOrUpdatePropsMetadata md (pmsOf nodeRes) true)
        (pmsOf edgeRes) false) nodeRes = .ok w.md ∧
      w.nodes = nodeRes.map (·.2.1) ∧ w.edges = edgeRes.map (·.2.1) := by
  unfold writeArrays at h
  obtain ⟨nodeRes, h1, h⟩ := bind_eq_ok h
  obtain ⟨edgeRes, h2, h⟩ := bind_eq_ok h
  obtain ⟨md3, h3, h⟩ := bind_eq_ok h
  simp only [Except.ok.injEq] at h
  subst h
  exact ⟨nodeRes, edgeRes, h1, h2, h3, rfl, rfl⟩

end
end Geff.MetaW
