import GeffProps.C10
namespace Geff.MetaW
open Geff.Np
section
variable {κ : Type} [LT κ] [DecidableLT κ]

/-! ### `create_or_update_metadata`, `update_metadata_axes`, `axes_from_lists` -/

def callerNodeProps (md : Option (Meta κ)) : List (String × PropMeta) := (md.map (·.nodeProps)).getD []
def callerEdgeProps (md : Option (Meta κ)) : List (String × PropMeta) := (md.map (·.edgeProps)).getD []
def callerRest (md : Option (Meta κ)) : String := (md.map (·.rest)).getD ""
def callerHints (md : Option (Meta κ)) : List String := (md.map (·.hintNames)).getD []

theorem createOrUpdate_spec {version : String} {md : Option (Meta κ)} {d : Bool}
    {axes : Option (List (Axis κ))} {m : Meta κ} (h : createOrUpdateMetadata version md d axes = .ok m) :
    m.geffVersion = version ∧ m.directed = d ∧ m.nodeProps = callerNodeProps md ∧
    m.edgeProps = callerEdgeProps md ∧ m.rest = callerRest md ∧ m.hintNames = callerHints md ∧
    m.axes = axes.or (md.bind (·.axes)) := by
  unfold createOrUpdateMetadata at h
  cases md with
  | some m0 =>
    simp only at h
    cases axes with
    | some a =>
      simp only at h
      rw [assignAxes_spec h]
      exact ⟨rfl, rfl, rfl, rfl, rfl, rfl, rfl⟩
    | none =>
      simp only [Except.ok.injEq] at h
      subst h
      exact ⟨rfl, rfl, rfl, rfl, rfl, rfl, rfl⟩
  | none =>
    simp only at h
    rw [assignAxes_spec h]
    cases axes <;> exact ⟨rfl, rfl, rfl, rfl, rfl, rfl, rfl⟩

theorem updateMetadataAxes_spec {m m' : Meta κ} {ls : AxisLists} (h : updateMetadataAxes m ls = .ok m') :
    ∃ axes : List (Axis κ), axesFromLists ls none none = .ok axes ∧ m' = { m with axes := some axes } := by
  unfold updateMetadataAxes at h
  obtain ⟨axes, h1, h2⟩ := bind_eq_ok h
  exact ⟨axes, h1, assignAxes_spec h2⟩

/-- the caller's entry `i` of every list, as `axes_from_lists` reads it -/
def FromLists (ls : AxisLists) (roiMin roiMax : Option (List (Option κ))) (i : Nat) (n : String) (a : Axis κ) : Prop :=
  a.name = n ∧ pick ls.types i = .ok a.type ∧ pick ls.units i = .ok a.unit ∧ pick ls.scales i = .ok a.scale ∧
  pick ls.scaledUnits i = .ok a.scaledUnit ∧ pick ls.offset i = .ok a.offset ∧
  pick roiMin i = .ok a.min ∧ pick roiMax i = .ok a.max

theorem mkAxis_spec {ls : AxisLists} {roiMin roiMax : Option (List (Option κ))} {i : Nat} {n : String}
    {a : Axis κ} (h : mkAxis ls roiMin roiMax i n = .ok a) : FromLists ls roiMin roiMax i n a := by
  unfold mkAxis at h
  obtain ⟨ty, h1, h⟩ := bind_eq_ok h
  obtain ⟨un, h2, h⟩ := bind_eq_ok h
  obtain ⟨sc, h3, h⟩ := bind_eq_ok h
  obtain ⟨su, h4, h⟩ := bind_eq_ok h
  obtain ⟨off, h5, h⟩ := bind_eq_ok h
  obtain ⟨lo, h6, h⟩ := bind_eq_ok h
  obtain ⟨hi, h7, h⟩ := bind_eq_ok h
  split at h
  · simp only [Except.ok.injEq] at h
    subst h
    exact ⟨rfl, h1, h2, h3, h4, h5, h6, h7⟩
  · cases h

theorem axesLoop_spec {ls : AxisLists} {roiMin roiMax : Option (List (Option κ))} (i0 : Nat) (l : List String)
    (axes : List (Axis κ)) (h : axesLoop ls roiMin roiMax i0 l = .ok axes) :
    axes.length = l.length ∧ ∀ j n a, l[j]? = some n → axes[j]? = some a →
      FromLists ls roiMin roiMax (i0 + j) n a := by
  induction l generalizing i0 axes with
  | nil =>
    simp only [axesLoop, Except.ok.injEq] at h
    subst h; simp
  | cons n t ih =>
    simp only [axesLoop] at h
    obtain ⟨a, h1, h⟩ := bind_eq_ok h
    obtain ⟨rest, h2, h⟩ := bind_eq_ok h
    simp only [Except.ok.injEq] at h
    subst h
    obtain ⟨il, ij⟩ := ih (i0 + 1) rest h2
    refine ⟨by simp [il], ?_⟩
    intro j n' a' hn ha
    cases j with
    | zero =>
      simp only [List.getElem?_cons_zero, Option.some.injEq] at hn ha
      subst hn; subst ha
      simpa using mkAxis_spec h1
    | succ j =>
      simp only [List.getElem?_cons_succ] at hn ha
      have := ij j n' a' hn ha
      rwa [Nat.add_assoc, Nat.add_comm 1 j] at this

/-- **`axes_from_lists`** — one axis per name, in order, each field the caller's list entry (or
`None` when the list is `None`); every given list has as many entries as there are names
(the repaired `axis_offset` check included) -/
theorem axesFromLists_spec {ls : AxisLists} {roiMin roiMax : Option (List (Option κ))} {names : List String}
    {axes : List (Axis κ)} (hn : ls.names = some names) (h : axesFromLists ls roiMin roiMax = .ok axes) :
    axes.length = names.length ∧
    (∀ j n a, names[j]? = some n → axes[j]? = some a → FromLists ls roiMin roiMax j n a) ∧
    lenOk ls.units names.length = true ∧ lenOk ls.types names.length = true ∧
    lenOk ls.scales names.length = true ∧ lenOk ls.scaledUnits names.length = true ∧
    lenOk ls.offset names.length = true := by
  unfold axesFromLists at h
  simp only [hn] at h
  by_cases h1 : lenOk ls.units names.length = true
  · by_cases h2 : lenOk ls.types names.length = true
    · by_cases h3 : lenOk ls.scales names.length = true
      · by_cases h4 : lenOk ls.scaledUnits names.length = true
        · by_cases h5 : lenOk ls.offset names.length = true
          · simp only [h1, h2, h3, h4, h5, Bool.not_true, Bool.false_eq_true, if_false] at h
            obtain ⟨a, b⟩ := axesLoop_spec 0 names axes h
            exact ⟨a, by simpa using b, h1, h2, h3, h4, h5⟩
          · simp [h1, h2, h3, h4, h5] at h
        · simp [h1, h2, h3, h4] at h
      · simp [h1, h2, h3] at h
    · simp [h1, h2] at h
  · simp [h1] at h

end
end Geff.MetaW
