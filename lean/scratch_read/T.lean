example : DecidableEq (Option Int × Option Int × Option String × Option String) := inferInstance
example : DecidableEq (Option Int × Option Int × Option String) := inferInstance
example : DecidableEq (List (Option Int × Option Int × Option String × Option String)) := inferInstance
example : DecidableEq (Option (List (Option Int × Option Int × Option String × Option String))) := inferInstance
example : DecidableEq (Option (Option (List (Option Int × Option Int × Option String × Option String)))) := inferInstance
example : DecidableEq (Int × Int × Int × Int) := inferInstance
