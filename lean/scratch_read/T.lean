#check @List.min?_eq_some_iff
#check @List.max?_eq_some_iff
#check @List.min?_mem
#check @List.foldl_min
example : [3, 1, (2:Int)].min? = some 1 := by decide
#print Std.IsLinearOrder
