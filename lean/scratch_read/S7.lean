import GeffProofs.PartialRead
namespace Geff.PRead
open Geff.Np

theorem mem_filter_zipWith {α} (f : α → Bool) (bs : List Bool) (l : List α) (e : α)
    (h : e ∈ filterByMask l (List.zipWith (fun b x => b && f x) bs l)) : f e = true := by
  induction l generalizing bs with
  | nil => simp [filterByMask_nil_left] at h
  | cons a t ih =>
    cases bs with
    | nil => simp [filterByMask_nil_right] at h
    | cons b bs =>
      simp only [List.zipWith_cons_cons, filterByMask] at h
      by_cases hb : (b && f a) = true
      · simp only [hb, if_true, List.mem_cons] at h
        rcases h with rfl | h
        · simp only [Bool.and_eq_true] at hb; exact hb.2
        · exact ih bs h
      · simp only [hb] at h
        exact ih bs h

theorem loadPropsSel_keys (cast : Dtype → Val → Val) (md : List (String × PropMeta)) (m : List Bool)
    (ps : List (String × ZarrProp)) (out : List (String × MemProp))
    (h : loadPropsSel cast md m ps = .ok out) :
    keys out = keys ps ∧ ∀ k ∈ keys ps, k ∈ keys md := by
  induction ps generalizing out with
  | nil =>
    simp only [loadPropsSel, Except.ok.injEq] at h
    subst h; simp [keys]
  | cons q t ih =>
    obtain ⟨k, z⟩ := q
    simp only [loadPropsSel, metaOf] at h
    cases hmd : lookup k md with
    | none => simp [hmd] at h
    | some pm =>
      simp only [hmd, pure_eq, ok_bind] at h
      cases hp : loadSel cast z pm m with
      | error e => simp [hp] at h
      | ok p =>
        simp only [hp, ok_bind] at h
        cases hr : loadPropsSel cast md m t with
        | error e => simp [hr] at h
        | ok rest =>
          simp only [hr, ok_bind, Except.ok.injEq] at h
          subst h
          obtain ⟨h1, h2⟩ := ih rest hr
          refine ⟨by simp [keys] at h1 ⊢; exact h1, ?_⟩
          intro k' hk'
          simp only [keys, List.map_cons, List.mem_cons] at hk'
          rcases hk' with rfl | hk'
          · have := lookup_mem hmd
            simp only [keys, List.mem_map]
            exact ⟨(k', pm), this, rfl⟩
          · exact h2 k' hk'

/-- row `j` of a masked array is row `np.where(mask)[0][j]` of the full array -/
theorem whereFrom_get {α} (pre xs : List α) (m : List Bool) (h : m.length ≤ xs.length) :
    (whereFrom pre.length m).map (fun i => (pre ++ xs)[i]?) = (filterByMask xs m).map some := by
  induction m generalizing pre xs with
  | nil => simp [whereFrom, filterByMask_nil_right]
  | cons b bs ih =>
    cases xs with
    | nil => simp at h
    | cons x xs =>
      have h' : bs.length ≤ xs.length := by simpa using h
      have := ih (pre ++ [x]) xs h'
      simp only [List.length_append, List.length_cons, List.length_nil, List.append_assoc,
        List.cons_append, List.nil_append] at this
      cases b
      · simp only [whereFrom, filterByMask]
        simpa using this
      · simp only [whereFrom, filterByMask, if_true, List.map_cons]
        simp [this]

theorem mem_filterByMask_iff {α} (xs : List α) (m : List Bool) (u : α) :
    u ∈ filterByMask xs m ↔ ∃ i : Nat, xs[i]? = some u ∧ m[i]? = some true := by
  induction xs generalizing m with
  | nil => simp [filterByMask_nil_left]
  | cons x xs ih =>
    cases m with
    | nil => simp [filterByMask_nil_right]
    | cons b bs =>
      constructor
      · intro h
        cases b
        · simp only [filterByMask] at h
          obtain ⟨i, h1, h2⟩ := (ih bs).1 h
          exact ⟨i + 1, by simpa using h1, by simpa using h2⟩
        · simp only [filterByMask, if_true, List.mem_cons] at h
          rcases h with rfl | h
          · exact ⟨0, by simp, by simp⟩
          · obtain ⟨i, h1, h2⟩ := (ih bs).1 h
            exact ⟨i + 1, by simpa using h1, by simpa using h2⟩
      · rintro ⟨i, h1, h2⟩
        cases i with
        | zero =>
          simp only [List.getElem?_cons_zero, Option.some.injEq] at h1 h2
          subst h1; subst h2
          simp [filterByMask]
        | succ i =>
          simp only [List.getElem?_cons_succ] at h1 h2
          have := (ih bs).2 ⟨i, h1, h2⟩
          cases b <;> simp [filterByMask, this]

end Geff.PRead
