import GeffProofs.DictLayerGen
open Geff.Np Geff.Dicts Geff.PyDoDicts GeffProofs.DictLayerGen

def inS (d : Dtype) : Prop := d = .i64 ∨ d = .u64 ∨ d = .f64 ∨ d = .obj

theorem discover_inS (v : Int) : inS (discover (.i v)) := by
  by_cases h1 : -two63 ≤ v ∧ v < two63 <;> by_cases h2 : two63 ≤ v ∧ v < two64 <;> simp [inS, discover, h1, h2]

theorem promote_inS (a b : Dtype) (ha : inS a) (hb : inS b) : inS (promote a b) := by
  rcases ha with rfl | rfl | rfl | rfl <;> rcases hb with rfl | rfl | rfl | rfl <;> simp [inS, promote, rank]

theorem promote_i64 (a b : Dtype) (ha : inS a) (hb : inS b) (h : promote a b = .i64) : a = .i64 ∧ b = .i64 := by
  rcases ha with rfl | rfl | rfl | rfl <;> rcases hb with rfl | rfl | rfl | rfl <;> simp [promote, rank] at h ⊢

theorem foldl_inS (ds : List Dtype) : ∀ d, inS d → (∀ x ∈ ds, inS x) → inS (ds.foldl promote d) := by
  induction ds with
  | nil => intro d hd _; exact hd
  | cons x t ih => intro d hd h; exact ih _ (promote_inS d x hd (h x (by simp))) (fun y hy => h y (by simp [hy]))

theorem foldl_i64 (ds : List Dtype) : ∀ d, inS d → (∀ x ∈ ds, inS x) → ds.foldl promote d = .i64 →
    d = .i64 ∧ ∀ x ∈ ds, x = .i64 := by
  induction ds with
  | nil => intro d _ _ h; exact ⟨h, by simp⟩
  | cons x t ih =>
    intro d hd h hf
    have hx := h x (by simp)
    obtain ⟨h1, h2⟩ := ih _ (promote_inS d x hd hx) (fun y hy => h y (by simp [hy])) hf
    obtain ⟨h3, h4⟩ := promote_i64 d x hd hx h1
    exact ⟨h3, by intro y hy; rcases List.mem_cons.1 hy with rfl | hy; exact h4; exact h2 y hy⟩

theorem nodes_block (ids : List Int) :
    (if decide (ids.length > 0) then
      (do
        let mut nodesArr : IdArr := npAsarrayInts ids
        if anyLtZero nodesArr then
          raiseValueError
        let t2 : IdArr ← exactIntArrayIds ids nodesArr
        nodesArr := t2
        if !(isIntegerDtype nodesArr.dtype) then
          pure ()
        let t3 : IdArr ← astypeUint nodesArr
        nodesArr := t3
        pure nodesArr)
      else (do
        let mut nodesArr : IdArr := emptyIds
        pure nodesArr)) =
    (match nodeIdArr ids with
      | .ok l => .ok { dtype := .u64, src := l }
      | .error e => .error e) := by
  cases ids with
  | nil => simp [nodeIdArr, emptyIds, pure, Except.pure]
  | cons a t =>
    generalize hids : a :: t = ids
    have hne : ids ≠ [] := by rw [← hids]; simp
    have hlen : decide (ids.length > 0) = true := by
      rw [← hids]; simp
    simp only [hlen, if_true]
    unfold nodeIdArr
    by_cases hneg : ids.any (· < 0) = true
    · simp [anyLtZero, npAsarrayInts, hneg, raiseValueError, bind, Except.bind]
    · have hnn : ∀ v ∈ ids, 0 ≤ v := by
        intro v hv
        have : ¬ (v < 0) := fun h => hneg (List.any_eq_true.2 ⟨v, hv, by simpa using h⟩)
        omega
      have hneg' : ids.any (· < 0) = false := by simpa using hneg
      have hrange : (ids.all fun v => decide (0 ≤ v ∧ v < two64)) = ids.all (fun v => decide (v < two64)) := by
        rw [Bool.eq_iff_iff]
        simp only [List.all_eq_true, decide_eq_true_eq]
        exact ⟨fun h v hv => (h v hv).2, fun h v hv => ⟨hnn v hv, h v hv⟩⟩
      have hS : inS (joinAll (ids.map (fun v => discover (.i v)))) := by
        rw [← hids]
        simp only [List.map_cons, joinAll]
        exact foldl_inS _ _ (discover_inS a) (by intro x hx; obtain ⟨v, _, rfl⟩ := List.mem_map.1 hx; exact discover_inS v)
      simp only [anyLtZero, npAsarrayInts, hneg', Bool.false_eq_true, if_false, exactIntArrayIds, hne, ne_eq,
        not_false_eq_true, and_true, hrange, bind, Except.bind, pure, Except.pure]
      rcases hS with hj | hj | hj | hj
      · -- int64: every id is below 2^63
        have hall : ids.all (fun v => decide (v < two64)) = true := by
          rw [← hids] at hj ⊢
          simp only [List.map_cons, joinAll] at hj
          obtain ⟨h1, h2⟩ := foldl_i64 _ _ (discover_inS a) (by intro x hx; obtain ⟨v, _, rfl⟩ := List.mem_map.1 hx; exact discover_inS v) hj
          have key : ∀ v : Int, discover (.i v) = .i64 → v < two64 := by
            intro v hv
            by_cases h1 : -two63 ≤ v ∧ v < two63
            · have := h1.2; simp only [two63, two64] at *; omega
            · by_cases h2 : two63 ≤ v ∧ v < two64 <;> simp [discover, h1, h2] at hv
          simp only [List.all_cons, Bool.and_eq_true, decide_eq_true_eq, List.all_eq_true]
          exact ⟨key a h1, fun v hv => key v (h2 _ (List.mem_map.2 ⟨v, hv, rfl⟩))⟩
        have hmap : ids.map (fun v => if v < 0 then v + two64 else v) = ids := by
          conv => rhs; rw [← List.map_id ids]
          apply List.map_congr_left
          intro v hv
          have := hnn v hv
          simp [show ¬ v < 0 by omega]
        simp [hj, astypeUint, isIntegerDtype, hall, hmap]
      · by_cases hall : ids.all (fun v => decide (v < two64)) = true
        · simp [hj, astypeUint, hall]
        · simp [hj, hall]
      · by_cases hall : ids.all (fun v => decide (v < two64)) = true
        · simp [hj, astypeUint, hall]
        · simp [hj, hall]
      · by_cases hall : ids.all (fun v => decide (v < two64)) = true
        · have hq : ∀ x ∈ ids, 0 ≤ x ∧ x < two64 := by
            intro x hx
            exact ⟨hnn x hx, by simpa using List.all_eq_true.1 hall x hx⟩
          simp [hj, astypeUint, isIntegerDtype, hall]
          rw [if_pos hq]
        · have hw : ∃ x, x ∈ ids ∧ ¬ x < two64 := by
            apply Classical.byContradiction
            intro hc
            apply hall
            rw [List.all_eq_true]
            intro x hx
            exact decide_eq_true (Classical.byContradiction fun h => hc ⟨x, hx, h⟩)
          obtain ⟨x, hx, hlt⟩ := hw
          have hq : ¬ ∀ x ∈ ids, 0 ≤ x ∧ x < two64 := fun h => hlt (h x hx).2
          simp [hj, astypeUint, isIntegerDtype, hall]
          rw [if_neg hq]

theorem edges_block (es : List (Int × Int)) :
    (if decide (es.length > 0) then
      (do
        let t5 : EdgeArr ← asarrayPairs es .u64
        let mut edgesArr : EdgeArr := t5
        pure edgesArr)
      else (do
        let mut edgesArr : EdgeArr := emptyPairs .u64
        pure edgesArr)) =
    (match edgeIdArr es with
      | .ok l => .ok { dtype := .u64, pairs := l }
      | .error e => .error e) := by
  cases es with
  | nil => simp [edgeIdArr, emptyPairs, pure, Except.pure]
  | cons a t =>
    simp only [List.length_cons, gt_iff_lt, Nat.zero_lt_succ, decide_true, if_true, asarrayPairs, edgeIdArr, bind, Except.bind]
    by_cases h : ((a :: t).all fun e => decide (0 ≤ e.fst ∧ e.fst < two64 ∧ 0 ≤ e.snd ∧ e.snd < two64)) = true
    · simp only [h, if_true]; rfl
    · simp only [h, if_false]; rfl

/-- `write_dicts` with the model's pieces -/
def writeDictsSpec {σ μ φ ρ : Type} (removeTilde : σ → σ) (writeArrays : WriteArraysArgs σ μ φ → Except Err ρ)
    (geffStore : σ) (nodeData : List (Int × Attrs)) (edgeData : List ((Int × Int) × Attrs))
    (nodePropNames edgePropNames : List String) (metadata : μ) (zarrFormat : φ) (structureValidation : Bool) :
    Except Err ρ :=
  match nodeIdArr (idsOf nodeData) with
  | .error e => .error e
  | .ok nodes =>
    match edgeIdArr (idsOf edgeData) with
    | .error e => .error e
    | .ok edges =>
      match Gen.DictLayer.dictPropsToArr nodeData nodePropNames with
      | .error e => .error e
      | .ok np =>
        match Gen.DictLayer.dictPropsToArr edgeData edgePropNames with
        | .error e => .error e
        | .ok ep =>
          writeArrays { geffStore := removeTilde geffStore, nodeIds := ⟨.u64, nodes⟩, nodeProps := np,
                        edgeIds := ⟨.u64, edges⟩, edgeProps := ep, metadata := metadata,
                        zarrFormat := zarrFormat, structureValidation := structureValidation }

theorem wd_eq {σ μ φ ρ : Type} (removeTilde : σ → σ) (writeArrays : WriteArraysArgs σ μ φ → Except Err ρ)
    (geffStore : σ) (nodeData : List (Int × Attrs)) (edgeData : List ((Int × Int) × Attrs))
    (nodePropNames edgePropNames : List String) (metadata : μ) (zarrFormat : φ) (structureValidation : Bool) :
    Gen.DictLayer.writeDicts removeTilde writeArrays geffStore nodeData edgeData nodePropNames edgePropNames
        metadata zarrFormat structureValidation =
      writeDictsSpec removeTilde writeArrays geffStore nodeData edgeData nodePropNames edgePropNames
        metadata zarrFormat structureValidation := by
  unfold Gen.DictLayer.writeDicts writeDictsSpec
  simp only [pyList]
  refine Eq.trans (congrArg (· >>= _) (nodes_block (idsOf nodeData))) ?_
  cases hn : nodeIdArr (idsOf nodeData) with
  | error e => rfl
  | ok nodes =>
    show ((if _ then _ else _ : Except Err EdgeArr) >>= _) = _
    refine Eq.trans (congrArg (· >>= _) (edges_block (idsOf edgeData))) ?_
    cases he : edgeIdArr (idsOf edgeData) with
    | error e => rfl
    | ok edges =>
      show ((Gen.DictLayer.dictPropsToArr nodeData nodePropNames) >>= _) = _
      cases Gen.DictLayer.dictPropsToArr nodeData nodePropNames with
      | error e => rfl
      | ok np =>
        show ((Gen.DictLayer.dictPropsToArr edgeData edgePropNames) >>= _) = _
        cases Gen.DictLayer.dictPropsToArr edgeData edgePropNames with
        | error e => rfl
        | ok ep =>
          rfl
