
/-! ## dict_props_to_arr -/

theorem mapE_congr' {α β : Type} (f g : α → Except Err β) (l : List α) (h : ∀ x ∈ l, f x = g x) :
    mapE f l = mapE g l := by
  induction l with
  | nil => rfl
  | cons a t ih =>
    simp only [mapE, h a (by simp)]
    rw [ih (fun x hx => h x (by simp [hx]))]

theorem varLenWithNone_noNone (vals : List PyVal) (h : vals.any PyVal.isNone = false) :
    varLenWithNone vals = (match constructVarLenProps vals with
      | .error e => .error e
      | .ok (d, rows) => .ok (d, rows, none)) := by
  have hall : ∀ x ∈ vals, x.isNone = false := by simpa using h
  have hf : vals.filter (fun x => !x.isNone) = vals := by
    apply List.filter_eq_self.2
    intro x hx; simp [hall x hx]
  unfold varLenWithNone constructVarLenProps
  rw [hf]
  cases commonTypeDims vals with
  | error e => rfl
  | ok r =>
    obtain ⟨d, w, nd⟩ := r
    simp only
    split
    · rfl
    · rw [mapE_congr' _ (varLenRow d nd) vals (fun x hx => by simp [hall x hx])]
      cases mapE (varLenRow d nd) vals <;> simp [h]

/-- what `dict_props_to_arr` does with one property after its loop over the elements -/
def afterLoop (values : List PyVal) (missing : List Bool) (missingAny : Bool) : Except Err Col :=
  if values.any PyVal.isNone then
    if values.any PyVal.isArr then
      match varLenWithNone values with
      | .error e => .error e
      | .ok (d, rows, _) =>
        .ok { dtype := d, varlen := true, rows := rows, missing := some (orMasks missing (values.map PyVal.isNone)) }
    else .error (.unmodelled "object array holding None")
  else
    match valuesToArr values with
    | .error e => .error e
    | .ok (d, vl, rows) =>
      .ok { dtype := d, varlen := vl, rows := rows, missing := if missingAny then some missing else none }

theorem tail_eq (values : List PyVal) (missing : List Bool) (missingAny : Bool)
    (hlen : missing.length = values.length) :
    (tryExceptValueError
        (do
          let valuesArr ← npAsarray values
          let t3 ← exactIntArray values valuesArr
          pure (t3, missing, missingAny))
        (do
          let varLenProps ← constructVarLenPropsModel values
          if varLenProps.missing.isSome = true then do
              let t4 ← zipStrictOr missing varLenProps.missing
              pure (varLenProps.values, t4, true)
            else pure (varLenProps.values, missing, missingAny)) >>= fun r1 =>
      mkPropDict (if r1.2.2 = true then some (asarrayBool r1.2.1) else none) r1.1)
    = afterLoop values missing missingAny := by
  unfold afterLoop
  by_cases hn : values.any PyVal.isNone = true
  · by_cases ha : values.any PyVal.isArr = true
    · simp only [npAsarray, hn, ha, if_true, bind, Except.bind, tryExceptValueError, constructVarLenPropsModel]
      cases hv : varLenWithNone values with
      | error e => rfl
      | ok r =>
        obtain ⟨d, rows, m⟩ := r
        have hm : m = some (values.map PyVal.isNone) := by
          unfold varLenWithNone at hv
          split at hv
          · cases hv
          · split at hv
            · cases hv
            · split at hv
              · cases hv
              · simp only [hn, if_true, Except.ok.injEq, Prod.mk.injEq] at hv
                exact hv.2.2.symm
        subst hm
        simp [zipStrictOr, hlen, mkPropDict, asarrayBool, pure, Except.pure]
    · simp only [npAsarray, hn, ha, if_true, bind, Except.bind, tryExceptValueError]
      simp
  · have hn' : values.any PyVal.isNone = false := by simpa using hn
    simp only [hn, if_false]
    cases values with
    | nil =>
      simp [npAsarray, exactIntArray, valuesToArr, tryExceptValueError, mkPropDict, asarrayBool, bind, Except.bind, pure, Except.pure]
    | cons x t =>
      by_cases hs : (x :: t).all (fun y => pyShape y = pyShape x) = true
      · simp only [npAsarray, hn', hs, if_true, valuesToArr, regularArr, exactIntDtype, exactIntArray, asarrayAs, bind, Except.bind]
        generalize hj : joinAll (List.map discover (List.flatMap pyLeaves (x :: t))) = j
        generalize (x :: t) = vals
        simp only [Bool.false_eq_true, if_false]
        by_cases hc : (j = Dtype.f64 ∨ j = Dtype.u64) ∧ List.flatMap pyLeaves vals ≠ [] ∧ (List.flatMap pyLeaves vals).all isInt = true
        · simp only [if_pos hc]
          by_cases hu : (List.flatMap pyLeaves vals).all inU64 = true
          · simp only [hu, if_true, tryExceptValueError, pure, Except.pure, mkPropDict, asarrayBool]
            cases mapE (fun y => castRow Dtype.u64 (pyRow y)) vals <;> rfl
          · simp only [hu, if_false, tryExceptValueError]
            rfl
        · simp only [if_neg hc, tryExceptValueError, pure, Except.pure, mkPropDict, asarrayBool]
          cases mapE (fun y => castRow j (pyRow y)) vals <;> rfl
      · have hs' : (x :: t).all (fun y => pyShape y = pyShape x) = false := by simpa using hs
        simp only [npAsarray, hn', hs', valuesToArr, tryExceptValueError, constructVarLenPropsModel, bind, Except.bind]
        simp only [Bool.false_eq_true, if_false]
        rw [varLenWithNone_noNone _ hn']
        cases constructVarLenProps (x :: t) with
        | error e => rfl
        | ok r =>
          obtain ⟨d, rows⟩ := r
          simp [mkPropDict, asarrayBool, pure, Except.pure]
