import scratch_c03.G
open Geff.Np Geff.Dicts Geff.PyDoDicts Gen.DictLayer

theorem ddv_eq {ι : Type} (data : List (ι × Attrs)) (name : String) :
    Gen.DictLayer.determineDefaultValue data name = .ok (Geff.Dicts.determineDefaultValue data name) := by
  unfold Gen.DictLayer.determineDefaultValue Geff.Dicts.determineDefaultValue
  induction data with
  | nil => simp [pure, bind, Except.bind, Except.pure]; 
  | cons d t ih =>
    simp only [List.forIn_cons]
    trace_state
    sorry
