import GeffModel.PyDoDicts
namespace Gen.DictLayer
open Geff.Np Geff.Dicts Geff.PyDoDicts

def determineDefaultValue {ι : Type} (data : List (ι × Attrs)) (propName : String) : Except Err PyVal := do
  for d in data do
    let dataDict : Attrs := d.2
    if dictContains dataDict propName then
      let t1 ← dictGetItem dataDict propName
      let value : PyVal := t1
      if pyIsInstance value [PyClass.int, PyClass.float] then
        let t2 ← typeCallZero value
        return t2
      else if pyIsInstance value [PyClass.str] then
        return PyVal.sc (.s "")
      else
        return value
  return PyVal.sc (.i 0)

def dictPropsToArr {ι : Type} (data : List (ι × Attrs)) (propNames : List String) : Except Err (List (String × Col)) := do
  let mut propsDict : List (String × Col) := []
  for name in propNames do
    let mut values : List PyVal := []
    let mut missing : List Bool := []
    let mut missingAny : Bool := false
    let mut defaultVal : PyVal := PyVal.none
    for d in data do
      let dataDict : Attrs := d.2
      if dictContains dataDict name then
        let t1 ← dictGetItem dataDict name
        values := values ++ [t1]
        missing := missing ++ [false]
      else
        if isNone defaultVal then
          let t2 ← determineDefaultValue data name
          defaultVal := t2
        values := values ++ [defaultVal]
        missing := missing ++ [true]
        missingAny := true
    let r1 ← tryExceptValueError
      (do
        let mut valuesArr : NArr ← npAsarray values
        let t3 ← exactIntArray values valuesArr
        valuesArr := t3
        pure (valuesArr, missing, missingAny))
      (do
        let mut missing := missing
        let mut missingAny := missingAny
        let varLenProps : VarLenProps ← constructVarLenPropsModel values
        let mut valuesArr : NArr := varLenProps.values
        if varLenProps.missing.isSome then
          let t4 ← zipStrictOr missing varLenProps.missing
          missing := t4
          missingAny := true
        pure (valuesArr, missing, missingAny))
    let valuesArr : NArr := r1.1
    missing := r1.2.1
    missingAny := r1.2.2
    let missingArr : Option (List Bool) := (if missingAny then some (asarrayBool missing) else none)
    let t5 ← mkPropDict missingArr valuesArr
    propsDict := dictSetItem propsDict name t5
  return propsDict
end Gen.DictLayer
