import GeffModel.PyDoDicts
namespace Gen.DictLayer
open Geff.Np Geff.Dicts Geff.PyDoDicts

def determineDefaultValue {ι : Type} (data : List (ι × Attrs)) (propName : String) : Except Err PyVal := do
  for d in data do
    let dataDict : Attrs := d.2
    if dictContains dataDict propName then
      let t1 ← dictGetItem dataDict propName
      let value : PyVal := t1
      if pyIsInstance value [PyClass.int, PyClass.float] then
        let t2 ← typeCallZero value
        return t2
      else if pyIsInstance value [PyClass.str] then
        return PyVal.sc (.s "")
      else
        return value
  return PyVal.sc (.i 0)

def dictPropsToArr {ι : Type} (data : List (ι × Attrs)) (propNames : List String) : Except Err (List (String × Col)) := do
  let mut propsDict : List (String × Col) := []
  for name in propNames do
    let mut values : List PyVal := []
    let mut missing : List Bool := []
    let mut missingAny : Bool := false
    let mut defaultVal : PyVal := PyVal.none
    for d in data do
      let dataDict : Attrs := d.2
      if dictContains dataDict name then
        let t1 ← dictGetItem dataDict name
        values := values ++ [t1]
        missing := missing ++ [false]
      else
        if isNone defaultVal then
          let t2 ← determineDefaultValue data name
          defaultVal := t2
        values := values ++ [defaultVal]
        missing := missing ++ [true]
        missingAny := true
    let r1 ← tryExceptValueError
      (do
        let mut valuesArr : NArr ← npAsarray values
        let t3 ← exactIntArray values valuesArr
        valuesArr := t3
        pure (valuesArr, missing, missingAny))
      (do
        let mut missing := missing
        let mut missingAny := missingAny
        let varLenProps : VarLenProps ← constructVarLenPropsModel values
        let mut valuesArr : NArr := varLenProps.values
        if varLenProps.missing.isSome then
          let t4 ← zipStrictOr missing varLenProps.missing
          missing := t4
          missingAny := true
        pure (valuesArr, missing, missingAny))
    let valuesArr : NArr := r1.1
    missing := r1.2.1
    missingAny := r1.2.2
    let missingArr : Option (List Bool) := (if missingAny then some (asarrayBool missing) else none)
    let t5 ← mkPropDict missingArr valuesArr
    propsDict := dictSetItem propsDict name t5
  return propsDict
end Gen.DictLayer
open Geff.Np Geff.Dicts Geff.PyDoDicts Gen.DictLayer

def ddvStep {ι : Type} (name : String) (d : ι × Attrs) : Except Err (ForInStep (Option PyVal × Unit)) :=
  match d.2.lookup name with
  | none => .ok (.yield (none, ()))
  | some v => .ok (.done (some (defaultFor v), ()))

theorem ddv_forIn {ι : Type} (name : String)
    (body : ι × Attrs → Option PyVal × Unit → Except Err (ForInStep (Option PyVal × Unit)))
    (hstep : ∀ d, body d (none, ()) = ddvStep name d) (data : List (ι × Attrs)) :
    forIn data (none, ()) body = .ok ((data.findSome? (fun d => d.2.lookup name)).map defaultFor, ()) := by
  induction data with
  | nil => rfl
  | cons d t ih =>
    rw [List.forIn_cons, hstep]
    unfold ddvStep
    cases h : d.2.lookup name with
    | none => simp only [List.findSome?_cons, h]; exact ih
    | some v => simp [List.findSome?_cons, h, bind, Except.bind, pure, Except.pure]

theorem instOf_cases (v : PyVal) :
  (if pyIsInstance v [PyClass.int, PyClass.float] = true then typeCallZero v
   else if pyIsInstance v [PyClass.str] = true then .ok (PyVal.sc (.s "")) else .ok v) = .ok (defaultFor v) := by
  cases v with
  | sc x => cases x <;> simp [pyIsInstance, instOf, typeCallZero, defaultFor]
  | arr s f => simp [pyIsInstance, instOf, defaultFor]
  | none => simp [pyIsInstance, instOf, defaultFor]

theorem ddv_eq {ι : Type} (data : List (ι × Attrs)) (name : String) :
    Gen.DictLayer.determineDefaultValue data name = .ok (Geff.Dicts.determineDefaultValue data name) := by
  unfold Gen.DictLayer.determineDefaultValue Geff.Dicts.determineDefaultValue
  show (forIn data _ _ >>= _) = _
  rw [ddv_forIn name]
  · cases data.findSome? (fun d => d.2.lookup name) <;> rfl
  · intro d
    unfold ddvStep
    cases h : d.2.lookup name with
    | none => simp [dictContains, h]; rfl
    | some v =>
      simp only [dictContains, dictGetItem, h, Option.isSome_some, if_true, bind, Except.bind]
      have := instOf_cases v
      cases v with
      | sc x => cases x <;> simp [pyIsInstance, instOf, typeCallZero, defaultFor, pure, Except.pure]
      | arr s f => simp [pyIsInstance, instOf, defaultFor, pure, Except.pure]
      | none => simp [pyIsInstance, instOf, defaultFor, pure, Except.pure]

/-! ## dict_props_to_arr -/

theorem mapE_congr' {α β : Type} (f g : α → Except Err β) (l : List α) (h : ∀ x ∈ l, f x = g x) :
    mapE f l = mapE g l := by
  induction l with
  | nil => rfl
  | cons a t ih =>
    simp only [mapE, h a (by simp)]
    rw [ih (fun x hx => h x (by simp [hx]))]

theorem varLenWithNone_noNone (vals : List PyVal) (h : vals.any PyVal.isNone = false) :
    varLenWithNone vals = (match constructVarLenProps vals with
      | .error e => .error e
      | .ok (d, rows) => .ok (d, rows, none)) := by
  have hall : ∀ x ∈ vals, x.isNone = false := by simpa using h
  have hf : vals.filter (fun x => !x.isNone) = vals := by
    apply List.filter_eq_self.2
    intro x hx; simp [hall x hx]
  unfold varLenWithNone constructVarLenProps
  rw [hf]
  cases commonTypeDims vals with
  | error e => rfl
  | ok r =>
    obtain ⟨d, w, nd⟩ := r
    simp only
    split
    · rfl
    · rw [mapE_congr' _ (varLenRow d nd) vals (fun x hx => by simp [hall x hx])]
      cases mapE (varLenRow d nd) vals <;> simp [h]

/-- what `dict_props_to_arr` does with one property after its loop over the elements -/
def afterLoop (values : List PyVal) (missing : List Bool) (missingAny : Bool) : Except Err Col :=
  if values.any PyVal.isNone then
    if values.any PyVal.isArr then
      match varLenWithNone values with
      | .error e => .error e
      | .ok (d, rows, _) =>
        .ok { dtype := d, varlen := true, rows := rows, missing := some (orMasks missing (values.map PyVal.isNone)) }
    else .error (.unmodelled "object array holding None")
  else
    match valuesToArr values with
    | .error e => .error e
    | .ok (d, vl, rows) =>
      .ok { dtype := d, varlen := vl, rows := rows, missing := if missingAny then some missing else none }

theorem tail_eq (values : List PyVal) (missing : List Bool) (missingAny : Bool)
    (hlen : missing.length = values.length) :
    (tryExceptValueError
        (do
          let valuesArr ← npAsarray values
          let t3 ← exactIntArray values valuesArr
          pure (t3, missing, missingAny))
        (do
          let varLenProps ← constructVarLenPropsModel values
          if varLenProps.missing.isSome = true then do
              let t4 ← zipStrictOr missing varLenProps.missing
              pure (varLenProps.values, t4, true)
            else pure (varLenProps.values, missing, missingAny)) >>= fun r1 =>
      mkPropDict (if r1.2.2 = true then some (asarrayBool r1.2.1) else none) r1.1)
    = afterLoop values missing missingAny := by
  unfold afterLoop
  by_cases hn : values.any PyVal.isNone = true
  · by_cases ha : values.any PyVal.isArr = true
    · simp only [npAsarray, hn, ha, if_true, bind, Except.bind, tryExceptValueError, constructVarLenPropsModel]
      cases hv : varLenWithNone values with
      | error e => rfl
      | ok r =>
        obtain ⟨d, rows, m⟩ := r
        have hm : m = some (values.map PyVal.isNone) := by
          unfold varLenWithNone at hv
          split at hv
          · cases hv
          · split at hv
            · cases hv
            · split at hv
              · cases hv
              · simp only [hn, if_true, Except.ok.injEq, Prod.mk.injEq] at hv
                exact hv.2.2.symm
        subst hm
        simp [zipStrictOr, hlen, mkPropDict, asarrayBool, pure, Except.pure]
    · simp only [npAsarray, hn, ha, if_true, bind, Except.bind, tryExceptValueError]
      simp
  · have hn' : values.any PyVal.isNone = false := by simpa using hn
    simp only [hn, if_false]
    cases values with
    | nil =>
      simp [npAsarray, exactIntArray, valuesToArr, tryExceptValueError, mkPropDict, asarrayBool, bind, Except.bind, pure, Except.pure]
    | cons x t =>
      by_cases hs : (x :: t).all (fun y => pyShape y = pyShape x) = true
      · simp only [npAsarray, hn', hs, if_true, valuesToArr, regularArr, exactIntDtype, exactIntArray, asarrayAs, bind, Except.bind]
        generalize hj : joinAll (List.map discover (List.flatMap pyLeaves (x :: t))) = j
        generalize (x :: t) = vals
        simp only [Bool.false_eq_true, if_false]
        by_cases hc : (j = Dtype.f64 ∨ j = Dtype.u64) ∧ List.flatMap pyLeaves vals ≠ [] ∧ (List.flatMap pyLeaves vals).all isInt = true
        · simp only [if_pos hc]
          by_cases hu : (List.flatMap pyLeaves vals).all inU64 = true
          · simp only [hu, if_true, tryExceptValueError, pure, Except.pure, mkPropDict, asarrayBool]
            cases mapE (fun y => castRow Dtype.u64 (pyRow y)) vals <;> rfl
          · simp only [hu, if_false, tryExceptValueError]
            rfl
        · simp only [if_neg hc, tryExceptValueError, pure, Except.pure, mkPropDict, asarrayBool]
          cases mapE (fun y => castRow j (pyRow y)) vals <;> rfl
      · have hs' : (x :: t).all (fun y => pyShape y = pyShape x) = false := by simpa using hs
        simp only [npAsarray, hn', hs', valuesToArr, tryExceptValueError, constructVarLenPropsModel, bind, Except.bind]
        simp only [Bool.false_eq_true, if_false]
        rw [varLenWithNone_noNone _ hn']
        cases constructVarLenProps (x :: t) with
        | error e => rfl
        | ok r =>
          obtain ⟨d, rows⟩ := r
          simp [mkPropDict, asarrayBool, pure, Except.pure]

abbrev InnerSt := List PyVal × List Bool × Bool × PyVal

def innerStep {ι : Type} (data : List (ι × Attrs)) (name : String) (d : ι × Attrs) (s : InnerSt) :
    Except Err (ForInStep InnerSt) :=
  match d.2.lookup name with
  | some v => .ok (.yield (s.1 ++ [v], s.2.1 ++ [false], s.2.2.1, s.2.2.2))
  | none =>
    .ok (.yield (s.1 ++ [if s.2.2.2.isNone then Geff.Dicts.determineDefaultValue data name else s.2.2.2],
      s.2.1 ++ [true], true, if s.2.2.2.isNone then Geff.Dicts.determineDefaultValue data name else s.2.2.2))

theorem inner_forIn {ι : Type} (data : List (ι × Attrs)) (name : String)
    (body : ι × Attrs → InnerSt → Except Err (ForInStep InnerSt))
    (hstep : ∀ d s, body d s = innerStep data name d s) (l : List (ι × Attrs)) :
    ∀ vs ms any dv, (dv = .none ∨ dv = Geff.Dicts.determineDefaultValue data name) →
      ∃ dv', forIn l (vs, ms, any, dv) body =
        .ok (vs ++ l.map (fun d => (d.2.lookup name).getD (Geff.Dicts.determineDefaultValue data name)),
             ms ++ l.map (fun d => (d.2.lookup name).isNone),
             any || l.any (fun d => (d.2.lookup name).isNone), dv') := by
  induction l with
  | nil => intro vs ms any dv _; exact ⟨dv, by simp [pure, Except.pure]⟩
  | cons d t ih =>
    intro vs ms any dv hdv
    rw [List.forIn_cons, hstep]
    unfold innerStep
    cases h : d.2.lookup name with
    | some v =>
      obtain ⟨dv', h'⟩ := ih (vs ++ [v]) (ms ++ [false]) any dv hdv
      refine ⟨dv', ?_⟩
      simp only [bind, Except.bind, h']
      simp [h]
    | none =>
      have hd : (if dv.isNone = true then Geff.Dicts.determineDefaultValue data name else dv)
          = Geff.Dicts.determineDefaultValue data name := by
        rcases hdv with rfl | rfl
        · rfl
        · split <;> rfl
      simp only [hd]
      obtain ⟨dv', h'⟩ := ih (vs ++ [Geff.Dicts.determineDefaultValue data name]) (ms ++ [true]) true _ (Or.inr rfl)
      refine ⟨dv', ?_⟩
      simp only [bind, Except.bind, h']
      simp [h]

theorem inner_forIn_bind {ι β : Type} (data : List (ι × Attrs)) (name : String)
    (body : ι × Attrs → InnerSt → Except Err (ForInStep InnerSt))
    (hstep : ∀ d s, body d s = innerStep data name d s)
    (k : InnerSt → Except Err β) (hk : ∀ a b c dv dv', k (a, b, c, dv) = k (a, b, c, dv')) :
    (forIn data (([], [], false, PyVal.none) : InnerSt) body >>= k) =
      k (filledValues data name, missingMask data name, (missingMask data name).any id, PyVal.none) := by
  obtain ⟨dv', h⟩ := inner_forIn data name body hstep data [] [] false .none (Or.inl rfl)
  rw [h]
  simp only [bind, Except.bind, List.nil_append, Bool.false_or]
  rw [hk _ _ _ dv' PyVal.none]
  simp [filledValues, missingMask, List.any_map, Function.comp_def]

theorem outer_forIn {ι : Type} (data : List (ι × Attrs))
    (body : String → List (String × Col) → Except Err (ForInStep (List (String × Col))))
    (hstep : ∀ name acc, body name acc = (match dictPropToArr data name with
        | .ok c => .ok (.yield (dictSetItem acc name c))
        | .error e => .error e)) (names : List String) :
    ∀ acc, forIn names acc body = (match mapE (namedCol data) names with
        | .ok l => .ok (l.foldl (fun d kv => dictSetItem d kv.1 kv.2) acc)
        | .error e => .error e) := by
  induction names with
  | nil => intro acc; rfl
  | cons n t ih =>
    intro acc
    rw [List.forIn_cons, hstep]
    simp only [mapE, namedCol]
    cases dictPropToArr data n with
    | error e => rfl
    | ok c =>
      simp only [bind, Except.bind]
      rw [ih]
      cases mapE (namedCol data) t <;> rfl

theorem afterLoop_eq {ι : Type} (data : List (ι × Attrs)) (name : String) :
    afterLoop (filledValues data name) (missingMask data name) ((missingMask data name).any id) = dictPropToArr data name := by
  unfold afterLoop dictPropToArr
  rfl

theorem bind_yield {α : Type} (x : Except Err α) (f : α → Except Err Col) (acc : List (String × Col)) (name : String) :
    (x >>= fun r => f r >>= fun t => pure (ForInStep.yield (dictSetItem acc name t))) =
      (match x >>= f with
        | .ok c => .ok (.yield (dictSetItem acc name c))
        | .error e => .error e) := by
  cases x with
  | error e => rfl
  | ok r => simp only [bind, Except.bind]; cases f r <;> rfl

theorem dpa_eq {ι : Type} (data : List (ι × Attrs)) (names : List String) :
    Gen.DictLayer.dictPropsToArr data names =
      (match Geff.Dicts.dictPropsToArr data names with
        | .ok l => .ok (l.foldl (fun d kv => dictSetItem d kv.1 kv.2) [])
        | .error e => .error e) := by
  unfold Gen.DictLayer.dictPropsToArr Geff.Dicts.dictPropsToArr
  show (forIn names _ _ >>= _) = _
  rw [outer_forIn data]
  · cases mapE (namedCol data) names <;> rfl
  · intro name acc
    show (forIn data _ _ >>= _) = _
    rw [inner_forIn_bind data name]
    · rw [← afterLoop_eq, ← tail_eq _ _ _ (by simp [filledValues, missingMask])]
      exact bind_yield _ _ _ _
    · intro d s
      unfold innerStep
      cases h : d.2.lookup name with
      | some v => simp [dictContains, dictGetItem, h, bind, Except.bind, pure, Except.pure]
      | none =>
        by_cases hd : s.2.2.2.isNone = true
        · simp [dictContains, h, hd, ddv_eq, bind, Except.bind, pure, Except.pure]
        · simp [dictContains, h, hd, bind, Except.bind, pure, Except.pure]
    · intros; rfl
