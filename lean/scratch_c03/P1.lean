open Geff.Np Geff.Dicts Geff.PyDoDicts Gen.DictLayer

def ddvStep {ι : Type} (name : String) (d : ι × Attrs) : Except Err (ForInStep (Option PyVal × Unit)) :=
  match d.2.lookup name with
  | none => .ok (.yield (none, ()))
  | some v => .ok (.done (some (defaultFor v), ()))

theorem ddv_forIn {ι : Type} (name : String)
    (body : ι × Attrs → Option PyVal × Unit → Except Err (ForInStep (Option PyVal × Unit)))
    (hstep : ∀ d, body d (none, ()) = ddvStep name d) (data : List (ι × Attrs)) :
    forIn data (none, ()) body = .ok ((data.findSome? (fun d => d.2.lookup name)).map defaultFor, ()) := by
  induction data with
  | nil => rfl
  | cons d t ih =>
    rw [List.forIn_cons, hstep]
    unfold ddvStep
    cases h : d.2.lookup name with
    | none => simp only [List.findSome?_cons, h]; exact ih
    | some v => simp [List.findSome?_cons, h, bind, Except.bind, pure, Except.pure]

theorem instOf_cases (v : PyVal) :
  (if pyIsInstance v [PyClass.int, PyClass.float] = true then typeCallZero v
   else if pyIsInstance v [PyClass.str] = true then .ok (PyVal.sc (.s "")) else .ok v) = .ok (defaultFor v) := by
  cases v with
  | sc x => cases x <;> simp [pyIsInstance, instOf, typeCallZero, defaultFor]
  | arr s f => simp [pyIsInstance, instOf, defaultFor]
  | none => simp [pyIsInstance, instOf, defaultFor]

theorem ddv_eq {ι : Type} (data : List (ι × Attrs)) (name : String) :
    Gen.DictLayer.determineDefaultValue data name = .ok (Geff.Dicts.determineDefaultValue data name) := by
  unfold Gen.DictLayer.determineDefaultValue Geff.Dicts.determineDefaultValue
  show (forIn data _ _ >>= _) = _
  rw [ddv_forIn name]
  · cases data.findSome? (fun d => d.2.lookup name) <;> rfl
  · intro d
    unfold ddvStep
    cases h : d.2.lookup name with
    | none => simp [dictContains, h]; rfl
    | some v =>
      simp only [dictContains, dictGetItem, h, Option.isSome_some, if_true, bind, Except.bind]
      have := instOf_cases v
      cases v with
      | sc x => cases x <;> simp [pyIsInstance, instOf, typeCallZero, defaultFor, pure, Except.pure]
      | arr s f => simp [pyIsInstance, instOf, defaultFor, pure, Except.pure]
      | none => simp [pyIsInstance, instOf, defaultFor, pure, Except.pure]
