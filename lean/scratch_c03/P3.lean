
abbrev InnerSt := List PyVal × List Bool × Bool × PyVal

def innerStep {ι : Type} (data : List (ι × Attrs)) (name : String) (d : ι × Attrs) (s : InnerSt) :
    Except Err (ForInStep InnerSt) :=
  match d.2.lookup name with
  | some v => .ok (.yield (s.1 ++ [v], s.2.1 ++ [false], s.2.2.1, s.2.2.2))
  | none =>
    .ok (.yield (s.1 ++ [if s.2.2.2.isNone then Geff.Dicts.determineDefaultValue data name else s.2.2.2],
      s.2.1 ++ [true], true, if s.2.2.2.isNone then Geff.Dicts.determineDefaultValue data name else s.2.2.2))

theorem inner_forIn {ι : Type} (data : List (ι × Attrs)) (name : String)
    (body : ι × Attrs → InnerSt → Except Err (ForInStep InnerSt))
    (hstep : ∀ d s, body d s = innerStep data name d s) (l : List (ι × Attrs)) :
    ∀ vs ms any dv, (dv = .none ∨ dv = Geff.Dicts.determineDefaultValue data name) →
      ∃ dv', forIn l (vs, ms, any, dv) body =
        .ok (vs ++ l.map (fun d => (d.2.lookup name).getD (Geff.Dicts.determineDefaultValue data name)),
             ms ++ l.map (fun d => (d.2.lookup name).isNone),
             any || l.any (fun d => (d.2.lookup name).isNone), dv') := by
  induction l with
  | nil => intro vs ms any dv _; exact ⟨dv, by simp [pure, Except.pure]⟩
  | cons d t ih =>
    intro vs ms any dv hdv
    rw [List.forIn_cons, hstep]
    unfold innerStep
    cases h : d.2.lookup name with
    | some v =>
      obtain ⟨dv', h'⟩ := ih (vs ++ [v]) (ms ++ [false]) any dv hdv
      refine ⟨dv', ?_⟩
      simp only [bind, Except.bind, h']
      simp [h]
    | none =>
      have hd : (if dv.isNone = true then Geff.Dicts.determineDefaultValue data name else dv)
          = Geff.Dicts.determineDefaultValue data name := by
        rcases hdv with rfl | rfl
        · rfl
        · split <;> rfl
      simp only [hd]
      obtain ⟨dv', h'⟩ := ih (vs ++ [Geff.Dicts.determineDefaultValue data name]) (ms ++ [true]) true _ (Or.inr rfl)
      refine ⟨dv', ?_⟩
      simp only [bind, Except.bind, h']
      simp [h]

theorem inner_forIn_bind {ι β : Type} (data : List (ι × Attrs)) (name : String)
    (body : ι × Attrs → InnerSt → Except Err (ForInStep InnerSt))
    (hstep : ∀ d s, body d s = innerStep data name d s)
    (k : InnerSt → Except Err β) (hk : ∀ a b c dv dv', k (a, b, c, dv) = k (a, b, c, dv')) :
    (forIn data (([], [], false, PyVal.none) : InnerSt) body >>= k) =
      k (filledValues data name, missingMask data name, (missingMask data name).any id, PyVal.none) := by
  obtain ⟨dv', h⟩ := inner_forIn data name body hstep data [] [] false .none (Or.inl rfl)
  rw [h]
  simp only [bind, Except.bind, List.nil_append, Bool.false_or]
  rw [hk _ _ _ dv' PyVal.none]
  simp [filledValues, missingMask, List.any_map, Function.comp_def]

theorem outer_forIn {ι : Type} (data : List (ι × Attrs))
    (body : String → List (String × Col) → Except Err (ForInStep (List (String × Col))))
    (hstep : ∀ name acc, body name acc = (match dictPropToArr data name with
        | .ok c => .ok (.yield (dictSetItem acc name c))
        | .error e => .error e)) (names : List String) :
    ∀ acc, forIn names acc body = (match mapE (namedCol data) names with
        | .ok l => .ok (l.foldl (fun d kv => dictSetItem d kv.1 kv.2) acc)
        | .error e => .error e) := by
  induction names with
  | nil => intro acc; rfl
  | cons n t ih =>
    intro acc
    rw [List.forIn_cons, hstep]
    simp only [mapE, namedCol]
    cases dictPropToArr data n with
    | error e => rfl
    | ok c =>
      simp only [bind, Except.bind]
      rw [ih]
      cases mapE (namedCol data) t <;> rfl

theorem afterLoop_eq {ι : Type} (data : List (ι × Attrs)) (name : String) :
    afterLoop (filledValues data name) (missingMask data name) ((missingMask data name).any id) = dictPropToArr data name := by
  unfold afterLoop dictPropToArr
  rfl

theorem bind_yield {α : Type} (x : Except Err α) (f : α → Except Err Col) (acc : List (String × Col)) (name : String) :
    (x >>= fun r => f r >>= fun t => pure (ForInStep.yield (dictSetItem acc name t))) =
      (match x >>= f with
        | .ok c => .ok (.yield (dictSetItem acc name c))
        | .error e => .error e) := by
  cases x with
  | error e => rfl
  | ok r => simp only [bind, Except.bind]; cases f r <;> rfl

theorem dpa_eq {ι : Type} (data : List (ι × Attrs)) (names : List String) :
    Gen.DictLayer.dictPropsToArr data names =
      (match Geff.Dicts.dictPropsToArr data names with
        | .ok l => .ok (l.foldl (fun d kv => dictSetItem d kv.1 kv.2) [])
        | .error e => .error e) := by
  unfold Gen.DictLayer.dictPropsToArr Geff.Dicts.dictPropsToArr
  show (forIn names _ _ >>= _) = _
  rw [outer_forIn data]
  · cases mapE (namedCol data) names <;> rfl
  · intro name acc
    show (forIn data _ _ >>= _) = _
    rw [inner_forIn_bind data name]
    · rw [← afterLoop_eq, ← tail_eq _ _ _ (by simp [filledValues, missingMask])]
      exact bind_yield _ _ _ _
    · intro d s
      unfold innerStep
      cases h : d.2.lookup name with
      | some v => simp [dictContains, dictGetItem, h, bind, Except.bind, pure, Except.pure]
      | none =>
        by_cases hd : s.2.2.2.isNone = true
        · simp [dictContains, h, hd, ddv_eq, bind, Except.bind, pure, Except.pure]
        · simp [dictContains, h, hd, bind, Except.bind, pure, Except.pure]
    · intros; rfl
